"""C14 - vector, dim and matrix arithmetic obeys the exact ring and module laws (integer scalars).

1. TLC model-checks spec/LinAlg.tla itself (MC_LinAlg.tla): the laws are invariants over all pairs
   of 2x2 matrices over {-1,0,1,2} (transpose involution, (AB)^T = B^T A^T, det(AB) = det A det B,
   A adj A = adj A A = det A I, additive group, identity, module laws with the rows as vectors),
   all triples over {-1,0,1} (associativity, both distributivities; quick: C over {0,1}), all 3x3
   matrices over {-1,0,1} (Laplace / adjugate / cross product laws; quick: rows 2,3 over {0,1});
   17 vacuity guards (defective definitions substituted in the cfg) must each be refuted by TLC.
2. harness/c14_*.cpp drive the real operators: all pairs of 2x2 matrices over {-1,0,1,2}, seeded
   random 3x3 / 4x4 / rectangular matrices and vectors / dims of dimension 1-4 in [-9,9], static
   storage, matrix row views and views of arrays (vectors, dims and matrices), every combination
   of storage types per operation, and record operands and results as nested arrays.
3. spec/LinAlgJudge.tla (TLC, RecordLoop) judges every record.

The harness is a set of UNITS, each its own translation unit and binary (built in parallel while the
model checks run).  What the code under test does to a unit is a verdict, never an infrastructure
failure: a unit that does not compile against the tree is a VIOLATION C14:<unit>:does-not-compile if
it drives operations named by the statement and an OBSERVATION otherwise (the optional unit
order_mixed does not compile on the unchanged tree - that is expected and silent); a crash, sanitizer
report, exception or hang (watchdog: 60 s per call) inside a driven call is a VIOLATION /
OBSERVATION naming the operation of the truncated record, and the complete prefix of the log is
judged all the same."""
import json
import os
import re
import subprocess
import threading
import time

import vlib

LEVEL = "model_checking"
# (unit, source, defines, in scope, optional)
UNITS = [
    ("pairs", "c14_pairs.cpp", (), True, False),
    ("matrices_a", "c14_matrices.cpp", ("C14_HALF=0",), True, False),
    ("matrices_b", "c14_matrices.cpp", ("C14_HALF=1",), True, False),
    ("vectors_a", "c14_vectors.cpp", ("C14_HALF=0",), True, False),
    ("vectors_b", "c14_vectors.cpp", ("C14_HALF=1",), True, False),
    ("storage_vec_a", "c14_storage_vec.cpp", ("C14_HALF=0",), True, False),
    ("storage_vec_b", "c14_storage_vec.cpp", ("C14_HALF=1",), True, False),
    ("storage_mat_a", "c14_storage_mat.cpp", ("C14_HALF=0",), True, False),
    ("storage_mat_b", "c14_storage_mat.cpp", ("C14_HALF=1",), True, False),
    # operands with different value types (short / int / long): result type = type of the C++ expression
    ("types", "c14_types.cpp", (), True, False),
    # ordering operators with operands of different storage types: accepted by the signatures, rejected
    # inside math/detail/array_less.hpp on the unchanged tree; driven (in scope) iff the tree accepts them
    ("order_mixed", "c14_order_mixed.cpp", (), True, True),
    # everything outside the statement (observed only)
    ("extension", "c14_extension.cpp", (), False, False),
]
PARTS = [u[0] for u in UNITS]
IN_SCOPE_UNIT = {u[0]: u[3] for u in UNITS}
GUARDS = [("det", "CubeLaws"), ("transpose", "TransposeProduct"), ("involution", "TransposeInvolution"),
          ("adj", "AdjugateLaw"), ("mmul", "Associativity"), ("madd", "Distributivity"), ("madd2", "AdditiveGroup"),
          ("mvec", "ModuleLaws"), ("identity", "IdentityLaw"), ("detmul", "DetMultiplicative"), ("bits", "BitStringLaws"),
          ("cmod", "DivModLaws"), ("norm", "NormLaws"), ("unit", "VectorOptLaws"), ("interval", "IntervalLaws"),
          ("le", "OrderLaws"), ("setat", "AccessLaws")]

# ASan + the UBSan checks that matter here (signed overflow, division by zero, bounds, shifts) at -O0: the
# harness runs for seconds, its compilation dominates (the full -fsanitize=undefined at -O1 costs 3.5x as much)
SAN = ["-fsanitize=address,signed-integer-overflow,integer-divide-by-zero,bounds,shift,return,unreachable,bool",
       "-fno-sanitize-recover=all", "-fno-omit-frame-pointer"]


def genuine_compile_error(out):
    """a diagnostic of the compiler about the code, as opposed to the compiler being killed / out of
    memory / out of disk on the shared box (which is our infrastructure, never a verdict)"""
    if re.search(r"Killed signal|internal compiler error|virtual memory exhausted|No space left|cannot allocate memory|std::bad_alloc", out):
        return False
    body = re.sub(r"^compile failed: [^\n]*\n?", "", out)
    return re.search(r"error|note: |required from|In file included", body) is not None


def compile_error_summary(out):
    """first error of a failed compilation and the fcppt::math names around it"""
    lines = out.splitlines()
    first = next((i for i, l in enumerate(lines) if " error: " in l or "fatal error:" in l), None)
    if first is None:
        return re.sub(r"\s+", " ", out[-400:]), []
    fns = []
    for l in lines[max(0, first - 30):first + 3]:
        for m in re.finditer(r"fcppt(?:::|/)math(?:::|/)((?:\w+(?:::|/))*\w+)", l):
            n = m.group(1).replace("/", "::")
            if n not in fns and not n.startswith("size_type"):
                fns.append(n)
    return re.sub(r"\s+", " ", lines[first])[:400], fns[:8]


def build(ctx, only=None):
    """Compile and link every unit on its own (in parallel).  Returns {unit: binary}; the units that do
    not compile against the tree under test are reported (see the module docstring) and left out."""
    t0 = time.time()
    tag = vlib.sha((vlib.REPO + "c14-units-O0").encode())[:10]
    objdir = vlib.mkdir(os.path.join(vlib.BUILD, "obj", tag))
    bindir = vlib.mkdir(os.path.join(vlib.BUILD, "bin", tag))

    def one(u):
        unit, src, defs, scope, optional = u
        flags = vlib.base_flags("none", "-O0", defs) + SAN
        obj = os.path.join(objdir, "h_c14_%s.o" % unit)
        for attempt in (1, 2):
            try:
                o, rebuilt = vlib.compile_obj(os.path.join(vlib.HARNESS, src), obj, flags)
                break
            except vlib.Infra as e:
                if genuine_compile_error(str(e)):
                    return unit, None, str(e)
                if attempt == 2:
                    raise
                time.sleep(5)   # compiler killed on the shared box: once more
        out = os.path.join(bindir, "c14_" + unit)
        if rebuilt or not os.path.exists(out):
            tout = out + ".tmp%d" % os.getpid()
            p = subprocess.run(["g++", "-pthread"] + SAN + [o, "-o", tout], stdout=subprocess.PIPE, stderr=subprocess.STDOUT,
                               text=True, errors="replace")
            if p.returncode != 0:
                raise vlib.Infra("link failed: c14_%s\n%s" % (unit, p.stdout[-4000:]))
            os.replace(tout, out)
        return unit, out, None
    units = [u for u in UNITS if only is None or u[0] in only]
    res = vlib.parallel(one, units, workers=vlib.NCPU)
    bins = {}
    failed = []
    for (unit, src, defs, scope, optional), (_, binary, err) in zip(units, res):
        if binary is not None:
            bins[unit] = binary
            continue
        first, fns = compile_error_summary(err)
        failed.append(unit)
        if optional:
            vlib.log("INFO: optional unit %s does not compile against this tree (expected on the unchanged tree): %s" % (unit, first[:200]))
            continue
        msg = "harness unit %s (harness/%s%s) does not compile against this tree: %s%s" % (
            unit, src, " -D" + ",".join(defs) if defs else "", first,
            "; fcppt::math names in the error context: " + ", ".join(fns) if fns else "")
        ctx.extra.setdefault("units_not_compiling", []).append({"unit": unit, "first_error": first})
        if scope:
            ctx.reject("C14:%s:does-not-compile" % unit, msg, {"part": unit, "build": True})
        else:
            observe(ctx, "C14:observed:%s:does-not-compile" % unit, msg)
    if only is None:
        ctx.extra["order_mixed_compiles"] = "order_mixed" in bins
    vlib.log("build c14: %d units (%d do not compile: %s) in %.1fs" % (len(units), len(failed), ",".join(failed) or "-", time.time() - t0))
    return bins


def retry_killed(fn, *a, **kw):
    """TLC processes are occasionally killed by the kernel's OOM killer when many checks share the box
    (rc=-9): that says nothing about the model or the code, so the run is repeated (at most three times)."""
    for attempt in range(3):
        try:
            return fn(*a, **kw)
        except vlib.Infra as e:
            if "rc=-9" not in str(e) or attempt == 2:
                raise
            vlib.log("TLC was killed (rc=-9); retrying after a pause")
            time.sleep(20 * (attempt + 1))


def model_checks(ctx):
    thorough = ctx.tier == "thorough"
    retry_killed(vlib.tlc_mc, ctx, "MC_LinAlg", "MC_LinAlg_pairs.cfg", timeout=1800)
    # extension laws (norm, div/mod, optional vectors, unit, intervals; round 3: access and order laws): pairs over {-1,0,1} in quick
    retry_killed(vlib.tlc_mc, ctx, "MC_LinAlg", "MC_LinAlg_pairs_ext.cfg" if thorough else "MC_LinAlg_pairs_ext_quick.cfg", timeout=1800)
    retry_killed(vlib.tlc_mc, ctx, "MC_LinAlg", "MC_LinAlg_triples.cfg" if thorough else "MC_LinAlg_triples_quick.cfg", timeout=2400)
    retry_killed(vlib.tlc_mc, ctx, "MC_LinAlg", "MC_LinAlg_cubes.cfg" if thorough else "MC_LinAlg_cubes_quick.cfg", timeout=1800)

    def guard(g):
        name, inv = g
        return name, inv, retry_killed(vlib.tlc, "MC_LinAlg", "MC_LinAlg_bug_%s.cfg" % name, workers=2, tag="MC_LinAlg_bug_" + name)
    t0 = time.time()
    res = vlib.parallel(guard, GUARDS, workers=6)
    vlib.log("vacuity guards: %d TLC runs in %.1fs" % (len(GUARDS), time.time() - t0))
    for name, inv, r in res:
        refuted = inv in r.invariant_violated or ("The invariant of %s is equal to FALSE" % inv) in r.out
        if not refuted:
            raise vlib.Infra("vacuity guard: MC_LinAlg_bug_%s.cfg did not violate %s" % (name, inv))
        ctx.extra.setdefault("vacuity_guards", []).append({"cfg": "MC_LinAlg_bug_%s.cfg" % name, "violates": inv})


def in_scope_kinds():
    """The per-record-kind in_scope flag lives in the judge (spec/LinAlgJudge.tla, InScope ==): only these
    kinds can produce a VIOLATION; rejections of every other kind are observations."""
    txt = open(os.path.join(vlib.SPEC, "LinAlgJudge.tla")).read()
    m = re.search(r"^InScope ==(.*?)^(?:ObservedFields|Infra) ==", txt, re.S | re.M)
    if not m:
        raise vlib.Infra("cannot find InScope in the judge module")
    body = re.sub(r"\\\*[^\n]*", "", m.group(1))
    return set(re.findall(r'"([^"]+)"', body))


def observe(ctx, sig, what):
    """out-of-statement disagreement: recorded, never a VIOLATION"""
    obs = ctx.extra.setdefault("observations", {"count": 0, "by_signature": {}, "samples": []})
    obs["count"] += 1
    obs["by_signature"][sig] = obs["by_signature"].get(sig, 0) + 1
    if len(obs["samples"]) < 20 and obs["by_signature"][sig] <= 2:
        obs["samples"].append(what[:600])
    if obs["by_signature"][sig] == 1:
        print("OBSERVATION property=C14 (outside the statement, not a verdict) signature: %s" % sig)
        print("  what: %s" % what[:500])


def signature(b):
    return "C14:%s:%s" % (b["op"], "+".join(sorted(b["why"])))


def shape(x):
    if isinstance(x, list):
        if x and isinstance(x[0], list):
            return "%dx%d" % (len(x), len(x[0]))
        return "%d" % len(x)
    return "s"


def class_of(e):
    """distinct non-trivial class: function, kind/group, storage, operand shapes, and a coarse result
    category (zero / non-zero / negative present, true / false)"""
    r = e.get("r")
    flat = []

    def fl(x):
        if isinstance(x, list):
            for y in x:
                fl(y)
        else:
            flat.append(x)
    fl(r)
    flat = [v for v in flat if v is not None]
    if isinstance(r, bool):
        cat = str(r)
    else:
        cat = ("zero" if all(v == 0 for v in flat) else "neg" if any(v < 0 for v in flat) else "pos")
    return (e["f"], e.get("k", e.get("g", "")), e.get("st", e.get("via", "")), shape(e.get("a")), shape(e.get("b", e.get("v"))),
            e.get("i", -1), e.get("j", -1), cat)


OBSERVED = ("r", "origin", "radius")
# kinds for which the judge accepts two values (the documentation is silent, the code's value and the
# text-book value differ; outside the statement): a corrupted result may be the other accepted value
GUARD_EXEMPT = {"adjugate_1x1", "inverse_1x1"}


def corrupted(x):
    """a value that differs from x in one scalar leaf (same shape); None if x has no leaf"""
    if isinstance(x, bool):
        return not x
    if isinstance(x, int):
        return x + 1
    if isinstance(x, list):
        for i, y in enumerate(x):
            c = corrupted(y)
            if c is not None:
                return x[:i] + [c] + x[i + 1:]
    return None


def judge_guard(ctx, module, cfg, chosen):
    """Binding demonstration built into every run: for every (function, observed field) one really
    recorded record with that field corrupted in one scalar; TLC must reject every one of them with
    the reason wrong-<field>.  Otherwise the judge is vacuous -> infrastructure failure."""
    keys = sorted(chosen)
    path = os.path.join(ctx.workdir, "corrupted_%s.ndjson" % ("replay" if ctx.is_replay else ctx.tier))
    vlib.write_ndjson(path, [chosen[k] for k in keys])
    bad = {b["l"]: b for b in vlib.judge_trace(ctx, module, cfg, path, boundary_key=None, nchunks=1)}
    for i, k in enumerate(keys):
        b = bad.get(i + 1)
        if b is None or not ({"wrong-" + k[1], "observed-wrong-" + k[1]} & set(b["why"])):
            raise vlib.Infra("judge vacuity guard: corrupted %s of a %s record was not rejected: %s" % (
                k[1], k[0], json.dumps(chosen[k])[:300]))
    ctx.extra["judge_guard_corrupted_records_rejected"] = len(keys)
    os.unlink(path)


def has_result(e):
    return isinstance(e, dict) and "f" in e and any(k in e for k in OBSERVED)


def judge_parts(ctx, results):
    all_lines = []
    spans = []
    scope_kinds = in_scope_kinds()
    for part, path, rc, out in results:
        try:
            lines, tail = vlib.check_trace_file(path)
        except OSError:
            lines, tail = [], None   # the process died before it opened its log
        recs = []
        for l in lines:
            if l.startswith('{"e":"crash"'):
                continue
            try:
                e = json.loads(l)
            except ValueError:
                e = None
            if has_result(e):
                recs.append(l)
            elif tail is None:
                tail = l       # a call record without its result: the aborted call (may by accident be valid JSON)
        if rc != 0:
            fn = None
            if tail:
                mm = re.search(r'"f":"(\w+)"', tail)
                fn = mm.group(1) if mm else None
            kind = {66: "sanitizer", 67: "crash", 68: "hang", 124: "timeout"}.get(rc, "exit%d" % rc)
            san = re.search(r"(ERROR: \w+Sanitizer: [^\n]*|runtime error: [^\n]*)", out)
            crash = re.search(r'\{"e":"crash","what":"(\w+)","code":(-?\d+)\}', open(path, errors="replace").read()[-400:]) if os.path.exists(path) else None
            detail = san.group(1) if san else ("%s (code %s)" % (crash.group(1), crash.group(2)) if crash else out[-300:])
            if fn is not None:
                sig, scope = "C14:%s:%s" % (fn, kind), fn in scope_kinds
                what = "%s during %s (unit %s): %s; truncated record: %s" % (kind, fn, part, detail, tail[:300])
            else:   # outside a driven call (between two calls, at process exit): named after the unit
                sig, scope = "C14:unit_%s:%s" % (part, kind), IN_SCOPE_UNIT.get(part, True)
                what = "%s in harness unit %s outside a driven call (after %d records): %s; last record: %s" % (
                    kind, part, len(recs), detail, (recs[-1] if recs else "")[:300])
            if scope:
                ctx.reject(sig, what, {"part": part, "partial_line": tail})
            else:
                observe(ctx, sig.replace("C14:", "C14:observed:", 1), what)
        elif not recs:
            raise vlib.Infra("harness unit %s wrote no records" % part)
        spans.append((len(all_lines), part))
        all_lines += recs
        ctx.traces_validated += 1
        try:
            os.unlink(path)
        except OSError:
            pass
    if not all_lines:
        return
    path = os.path.join(ctx.workdir, "records_%s.ndjson" % ("replay" if ctx.is_replay else ctx.tier))
    with open(path, "w") as f:
        f.write("\n".join(all_lines) + "\n")
    t0 = time.time()
    bad = retry_killed(vlib.judge_trace, ctx, "LinAlgJudge", "LinAlgJudge.cfg", path, boundary_key=None,
                       nchunks=max(1, len(all_lines) // 45000 + 1), timeout=2400)
    vlib.log("judged %d records in %.1fs, %d rejected" % (len(all_lines), time.time() - t0, len(bad)))
    ctx.evaluations += len(all_lines)

    def part_of(l):
        cur = spans[0][1]
        for first, part in spans:
            if first <= l - 1:
                cur = part
        return cur
    for b in bad:
        line = all_lines[b["l"] - 1]
        if "HARNESS-PRECONDITION" in b["why"] or "unknown-function" in b["why"]:
            raise vlib.Infra("harness record outside the spec's preconditions at line %d of %s: %s" % (b["l"], path, line[:300]))
        real = [w for w in b["why"] if not w.startswith("observed-")]
        if not real:
            observe(ctx, "C14:observed:%s:%s" % (b["op"], "+".join(sorted(w[9:] for w in b["why"]))),
                    "spec cannot explain %s (%s); record: %s" % (b["op"], ",".join(b["why"]), line[:500]))
            continue
        b = dict(b, why=real)
        ctx.reject(signature(b), "spec cannot explain %s (%s); record: %s" % (b["op"], ",".join(b["why"]), line[:600]),
                   {"part": part_of(b["l"]), "record": json.loads(line)})
    chosen = {}
    bad_lines = set(b["l"] for b in bad)
    per_kind = {}
    for ln, l in enumerate(all_lines, 1):
        e = json.loads(l)
        ctx.count_class(class_of(e))
        per_kind[e["f"]] = per_kind.get(e["f"], 0) + 1
        if ln in bad_lines:
            continue  # the guard corrupts records the judge accepted
        for fld in OBSERVED:
            if fld in e and (e["f"], fld) not in chosen and e["f"] not in GUARD_EXEMPT:
                c = corrupted(e[fld])
                if c is not None:
                    chosen[(e["f"], fld)] = dict(e, **{fld: c})
    ctx.extra["records_per_kind"] = dict(sorted(per_kind.items()))
    ctx.extra["records_per_unit"] = {part: (spans[i + 1][0] if i + 1 < len(spans) else len(all_lines)) - first
                                     for i, (first, part) in enumerate(spans)}
    if not bad:  # only on a run without any disagreement (rejected records are listed up to a cap)
        judge_guard(ctx, "LinAlgJudge", "LinAlgJudge.cfg", chosen)
    for first, part in spans:
        for off in (5, 4000):
            if first + off < len(all_lines):
                ctx.sample(json.loads(all_lines[first + off]), cap=8)
    if not ctx.violations:
        os.unlink(path)


def record_and_judge(ctx, bins, parts):
    def rec(part):
        path = os.path.join(ctx.workdir, "rec_%s_%s.ndjson" % (part, "replay" if ctx.is_replay else ctx.tier))
        try:
            os.unlink(path)
        except OSError:
            pass
        rc, out = vlib.run_harness(bins[part], ["record", path, ctx.seed, ctx.tier], timeout=900 if ctx.tier == "quick" else 2700)
        return part, path, rc, out
    t0 = time.time()
    parts = [p for p in parts if p in bins]
    results = vlib.parallel(rec, parts, workers=6)
    vlib.log("harness: %d units recorded in %.1fs" % (len(parts), time.time() - t0))
    judge_parts(ctx, results)


def run(ctx):
    # the units are compiled while TLC checks the model (they do not depend on each other)
    box = {}

    def bg():
        try:
            box["bins"] = build(ctx)
        except BaseException as e:   # re-raised in the main thread
            box["err"] = e
    th = threading.Thread(target=bg)
    th.start()
    try:
        model_checks(ctx)
    finally:
        th.join()
    if "err" in box:
        raise box["err"]
    record_and_judge(ctx, box["bins"], PARTS)
    ctx.exhaustive = False
    ctx.rule = ("one record per call of a real fcppt::math operator/function: every ordered pair of 2x2 int matrices over "
                "{-1,0,1,2} (+, -, product; ==/!= on a eighth of them and all equal pairs), every 2x2 matrix with every vector over "
                "{-1,0,1,2}^2 and scalars -2..3, seeded random 3x3 / 4x4 / rectangular matrices and vectors / dims of dimension "
                "1-4 with entries in [-9,9] (600/400 rounds quick, 6000/4000 thorough; every combination of storage types: "
                "24-30 rounds quick, 300 thorough), static storage, matrix row views (const and non-const), views of arrays "
                "(vectors, dims, matrices) and rows of view matrices; the 2x2 pair space is exhaustive, the rest is random, hence "
                "exhaustive=false; a class = (function, vector|dim|matrix group, storage kinds, operand shapes, static indices, "
                "result category zero/neg/pos or true/false)")
    ctx.assumptions += [
        "integer scalars only (int, results cast to long in structure_cast); floating point is outside the statement",
        "every intermediate value stays below 2^31 by construction of the operand ranges; signed overflow would be reported by UBSan as a rejected record; recorded values are clamped to [-2^30, 2^30]",
        "view storage means rows of a matrix (fcppt::math::matrix::detail::row_view, over static and over view matrices) and a user-defined view of an array of cells (the shape of fcppt's own test/math/vector/view_storage.cpp)",
        "ordering comparisons are driven with operands of one storage type; with two storage types they do not compile on the unchanged tree (unit order_mixed: driven iff the tree accepts them)",
        "assignment / construction between different storage types is read as part of 'static and view storage types ... agree with the same operations on plain arrays'",
        "operator/, mod, inverse and the other functions of the unit 'extension' are not part of the statement: observed only",
    ]


def replay(ctx, payload):
    ctx.tier = payload.get("tier", ctx.tier)
    ctx.seed = payload.get("seed", ctx.seed)
    part = payload["payload"]["part"]
    bins = build(ctx, only=[part])
    record_and_judge(ctx, bins, [part])
    ctx.rule = "replay of the harness unit that produced the saved rejection"
