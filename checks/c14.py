"""C14 - vector, dim and matrix arithmetic obeys the exact ring and module laws (integer scalars).

1. TLC model-checks spec/LinAlg.tla itself (MC_LinAlg.tla): the laws are invariants over all pairs
   of 2x2 matrices over {-1,0,1,2} (transpose involution, (AB)^T = B^T A^T, det(AB) = det A det B,
   A adj A = adj A A = det A I, additive group, identity, module laws with the rows as vectors),
   all triples over {-1,0,1} (associativity, both distributivities; quick: C over {0,1}), all 3x3
   matrices over {-1,0,1} (Laplace / adjugate / cross product laws; quick: rows 2,3 over {0,1});
   11 vacuity guards (defective definitions substituted in the cfg) must each be refuted by TLC.
2. harness/c14_linalg.cpp drives the real operators: all pairs of 2x2 matrices over {-1,0,1,2},
   seeded random 3x3 / 4x4 / rectangular matrices and vectors / dims of dimension 1-4 in [-9,9],
   static and view (matrix row) storage, and records operands and results as nested arrays.
3. spec/LinAlgJudge.tla (TLC, RecordLoop) judges every record.
UBSan (signed overflow) / ASan reports of the harness become rejected records (observed only)."""
import json
import os
import re
import time

import vlib

LEVEL = "model_checking"
PARTS = ["pairs", "matrices", "vectors", "extension"]
GUARDS = [("det", "CubeLaws"), ("transpose", "TransposeProduct"), ("involution", "TransposeInvolution"),
          ("adj", "AdjugateLaw"), ("mmul", "Associativity"), ("madd", "Distributivity"), ("madd2", "AdditiveGroup"),
          ("mvec", "ModuleLaws"), ("identity", "IdentityLaw"), ("detmul", "DetMultiplicative"), ("bits", "BitStringLaws"),
          ("cmod", "DivModLaws"), ("norm", "NormLaws"), ("unit", "VectorOptLaws"), ("interval", "IntervalLaws")]


def build():
    return vlib.build_harness("c14_linalg", ["c14_linalg.cpp"], libs=())


def model_checks(ctx):
    thorough = ctx.tier == "thorough"
    vlib.tlc_mc(ctx, "MC_LinAlg", "MC_LinAlg_pairs.cfg", timeout=1800)
    # extension laws (norm, div/mod, optional vectors, unit, intervals): pairs over {-1,0,1} in quick
    vlib.tlc_mc(ctx, "MC_LinAlg", "MC_LinAlg_pairs_ext.cfg" if thorough else "MC_LinAlg_pairs_ext_quick.cfg", timeout=1800)
    vlib.tlc_mc(ctx, "MC_LinAlg", "MC_LinAlg_triples.cfg" if thorough else "MC_LinAlg_triples_quick.cfg", timeout=2400)
    vlib.tlc_mc(ctx, "MC_LinAlg", "MC_LinAlg_cubes.cfg" if thorough else "MC_LinAlg_cubes_quick.cfg", timeout=1800)

    def guard(g):
        name, inv = g
        return name, inv, vlib.tlc("MC_LinAlg", "MC_LinAlg_bug_%s.cfg" % name, workers=2, tag="MC_LinAlg_bug_" + name)
    t0 = time.time()
    res = vlib.parallel(guard, GUARDS, workers=6)
    vlib.log("vacuity guards: %d TLC runs in %.1fs" % (len(GUARDS), time.time() - t0))
    for name, inv, r in res:
        refuted = inv in r.invariant_violated or ("The invariant of %s is equal to FALSE" % inv) in r.out
        if not refuted:
            raise vlib.Infra("vacuity guard: MC_LinAlg_bug_%s.cfg did not violate %s" % (name, inv))
        ctx.extra.setdefault("vacuity_guards", []).append({"cfg": "MC_LinAlg_bug_%s.cfg" % name, "violates": inv})


def in_scope_kinds():
    """The per-record-kind in_scope flag lives in the judge (spec/LinAlgJudge.tla, InScope ==): only these
    kinds can produce a VIOLATION; rejections of every other kind are observations."""
    txt = open(os.path.join(vlib.SPEC, "LinAlgJudge.tla")).read()
    m = re.search(r"^InScope ==(.*?)^(?:ObservedFields|Infra) ==", txt, re.S | re.M)
    if not m:
        raise vlib.Infra("cannot find InScope in the judge module")
    body = re.sub(r"\\\*[^\n]*", "", m.group(1))
    return set(re.findall(r'"([^"]+)"', body))


def observe(ctx, sig, what):
    """out-of-statement disagreement: recorded, never a VIOLATION"""
    obs = ctx.extra.setdefault("observations", {"count": 0, "by_signature": {}, "samples": []})
    obs["count"] += 1
    obs["by_signature"][sig] = obs["by_signature"].get(sig, 0) + 1
    if len(obs["samples"]) < 20 and obs["by_signature"][sig] <= 2:
        obs["samples"].append(what[:600])
    if obs["by_signature"][sig] == 1:
        print("OBSERVATION property=C14 (outside the statement, not a verdict) signature: %s" % sig)
        print("  what: %s" % what[:500])


def signature(b):
    return "C14:%s:%s" % (b["op"], "+".join(sorted(b["why"])))


def shape(x):
    if isinstance(x, list):
        if x and isinstance(x[0], list):
            return "%dx%d" % (len(x), len(x[0]))
        return "%d" % len(x)
    return "s"


def class_of(e):
    """distinct non-trivial class: function, kind/group, storage, operand shapes, and a coarse result
    category (zero / non-zero / negative present, true / false)"""
    r = e.get("r")
    flat = []

    def fl(x):
        if isinstance(x, list):
            for y in x:
                fl(y)
        else:
            flat.append(x)
    fl(r)
    flat = [v for v in flat if v is not None]
    if isinstance(r, bool):
        cat = str(r)
    else:
        cat = ("zero" if all(v == 0 for v in flat) else "neg" if any(v < 0 for v in flat) else "pos")
    return (e["f"], e.get("k", e.get("g", "")), e.get("st", e.get("via", "")), shape(e.get("a")), shape(e.get("b", e.get("v"))),
            e.get("i", -1), e.get("j", -1), cat)


OBSERVED = ("r", "origin", "radius")


def corrupted(x):
    """a value that differs from x in one scalar leaf (same shape); None if x has no leaf"""
    if isinstance(x, bool):
        return not x
    if isinstance(x, int):
        return x + 1
    if isinstance(x, list):
        for i, y in enumerate(x):
            c = corrupted(y)
            if c is not None:
                return x[:i] + [c] + x[i + 1:]
    return None


def judge_guard(ctx, module, cfg, chosen):
    """Binding demonstration built into every run: for every (function, observed field) one really
    recorded record with that field corrupted in one scalar; TLC must reject every one of them with
    the reason wrong-<field>.  Otherwise the judge is vacuous -> infrastructure failure."""
    keys = sorted(chosen)
    path = os.path.join(ctx.workdir, "corrupted_%s.ndjson" % ("replay" if ctx.is_replay else ctx.tier))
    vlib.write_ndjson(path, [chosen[k] for k in keys])
    bad = {b["l"]: b for b in vlib.judge_trace(ctx, module, cfg, path, boundary_key=None, nchunks=1)}
    for i, k in enumerate(keys):
        b = bad.get(i + 1)
        if b is None or not ({"wrong-" + k[1], "observed-wrong-" + k[1]} & set(b["why"])):
            raise vlib.Infra("judge vacuity guard: corrupted %s of a %s record was not rejected: %s" % (
                k[1], k[0], json.dumps(chosen[k])[:300]))
    ctx.extra["judge_guard_corrupted_records_rejected"] = len(keys)
    os.unlink(path)


def judge_parts(ctx, results):
    all_lines = []
    spans = []
    for part, path, rc, out in results:
        lines, tail = vlib.check_trace_file(path)
        if rc != 0:
            fn = "?"
            if tail:
                mm = re.search(r'"f":"(\w+)"', tail)
                fn = mm.group(1) if mm else "?"
            kind = {66: "sanitizer", 67: "crash", 68: "hang", 124: "timeout"}.get(rc, "exit%d" % rc)
            san = re.search(r"(ERROR: \w+Sanitizer: [^\n]*|runtime error: [^\n]*)", out)
            (ctx.reject if fn in in_scope_kinds() or fn == "?" else
             (lambda sig, what, payload: observe(ctx, sig.replace("C14:", "C14:observed:", 1), what)))("C14:%s:%s" % (fn, kind),
                       "%s during %s (part %s): %s; truncated record: %s" % (
                           kind, fn, part, san.group(1) if san else out[-300:], (tail or "")[:300]),
                       {"part": part, "partial_line": tail})
        elif not lines:
            raise vlib.Infra("harness part %s wrote no records" % part)
        lines = [l for l in lines if not l.startswith('{"e":"crash"')]
        spans.append((len(all_lines), part))
        all_lines += lines
        ctx.traces_validated += 1
        try:
            os.unlink(path)
        except OSError:
            pass
    if not all_lines:
        return
    path = os.path.join(ctx.workdir, "records_%s.ndjson" % ("replay" if ctx.is_replay else ctx.tier))
    with open(path, "w") as f:
        f.write("\n".join(all_lines) + "\n")
    t0 = time.time()
    bad = vlib.judge_trace(ctx, "LinAlgJudge", "LinAlgJudge.cfg", path, boundary_key=None,
                           nchunks=max(1, len(all_lines) // 30000 + 1), timeout=2400)
    vlib.log("judged %d records in %.1fs, %d rejected" % (len(all_lines), time.time() - t0, len(bad)))
    ctx.evaluations += len(all_lines)

    def part_of(l):
        cur = spans[0][1]
        for first, part in spans:
            if first <= l - 1:
                cur = part
        return cur
    for b in bad:
        line = all_lines[b["l"] - 1]
        if "HARNESS-PRECONDITION" in b["why"] or "unknown-function" in b["why"]:
            raise vlib.Infra("harness record outside the spec's preconditions at line %d of %s: %s" % (b["l"], path, line[:300]))
        real = [w for w in b["why"] if not w.startswith("observed-")]
        if not real:
            observe(ctx, "C14:observed:%s:%s" % (b["op"], "+".join(sorted(w[9:] for w in b["why"]))),
                    "spec cannot explain %s (%s); record: %s" % (b["op"], ",".join(b["why"]), line[:500]))
            continue
        b = dict(b, why=real)
        ctx.reject(signature(b), "spec cannot explain %s (%s); record: %s" % (b["op"], ",".join(b["why"]), line[:600]),
                   {"part": part_of(b["l"]), "record": json.loads(line)})
    chosen = {}
    bad_lines = set(b["l"] for b in bad)
    for ln, l in enumerate(all_lines, 1):
        e = json.loads(l)
        ctx.count_class(class_of(e))
        if ln in bad_lines:
            continue  # the guard corrupts records the judge accepted
        for fld in OBSERVED:
            if fld in e and (e["f"], fld) not in chosen:
                c = corrupted(e[fld])
                if c is not None:
                    chosen[(e["f"], fld)] = dict(e, **{fld: c})
    if not bad:  # only on a run without any disagreement (rejected records are listed up to a cap)
        judge_guard(ctx, "LinAlgJudge", "LinAlgJudge.cfg", chosen)
    for first, part in spans:
        for off in (5, 4000):
            if first + off < len(all_lines):
                ctx.sample(json.loads(all_lines[first + off]), cap=8)
    if not ctx.violations:
        os.unlink(path)


def record_and_judge(ctx, binary, parts):
    def rec(part):
        path = os.path.join(ctx.workdir, "rec_%s_%s.ndjson" % (part, "replay" if ctx.is_replay else ctx.tier))
        rc, out = vlib.run_harness(binary, ["record", path, ctx.seed, ctx.tier, part], timeout=1500)
        return part, path, rc, out
    t0 = time.time()
    results = vlib.parallel(rec, parts, workers=4)
    vlib.log("harness: %d parts recorded in %.1fs" % (len(parts), time.time() - t0))
    judge_parts(ctx, results)


def run(ctx):
    model_checks(ctx)
    binary = build()
    record_and_judge(ctx, binary, PARTS)
    ctx.exhaustive = False
    ctx.rule = ("one record per call of a real fcppt::math operator/function: every ordered pair of 2x2 int matrices over "
                "{-1,0,1,2} (+, -, product; ==/!= on a eighth of them and all equal pairs), every 2x2 matrix with every vector over "
                "{-1,0,1,2}^2 and scalars -2..3, seeded random 3x3 / 4x4 / rectangular matrices and vectors / dims of dimension "
                "1-4 with entries in [-9,9] (600/400 rounds quick, 6000/4000 thorough), static and view storage; the 2x2 pair "
                "space is exhaustive, the rest is random, hence exhaustive=false; a class = (function, vector|dim|matrix group, "
                "storage kinds, operand shapes, static indices, result category zero/neg/pos or true/false)")
    ctx.assumptions += [
        "integer scalars only (int, results cast to long in structure_cast); floating point is outside the statement",
        "every intermediate value stays below 2^31 by construction of the operand ranges; signed overflow would be reported by UBSan as a rejected record",
        "view storage means rows of a matrix (fcppt::math::matrix::detail::row_view); ordering comparisons are driven with operands of one storage type (mixed types do not compile)",
        "operator/ (optional results, division by zero) is not part of the statement and is not driven",
    ]


def replay(ctx, payload):
    ctx.tier = payload.get("tier", ctx.tier)
    ctx.seed = payload.get("seed", ctx.seed)
    binary = build()
    record_and_judge(ctx, binary, [payload["payload"]["part"]])
    ctx.rule = "replay of the harness part that produced the saved rejection"
