"""C01 - the safe API is total: no UB / crash / hang; failure only via optional / either / the
documented exception.

harness/c01_total.cpp calls every registered function (docs/notes_C01.md lists the registry as
implemented) on exhaustive / boundary inputs; every call is wrapped in try/catch (dynamic exception
type logged) under an alarm() watchdog, in a binary built with ASan + UBSan + _GLIBCXX_ASSERTIONS.
spec/TotalityJudge.tla (TLC, RecordLoop) compares the recorded outcome class - and the value where
Totality.ValueOk defines it - with Outcome_f(args) of spec/Totality.tla, which is derived from the
mathematical contract (IntMath.tla etc.).

Decided by the specification: outcome class and value.  Only OBSERVED (sanitizers, signal
handlers, watchdog), on the inputs the specification chose: absence of undefined behaviour and
termination.  The evidence level is therefore `exploration`."""
import importlib.util
import json
import os

import vlib

LEVEL = "exploration"
PID = "C01"
JUDGE = ("TotalityJudge", "TotalityJudge.cfg")

_spec = importlib.util.spec_from_file_location("check_c06_lib", os.path.join(os.path.dirname(os.path.abspath(__file__)), "c06.py"))
c06 = importlib.util.module_from_spec(_spec)
_spec.loader.exec_module(c06)


# own section groups of harness/c01_total.cpp (macro C01_GROUP = id): (id, section = signature name)
OWN_GROUPS = [(1, "containers"), (2, "grid"), (3, "enum_string"), (4, "dynamic"), (5, "from_range"), (6, "extract"), (7, "streams"),
              (8, "runtime_index"), (9, "codecvt"), (10, "filesystem"), (11, "options"), (12, "parse"), (13, "io"), (14, "enum_extract"),
              (15, "parse_help"), (16, "grammar"), (17, "optional"), (18, "containers2"), (19, "env_args"), (20, "parse_stream")]
# the function(s) a section drives, for the signature of a process that died without naming a call
SECTION_FN = {"containers": "at_optional", "containers2": "at_optional", "grid": "grid_at_optional", "enum_string": "from_string",
              "dynamic": "dynamic", "from_range": "from_range", "extract": "extract_int", "streams": "stream_to_string",
              "runtime_index": "runtime_index", "codecvt": "narrow", "filesystem": "file_size", "options": "options_parse",
              "parse": "parse_string", "io": "io_get", "enum_extract": "extract_enum", "parse_help": "parse_help",
              "grammar": "grammar_parse_string", "optional": "optional_from", "env_args": "getenv", "parse_stream": "parse_stream"}


def section_fn(s):
    return c06.fn_of_section(s) if s.startswith("math:") else SECTION_FN.get(s, s)


def build(ctx):
    """One binary for every section; if the translation unit does not compile against the tree under test, one binary
    per section group (c06.build_units): a group of registered functions that does not compile is a VIOLATION
    C01:<group>:does-not-compile - a function that rejects the well-formed arguments the registry passes cannot "return
    normally for every argument value" - the others are run and judged."""
    units = [(("C01_GROUP=%d" % g, "C06_GROUP=-1"), n, True) for g, n in OWN_GROUPS]
    units += [(("C01_GROUP=-1", "C06_GROUP=%d" % g), "math_" + n, True) for g, n, sc in c06.GROUPS]
    return c06.build_units(ctx, PID, "c01_total", "c01_total.cpp", ("core", "filesystem", "options"), units)


def sections_of(binary):
    rc, out = vlib.run_harness(binary, ["sections"], timeout=60)
    if rc != 0:
        raise vlib.Infra("harness cannot list its sections: " + out[-300:])
    return out.split()


def record(ctx, binary, sections, tag):
    scratch = vlib.mkdir(os.path.join(ctx.workdir, "scratch"))
    # C.utf8 is the only UTF-8 locale of the sandbox; string_conv_locale() is std::locale("")
    return c06.record(ctx, binary, sections, tag, extra=[scratch], env={"LC_ALL": "C.utf8", "LANG": "C.utf8"})


def corrupt(r):
    """vacuity guard of the judge: turn a recorded call into one the contract does not allow"""
    r = dict(r)
    if r["w"] == 0:
        if not r["rs"]:
            return None
        i = len(r["rs"]) // 2
        r["rs"] = [1000001 if j == i else w for j, w in enumerate(r["rs"])]       # an exception
        return r
    if r["w"] == 1:
        r["ex"] = 1
        return r
    if r["f"] in ("options_parse", "grammar_parse_string", "parse_stream") or (r["f"] == "parse_string" and not (r["g"] in ("int", "uint") and r["sk"] == "none")):
        r["out"], r["exn"] = "exception", "std::bad_alloc"
        return r
    if r["f"] in ("extract_uint", "narrow", "io_get", "io_peek", "parse_help", "grammar_parse_string", "gmtime",
                  "io_expect_int", "optional_from", "optional_to_pointer", "enum_array_at", "args"):      # two outcome classes are allowed for some arguments: use an exception
        r["out"], r["v"], r["exn"] = "exception", [], "std::out_of_range"
        return r
    if r["f"] == "optional_to_exception" and r["out"] == "exception":
        r["exn"] = "std::logic_error"          # not the type the caller asked for
        return r
    if r["f"] == "path_fn":
        r["out"] = "nothing"
        return r
    if r["f"] == "widen":
        if r["out"] == "exception":
            r["exn"] = "std::logic_error"
        else:
            r["out"], r["exn"] = "exception", "std::runtime_error"
        return r
    if r["out"] == "value":
        r["out"], r["v"] = ("failure" if r["f"] == "parse_string" else "nothing"), []
        return r
    if r["out"] in ("nothing", "failure"):
        r["out"], r["exn"] = "exception", "std::out_of_range"
        return r
    return None


def count(ctx, recs):
    n = 0
    fns = set(ctx.extra.get("registry_functions", []))
    for s, l in recs:
        r = json.loads(l)
        fns.add(r["f"])
        if r["w"] == 0:
            n += len(r["rs"])
            for k in set("nothing" if v == 1000000 else "exception" if v == 1000001 else "value" for v in r["rs"]):
                ctx.count_class((r["f"], r["S"], r["D"], r["n"], k))
        elif r["w"] == 1:
            n += 1
            ctx.count_class((r["f"], r["S"], r["D"], r["n"], "nothing" if r["r"] == [] else "value", "wide"))
        else:
            n += 1
            shape = tuple(str(r.get(k)) for k in ("k", "fn", "kind", "op", "g", "sk", "dyn", "target", "p", "it", "max", "n", "eofbit", "failbit", "badbit"))
            size = len(r.get("xs", r.get("s", r.get("argv", r.get("rest", [])))))
            ctx.count_class((r["f"], r["out"], shape, min(size, 4)))
    ctx.extra["registry_functions"] = sorted(fns)
    return n


def report(ctx, bads):
    """Returns the number of in-scope rejections.  Outcome-class disagreements are in scope (statement of C01);
    value disagreements ("wrong-value") belong to the owning property and are observations here."""
    n = 0
    for b, section, line in bads:
        rec = json.loads(line)
        for why in sorted(b["why"]):
            sig = "%s:%s:%s" % (PID, b["op"], why)
            short = rec if len(line) < 1500 else {k: rec[k] for k in rec if k not in ("rs", "xs")}
            what = "the contract of %s does not allow the recorded outcome (%s): %s" % (b["op"], why, json.dumps(short)[:900])
            if why not in b.get("inscope", []):
                c06.observe(ctx, sig, what)
                continue
            n += 1
            ctx.reject(sig, what, {"sections": [section], "record": short})
    return n


def run_sections(ctx, binary, sections, tag):
    runs = record(ctx, binary, sections, tag)
    recs = c06.collect(ctx, runs, PID, section_fn)
    if len(recs) == 0 and not c06.rejected_anything(ctx):
        raise vlib.Infra("the harness recorded nothing")
    return recs


def run(ctx):
    binaries = build(ctx)
    recs = run_sections(ctx, binaries, None, "rec")
    sections = sorted(set(recs.sections))

    def judge_all():
        if len(recs) == 0:
            return
        ctx.evaluations += count(ctx, recs)
        c06.sample(ctx, recs)
        bads = c06.judge(ctx, recs, JUDGE, "c01")
        if report(ctx, bads) == 0 and c06.selftest_applicable(ctx):
            # vacuity guard of the judge (presupposes correct and complete records: only when nothing was rejected)
            c06.selftest(ctx, recs, JUDGE, "c01self", corrupt, 60)
    c06.after_verdict(ctx, judge_all)
    ctx.traces_validated += ctx.extra.get("judge_chunks", 0)
    ctx.extra["records"] = len(recs)
    ctx.extra["sections"] = sections
    ctx.rule = ("one evaluation = one call of a registered function under try/catch + alarm() in an ASan/UBSan/_GLIBCXX_ASSERTIONS build, its "
                "outcome class (and value where cheap) judged by TLC against Totality.Outcome. Inputs: the integer helpers and conversions on "
                "the C06 input sets (all 8/16-bit values, all 8-bit pairs, 32/64-bit lattice + seeded random); all int sequences of length "
                "0..3 over 3 values x all indices 0..5 and huge ones (vector/deque/list/map/set); grids of extent 0..2 per axis, N=1..3, "
                "positions up to extent+2 and SIZE_MAX; enum names, their prefixes/suffixes/extensions; a 6-class lattice for cast::dynamic*; "
                "from_range<0..3>; all strings of length <= 4 over ' -+019a' (extract) and 'a,-19 ' (parsers) plus overflow strings; "
                "streams in 6 iostate combinations x contents 0..7 x counts 0..len+2; UTF-8 valid/truncated/invalid; existing/empty/"
                "directory/missing/empty paths; all argv of length <= 3 over 14 tokens incl. '-', '--', ''. "
                "A class = (function, outcome, instantiation/shape, size bucket).")
    ctx.assumptions += [
        "absence of undefined behaviour and termination are OBSERVED (ASan/UBSan/_GLIBCXX_ASSERTIONS, signal handlers, alarm() watchdog per "
        "call or row) on the inputs driven; they are not decided by the TLA+ specification - level exploration for that clause",
        "the registry is the part of DESIGN.md Appendix D listed in docs/notes_C01.md; functions documented unsafe (get_unsafe, to_signed/"
        "to_unsigned, log2(0), strip_prefix with a non-prefix, int_to_enum) and inputs whose exact result is not representable are not driven",
        "for options::parse and the composite parsers only 'value or failure, no exception' is demanded (the exact class is decided by C03 / C02)",
        "locale: LC_ALL=C.utf8 (the only UTF-8 locale of the sandbox); code points that are not Unicode scalar values are left to the facet",
    ]


def replay(ctx, payload):
    binaries = build(ctx)
    secs = payload["payload"].get("sections") or None
    ctx.tier = payload.get("tier", ctx.tier)
    ctx.seed = payload.get("seed", ctx.seed)
    recs = run_sections(ctx, binaries, secs, "replay")
    if len(recs):
        ctx.evaluations += count(ctx, recs)
        report(ctx, c06.judge(ctx, recs, JUDGE, "c01r"))
    ctx.traces_validated += ctx.extra.get("judge_chunks", 0)
    ctx.count_class("replay")
    ctx.rule = "replay: the harness section(s) of the saved rejection are recorded and judged again"
