"""C18 - ranges and iterators enumerate exactly their documented sequence.

1. TLC model-checks the iterator machines transcribed from the code against the reference
   definitions of spec/Ranges.tla:
   * IntIter.tla (int_range / int_iterator over int8_t and uint8_t, every (b, e)): no overflow, the
     visited prefix is IntRange(b,e), the walk ends exactly after Count(b,e) elements, size() law;
   * Cyclic.tla (boundaries 1..6 x start offsets x n in -20..20): always inside the boundary,
     advance(n) = (start+n) mod len = where |n| single steps arrive;
   * Spiral.tla (d <= 6, three origins): stays in the Manhattan disk, never revisits, distances never
     decrease, on reaching end() exactly the disk was visited.
   Bug-constant configurations must be refuted (vacuity guards, one per invariant).
2. harness/c18_ranges.cpp records what the real ranges/iterators enumerate over the same spaces
   (+ strong typedefs, 16/32/64-bit boundary pairs, enum ranges, neighbour helpers, iterator::range,
   adapt_range, range::size, math::int_range); spec/RangesJudge.tla (TLC) judges every record.
3. Sensitivity guard: corrupted copies of real records must be rejected by the same judge."""
import copy
import json
import os
import re

import vlib

LEVEL = "model_checking"
JUDGE = "RangesJudge"
JUDGE_CFG = "RangesJudge.cfg"

GUARDS = [
    ("IntIter", "MC_IntIter_bug_clamp_intype.cfg", "InType"),
    ("IntIter", "MC_IntIter_bug_clamp_prefix.cfg", "Prefix"),
    ("IntIter", "MC_IntIter_bug_clamp_atend.cfg", "AtEnd"),
    ("IntIter", "MC_IntIter_bug_size.cfg", "SizeLaw"),
    ("IntIter", "MC_IntIter_bug_rangelaw.cfg", "RangeLaw"),
    ("Cyclic", "MC_Cyclic_bug_inside.cfg", "Inside"),
    ("Cyclic", "MC_Cyclic_bug_advance.cfg", "AdvanceLaw"),
    ("Cyclic", "MC_Cyclic_bug_step.cfg", "StepLaw"),
    ("Cyclic", "MC_Cyclic_bug_ra.cfg", "RALaw"),
    ("Spiral", "MC_Spiral_bug_rings.cfg", "Rings"),
    ("Spiral", "MC_Spiral_bug_indisk.cfg", "InDisk"),
    ("Spiral", "MC_Spiral_bug_norevisit.cfg", "NoRevisit"),
    ("Spiral", "MC_Spiral_bug_atend.cfg", "AtEnd"),
]

INPUT_KEYS = ("f", "T", "st", "via", "b", "e", "n", "bi", "ei", "E", "s", "len", "start", "o", "d", "p", "i", "j", "v", "w")


# record kinds that are entirely outside the statement of C18 (observed only, see spec/RangesJudge.tla)
OBSERVED_KINDS = ("int_iter", "enum_iter", "static_int_range")


def build():
    return vlib.build_harness("c18_ranges", ["c18_ranges.cpp"], libs=())


def signature(b):
    return "C18:%s:%s" % (b["op"], "+".join(sorted(b["why"])))


def inputs_of(rec):
    r = {k: rec[k] for k in INPUT_KEYS if k in rec}
    if rec.get("f") == "int_range_wide":
        r.pop("b", None)
        r.pop("e", None)
    return r

PID = "C18"


def split_why(why):
    """(reasons inside the statement of the property, observed-only reasons without the obs: prefix)"""
    return [w for w in why if not w.startswith("obs:")], [w[4:] for w in why if w.startswith("obs:")]


def observe(ctx, op, obs, line):
    """a disagreement outside the statement of the property: recorded in the evidence
    (coverage.observations) and in the log, never a rejected event"""
    o = ctx.extra.setdefault("observations", {})
    key = "%s:%s:%s" % (PID, op, "+".join(sorted(obs)))
    e = o.setdefault(key, {"count": 0, "example": line[:700]})
    e["count"] += 1
    if e["count"] == 1:
        vlib.log("OBSERVED (outside the statement of %s, not a violation): %s" % (PID, key))


def judge_light(ctx, module, cfg, trace_path, nchunks=48, par=8, xmx="1200m", timeout=1500):
    """vlib.judge_trace with small JVM heaps and bounded parallelism (the machine is shared): the
    record file is split on line boundaries, every chunk is judged by its own single-worker TLC.
    Returns the rejected records {l (global 1-based line), op, why[]}."""
    nlines = sum(1 for _ in open(trace_path))
    nchunks = max(2, min(nchunks, nlines // 3000))
    chunks = vlib.split_file(trace_path, nchunks)

    def one(ch):
        p, first = ch
        r = vlib.tlc(module, cfg, workers=1, env={"TRACE": p}, timeout=timeout, tag=module + "_j", xmx=xmx)
        v = vlib._verdict_lines(r.out)
        if "VERDICT" not in v:
            raise vlib.Infra("judge %s gave no verdict on %s (rc=%d):\n%s" % (module, p, r.rc, "\n".join(r.out.splitlines()[-30:])))
        vd = v["VERDICT"][-1]
        bad = []
        for b in vd["bad"]:
            b = dict(b)
            b["l"] = b["l"] + first
            bad.append(b)
        if vd["nbad"] > len(vd["bad"]):
            # RecordLoop lists at most 300 rejected records per run: judge this chunk again in pieces
            # of 250 records so that nothing (in particular nothing in scope) is dropped
            ls = open(p).read().splitlines()
            bad, gen = [], r.generated
            for k in range(0, len(ls), 250):
                q = "%s.sub%d" % (p, k)
                with open(q, "w") as fh:
                    fh.write("\n".join(ls[k:k + 250]) + "\n")
                b2, g2 = one((q, first + k))
                os.unlink(q)
                bad += b2
                gen += g2
            return bad, gen
        return bad, r.generated
    res = vlib.parallel(one, chunks, workers=par)
    bad = []
    for b, g in res:
        bad += b
        ctx.extra["trace_states"] = ctx.extra.get("trace_states", 0) + g
    for p, _ in chunks:
        try:
            os.unlink(p)
        except OSError:
            pass
    return sorted(bad, key=lambda b: b["l"])


def judge_file(ctx, path, what, rc, out):
    lines, tail = vlib.check_trace_file(path)
    crash = [l for l in lines if l.startswith('{"e":"crash"')]
    lines = [l for l in lines if not l.startswith('{"e":"crash"')]
    if crash and rc == 0:
        raise vlib.Infra("crash record in a trace of a harness that exited 0")
    if rc != 0:
        op = "?"
        if tail:
            m = re.search(r'"f":"(\w+)"', tail)
            op = m.group(1) if m else "?"
        kind = {66: "sanitizer", 67: "crash", 68: "hang", 124: "timeout"}.get(rc, "exit%d" % rc)
        san = re.search(r"(ERROR: \w+Sanitizer: [^\n]*|runtime error: [^\n]*|Assertion [^\n]*)", out)
        payload = {"partial_line": tail}
        if tail:
            try:
                payload["record"] = inputs_of(json.loads(re.sub(r",\s*$", "", tail) + "}"))
            except ValueError:
                pass
        if op in OBSERVED_KINDS:
            observe(ctx, op, [kind], tail or "")
        else:
            ctx.reject("C18:%s:%s" % (op, kind), "%s during %s (%s): %s" % (kind, op, what, san.group(1) if san else out[-300:]), payload)
        with open(path, "w") as f:
            f.write("\n".join(lines) + ("\n" if lines else ""))
    if not lines:
        return lines
    bad = judge_light(ctx, JUDGE, JUDGE_CFG, path)
    ctx.evaluations += len(lines)
    if not hasattr(ctx, "unexplained"):
        ctx.unexplained = set()
    for b in bad:
        ctx.unexplained.add(lines[b["l"] - 1])
        ins, obs = split_why(b["why"])
        if obs:
            observe(ctx, b["op"], obs, lines[b["l"] - 1])
        if not ins:
            continue
        b = dict(b, why=ins)
        if "HARNESS-PRECONDITION" in b["why"]:
            raise vlib.Infra("harness record outside its own input space at line %d of %s: %s" % (b["l"], path, lines[b["l"] - 1][:300]))
        rec = json.loads(lines[b["l"] - 1])
        ctx.reject(signature(b), "%s: Ranges.tla cannot explain %s (%s); record: %s" % (
            what, b["op"], ",".join(b["why"]), lines[b["l"] - 1][:500]), {"record": inputs_of(rec), "observed": rec})
    return lines


def bucket(n):
    return n if n <= 2 else ("few" if n <= 8 else ("many" if n < 127 else "huge"))


def count_classes(ctx, lines):
    lims = {"i8": (-128, 127), "u8": (0, 255), "i16": (-32768, 32767), "u16": (0, 65535), "i32": (-2 ** 31, 2 ** 31 - 1)}
    for l in lines:
        r = json.loads(l)
        f = r["f"]
        if f == "int_range":
            lo, hi = lims[r["T"]]
            b, e = r["b"], r["e"]
            ctx.count_class((f, r["T"], r["st"], r["via"], "inv" if e < b else ("empty" if e == b else bucket(e - b)),
                             b == lo, e == hi, b == hi, e == lo, (e - b) > hi))
        elif f == "int_range_count":
            ctx.count_class((f, r["T"], r["st"], "neg" if r["n"] < 0 else bucket(r["n"])))
        elif f == "int_range_wide":
            ctx.count_class((f, r["T"], r["bi"] // 4, r["ei"] // 4, len(r["seq"]) if len(r["seq"]) < 3 else "few"))
        elif f == "enum_range":
            ctx.count_class((f, r["E"], r["via"], r["s"] == 0, r["e"] == r["n"] - 1, r["s"] == r["e"]))
        elif f == "cyclic":
            n, ln = r["n"], r["len"]
            ctx.count_class((f, ln, r["start"], "0" if n == 0 else ("+" if n > 0 else "-"),
                             "lt" if abs(n) < ln else ("eq" if abs(n) == ln else ("mult" if abs(n) % ln == 0 else "gt"))))
        elif f == "cyclic_ra":
            n, ln = r["n"], r["len"]
            ctx.count_class((f, ln, "0" if n == 0 else ("+" if n > 0 else "-"), "lt" if abs(n) < ln else ("mult" if abs(n) % ln == 0 else "gt"),
                             (r["i"] > r["j"]) - (r["i"] < r["j"]), r["i"] + n >= ln, r["i"] + n < 0))
        elif f == "int_iter":
            ctx.count_class((f, r["T"], r["st"], r["v"] == r["w"], r["v"] < 0))
        elif f == "enum_iter":
            ctx.count_class((f, r["E"], r["v"] == r["w"], r["v"] + 1 == r["n"]))
        elif f == "spiral":
            ctx.count_class((f, r["T"], r["d"], tuple(r["o"])))
        elif f in ("moore", "neumann"):
            ctx.count_class((f, r["T"], r["p"][0] < 0, r["p"][1] < 0))
        elif f == "iter_range":
            ctx.count_class((f, r["via"], r["len"], r["i"] == 0, r["j"] == r["len"], r["i"] == r["j"]))
        else:
            ctx.count_class((f, r.get("b", r.get("s")), r.get("e")))


def corruptions(recs):
    out = []

    cur = [None]
    cnt = {}
    PER_KEY = 4    # several candidate records per kind: one accepted corruption must not fail the guard

    def mut(r, fn, why):
        r = copy.deepcopy(r)
        fn(r)
        out.append((r, why, cur[0]))

    def _one(r):
        f = r["f"]
        key = f + r.get("T", "") if f == "int_range" else f
        if cnt.get(key, 0) >= PER_KEY:
            return
        cur[0] = key
        if f in ("int_range", "int_range_count", "int_range_rsize", "enum_range", "iter_range", "static_int_range") and len(r["seq"]) >= 3:
            mut(r, lambda x: x["seq"].pop(), "sequence")
            mut(r, lambda x: x["seq"].__setitem__(1, x["seq"][1] + 1), "sequence")
            mut(r, lambda x: x["seq"].append(x["seq"][-1] + 1), "sequence")
            if "size" in r:
                mut(r, lambda x: x.__setitem__("size", x["size"] - 1), "size")
            if r.get("rsize", -1) >= 0:
                mut(r, lambda x: x.__setitem__("rsize", x["rsize"] + 1), "range-size")
            cnt[key] = cnt.get(key, 0) + 1
        elif f == "int_range_wide" and len(r["seq"]) >= 2:
            mut(r, lambda x: x["seq"].pop(), "sequence")
            mut(r, lambda x: x["seq"].__setitem__(0, x["seq"][1]), "sequence")
            mut(r, lambda x: x.__setitem__("size", x["size"] + 1), "size")
            cnt[key] = cnt.get(key, 0) + 1
        elif f == "cyclic" and r["len"] >= 3 and abs(r["n"]) >= 4:
            ln = r["len"]
            mut(r, lambda x: x.__setitem__("adv", (x["adv"] + 1) % ln), "advance")
            mut(r, lambda x: x.__setitem__("adv", x["adv"] - ln), "leaves-boundary")
            mut(r, lambda x: x["steps"].__setitem__(2, (x["steps"][2] + 1) % ln), "single-steps")
            mut(r, lambda x: x.__setitem__("plus", (x["plus"] + 1) % ln), "operator-plus")
            mut(r, lambda x: x.__setitem__("sub", (x["sub"] + 1) % ln), "operator-minus")
            mut(r, lambda x: x.__setitem__("advv", x["advv"] + 1), "dereference")
            cnt[key] = cnt.get(key, 0) + 1
        elif f == "cyclic_ra" and r["len"] >= 3 and r["i"] != r["j"] and r["n"] not in (0,):
            ln = r["len"]
            mut(r, lambda x: x.__setitem__("apn", (x["apn"] + 1) % ln), "operator-plus")
            mut(r, lambda x: x.__setitem__("back", (x["back"] + 1) % ln), "plus-then-minus")
            mut(r, lambda x: x.__setitem__("reach", (x["reach"] + 1) % ln), "advance-by-difference")
            mut(r, lambda x: x.__setitem__("sub", x["sub"] + 1), "subscript")
            mut(r, lambda x: x.__setitem__("lt", not x["lt"]), "ordering-vs-difference")
            mut(r, lambda x: x.__setitem__("eq", not x["eq"]), "equality")
            mut(r, lambda x: x.__setitem__("postold", (x["postold"] + 1) % ln), "increment-return-values")
            mut(r, lambda x: x.__setitem__("post", (x["post"] + 1) % ln), "increment")
            mut(r, lambda x: x.__setitem__("dec", (x["dec"] + 1) % ln), "decrement")
            mut(r, lambda x: x.__setitem__("swa", x["swb"]), "swap")
            mut(r, lambda x: x.__setitem__("apn", x["apn"] + ln), "leaves-boundary")
            cnt[key] = cnt.get(key, 0) + 1
        elif f == "int_iter" and r["v"] != r["w"]:
            mut(r, lambda x: x.__setitem__("deref", x["deref"] + 1), "dereference")
            mut(r, lambda x: x.__setitem__("postold", x["postold"] + 1), "increment")
            mut(r, lambda x: x.__setitem__("preret", x["preret"] - 1), "increment")
            mut(r, lambda x: x.__setitem__("ne", False), "equality")
            mut(r, lambda x: x.__setitem__("swa", x["swb"]), "swap")
            cnt[key] = cnt.get(key, 0) + 1
        elif f == "enum_iter" and r["v"] != r["w"] and r["v"] + 1 < r["n"]:
            mut(r, lambda x: x.__setitem__("postold", x["postold"] + 1), "dereference")
            mut(r, lambda x: x.__setitem__("pre", x["pre"] + 1), "increment")
            mut(r, lambda x: x.__setitem__("eq", True), "equality")
            cnt[key] = cnt.get(key, 0) + 1
        elif f == "spiral" and r["d"] >= 2:
            mut(r, lambda x: x["vis"].pop(), "not-the-manhattan-disk")
            mut(r, lambda x: x["vis"].__setitem__(3, x["vis"][2]), "position-visited-twice")
            mut(r, lambda x: x["vis"].reverse(), "distance-decreases")
            mut(r, lambda x: x.__setitem__("rsize", x["rsize"] + 1), "range-size")
            cnt[key] = cnt.get(key, 0) + 1
        elif f in ("moore", "neumann"):
            mut(r, lambda x: x["r"].__setitem__(0, x["p"]), f + "-neighbours")
            mut(r, lambda x: x["r"].__setitem__(1, x["r"][0]), f + "-neighbours")
            cnt[key] = cnt.get(key, 0) + 1
    for r in recs:
        try:
            _one(r)
        except (IndexError, KeyError, ValueError, StopIteration):
            pass    # this record is not a usable candidate
    return out


def check_corruptions(ctx, cor, bad):
    """Per (kind of record, expected reason): at least one of the corrupted candidate records must be
    rejected by the judge with that reason.  A single candidate on which the corruption happens to leave
    a value the specification also accepts does not fail the guard; only a kind/reason for which NO
    candidate is rejected does (exit 2)."""
    groups = {}
    for i, (rec, why, key) in enumerate(cor):
        got = bad.get(i + 1, [])
        ok = why in got or "obs:" + why in got
        g = groups.setdefault((str(key), why), [0, 0, rec, got])
        g[0] += 1
        g[1] += 1 if ok else 0
    failed = [(k, g) for k, g in groups.items() if g[1] == 0]
    if failed:
        k, g = failed[0]
        raise vlib.Infra("sensitivity guard: none of the %d corrupted %s records (expected reason %s) was rejected, e.g. judged %s: %s" % (
            g[0], k[0], k[1], g[3], json.dumps(g[2])[:300]))
    rejected = sum(g[1] for g in groups.values())
    ctx.extra["judge_sensitivity"] = {"corrupted_records": len(cor), "rejected_with_expected_reason": rejected,
                                      "groups": len(groups), "every_group_rejected": True, "all_rejected": rejected == len(cor)}


def sensitivity_guard(ctx, lines):
    """corrupt copies of records the judge currently explains completely (records with any reason - a
    violation or an observation - are no candidates); a kind whose records are all unexplained is skipped"""
    unexpl = getattr(ctx, "unexplained", set())
    cand = [l for l in lines[::97] + [l for l in lines if '"f":"int_range"' not in l] if l not in unexpl]
    recs = [json.loads(l) for l in cand]
    cor = corruptions(recs)
    kinds = set(c[0]["f"] for c in cor)
    touched = set(json.loads(l)["f"] for l in unexpl)
    need = {"int_range", "int_range_count", "int_range_rsize", "int_range_wide", "enum_range", "cyclic", "spiral", "moore", "neumann",
            "iter_range", "static_int_range", "cyclic_ra", "int_iter", "enum_iter"}
    missing = need - kinds - touched
    if missing:
        raise vlib.Infra("sensitivity guard: no corruptible record for %s" % sorted(missing))
    p = os.path.join(ctx.workdir, "corrupted.ndjson")
    vlib.write_ndjson(p, [c[0] for c in cor])
    # (RecordLoop lists at most 300 rejected records per run; judge_light re-judges in pieces of 250)
    bad = {b["l"]: b["why"] for b in judge_light(ctx, JUDGE, JUDGE_CFG, p, nchunks=4, par=4)}
    check_corruptions(ctx, cor, bad)
    ctx.extra["judge_sensitivity"]["kinds_skipped_because_unexplained"] = sorted((need - kinds) & touched)


def run(ctx):
    thorough = ctx.tier == "thorough"
    # 1. the specification itself
    for t in ("i8", "u8"):
        vlib.tlc_mc(ctx, "IntIter", "MC_IntIter_%s_edge.cfg" % t, workers=8, xmx="2g")
        vlib.tlc_mc(ctx, "IntIter", "MC_IntIter_%s.cfg" % t if thorough else "MC_IntIter_%s_shallow.cfg" % t, timeout=3000, xmx="2g")
    vlib.tlc_mc(ctx, "Cyclic", "MC_Cyclic.cfg", workers=4, xmx="2g")
    vlib.tlc_mc(ctx, "Spiral", "MC_Spiral.cfg", workers=4, xmx="2g")

    def guard(g):
        mod, cfg, inv = g
        r = vlib.tlc(mod, cfg, workers=2, xmx="1g", expect=inv)
        if inv not in r.invariant_violated:
            raise vlib.Infra("vacuity guard: %s/%s did not violate %s" % (mod, cfg, inv))
        return {"module": mod, "cfg": cfg, "violates": inv}
    ctx.extra["vacuity_guards"] = vlib.parallel(guard, GUARDS, workers=6)
    # 2. code -> spec
    binary = build()
    tpath = os.path.join(ctx.workdir, "recorded.ndjson")
    rc, out = vlib.run_harness(binary, ["record", tpath, ctx.tier], timeout=1600)
    lines = judge_file(ctx, tpath, "exhaustive enumeration", rc, out)
    # every record is the walk of one range / iterator from begin() to end() (or one batch of
    # single steps): one behaviour of the corresponding machine
    ctx.traces_validated += sum(1 for l in lines if '"seq":' in l or '"vis":' in l or '"steps":' in l)
    if lines:
        count_classes(ctx, lines)
        for pat in ('"f":"int_range","T":"i8","st":false,"via":"mk","b":120,"e":127', '"f":"cyclic","len":5,"start":2,"n":-13',
                    '"f":"spiral","T":"i32","o":[-3,2],"d":2', '"f":"int_range_wide","T":"i64"', '"f":"enum_range","E":"e9","n":9,"via":"start_end","s":3,"e":6'):
            for l in lines:
                if pat in l:
                    ctx.sample(json.loads(l))
                    break
        if rc == 0 and not ctx.violations:
            sensitivity_guard(ctx, lines)
    ctx.exhaustive = True
    ctx.rule = ("exhaustive enumeration by the harness: every (b,e) and every count of int8_t/uint8_t (strong typedefs of both: every pair in the "
                "thorough tier, every 7th plus all pairs at most 2 apart or touching a limit in the quick tier); 16/32-bit and strong-typedef int "
                "boundary lattices (empty, inverted, <= 8 long); 32/64-bit boundary lattices as limbs; every sub-range of enums with 1, 3, 5, 9 "
                "enumerators; cyclic boundaries 1..6 x all starts x n in -20..20; spiral d 0..6 (thorough 0..8) from 5 origins, int and long; "
                "neighbour helpers on a 5x5 block; iterator::range / make_range / adapt_range on vectors of length 0..5; "
                "a class = (function, type, variant, shape: inverted/empty/length bucket, which type limits are touched, sign and wrap class of n)")
    ctx.assumptions += [
        "size() of a range whose element count does not fit the range's own type is not constrained (not judged); such ranges of 32/64-bit types are not driven",
        "enum ranges with start > end, spiral distances < 0 and unsigned neighbour positions with a zero coordinate are API preconditions and are not driven",
        "the order inside one ring of the spiral and the order of the neighbour arrays are not constrained by the statement (judged as sets)",
        "values of 32/64-bit types are logged biased as base-2^15 limbs; the judge compares limb sequences",
        "undefined behaviour inside the driven calls is only OBSERVED (ASan/UBSan), not decided by the spec",
    ]


def replay(ctx, payload):
    binary = build()
    rec = payload["payload"].get("record")
    if not rec:
        raise vlib.Infra("replay file carries no record")
    ipath = os.path.join(ctx.workdir, "replay_in.ndjson")
    vlib.write_ndjson(ipath, [rec])
    opath = os.path.join(ctx.workdir, "replay_out.ndjson")
    rc, out = vlib.run_harness(binary, ["replay", ipath, opath], timeout=300)
    judge_file(ctx, opath, "replay", rc, out)
    ctx.traces_validated += 1
    ctx.count_class("replay")
    ctx.count_class("replay2")
    ctx.rule = "replay of one saved record"
