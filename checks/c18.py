"""C18 - ranges and iterators enumerate exactly their documented sequence.

1. TLC model-checks the iterator machines transcribed from the code against the reference
   definitions of spec/Ranges.tla:
   * IntIter.tla (int_range / int_iterator over int8_t and uint8_t, every (b, e)): no overflow, the
     visited prefix is IntRange(b,e), the walk ends exactly after Count(b,e) elements, size() law;
   * Cyclic.tla (boundaries 1..6 x start offsets x n in -20..20): always inside the boundary,
     advance(n) = (start+n) mod len = where |n| single steps arrive;
   * Spiral.tla (d <= 6, three origins): stays in the Manhattan disk, never revisits, distances never
     decrease, on reaching end() exactly the disk was visited.
   Bug-constant configurations must be refuted (vacuity guards, one per invariant).
2. harness/c18_ranges.cpp records what the real ranges/iterators enumerate over the same spaces
   (+ strong typedefs, 16/32/64-bit boundary pairs, enum ranges, neighbour helpers, iterator::range,
   adapt_range, range::size, math::int_range); spec/RangesJudge.tla (TLC) judges every record.
3. Sensitivity guard: corrupted copies of real records must be rejected by the same judge."""
import copy
import json
import os
import re
import subprocess
import time

import vlib

LEVEL = "model_checking"
JUDGE = "RangesJudge"
JUDGE_CFG = "RangesJudge.cfg"

GUARDS = [
    ("IntIter", "MC_IntIter_bug_clamp_intype.cfg", "InType"),
    ("IntIter", "MC_IntIter_bug_clamp_prefix.cfg", "Prefix"),
    ("IntIter", "MC_IntIter_bug_clamp_atend.cfg", "AtEnd"),
    ("IntIter", "MC_IntIter_bug_size.cfg", "SizeLaw"),
    ("IntIter", "MC_IntIter_bug_rangelaw.cfg", "RangeLaw"),
    ("Cyclic", "MC_Cyclic_bug_inside.cfg", "Inside"),
    ("Cyclic", "MC_Cyclic_bug_advance.cfg", "AdvanceLaw"),
    ("Cyclic", "MC_Cyclic_bug_step.cfg", "StepLaw"),
    ("Cyclic", "MC_Cyclic_bug_ra.cfg", "RALaw"),
    ("Cyclic", "MC_Cyclic_bug_post.cfg", "PostLaw"),
    ("Cyclic", "MC_Cyclic_bug_subscript.cfg", "SubscriptLaw"),
    ("Spiral", "MC_Spiral_bug_rings.cfg", "Rings"),
    ("Spiral", "MC_Spiral_bug_indisk.cfg", "InDisk"),
    ("Spiral", "MC_Spiral_bug_norevisit.cfg", "NoRevisit"),
    ("Spiral", "MC_Spiral_bug_atend.cfg", "AtEnd"),
]

INPUT_KEYS = ("f", "T", "st", "via", "b", "e", "n", "bi", "ei", "E", "s", "len", "start", "o", "d", "p", "i", "j", "v", "w")


# record kinds that are entirely outside the statement of C18 (observed only, see spec/RangesJudge.tla)
OBSERVED_KINDS = ("int_iter", "enum_iter", "static_int_range")


# harness units (round 3): harness/c18_ranges.cpp is compiled once per unit (-DC18_U_<UNIT>) into its own
# binary; (unit, record kinds, in the statement of C18?, what the unit drives).  A unit of functions named by
# the statement that does not compile against the tree is a VIOLATION C18:<unit>:does-not-compile, the
# observed-only unit an OBSERVATION; the other units are built, run and judged regardless.
UNITS = [
    ("int", ("int_range", "int_range_count", "int_range_wide"), True, "fcppt::int_range / make_int_range / make_int_range_count / int_iterator"),
    ("enum", ("enum_range",), True, "fcppt::enum_::range / make_range / make_range_start / make_range_start_end / enum_::iterator"),
    ("cyclic", ("cyclic", "cyclic_list", "cyclic_ra"), True, "fcppt::cyclic_iterator (through fcppt::iterator::base)"),
    ("grid", ("spiral", "moore", "neumann"), True, "fcppt::container::grid::make_spiral_range / spiral_iterator / moore_neighbors / neumann_neighbors"),
    ("iter", ("iter_range",), True, "fcppt::iterator::range / make_range / adapt_range"),
    ("obs", ("int_range_rsize", "static_int_range", "int_iter", "enum_iter"), False,
     "fcppt::range::size, fcppt::math::int_range / int_range_count, int_iterator and enum_::iterator taken by themselves"),
]
UNIT_OF_KIND = {k: u[0] for u in UNITS for k in u[1]}
# TLC integers are 32-bit: every logged integer is clamped before judging - to the int32 range for the kinds whose
# inputs are int32 values (the judge only compares them), to [-2^28, 2^28] for the others (the judge adds distances)
CLAMP = 2 ** 28
INT32_KINDS = ("int_range", "int_range_count", "int_range_rsize", "int_iter")
MAX_RESTARTS = 6         # a unit is restarted behind a call that crashed / hung at most this often


def genuine_compile_error(out):
    """a diagnostic of the compiler about the code, as opposed to the compiler being killed / out of
    memory / out of disk on the shared box (which is our infrastructure, never a verdict)"""
    if re.search(r"Killed signal|internal compiler error|virtual memory exhausted|No space left|cannot allocate memory|std::bad_alloc", out):
        return False
    body = re.sub(r"^compile failed: [^\n]*\n?", "", out)
    return re.search(r"error|note: |required from|In file included", body) is not None


def first_error(out):
    for l in out.splitlines():
        if " error: " in l or "fatal error:" in l:
            return re.sub(r"\s+", " ", l)[:400]
    return out[-400:]


def build(ctx, only=None):
    """{unit: binary} for the units that compile against the tree under test"""
    t0 = time.time()
    units = [u for u in UNITS if only is None or u[0] in only]

    def one(u):
        for attempt in (1, 2):
            try:
                return u[0], vlib.build_harness("c18_" + u[0], ["c18_ranges.cpp"], libs=(), defs=("C18_U_" + u[0].upper(),), jobs=1), None
            except vlib.Infra as e:
                if genuine_compile_error(str(e)):
                    return u[0], None, str(e)
                if attempt == 2:
                    raise
                time.sleep(5)   # compiler killed on the shared box: once more
    res = vlib.parallel(one, units, workers=min(len(units), vlib.NCPU))
    bins, failed = {}, {}
    for unit, b, err in res:
        if err is None:
            bins[unit] = b
        else:
            failed[unit] = err
    if failed and len(failed) == len(units) and only is None:
        # not a single unit compiles: is it the tree or our harness?  vjson.hpp alone must compile
        p = subprocess.run(vlib.base_flags("none") + ["-fsyntax-only", "-x", "c++", os.path.join(vlib.HARNESS, "common", "vjson.hpp")],
                           stdout=subprocess.PIPE, stderr=subprocess.STDOUT, text=True, errors="replace")
        if p.returncode != 0:
            raise vlib.Infra("harness/common/vjson.hpp does not compile:\n" + p.stdout[-2000:])
    for unit, kinds, scope, what in units:
        if unit not in failed:
            continue
        msg = "harness unit %s (harness/c18_ranges.cpp -DC18_U_%s: %s) does not compile against this tree: %s" % (
            unit, unit.upper(), what, first_error(failed[unit]))
        if scope:
            ctx.reject("C18:%s:does-not-compile" % unit, msg, {"unit": unit})
        else:
            observe(ctx, unit, ["does-not-compile"], msg)
    ctx.extra["units_not_compiling"] = sorted(failed)
    vlib.log("build: %d units (%d do not compile) in %.1fs" % (len(units), len(failed), time.time() - t0))
    return bins


def clamp_record(x, lo=None, hi=None):
    """(value with every integer clamped, changed?)"""
    if lo is None:
        lo, hi = (-2 ** 31, 2 ** 31 - 1) if isinstance(x, dict) and x.get("f") in INT32_KINDS else (-CLAMP, CLAMP)
    if isinstance(x, bool):
        return x, False
    if isinstance(x, int):
        y = max(lo, min(hi, x))
        return y, y != x
    if isinstance(x, float):
        return hi, True
    if isinstance(x, list):
        ch, out = False, []
        for v in x:
            v2, c = clamp_record(v, lo, hi)
            out.append(v2)
            ch = ch or c
        return out, ch
    if isinstance(x, dict):
        ch, out = False, {}
        for k, v in x.items():
            v2, c = clamp_record(v, lo, hi)
            out[k] = v2
            ch = ch or c
        return out, ch
    return x, False


def record_unit(ctx, unit, binary, tier):
    """Runs one unit, restarting it behind a call that crashed / hung.  Returns (complete record lines,
    [(kind of failure, rc, partial line, output)], calls not driven because the restarts were used up?)."""
    lines, fails, skip, gave_up = [], [], 0, False
    for attempt in range(MAX_RESTARTS + 1):
        path = os.path.join(ctx.workdir, "rec_%s_%d.ndjson" % (unit, attempt))
        try:
            os.unlink(path)
        except OSError:
            pass
        rc, out = vlib.run_harness(binary, ["record", path, tier, skip], timeout=900 if tier == "quick" else 2400)
        good, tail = vlib.check_trace_file(path) if os.path.exists(path) else ([], None)
        good = [l for l in good if not l.startswith('{"e":"crash"')]
        lines += good
        if rc == 0:
            break
        fails.append(({66: "sanitizer", 67: "crash", 68: "hang", 124: "timeout"}.get(rc, "exit%d" % rc), rc, tail, out))
        if tail is None or not re.search(r'"f":"(\w+)"', tail):
            # died outside a driven call (start-up, exit, leak report): nothing to skip
            break
        if attempt == MAX_RESTARTS or sum(1 for f in fails if f[0] in ("hang", "timeout")) >= 2:
            gave_up = True     # (every hang costs the watchdog time of one call: at most two of them)
            break
        skip += len(good) + 1
    return lines, fails, gave_up


def signature(b):
    return "C18:%s:%s" % (b["op"], "+".join(sorted(b["why"])))


def inputs_of(rec):
    r = {k: rec[k] for k in INPUT_KEYS if k in rec}
    if rec.get("f") == "int_range_wide":
        r.pop("b", None)
        r.pop("e", None)
    return r

PID = "C18"


def split_why(why):
    """(reasons inside the statement of the property, observed-only reasons without the obs: prefix)"""
    return [w for w in why if not w.startswith("obs:")], [w[4:] for w in why if w.startswith("obs:")]


def observe(ctx, op, obs, line):
    """a disagreement outside the statement of the property: recorded in the evidence
    (coverage.observations) and in the log, never a rejected event"""
    o = ctx.extra.setdefault("observations", {})
    key = "%s:%s:%s" % (PID, op, "+".join(sorted(obs)))
    e = o.setdefault(key, {"count": 0, "example": line[:700]})
    e["count"] += 1
    if e["count"] == 1:
        vlib.log("OBSERVED (outside the statement of %s, not a violation): %s" % (PID, key))


def judge_light(ctx, module, cfg, trace_path, nchunks=48, par=8, xmx="1200m", timeout=1500, piece=None):
    """vlib.judge_trace with small JVM heaps and bounded parallelism (the machine is shared): the
    record file is split on line boundaries, every chunk is judged by its own single-worker TLC.
    Returns the rejected records {l (global 1-based line), op, why[]}."""
    nlines = sum(1 for _ in open(trace_path))
    nchunks = max(2, min(nchunks, nlines // 3000))
    if piece:
        nchunks = max(2, -(-nlines // piece))     # pieces small enough for RecordLoop to list every rejected record
    chunks = vlib.split_file(trace_path, nchunks)

    def one(ch, depth=0):
        p, first = ch
        r = vlib.tlc(module, cfg, workers=1, env={"TRACE": p}, timeout=timeout, tag=module + "_j", xmx=xmx)
        v = vlib._verdict_lines(r.out)
        if "VERDICT" not in v:
            raise vlib.Infra("judge %s gave no verdict on %s (rc=%d):\n%s" % (module, p, r.rc, "\n".join(r.out.splitlines()[-30:])))
        vd = v["VERDICT"][-1]
        bad = []
        for b in vd["bad"]:
            b = dict(b)
            b["l"] = b["l"] + first
            bad.append(b)
        if vd["nbad"] > len(vd["bad"]) and depth < 6 and not any(split_why(b["why"])[0] for b in bad):
            # RecordLoop lists at most 300 rejected records per run.  If one of those listed is in scope the verdict
            # of this chunk is settled (a flood of rejections - a mutant that breaks every record - must not cost
            # thousands of TLC runs); if all of them are observed-only, the records behind the last one listed are
            # judged again so that an in-scope rejection cannot hide behind a flood of observations.
            ls = open(p).read().splitlines()
            last = max(b["l"] for b in bad) - first
            if last < len(ls):
                q = "%s.rest%d" % (p, depth)
                with open(q, "w") as fh:
                    fh.write("\n".join(ls[last:]) + "\n")
                b2, g2 = one((q, first + last), depth + 1)
                os.unlink(q)
                return bad + b2, r.generated + g2
        return bad, r.generated
    res = vlib.parallel(one, chunks, workers=par)
    bad = []
    for b, g in res:
        bad += b
        ctx.extra["trace_states"] = ctx.extra.get("trace_states", 0) + g
    for p, _ in chunks:
        try:
            os.unlink(p)
        except OSError:
            pass
    return sorted(bad, key=lambda b: b["l"])


def report_failures(ctx, unit, scope, fails, gave_up, what):
    """crashes / sanitizer aborts / hangs / undocumented exceptions of the code under test in a harness run
    are verdicts (Clarification 2): VIOLATION for a unit of functions named by the statement, OBSERVATION
    for the observed-only unit"""
    for kind, rc, tail, out in fails:
        m = re.search(r'"f":"(\w+)"', tail or "")
        op = m.group(1) if m else unit
        if not m:
            kind += "-outside-a-call"
        san = re.search(r"(ERROR: \w+Sanitizer: [^\n]*|runtime error: [^\n]*|Assertion [^\n]*|terminate called[^\n]*\n?[^\n]*)", out or "")
        payload = {"partial_line": tail, "unit": unit}
        if tail:
            try:
                payload["record"] = inputs_of(json.loads(re.sub(r",\s*$", "", tail) + "}"))
            except ValueError:
                pass
        msg = "%s during %s (%s, unit %s): %s" % (kind, op, what, unit, san.group(1) if san else (out or "")[-300:])
        if scope and op not in OBSERVED_KINDS:
            ctx.reject("C18:%s:%s" % (op, kind), msg, payload)
        else:
            observe(ctx, op, [kind], msg)
    if gave_up:
        vlib.log("unit %s: more than %d failing calls, the rest of the unit was not driven" % (unit, MAX_RESTARTS))
        ctx.extra.setdefault("units_cut_short", []).append(unit)


def judge_lines(ctx, tagged, what, name="recorded"):
    """tagged: [(record line, observed only?)].  Clamps absurd integers, drops lines that are not records,
    judges with TLC and turns unexplained records into violations / observations.  Returns the judged lines."""
    lines, obs_only = [], []
    for l, oo in tagged:
        try:
            rec = json.loads(l)
        except ValueError:
            continue          # (check_trace_file already dropped these)
        if not isinstance(rec, dict) or "f" not in rec:
            continue
        rec2, changed = clamp_record(rec)
        if changed:
            l = json.dumps(rec2, separators=(",", ":"))
            ctx.extra["records_with_clamped_integers"] = ctx.extra.get("records_with_clamped_integers", 0) + 1
        lines.append(l)
        obs_only.append(oo)
    if not lines:
        return lines
    path = os.path.join(ctx.workdir, name + ".ndjson")
    with open(path, "w") as f:
        f.write("\n".join(lines) + "\n")
    bad = judge_light(ctx, JUDGE, JUDGE_CFG, path)
    ctx.evaluations += len(lines)
    if not hasattr(ctx, "unexplained"):
        ctx.unexplained = set()
    for b in bad:
        line = lines[b["l"] - 1]
        ctx.unexplained.add(line)
        ins, obs = split_why(b["why"])
        if obs_only[b["l"] - 1]:
            # the observed-only unit re-uses drivers of in-scope kinds (with fcppt::range::size switched on)
            obs, ins = obs + [w for w in ins if w != "HARNESS-PRECONDITION"], [w for w in ins if w == "HARNESS-PRECONDITION"]
        if obs:
            observe(ctx, b["op"], obs, line)
        if not ins:
            continue
        b = dict(b, why=ins)
        rec = json.loads(line)
        if "HARNESS-PRECONDITION" in b["why"]:
            raise vlib.Infra("harness record outside its own input space at line %d of %s: %s" % (b["l"], path, line[:300]))
        ctx.reject(signature(b), "%s: Ranges.tla cannot explain %s (%s); record: %s" % (
            what, b["op"], ",".join(b["why"]), line[:500]), {"record": inputs_of(rec), "observed": rec})
    return lines


def bucket(n):
    return n if n <= 2 else ("few" if n <= 8 else ("many" if n < 127 else "huge"))


def count_classes(ctx, lines):
    lims = {"i8": (-128, 127), "u8": (0, 255), "i16": (-32768, 32767), "u16": (0, 65535), "i32": (-2 ** 31, 2 ** 31 - 1)}
    for l in lines:
        r = json.loads(l)
        f = r["f"]
        if f == "int_range":
            lo, hi = lims[r["T"]]
            b, e = r["b"], r["e"]
            ctx.count_class((f, r["T"], r["st"], r["via"], "inv" if e < b else ("empty" if e == b else bucket(e - b)),
                             b == lo, e == hi, b == hi, e == lo, (e - b) > hi))
        elif f == "int_range_count":
            ctx.count_class((f, r["T"], r["st"], "neg" if r["n"] < 0 else bucket(r["n"])))
        elif f == "int_range_wide":
            ctx.count_class((f, r["T"], r["bi"] // 4, r["ei"] // 4, len(r["seq"]) if len(r["seq"]) < 3 else "few"))
        elif f == "enum_range":
            ctx.count_class((f, r["E"], r["via"], r["s"] == 0, r["e"] == r["n"] - 1, r["s"] == r["e"]))
        elif f == "cyclic":
            n, ln = r["n"], r["len"]
            ctx.count_class((f, ln, r["start"], "0" if n == 0 else ("+" if n > 0 else "-"),
                             "lt" if abs(n) < ln else ("eq" if abs(n) == ln else ("mult" if abs(n) % ln == 0 else "gt"))))
        elif f == "cyclic_list":
            n, ln = r["n"], r["len"]
            ctx.count_class((f, ln, "0" if n == 0 else ("+" if n > 0 else "-"), "lt" if abs(n) < ln else ("mult" if abs(n) % ln == 0 else "gt")))
        elif f == "cyclic_ra":
            n, ln = r["n"], r["len"]
            ctx.count_class((f, ln, "0" if n == 0 else ("+" if n > 0 else "-"), "lt" if abs(n) < ln else ("mult" if abs(n) % ln == 0 else "gt"),
                             (r["i"] > r["j"]) - (r["i"] < r["j"]), r["i"] + n >= ln, r["i"] + n < 0))
        elif f == "int_iter":
            ctx.count_class((f, r["T"], r["st"], r["v"] == r["w"], r["v"] < 0))
        elif f == "enum_iter":
            ctx.count_class((f, r["E"], r["v"] == r["w"], r["v"] + 1 == r["n"]))
        elif f == "spiral":
            ctx.count_class((f, r["T"], r["d"], tuple(r["o"])))
        elif f in ("moore", "neumann"):
            ctx.count_class((f, r["T"], r["p"][0] < 0, r["p"][1] < 0))
        elif f == "iter_range":
            ctx.count_class((f, r["via"], r["len"], r["i"] == 0, r["j"] == r["len"], r["i"] == r["j"]))
        else:
            ctx.count_class((f, r.get("b", r.get("s")), r.get("e")))


def corruptions(recs):
    out = []

    cur = [None]
    cnt = {}
    PER_KEY = 4    # several candidate records per kind: one accepted corruption must not fail the guard

    def mut(r, fn, why):
        r = copy.deepcopy(r)
        fn(r)
        out.append((r, why, cur[0]))

    def _one(r):
        f = r["f"]
        key = (f + r.get("T", "") if f == "int_range" else f) + ("+rsize" if r.get("rsize", -1) >= 0 and f in ("int_range", "enum_range", "spiral", "iter_range") else "")
        if cnt.get(key, 0) >= PER_KEY:
            return
        cur[0] = key
        if f in ("int_range", "int_range_count", "int_range_rsize", "enum_range", "iter_range", "static_int_range") and len(r["seq"]) >= 3:
            mut(r, lambda x: x["seq"].pop(), "sequence")
            mut(r, lambda x: x["seq"].__setitem__(1, x["seq"][1] + 1), "sequence")
            mut(r, lambda x: x["seq"].append(x["seq"][-1] + 1), "sequence")
            if "size" in r:
                mut(r, lambda x: x.__setitem__("size", x["size"] - 1), "size")
            if r.get("w2", True) and len(r.get("seq2", [])) >= 3:
                mut(r, lambda x: x["seq2"].pop(0), "sequence-by-post-increment")
                mut(r, lambda x: x["seq2"].append(x["seq2"][-1] + 1), "sequence-by-post-increment")
            if r.get("rsize", -1) >= 0:
                mut(r, lambda x: x.__setitem__("rsize", x["rsize"] + 1), "range-size")
            cnt[key] = cnt.get(key, 0) + 1
        elif f == "int_range_wide" and len(r["seq"]) >= 2:
            mut(r, lambda x: x["seq"].pop(), "sequence")
            mut(r, lambda x: x["seq"].__setitem__(0, x["seq"][1]), "sequence")
            mut(r, lambda x: x.__setitem__("size", x["size"] + 1), "size")
            mut(r, lambda x: x["seq2"].pop(0), "sequence-by-post-increment")
            cnt[key] = cnt.get(key, 0) + 1
        elif f == "cyclic" and r["len"] >= 3 and abs(r["n"]) >= 4:
            ln = r["len"]
            mut(r, lambda x: x.__setitem__("adv", (x["adv"] + 1) % ln), "advance")
            mut(r, lambda x: x.__setitem__("adv", x["adv"] - ln), "leaves-boundary")
            mut(r, lambda x: x["steps"].__setitem__(2, (x["steps"][2] + 1) % ln), "single-steps")
            mut(r, lambda x: x.__setitem__("plus", (x["plus"] + 1) % ln), "operator-plus")
            mut(r, lambda x: x.__setitem__("sub", (x["sub"] + 1) % ln), "operator-minus")
            mut(r, lambda x: x.__setitem__("advv", x["advv"] + 1), "dereference")
            mut(r, lambda x: x.__setitem__("npa", (x["npa"] + 1) % ln), "operator-plus-commuted")
            mut(r, lambda x: x.__setitem__("minus", (x["minus"] + 1) % ln), "operator-minus")
            mut(r, lambda x: x.__setitem__("subi", (x["subi"] + 1) % ln), "subscript")
            mut(r, lambda x: x.__setitem__("subi", x["start"] + x["n"]), "leaves-boundary")      # plain pointer arithmetic
            mut(r, lambda x: x.__setitem__("arrow", (x["arrow"] + 1) % ln), "arrow")
            mut(r, lambda x: x["olds"].__setitem__(0, x["steps"][0]), "step-return-values")       # post-increment returns the new position
            mut(r, lambda x: x.__setitem__("w2", (x["w2"] + 1) % ln), "step-return-values")
            mut(r, lambda x: x.__setitem__("preself", False), "step-return-values")
            cnt[key] = cnt.get(key, 0) + 1
        elif f == "cyclic_list" and r["len"] >= 3 and abs(r["n"]) >= 4:
            ln = r["len"]
            mut(r, lambda x: x["steps"].__setitem__(2, (x["steps"][2] + 1) % ln), "single-steps")
            mut(r, lambda x: x["steps"].__setitem__(1, -99), "leaves-boundary")
            mut(r, lambda x: x["olds"].__setitem__(0, x["steps"][0]), "step-return-values")
            cnt[key] = cnt.get(key, 0) + 1
        elif f == "cyclic_ra" and r["len"] >= 3 and r["i"] != r["j"] and r["n"] not in (0,):
            ln = r["len"]
            mut(r, lambda x: x.__setitem__("apn", (x["apn"] + 1) % ln), "operator-plus")
            mut(r, lambda x: x.__setitem__("back", (x["back"] + 1) % ln), "plus-then-minus")
            mut(r, lambda x: x.__setitem__("reach", (x["reach"] + 1) % ln), "advance-by-difference")
            mut(r, lambda x: x.__setitem__("sub", x["sub"] + 1), "subscript-value")
            mut(r, lambda x: x.__setitem__("subi", (x["subi"] + 1) % ln), "subscript")
            mut(r, lambda x: x.__setitem__("arrow", (x["arrow"] + 1) % ln), "arrow")
            mut(r, lambda x: x.__setitem__("pdecret", (x["pdecret"] + 1) % ln), "increment-return-values")
            mut(r, lambda x: x.__setitem__("pdec", (x["pdec"] + 1) % ln), "decrement")
            mut(r, lambda x: x.__setitem__("lt", not x["lt"]), "ordering-vs-difference")
            mut(r, lambda x: x.__setitem__("eq", not x["eq"]), "equality")
            mut(r, lambda x: x.__setitem__("postold", (x["postold"] + 1) % ln), "increment-return-values")
            mut(r, lambda x: x.__setitem__("post", (x["post"] + 1) % ln), "increment")
            mut(r, lambda x: x.__setitem__("dec", (x["dec"] + 1) % ln), "decrement")
            mut(r, lambda x: x.__setitem__("swa", x["swb"]), "swap")
            mut(r, lambda x: x.__setitem__("apn", x["apn"] + ln), "leaves-boundary")
            cnt[key] = cnt.get(key, 0) + 1
        elif f == "int_iter" and r["v"] != r["w"]:
            mut(r, lambda x: x.__setitem__("deref", x["deref"] + 1), "dereference")
            mut(r, lambda x: x.__setitem__("postold", x["postold"] + 1), "increment")
            mut(r, lambda x: x.__setitem__("preret", x["preret"] - 1), "increment")
            mut(r, lambda x: x.__setitem__("ne", False), "equality")
            mut(r, lambda x: x.__setitem__("swa", x["swb"]), "swap")
            cnt[key] = cnt.get(key, 0) + 1
        elif f == "enum_iter" and r["v"] != r["w"] and r["v"] + 1 < r["n"]:
            mut(r, lambda x: x.__setitem__("postold", x["postold"] + 1), "dereference")
            mut(r, lambda x: x.__setitem__("pre", x["pre"] + 1), "increment")
            mut(r, lambda x: x.__setitem__("eq", True), "equality")
            cnt[key] = cnt.get(key, 0) + 1
        elif f == "spiral" and r["d"] >= 2:
            mut(r, lambda x: x["vis"].pop(), "not-the-manhattan-disk")
            mut(r, lambda x: x["vis"].__setitem__(3, x["vis"][2]), "position-visited-twice")
            mut(r, lambda x: x["vis"].reverse(), "distance-decreases")
            if r["rsize"] >= 0:
                mut(r, lambda x: x.__setitem__("rsize", x["rsize"] + 1), "range-size")
            mut(r, lambda x: x["vis2"].pop(0), "walk-by-post-increment")
            cnt[key] = cnt.get(key, 0) + 1
        elif f in ("moore", "neumann"):
            mut(r, lambda x: x["r"].__setitem__(0, x["p"]), f + "-neighbours")
            mut(r, lambda x: x["r"].__setitem__(1, x["r"][0]), f + "-neighbours")
            cnt[key] = cnt.get(key, 0) + 1
    for r in recs:
        try:
            _one(r)
        except (IndexError, KeyError, ValueError, StopIteration):
            pass    # this record is not a usable candidate
    return out


def check_corruptions(ctx, cor, bad):
    """Per (kind of record, expected reason): at least one of the corrupted candidate records must be
    rejected by the judge with that reason.  A single candidate on which the corruption happens to leave
    a value the specification also accepts does not fail the guard; only a kind/reason for which NO
    candidate is rejected does (exit 2)."""
    groups = {}
    for i, (rec, why, key) in enumerate(cor):
        got = bad.get(i + 1, [])
        ok = why in got or "obs:" + why in got
        g = groups.setdefault((str(key), why), [0, 0, rec, got])
        g[0] += 1
        g[1] += 1 if ok else 0
    failed = [(k, g) for k, g in groups.items() if g[1] == 0]
    if failed:
        k, g = failed[0]
        raise vlib.Infra("sensitivity guard: none of the %d corrupted %s records (expected reason %s) was rejected, e.g. judged %s: %s" % (
            g[0], k[0], k[1], g[3], json.dumps(g[2])[:300]))
    rejected = sum(g[1] for g in groups.values())
    ctx.extra["judge_sensitivity"] = {"corrupted_records": len(cor), "rejected_with_expected_reason": rejected,
                                      "groups": len(groups), "every_group_rejected": True, "all_rejected": rejected == len(cor)}


def sensitivity_guard(ctx, lines):
    """corrupt copies of records the judge currently explains completely (records with any reason - a
    violation or an observation - are no candidates); a kind whose records are all unexplained is skipped"""
    unexpl = getattr(ctx, "unexplained", set())
    cand = [l for l in lines[::97] + [l for l in lines if '"f":"int_range"' not in l or '"rsize":-1' not in l] if l not in unexpl]
    recs = [json.loads(l) for l in cand]
    cor = corruptions(recs)
    kinds = set(c[0]["f"] for c in cor)
    touched = set(json.loads(l)["f"] for l in unexpl)
    need = {"int_range", "int_range_count", "int_range_rsize", "int_range_wide", "enum_range", "cyclic", "cyclic_list", "spiral", "moore", "neumann",
            "iter_range", "static_int_range", "cyclic_ra", "int_iter", "enum_iter"}
    missing = need - kinds - touched
    if missing:
        raise vlib.Infra("sensitivity guard: no corruptible record for %s" % sorted(missing))
    p = os.path.join(ctx.workdir, "corrupted.ndjson")
    vlib.write_ndjson(p, [c[0] for c in cor])
    # (RecordLoop lists at most 300 rejected records per run; judge_light re-judges in pieces of 250)
    bad = {b["l"]: b["why"] for b in judge_light(ctx, JUDGE, JUDGE_CFG, p, par=4, piece=250)}
    check_corruptions(ctx, cor, bad)
    ctx.extra["judge_sensitivity"]["kinds_skipped_because_unexplained"] = sorted((need - kinds) & touched)


def run(ctx):
    thorough = ctx.tier == "thorough"
    # the harness units are compiled while TLC checks the specification
    import concurrent.futures
    pool = concurrent.futures.ThreadPoolExecutor(max_workers=1)
    build_f = pool.submit(build, ctx)
    try:
        _model_checks(ctx, thorough)
    except BaseException:
        try:
            build_f.result()
        except Exception:
            pass
        raise
    finally:
        pool.shutdown(wait=True)
    _code_to_spec(ctx, build_f.result())


def _model_checks(ctx, thorough):
    # 1. the specification itself
    for t in ("i8", "u8"):
        vlib.tlc_mc(ctx, "IntIter", "MC_IntIter_%s_edge.cfg" % t, workers=8, xmx="2g")
        vlib.tlc_mc(ctx, "IntIter", "MC_IntIter_%s.cfg" % t if thorough else "MC_IntIter_%s_shallow.cfg" % t, timeout=3000, xmx="2g")
    vlib.tlc_mc(ctx, "Cyclic", "MC_Cyclic.cfg", workers=4, xmx="2g")
    vlib.tlc_mc(ctx, "Spiral", "MC_Spiral.cfg", workers=4, xmx="2g")

    def guard(g):
        mod, cfg, inv = g
        r = vlib.tlc(mod, cfg, workers=2, xmx="1g", expect=inv)
        if inv not in r.invariant_violated:
            raise vlib.Infra("vacuity guard: %s/%s did not violate %s" % (mod, cfg, inv))
        return {"module": mod, "cfg": cfg, "violates": inv}
    ctx.extra["vacuity_guards"] = vlib.parallel(guard, GUARDS, workers=6)


def _code_to_spec(ctx, bins):
    # 2. code -> spec: every unit in its own process (restarted behind a failing call)
    scope_of = {u[0]: u[2] for u in UNITS}
    t0 = time.time()
    res = vlib.parallel(lambda u: (u, record_unit(ctx, u, bins[u], ctx.tier)), [u[0] for u in UNITS if u[0] in bins], workers=vlib.NCPU)
    vlib.log("harness: %d units recorded in %.1fs" % (len(res), time.time() - t0))
    tagged, clean = [], True
    # the long unit last: a flood of rejected int_range records (RecordLoop lists 300 per chunk) does not hide the others
    for unit, (ulines, fails, gave_up) in sorted(res, key=lambda x: x[0] == "int"):
        report_failures(ctx, unit, scope_of[unit], fails, gave_up, "exhaustive enumeration")
        clean = clean and not fails
        tagged += [(l, not scope_of[unit]) for l in ulines]
        ctx.extra.setdefault("records_per_unit", {})[unit] = len(ulines)
    lines = judge_lines(ctx, tagged, "exhaustive enumeration")
    # every record is the walk of one range / iterator from begin() to end() (or one batch of
    # single steps): one behaviour of the corresponding machine
    ctx.traces_validated += sum(1 for l in lines if '"seq":' in l or '"vis":' in l or '"steps":' in l)
    if lines:
        count_classes(ctx, lines)
        for pat in ('"f":"int_range","T":"i8","st":false,"via":"mk","b":120,"e":127', '"f":"cyclic","len":5,"start":2,"n":-13',
                    '"f":"spiral","T":"i32","o":[-3,2],"d":2', '"f":"int_range_wide","T":"i64"', '"f":"enum_range","E":"e9","n":9,"via":"start_end","s":3,"e":6'):
            for l in lines:
                if pat in l:
                    ctx.sample(json.loads(l))
                    break
        if clean and not ctx.violations and len(bins) == len(UNITS):
            sensitivity_guard(ctx, lines)
    ctx.exhaustive = True
    ctx.rule = ("exhaustive enumeration by the harness: every (b,e) and every count of int8_t/uint8_t (strong typedefs of both: every pair in the "
                "thorough tier, every 7th plus all pairs at most 2 apart or touching a limit in the quick tier); 16/32-bit and strong-typedef int "
                "boundary lattices (empty, inverted, <= 8 long); 32/64-bit boundary lattices as limbs; every sub-range of enums with 1, 3, 5, 9 "
                "enumerators; cyclic boundaries 1..6 x all starts x n in -20..20; spiral d 0..6 (thorough 0..8) from 5 origins, int and long; "
                "neighbour helpers on a 5x5 block; iterator::range / make_range / adapt_range on vectors of length 0..5; "
                "a class = (function, type, variant, shape: inverted/empty/length bucket, which type limits are touched, sign and wrap class of n)")
    ctx.assumptions += [
        "size() of a range whose element count does not fit the range's own type is not constrained (not judged); such ranges of 32/64-bit types are not driven",
        "enum ranges with start > end, spiral distances < 0 and unsigned neighbour positions with a zero coordinate are API preconditions and are not driven",
        "the order inside one ring of the spiral and the order of the neighbour arrays are not constrained by the statement (judged as sets)",
        "values of 32/64-bit types are logged biased as base-2^15 limbs; the judge compares limb sequences",
        "undefined behaviour inside the driven calls is only OBSERVED (ASan/UBSan), not decided by the spec",
    ]


def replay(ctx, payload):
    pl = payload["payload"]
    rec = pl.get("record")
    if pl.get("unit") and not rec:
        # a unit that did not compile / died outside a call: build (and run) that unit again
        unit = pl["unit"]
        bins = build(ctx, only=(unit,))
        if unit in bins:
            lines, fails, gave_up = record_unit(ctx, unit, bins[unit], "quick")
            report_failures(ctx, unit, True, fails, gave_up, "replay")
            judge_lines(ctx, [(l, False) for l in lines], "replay", "replay_unit")
        ctx.traces_validated += 1
        ctx.count_class("replay")
        ctx.count_class("replay2")
        ctx.rule = "replay of one harness unit"
        return
    if not rec:
        raise vlib.Infra("replay file carries no record")
    unit = UNIT_OF_KIND.get(rec.get("f"), "obs")
    bins = build(ctx, only=(unit,))
    if unit in bins:
        ipath = os.path.join(ctx.workdir, "replay_in.ndjson")
        vlib.write_ndjson(ipath, [rec])
        opath = os.path.join(ctx.workdir, "replay_out.ndjson")
        rc, out = vlib.run_harness(bins[unit], ["replay", ipath, opath], timeout=300)
        good, tail = vlib.check_trace_file(opath) if os.path.exists(opath) else ([], None)
        good = [l for l in good if not l.startswith('{"e":"crash"')]
        if rc != 0:
            report_failures(ctx, unit, unit != "obs", [({66: "sanitizer", 67: "crash", 68: "hang", 124: "timeout"}.get(rc, "exit%d" % rc), rc, tail, out)], False, "replay")
        judge_lines(ctx, [(l, unit == "obs") for l in good], "replay", "replay")
    ctx.traces_validated += 1
    ctx.count_class("replay")
    ctx.count_class("replay2")
    ctx.rule = "replay of one saved record"
