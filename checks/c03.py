"""C03 - fcppt::options command-line parsing accounts for every argument and matches its reference.

1. gen/options_family.py emits the parser-shape family twice: as C++ (the real fcppt::options
   parsers) and as parsers.json (the ASTs spec/Options.tla evaluates).
2. The harness measures Extract(T, token) with a plain std::istringstream (a constant table of the
   specification, not specified by it) and records constructor outcomes and parse / parse_help
   results for every shape and every argument vector of the tier.
3. TLC model-checks the rule set itself (spec/OptionsMC.tla): one state per (shape, argv), design
   invariants ConsumedExactlyOnce / OptionValueNotPositional / FlagNeverFails / HelpLaw; vacuity
   guards (nine re-introduced defects - three in the consumption rules, six in the propagation of
   option names into the parse context - must violate the named invariant); four stronger readings
   are run for information and their counterexamples recorded (never a verdict).
4. spec/OptionsJudge.tla (TLC) judges every recorded constructor outcome / parse result.
ASan/UBSan reports, crashes and hangs (CPU-time watchdog in the harness) of a driven call are turned
into rejected records naming the call (observed, not decided); the harness is run in parts and a part
is resumed behind the shape whose drive killed it, so every other shape is still driven and judged.  An
exception leaving parse / parse_help is a record ("exc") the judge rejects.  If a generated translation
unit does not compile against the tree under test, the shapes are compiled one per unit: a shape inside
the statement that does not compile is a VIOLATION C03:<shape>:does-not-compile, a shape outside it
(make_base / make_cref) an OBSERVATION; everything that compiles is still driven and judged."""
import importlib.util
import json
import os
import re
import subprocess
import time

import vlib

LEVEL = "model_checking"
JUDGE = "OptionsJudge"
JUDGE_CFG = "OptionsJudge.cfg"
NPARTS_SRC = 16     # generated translation units
GEN_DIR = os.path.join(vlib.BUILD, "gen", "c03")


# --------------------------------------------------------------------------- family / harness


def generate():
    spec = importlib.util.spec_from_file_location("options_family", os.path.join(vlib.VERIF, "gen", "options_family.py"))
    mod = importlib.util.module_from_spec(spec)
    spec.loader.exec_module(mod)
    files, js = mod.emit(GEN_DIR, NPARTS_SRC)
    return files, js, mod


def build(files):
    return vlib.build_harness("c03_options", ["c03_options.cpp"] + files, libs=("core", "options"))


def compile_error_line(out):
    m = re.search(r"[^\n]*(?:error:|Error )[^\n]*", out)
    return re.sub(r"\s+", " ", m.group(0) if m else out[-300:])[:400]


def compiles(src):
    """compile one harness unit exactly as vlib.build_harness would (same object cache)"""
    san, opt = "asan", "-O1"
    flags = vlib.base_flags(san, opt, ())
    tag = vlib.sha((vlib.REPO + san + opt + "").encode())[:10]
    obj = os.path.join(vlib.mkdir(os.path.join(vlib.BUILD, "obj", tag)), "h_c03_options_" + os.path.basename(src) + ".o")
    for attempt in (0, 1):
        try:
            vlib.compile_obj(src, obj, flags)
            return True, ""
        except vlib.Infra as e:
            if re.search(r"\berror:", str(e)):
                return False, str(e)
            if attempt:
                raise      # killed twice without a diagnostic: the machine, not the tree
            time.sleep(5)


def build_what_compiles(ctx, mod, js, files, first_error):
    """A generated unit does not compile against the tree under test.  This is a statement about the
    tree (its library builds - vlib compiled it - and the same units compile on the registered tree),
    never an infrastructure failure: find the shapes that do not compile (one unit per shape), report
    them, replace them by empty stubs and build the rest."""
    t0 = time.time()
    core = [os.path.join(vlib.HARNESS, "c03_options.cpp"), files[-1]]          # main, registry
    for src in core:
        ok, out = compiles(src)
        if not ok:
            ctx.reject("C03:parse:does-not-compile",
                       "the harness core %s (includes the public headers of every parser the statement names, calls parse / "
                       "parse_help) does not compile against this tree: %s" % (os.path.basename(src), compile_error_line(out)),
                       {"records": [], "unit": os.path.basename(src)})
            return None
    res = vlib.parallel(compiles, files[:-1])
    good = [f for f, (ok, out) in zip(files[:-1], res) if ok]
    ws = wrap_shapes(js)
    failing = {}        # shape id -> compiler message

    def in_unit(k):
        return [sh["id"] for sh in js["shapes"] if (sh["id"] - 1) % NPARTS_SRC == k]

    def one_per_shape(ids):
        iso = mod.emit_isolated(GEN_DIR, ids)
        for i, (ok, out) in zip(ids, vlib.parallel(lambda i: compiles(iso[i]), ids)):
            if ok:
                good.append(iso[i])
            else:
                failing[i] = out

    def reduce_unit(k):
        """the shapes of unit k the compiler's messages point into (lines of the unit) are taken out;
        if the rest compiles they are the ones that do not compile, otherwise every shape of the unit
        is compiled on its own"""
        out = res[k][1]
        base = os.path.basename(files[k])
        lines = {int(m.group(1)) for m in re.finditer(re.escape(base) + r":(\d+)", out)}
        blamed = [i for i in in_unit(k) if any(mod.LAYOUT[i][1] <= l <= mod.LAYOUT[i][2] for l in lines)]
        if blamed and len(blamed) < len(in_unit(k)):
            red = mod.emit_reduced(GEN_DIR, NPARTS_SRC, k, set(blamed))
            ok, _ = compiles(red)
            if ok:
                return k, red, blamed
        elif blamed:
            return k, None, blamed
        return k, None, None

    bad_units = [k for k, (ok, out) in enumerate(res) if not ok]
    for k, red, blamed in vlib.parallel(reduce_unit, bad_units):
        if blamed is None:
            one_per_shape(in_unit(k))
            continue
        if red:
            good.append(red)
        for i in blamed:
            failing[i] = res[k][1]
    stubs = sorted(failing)
    # A VIOLATION is only taken for a shape whose OWN unit (nothing but that shape) was seen not to
    # compile; the blame by line numbers is confirmed that way for the first few shapes inside the
    # statement, the other blamed shapes are merely not driven (listed in the evidence).
    inside = [i for i in stubs if i not in ws]
    confirm = inside[:4]
    iso = mod.emit_isolated(GEN_DIR, confirm)
    confirmed = {i: out for i, (ok, out) in zip(confirm, vlib.parallel(lambda i: compiles(iso[i]), confirm)) if not ok}
    if confirm and not confirmed and not any(i in ws for i in stubs):
        raise vlib.Infra("units do not compile but every blamed shape compiles on its own: %s" % compile_error_line(first_error))
    for i in stubs:
        sh = js["shapes"][i - 1]
        msg = "shape %d %s %s does not compile against this tree: %s" % (
            i, sh["name"], json.dumps(sh["p"], separators=(",", ":"))[:300], compile_error_line(confirmed.get(i, failing[i])))
        if i in ws:
            o = ctx.extra.setdefault("observations", {}).setdefault("C03:%s:does-not-compile" % sh["name"], {"count": 0, "example": msg})
            o["count"] += 1
            vlib.log("OBSERVATION (outside the statement of C03, not a verdict): " + msg)
        elif i in confirmed:
            # "every well-formed parser definition ... can be constructed for every value type" /
            # "for every options parser composed of ...": a composition the code rejects at compile time
            ctx.reject("C03:%s:does-not-compile" % sh["name"], msg, {"records": [{"s": i, "a": []}], "shape": sh["name"]})
        else:
            vlib.log("not driven (blamed by the compiler's messages for its unit): " + msg[:300])
    stub = os.path.join(GEN_DIR, "c03_stubs.cpp")
    mod.write_if_changed(stub, "// GENERATED: shapes that do not compile against the tree under test\nnamespace c03\n{\nclass driver;\n}\n" +
                         "".join("void c03_run_shape_%d(c03::driver &) {}\n" % i for i in stubs))
    ctx.extra["shapes_not_compiling"] = [js["shapes"][i - 1]["name"] for i in stubs]
    vlib.log("build: %d unit(s) do not compile, %d shape(s) taken out (%.1fs)" % (len(bad_units), len(stubs), time.time() - t0))
    return vlib.build_harness("c03_options", ["c03_options.cpp"] + good + [stub, files[-1]], libs=("core", "options"))


def headers_probe():
    """Compile (syntax only) one TU that includes every public parser header, in two orders, from the
    current tree, WITHOUT the harness' work-around.  Returns a 'headers' record."""
    msgs = []
    ok = True
    for defs in ((), ("C03_PROBE_REVERSE", )):
        cmd = vlib.base_flags("none", "-O0", defs) + ["-fsyntax-only", os.path.join(vlib.HARNESS, "c03_headers_probe.cpp")]
        p = subprocess.run(cmd, stdout=subprocess.PIPE, stderr=subprocess.STDOUT, text=True, errors="replace")
        if p.returncode != 0:
            ok = False
            m = re.search(r"[^\n]*error:[^\n]*", p.stdout)
            msgs.append(m.group(0) if m else p.stdout[-300:])
    return {"f": "headers", "ok": ok, "msg": "; ".join(msgs)[:600]}


def tok_str(js, g):
    return "".join(chr(c) for c in js["tokens"][g - 1])


def argv_str(js, a):
    return [tok_str(js, g) for g in a]


# --------------------------------------------------------------------------- TLC on the rule set


def mc_env(part=0, parts=1):
    return {"C03_PART": str(part), "C03_PARTS": str(parts)}


def first_counterexample(out):
    sid = re.findall(r"/\\ sid = (\d+)", out)
    av = re.findall(r"/\\ argv = <<(.*?)>>", out)
    if not sid or not av:
        return None
    a = [int(x) for x in av[-1].replace(" ", "").split(",") if x]
    return int(sid[-1]), a


def model_check(ctx, js, thorough):
    jobs = []
    # (a) every (shape, argv <= 4) as an initial state, shapes split over 4 TLC processes
    for part in range(4):
        jobs.append(("mc", "MC_Options_quick.cfg", mc_env(part, 4), 4, None))
    # (b) vacuity guards: each re-introduced defect must break the named invariant
    jobs += [("bug", "MC_Options_bug_nextarg.cfg", mc_env(), 1, "OptionValueNotPositional"),
             ("bug", "MC_Options_bug_useflag.cfg", mc_env(), 1, "ConsumedExactlyOnce"),
             ("bug", "MC_Options_bug_optional.cfg", mc_env(), 1, "ConsumedExactlyOnce")]
    # ... and so must dropping any composite's contribution to option_names() (parse context)
    jobs += [("bug", "MC_Options_bug_names_%s.cfg" % b, mc_env(), 1, "OptionValueNotPositional")
             for b in ("sum_left_only", "sum_right_only", "product_left_only", "product_right_only",
                       "optional_none", "many_none")]
    # ... an argument reporting "nothing left" as an other error must break the error-kind law, and
    # the reference usage renderer with a defect must break the structural usage requirements
    jobs += [("bug", "MC_Options_bug_kind.cfg", mc_env(), 1, "ErrorKindLaw")]
    # ... and a combinator that hands on the wrong state / kind with a missing error must break the
    # error-state law (tokens absent from the carried state = tokens with a consumption event)
    jobs += [("bug", "MC_Options_bug_state_%s.cfg" % b, mc_env(), 1, "ErrorStateLaw")
             for b in ("sum_left", "product_orig", "sum_other_miss", "sum_threads_left")]
    jobs += [("bug", "MC_Options_bug_usage_%s.cfg" % b, mc_env(), 1, "UsageModelOK")
             for b in ("product_drops_right", "optional_no_brackets", "flag_no_short", "no_default")]
    # (c) stronger readings, for information
    jobs += [("obs", "MC_Options_obs_dropped.cfg", mc_env(), 1, "ObsNothingDropped"),
             ("obs", "MC_Options_obs_flagstrict.cfg", mc_env(), 1, "ObsFlagNeverFailsStrict"),
             ("obs", "MC_Options_obs_anycontext.cfg", mc_env(), 2, "ObsOptionValueNotPositionalAnyContext"),
             ("obs", "MC_Options_obs_successor.cfg", mc_env(), 1, "ObsSuccessorOfOptionNameNotPositional")]

    def one(job):
        kind, cfg, env, workers, inv = job
        if kind == "mc":
            return job, vlib.tlc_mc(ctx, "OptionsMC", cfg, workers=workers, env=env, timeout=1500)
        return job, vlib.tlc("OptionsMC", cfg, workers=workers, env=env, timeout=1500)

    results = vlib.parallel(one, jobs, workers=8)
    for (kind, cfg, env, workers, inv), r in results:
        if kind == "bug":
            if inv not in r.invariant_violated:
                raise vlib.Infra("vacuity guard: %s did not violate %s (violated: %s)" % (cfg, inv, r.invariant_violated))
            ce = first_counterexample(r.out)
            ctx.extra.setdefault("vacuity_guards", []).append(
                {"cfg": cfg, "violates": inv, "states": r.distinct,
                 "shape": js["shapes"][ce[0] - 1]["name"] if ce else None, "argv": argv_str(js, ce[1]) if ce else None})
        elif kind == "obs":
            ce = first_counterexample(r.out) if inv in r.invariant_violated else None
            if r.invariant_violated and inv not in r.invariant_violated:
                raise vlib.Infra("observation run %s violated %s" % (cfg, r.invariant_violated))
            ob = {"reading": inv, "holds_within_bound": not r.invariant_violated, "states": r.distinct}
            if ce:
                ob["counterexample"] = {"shape": js["shapes"][ce[0] - 1]["name"], "argv": argv_str(js, ce[1])}
            ctx.extra.setdefault("design_observations", []).append(ob)
            vlib.log("observation %s: %s" % (inv, "holds for argv <= 4" if not r.invariant_violated else "counterexample %s" % ob.get("counterexample")))
    if thorough:
        # (d) argv <= 5 for every shape, <= 6 for the cheapest ones, vectors grown by Next (all workers)
        r = vlib.tlc_mc(ctx, "OptionsMC", "MC_Options_thorough.cfg", env=mc_env(), timeout=3000, coverage=True)
        cov = r.coverage()
        if cov and any(t == 0 for (t, g) in cov.values()):
            raise vlib.Infra("coverage: an action was never taken: %s" % cov)
        ctx.extra["coverage"] = {k: list(v) for k, v in cov.items()}


# --------------------------------------------------------------------------- judging


def wrap_shapes(js):
    def has(p):
        if isinstance(p, dict):
            return p.get("k") == "wrap" or any(has(v) for v in p.values())
        if isinstance(p, list):
            return any(has(v) for v in p)
        return False
    return {s["id"] for s in js["shapes"] if has(s["p"])}


def split_scope(js, path):
    """-> (records inside the statement of C03, records observed only); the decision itself is the
    in_scope flag of spec/OptionsJudge.tla, this split only keeps the two kinds in separate passes"""
    ws = wrap_shapes(js)
    a, b = path + ".scope", path + ".obs"
    with open(path) as f, open(a, "w") as fa, open(b, "w") as fb:
        for l in f:
            if l.startswith('{"f":"run"') or l.startswith('{"f":"usage"'):
                fb.write(l)
                continue
            if ws and (l.startswith('{"f":"parse') or l.startswith('{"f":"ctor"')):
                i = l.index('"s":') + 4
                j = i
                while l[j].isdigit():
                    j += 1
                if int(l[i:j]) in ws:
                    fb.write(l)
                    continue
            fa.write(l)
    return a, b


def observe(ctx, js, signature, rec, line):
    """a disagreement outside the statement of C03: counted and written to the evidence, never a verdict"""
    obs = ctx.extra.setdefault("observations", {})
    o = obs.setdefault(signature, {"count": 0, "example": None})
    o["count"] += 1
    if o["example"] is None:
        o["example"] = {"record": json.loads(line[:100000]) if len(line) < 100000 else line[:400], "about": describe(js, rec)[:600]}
        vlib.log("OBSERVATION (outside the statement of C03, not a verdict) %s: %s %s" % (signature, describe(js, rec)[:300], line[:300]))


def lines_at(path, wanted):
    wanted = set(wanted)
    res = {}
    if not wanted:
        return res
    mx = max(wanted)
    with open(path) as f:
        for i, l in enumerate(f, 1):
            if i in wanted:
                res[i] = l.rstrip("\n")
            if i >= mx:
                break
    return res


def describe(js, rec):
    sh = js["shapes"][rec["s"] - 1] if "s" in rec and 1 <= rec["s"] <= len(js["shapes"]) else None
    s = ""
    if sh:
        s += "shape %d %s %s" % (sh["id"], sh["name"], json.dumps(sh["p"], separators=(",", ":"))[:500])
    if "a" in rec:
        s += " argv=%s" % json.dumps(argv_str(js, rec["a"]))
    return s


MAX_RESUME = 4      # a part is resumed at most this often behind a shape whose drive killed the process


def _cheap_ok(l):
    return l.startswith('{"f":"') and l.endswith("}\n")


def _full_ok(l):
    if not _cheap_ok(l):
        return False
    try:
        return isinstance(json.loads(l), dict)
    except ValueError:      # a truncated line may by accident end in "}"
        return False


def salvage(tmp, dst):
    """Append the complete records of a harness output to dst.  Returns the truncated record of the call
    the process died in (None if there is none).  Crash records written by the signal handlers, glued or
    partial lines never reach the judge."""
    tail = None
    try:
        f = open(tmp, errors="replace")
    except OSError:
        return None
    with f:
        held = []
        for l in f:
            held.append(l)
            if len(held) > 6:
                x = held.pop(0)
                if _cheap_ok(x):
                    dst.write(x)
                elif x.strip() and '"e":"crash"' not in x and tail is None:
                    tail = x.rstrip("\n")
        for x in held:
            if not x.strip() or '"e":"crash"' in x:
                continue
            if _full_ok(x):
                dst.write(x)
            elif tail is None:
                tail = x.rstrip("\n")
    return tail


def current_call(tmp):
    """the record prefix of the call the harness process was in when it died (MAP_SHARED page written
    by the harness before every call, cleared after it) - exact even if the stdio buffer was lost"""
    try:
        with open(tmp + ".cur", "rb") as f:
            b = f.read(4096)
    except OSError:
        return None
    b = b.split(b"\0", 1)[0].decode(errors="replace")
    return b if b.startswith('{"f":"') else None


def report_death(ctx, js, rc, out, tail, what):
    """The harness process died (sanitizer report, crash, hang, timeout) - something the code under test
    did inside a driven call: a rejected record naming the call.  Returns the shape being driven."""
    op, sid = None, None
    payload = {"records": [], "partial_line": tail}
    if tail:
        m = re.search(r'"f":"(\w+)"', tail)
        op = m.group(1) if m else None
        m = re.search(r'"s":(\d+)(?:,"a":(\[[\d,]*\]))?', tail)
        if m:
            sid = int(m.group(1))
            payload["records"].append({"s": sid, "a": json.loads(m.group(2)) if m.group(2) else []})
    if op not in ("parse", "parse_help", "run", "usage", "ctor"):
        op = "parse"      # died outside a record (e.g. killed with an unflushed buffer): the harness only drives parsers
    kind = {66: "sanitizer", 67: "crash", 68: "hang", 124: "timeout"}.get(rc, "exit%d" % rc)
    san = re.search(r"(ERROR: \w+Sanitizer: [^\n]*|runtime error: [^\n]*)", out)
    msg = "%s during %s (%s): %s; truncated record: %s; %s" % (
        kind, op, what, san.group(1) if san else re.sub(r"\s+", " ", out[-300:]), (tail or "")[:300],
        describe(js, payload["records"][0]) if payload["records"] else "")
    if op in ("run", "usage"):       # calls outside the statement of C03: observed only
        o = ctx.extra.setdefault("observations", {}).setdefault("C03:%s:%s" % (op, kind), {"count": 0, "example": msg})
        o["count"] += 1
        vlib.log("OBSERVATION (not a verdict): " + msg)
    else:
        ctx.reject("C03:%s:%s" % (op, kind), msg, payload)
    return sid


def record(ctx, js, binary, path, plan, part, parts, what, timeout):
    """Run one part of the harness (plan = max_len, max_len_cheap, random_n, random_len, seed, run_len)
    into path.  If the process dies, its complete records are kept, the death is reported, and the part
    is resumed behind the shape it was driving."""
    start, attempts = 1, 0
    with open(path, "w") as dst:
        while True:
            tmp = "%s.run%d" % (path, attempts)
            args = ["record", tmp] + list(plan[:5]) + [part, parts, plan[5]] + ([start] if start > 1 else [])
            rc, out = vlib.run_harness(binary, args, timeout=timeout)
            tail = salvage(tmp, dst)
            tail = current_call(tmp) or tail
            for x in (tmp, tmp + ".cur"):
                try:
                    os.unlink(x)
                except OSError:
                    pass
            if rc == 0:
                break
            sid = report_death(ctx, js, rc, out, tail, "%s, part %d/%d" % (what, part, parts))
            attempts += 1
            if sid is None or attempts > MAX_RESUME:
                vlib.log("part %d/%d of the harness is not resumed (%s)" % (part, parts, "no shape named" if sid is None else "resumed %d times" % MAX_RESUME))
                break
            start = sid + 1


def record_all(ctx, js, binary, path, plan, parts, what, timeout):
    """all parts in parallel, concatenated into path"""
    paths = ["%s.p%d" % (path, k) for k in range(parts)]
    vlib.parallel(lambda k: record(ctx, js, binary, paths[k], plan, k, parts, what, timeout), list(range(parts)), workers=parts)
    with open(path, "w") as dst:
        for q in paths:
            with open(q) as f:
                for l in f:
                    dst.write(l)
            os.unlink(q)


def judge_file(ctx, js, path, what, nchunks=vlib.NCPU, count=True):
    # records of kinds / shapes outside the property's statement (observed only) are judged in a
    # separate pass so that their disagreements can never crowd out a verdict (RecordLoop keeps at
    # most 300 rejected records per chunk verbatim)
    parts = split_scope(js, path)
    for sub, nch in ((parts[0], nchunks), (parts[1], max(1, nchunks // 2))):
        if os.path.getsize(sub) == 0:
            continue
        bad = vlib.judge_trace(ctx, JUDGE, JUDGE_CFG, sub, nchunks=nch, boundary_key=None, timeout=2400)
        texts = lines_at(sub, [b["l"] for b in bad])
        for b in bad:
            line = texts.get(b["l"], "{}")
            if any("HARNESS-" in w for w in b["why"]):
                raise vlib.Infra("harness / generator defect (%s) at line %d of %s: %s" % (",".join(b["why"]), b["l"], sub, line[:300]))
            rec = json.loads(line)
            inside = sorted(w for w in b["why"] if not w.startswith("OBS:"))
            outside = sorted(w[4:] for w in b["why"] if w.startswith("OBS:"))
            if outside:
                observe(ctx, js, "C03:%s:%s" % (b["op"], "+".join(outside)), rec, line)
            if inside:
                payload = {"records": [{"s": rec["s"], "a": rec.get("a", [])}] if "s" in rec else [], "record": rec}
                if "s" in rec and 1 <= rec["s"] <= len(js["shapes"]):
                    by = ctx.extra.setdefault("rejected_records_by_shape", {})
                    nm = js["shapes"][rec["s"] - 1]["name"]
                    by[nm] = by.get(nm, 0) + 1
                ctx.reject("C03:%s:%s" % (b["op"], "+".join(inside)), "%s: the specification cannot explain %s (%s); %s; record: %s" % (
                    what, b["op"], ",".join(inside), describe(js, rec), line[:400]), payload)
    for sub in parts:
        os.unlink(sub)
    if ctx.extra.get("rejected_records_by_shape"):
        vlib.log("rejected records inside the statement, by shape (at most 300 per judged chunk): %s" % json.dumps(ctx.extra["rejected_records_by_shape"]))
    n = 0
    if count:
        n = count_classes(ctx, path)
    return n


def count_classes(ctx, path, cap=3000000):
    """class of a record = (shape, argv length, outcome); outcome of a success = the shape of the
    returned record (values abstracted to their kind, vectors to their length)"""
    n = 0

    def shape_of(v):
        if isinstance(v, dict):
            if list(v.keys()) == ["v"]:
                return ("v", len(v["v"]))
            if list(v.keys()) == ["s"]:
                return v["s"][:1]
            return tuple(sorted((k, shape_of(x)) for k, x in v.items()))
        if isinstance(v, list):
            return tuple(shape_of(x) for x in v)
        return str(v)[:1]

    with open(path) as f:
        for l in f:
            n += 1
            if n > cap:
                continue
            if '"ok":false' in l and l.startswith('{"f":"parse'):
                i = l.index('"s":') + 4
                j = l.index(",", i)
                a0 = l.index("[", j)
                a1 = l.index("]", a0)
                ln = 0 if a1 == a0 + 1 else l.count(",", a0, a1) + 1
                ctx.count_class((l[6:12], l[i:j], ln, "fail"))
                continue
            if l.startswith('{"f":"run"') and '"k":"ok"' not in l:
                i = l.index('"s":') + 4
                j = l.index(",", i)
                a0 = l.index("[", j)
                a1 = l.index("]", a0)
                ln = 0 if a1 == a0 + 1 else l.count(",", a0, a1) + 1
                ctx.count_class(("run", l[i:j], ln, "miss" if '"k":"miss"' in l else "other"))
                continue
            r = json.loads(l)
            if r["f"] == "run":
                ctx.count_class(("run", str(r["s"]), len(r["a"]), "ok", len(r["st"]), shape_of(r.get("rec"))))
            elif r["f"] == "usage":
                ctx.count_class(("usage", r["s"], len(r.get("lines", []))))
            elif r["f"] in ("parse", "parse_help"):
                ctx.count_class((r["f"][:6], str(r["s"]), len(r["a"]), "help" if r.get("help") else shape_of(r.get("rec"))))
            elif r["f"] == "ctor":
                ctx.count_class(("ctor", r["s"], r["ctor"]))
    return n


def self_test_judge(ctx, js, path):
    """binding demonstration (a): corrupted records must be rejected by the judge"""
    good = []
    with open(path) as f:
        for l in f:
            if '"ok":true' in l and '"rec"' in l:
                good.append(l.rstrip("\n"))
            if len(good) >= 4000:
                break
    picks = good[::max(1, len(good) // 12)][:12]
    extra = {}
    with open(path) as f:
        for l in f:
            if l.startswith('{"f":"run"') and '"k":"miss"' in l and '"a":[]' not in l:
                extra.setdefault("run_miss", l.rstrip("\n"))
            elif l.startswith('{"f":"run"') and '"k":"ok"' in l and '"st":[]' not in l:
                extra.setdefault("run_ok", l.rstrip("\n"))
            elif l.startswith('{"f":"usage"') and l.count('"ind"') >= 3:
                extra.setdefault("usage", l.rstrip("\n"))
            elif l.startswith('{"f":"parse_help"') and '"text"' in l:
                extra.setdefault("help", l.rstrip("\n"))
            if len(extra) == 4:
                break
    picks += [extra[k] for k in sorted(extra)]
    bad_lines = []
    for i, l in enumerate(picks):
        r = json.loads(l)
        if r["f"] == "run" and r["k"] == "miss":
            r["k"] = "other"
            del r["st"]
        elif r["f"] == "run":
            r["st"] = r["st"][1:]
        elif r["f"] == "usage":
            done = False     # drop the first parameter name (first word longer than one character)
            for ln in r["lines"]:
                for k, w in enumerate(ln["w"]):
                    if len(w) >= 2 and not done:
                        del ln["w"][k]
                        done = True
                        break
        elif r["f"] == "parse_help" and "text" in r:
            r["text"] = r["text"] + [{"ind": 0, "w": [[45, 45, 120]]}]
        elif i % 3 == 0:
            r["ok"] = False
            del r["rec"]
        elif i % 3 == 1:
            k = sorted(r["rec"].keys())[0]
            r["rec"]["L99"] = r["rec"].pop(k)
        else:
            r["a"] = r["a"] + [r["a"][0]] if r["a"] else [js["shapes"][r["s"] - 1]["alphabet"][0]]
            # same record for a longer vector: either the reference fails or the record differs
            k = sorted(r["rec"].keys())[0]
            r["rec"][k] = {"s": "i:424242"}
        bad_lines.append(json.dumps(r, separators=(",", ":")))
    if not bad_lines:
        raise vlib.Infra("self-test: no successful parse recorded")
    # originals first, then their corrupted twins: a corrupted record must be rejected whenever its
    # original is accepted (with a defective tree an original may itself be inexplicable)
    p = os.path.join(ctx.workdir, "selftest.ndjson")
    with open(p, "w") as f:
        f.write("\n".join(picks + bad_lines) + "\n")
    bad = {b["l"] for b in vlib.judge_trace(ctx, JUDGE, JUDGE_CFG, p, nchunks=1, boundary_key=None)}
    n = len(picks)
    usable = [i for i in range(n) if (i + 1) not in bad]
    missed = [i for i in usable if (n + i + 1) not in bad]
    if missed or not usable:
        raise vlib.Infra("self-test: judge accepted corrupted records %s (usable %d)" % (
            [bad_lines[i][:200] for i in missed], len(usable)))
    ctx.extra["judge_self_test"] = {"corrupted_records": len(usable), "rejected": len(usable) - len(missed)}


def guarded_self_test(ctx, js, path):
    """verdicts already taken about the real code are never lost to a failing self-test"""
    try:
        self_test_judge(ctx, js, path)
    except vlib.Infra as e:
        if not ctx.violations:
            raise
        vlib.log("judge self-test not conclusive on this tree (violations are reported): %s" % str(e)[:300])


# --------------------------------------------------------------------------- entry points


def prepare(ctx):
    """-> (family, harness binary), or None if a verdict was taken instead (the harness core does not
    compile against the tree under test)"""
    files, js, mod = generate()
    try:
        try:
            binary = build(files)
        except vlib.Infra as e0:
            if re.search(r"\berror:", str(e0)) or not str(e0).startswith("compile failed"):
                raise
            # the compiler died without a diagnostic (killed on a loaded machine): not a statement about the tree
            vlib.log("compiler failed without a diagnostic, building once more: %s" % str(e0)[-200:].replace("\n", " "))
            time.sleep(5)
            binary = build(files)
    except vlib.Infra as e:
        if str(e).startswith("compile failed") and not re.search(r"\berror:", str(e)):
            raise
        m = re.match(r"compile failed: (\S+)", str(e))
        if not m or os.path.realpath(m.group(1)).startswith(os.path.realpath(vlib.REPO) + os.sep):
            raise        # the library itself does not build: the tree's own tests do not build either
        vlib.log("a harness unit does not compile against this tree (%s): compiling one unit per shape" % compile_error_line(str(e)))
        binary = build_what_compiles(ctx, mod, js, files, str(e))
        if binary is None:
            return None
    os.environ["PARSERS"] = os.path.join(GEN_DIR, "parsers.json")
    table = os.path.join(ctx.workdir, "extract.json")
    rc, out = vlib.run_harness(binary, ["table", table], timeout=120)
    if rc != 0:
        raise vlib.Infra("measuring the Extract table failed (rc=%d): %s" % (rc, out[-500:]))
    os.environ["EXTRACT"] = table
    ctx.extra["extract_table"] = json.load(open(table))
    return js, binary


def run(ctx):
    thorough = ctx.tier == "thorough"
    ctx.extra.setdefault("observations", {})   # disagreements outside the statement of C03 (never verdicts)
    prep = prepare(ctx)
    if prep is None:
        ctx.rule = "the harness does not compile against the tree under test (verdict reported)"
        return
    js, binary = prep
    nshapes = len(js["shapes"])
    ctx.extra.setdefault("observations", {})   # disagreements outside the statement of C03 (never verdicts)
    # the rule set itself (C03_SKIP_MC=1: debugging aid for runs against scratch worktrees - the
    # model checks do not depend on the tree under test)
    if os.environ.get("C03_SKIP_MC") != "1":
        model_check(ctx, js, thorough)
    # the public headers
    hp = os.path.join(ctx.workdir, "headers.ndjson")
    vlib.write_ndjson(hp, [headers_probe()])
    judge_file(ctx, js, hp, "header probe", nchunks=1, count=False)
    # code -> spec
    total = 0
    if not thorough:
        tp = os.path.join(ctx.workdir, "recorded.ndjson")
        record_all(ctx, js, binary, tp, [4, 4, 200, 10, ctx.seed, 3], max(1, min(vlib.NCPU, 8)), "argv <= 4 exhaustive + random", 600)
        total += judge_file(ctx, js, tp, "argv <= 4 exhaustive + random")
        guarded_self_test(ctx, js, tp)
        sample_from(ctx, js, tp)
    else:
        parts = 8
        paths = [os.path.join(ctx.workdir, "recorded_%d.ndjson" % k) for k in range(parts)]

        twhat = "argv <= 5 (<= 6 cheap shapes) exhaustive + random"
        vlib.parallel(lambda k: record(ctx, js, binary, paths[k], [5, 6, 5000, 12, ctx.seed, 4], k, parts, twhat, 3000),
                      list(range(parts)), workers=parts)
        for k in range(parts):
            total += judge_file(ctx, js, paths[k], "%s, part %d" % (twhat, k), nchunks=16)
        guarded_self_test(ctx, js, paths[0])
        sample_from(ctx, js, paths[0])
        for p in paths:
            os.unlink(p)
    ctx.evaluations += total
    ctx.traces_validated += total
    ctx.exhaustive = True
    ctx.extra["shapes"] = nshapes
    ctx.rule = ("programs: the %d parser shapes of gen/options_family.py (value types int, unsigned, std::string, enum); "
                "inputs: EVERY argument vector of length <= %s over the shape's 9-token alphabet (own flag / option / "
                "sub-command names, foreign flag, '-', '--', number, word) plus seeded random vectors of length <= 10 that "
                "also use '', '-5', '5w', '--opt=5'; every constructor outcome, parse and parse_help result is one record "
                "judged by TLC; a class = (call, shape, argv length, outcome) where the outcome of a success is the "
                "structure of the returned record (value kinds, vector lengths)" % (
                    nshapes, "5 (6 for the %d cheapest shapes)" % sum(1 for x in js["shapes"] if x["cheap"]) if thorough else "4"))
    ctx.assumptions += [
        "Extract(T, token) (string -> int / unsigned / std::string / enum conversion) is a table measured by the harness with a plain std::istringstream; its correctness is not decided here (C15/C01)",
        "memory safety of the parsers is only OBSERVED through ASan/UBSan in the harness",
        "many() around a parser that can succeed without consuming input does not terminate by design and is excluded from the family (API precondition; the specification reports it as a harness defect)",
        "error message texts and the usage text returned by parse_help are not compared",
        "parse_help is driven with default_help_switch() only, and the family respects the documented precondition that the parser does not use the name 'help'",
        "weaker readings taken (docs/notes_C03.md): ConsumedExactlyOnce counts a token consumed by a sub-parser whose result optional()/many() then discards as consumed; OptionValueNotPositional is relative to the option names the consuming parser's context knows; 'flags never produce an error' excludes the deliberate both-names error",
    ]


def sample_from(ctx, js, path):
    """a few actual records: successes of three different composite shapes, one help text, one
    rejected definition"""
    seen = set()
    extra = {"help": 1, "ctor": 1}
    with open(path) as f:
        for l in f:
            if not (l.startswith('{"f":"parse') or l.startswith('{"f":"ctor"')):
                continue
            if '"ok":true' in l and '"rec"' in l and len(seen) < 3 and l.count(",") > 9 and l.count("{") > 5:
                r = json.loads(l)
                if r["s"] in seen or len(r["a"]) < 3:
                    continue
                seen.add(r["s"])
            elif '"help":true' in l and extra["help"]:
                r = json.loads(l)
                extra["help"] = 0
            elif '"f":"ctor"' in l and '"ctor":"ok"' not in l and extra["ctor"]:
                ctx.sample(json.loads(l))
                extra["ctor"] = 0
                continue
            else:
                continue
            r["argv_text"] = argv_str(js, r["a"])
            r["shape_name"] = js["shapes"][r["s"] - 1]["name"]
            ctx.sample(r)


def replay(ctx, payload):
    prep = prepare(ctx)
    ctx.rule = "replay of one saved record (all constructor outcomes are re-recorded as well)"
    if prep is None:
        return
    js, binary = prep
    pl = payload["payload"]
    if payload.get("signature", "").startswith("C03:headers:"):
        hp = os.path.join(ctx.workdir, "replay_headers.ndjson")
        vlib.write_ndjson(hp, [headers_probe()])
        judge_file(ctx, js, hp, "replay of the header probe", nchunks=1, count=False)
    else:
        sp = os.path.join(ctx.workdir, "replay_script.ndjson")
        vlib.write_ndjson(sp, pl.get("records", []))
        rp = os.path.join(ctx.workdir, "replay_out.ndjson")
        rc, out = vlib.run_harness(binary, ["replay", sp, rp + ".run"], timeout=600)
        with open(rp, "w") as dst:
            tail = salvage(rp + ".run", dst)
        tail = current_call(rp + ".run") or tail
        if rc != 0:
            report_death(ctx, js, rc, out, tail, "replay")
        nrec = len(pl.get("records", []))
        judge_file(ctx, js, rp, "replay", nchunks=max(1, min(vlib.NCPU, nrec // 4000)))
        if nrec <= 50:
            for r in vlib.read_ndjson(rp):
                if r.get("f") in ("parse", "parse_help"):
                    vlib.log("replayed: %s" % json.dumps(r))
    ctx.traces_validated += 1
    ctx.evaluations += 1
    ctx.count_class("replay")
    ctx.count_class("replay2")
    ctx.rule = "replay of one saved record (all constructor outcomes are re-recorded as well)"
