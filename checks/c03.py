"""C03 - fcppt::options command-line parsing accounts for every argument and matches its reference.

1. gen/options_family.py emits the parser-shape family twice: as C++ (the real fcppt::options
   parsers) and as parsers.json (the ASTs spec/Options.tla evaluates).
2. The harness measures Extract(T, token) with a plain std::istringstream (a constant table of the
   specification, not specified by it) and records constructor outcomes and parse / parse_help
   results for every shape and every argument vector of the tier.
3. TLC model-checks the rule set itself (spec/OptionsMC.tla): one state per (shape, argv), design
   invariants ConsumedExactlyOnce / OptionValueNotPositional / FlagNeverFails / HelpLaw; vacuity
   guards (nine re-introduced defects - three in the consumption rules, six in the propagation of
   option names into the parse context - must violate the named invariant); four stronger readings
   are run for information and their counterexamples recorded (never a verdict).
4. spec/OptionsJudge.tla (TLC) judges every recorded constructor outcome / parse result.
ASan/UBSan reports of the harness are turned into rejected records (observed, not decided)."""
import importlib.util
import json
import os
import re
import subprocess

import vlib

LEVEL = "model_checking"
JUDGE = "OptionsJudge"
JUDGE_CFG = "OptionsJudge.cfg"
NPARTS_SRC = 16     # generated translation units
GEN_DIR = os.path.join(vlib.BUILD, "gen", "c03")


# --------------------------------------------------------------------------- family / harness


def generate():
    spec = importlib.util.spec_from_file_location("options_family", os.path.join(vlib.VERIF, "gen", "options_family.py"))
    mod = importlib.util.module_from_spec(spec)
    spec.loader.exec_module(mod)
    files, js = mod.emit(GEN_DIR, NPARTS_SRC)
    return files, js


def build(files):
    return vlib.build_harness("c03_options", ["c03_options.cpp"] + files, libs=("core", "options"))


def headers_probe():
    """Compile (syntax only) one TU that includes every public parser header, in two orders, from the
    current tree, WITHOUT the harness' work-around.  Returns a 'headers' record."""
    msgs = []
    ok = True
    for defs in ((), ("C03_PROBE_REVERSE", )):
        cmd = vlib.base_flags("none", "-O0", defs) + ["-fsyntax-only", os.path.join(vlib.HARNESS, "c03_headers_probe.cpp")]
        p = subprocess.run(cmd, stdout=subprocess.PIPE, stderr=subprocess.STDOUT, text=True, errors="replace")
        if p.returncode != 0:
            ok = False
            m = re.search(r"[^\n]*error:[^\n]*", p.stdout)
            msgs.append(m.group(0) if m else p.stdout[-300:])
    return {"f": "headers", "ok": ok, "msg": "; ".join(msgs)[:600]}


def tok_str(js, g):
    return "".join(chr(c) for c in js["tokens"][g - 1])


def argv_str(js, a):
    return [tok_str(js, g) for g in a]


# --------------------------------------------------------------------------- TLC on the rule set


def mc_env(part=0, parts=1):
    return {"C03_PART": str(part), "C03_PARTS": str(parts)}


def first_counterexample(out):
    sid = re.findall(r"/\\ sid = (\d+)", out)
    av = re.findall(r"/\\ argv = <<(.*?)>>", out)
    if not sid or not av:
        return None
    a = [int(x) for x in av[-1].replace(" ", "").split(",") if x]
    return int(sid[-1]), a


def model_check(ctx, js, thorough):
    jobs = []
    # (a) every (shape, argv <= 4) as an initial state, shapes split over 4 TLC processes
    for part in range(4):
        jobs.append(("mc", "MC_Options_quick.cfg", mc_env(part, 4), 4, None))
    # (b) vacuity guards: each re-introduced defect must break the named invariant
    jobs += [("bug", "MC_Options_bug_nextarg.cfg", mc_env(), 1, "OptionValueNotPositional"),
             ("bug", "MC_Options_bug_useflag.cfg", mc_env(), 1, "ConsumedExactlyOnce"),
             ("bug", "MC_Options_bug_optional.cfg", mc_env(), 1, "ConsumedExactlyOnce")]
    # ... and so must dropping any composite's contribution to option_names() (parse context)
    jobs += [("bug", "MC_Options_bug_names_%s.cfg" % b, mc_env(), 1, "OptionValueNotPositional")
             for b in ("sum_left_only", "sum_right_only", "product_left_only", "product_right_only",
                       "optional_none", "many_none")]
    # ... an argument reporting "nothing left" as an other error must break the error-kind law, and
    # the reference usage renderer with a defect must break the structural usage requirements
    jobs += [("bug", "MC_Options_bug_kind.cfg", mc_env(), 1, "ErrorKindLaw")]
    jobs += [("bug", "MC_Options_bug_usage_%s.cfg" % b, mc_env(), 1, "UsageModelOK")
             for b in ("product_drops_right", "optional_no_brackets", "flag_no_short", "no_default")]
    # (c) stronger readings, for information
    jobs += [("obs", "MC_Options_obs_dropped.cfg", mc_env(), 1, "ObsNothingDropped"),
             ("obs", "MC_Options_obs_flagstrict.cfg", mc_env(), 1, "ObsFlagNeverFailsStrict"),
             ("obs", "MC_Options_obs_anycontext.cfg", mc_env(), 2, "ObsOptionValueNotPositionalAnyContext"),
             ("obs", "MC_Options_obs_successor.cfg", mc_env(), 1, "ObsSuccessorOfOptionNameNotPositional")]

    def one(job):
        kind, cfg, env, workers, inv = job
        if kind == "mc":
            return job, vlib.tlc_mc(ctx, "OptionsMC", cfg, workers=workers, env=env, timeout=1500)
        return job, vlib.tlc("OptionsMC", cfg, workers=workers, env=env, timeout=1500)

    results = vlib.parallel(one, jobs, workers=8)
    for (kind, cfg, env, workers, inv), r in results:
        if kind == "bug":
            if inv not in r.invariant_violated:
                raise vlib.Infra("vacuity guard: %s did not violate %s (violated: %s)" % (cfg, inv, r.invariant_violated))
            ce = first_counterexample(r.out)
            ctx.extra.setdefault("vacuity_guards", []).append(
                {"cfg": cfg, "violates": inv, "states": r.distinct,
                 "shape": js["shapes"][ce[0] - 1]["name"] if ce else None, "argv": argv_str(js, ce[1]) if ce else None})
        elif kind == "obs":
            ce = first_counterexample(r.out) if inv in r.invariant_violated else None
            if r.invariant_violated and inv not in r.invariant_violated:
                raise vlib.Infra("observation run %s violated %s" % (cfg, r.invariant_violated))
            ob = {"reading": inv, "holds_within_bound": not r.invariant_violated, "states": r.distinct}
            if ce:
                ob["counterexample"] = {"shape": js["shapes"][ce[0] - 1]["name"], "argv": argv_str(js, ce[1])}
            ctx.extra.setdefault("design_observations", []).append(ob)
            vlib.log("observation %s: %s" % (inv, "holds for argv <= 4" if not r.invariant_violated else "counterexample %s" % ob.get("counterexample")))
    if thorough:
        # (d) argv <= 5 for every shape, <= 6 for the cheapest ones, vectors grown by Next (all workers)
        r = vlib.tlc_mc(ctx, "OptionsMC", "MC_Options_thorough.cfg", env=mc_env(), timeout=3000, coverage=True)
        cov = r.coverage()
        if cov and any(t == 0 for (t, g) in cov.values()):
            raise vlib.Infra("coverage: an action was never taken: %s" % cov)
        ctx.extra["coverage"] = {k: list(v) for k, v in cov.items()}


# --------------------------------------------------------------------------- judging


def wrap_shapes(js):
    def has(p):
        if isinstance(p, dict):
            return p.get("k") == "wrap" or any(has(v) for v in p.values())
        if isinstance(p, list):
            return any(has(v) for v in p)
        return False
    return {s["id"] for s in js["shapes"] if has(s["p"])}


def split_scope(js, path):
    """-> (records inside the statement of C03, records observed only); the decision itself is the
    in_scope flag of spec/OptionsJudge.tla, this split only keeps the two kinds in separate passes"""
    ws = wrap_shapes(js)
    a, b = path + ".scope", path + ".obs"
    with open(path) as f, open(a, "w") as fa, open(b, "w") as fb:
        for l in f:
            if l.startswith('{"f":"run"') or l.startswith('{"f":"usage"'):
                fb.write(l)
                continue
            if ws and (l.startswith('{"f":"parse') or l.startswith('{"f":"ctor"')):
                i = l.index('"s":') + 4
                j = i
                while l[j].isdigit():
                    j += 1
                if int(l[i:j]) in ws:
                    fb.write(l)
                    continue
            fa.write(l)
    return a, b


def observe(ctx, js, signature, rec, line):
    """a disagreement outside the statement of C03: counted and written to the evidence, never a verdict"""
    obs = ctx.extra.setdefault("observations", {})
    o = obs.setdefault(signature, {"count": 0, "example": None})
    o["count"] += 1
    if o["example"] is None:
        o["example"] = {"record": json.loads(line[:100000]) if len(line) < 100000 else line[:400], "about": describe(js, rec)[:600]}
        vlib.log("OBSERVATION (outside the statement of C03, not a verdict) %s: %s %s" % (signature, describe(js, rec)[:300], line[:300]))


def lines_at(path, wanted):
    wanted = set(wanted)
    res = {}
    if not wanted:
        return res
    mx = max(wanted)
    with open(path) as f:
        for i, l in enumerate(f, 1):
            if i in wanted:
                res[i] = l.rstrip("\n")
            if i >= mx:
                break
    return res


def describe(js, rec):
    sh = js["shapes"][rec["s"] - 1] if "s" in rec and 1 <= rec["s"] <= len(js["shapes"]) else None
    s = ""
    if sh:
        s += "shape %d %s %s" % (sh["id"], sh["name"], json.dumps(sh["p"], separators=(",", ":"))[:500])
    if "a" in rec:
        s += " argv=%s" % json.dumps(argv_str(js, rec["a"]))
    return s


def judge_file(ctx, js, path, what, rc, out, nchunks=vlib.NCPU, count=True):
    lines, tail = vlib.check_trace_file(path) if os.path.getsize(path) < 64 * 1024 * 1024 else (None, None)
    if rc != 0:
        if lines is None:
            lines, tail = vlib.check_trace_file(path)
        op = "?"
        payload = {"records": [], "partial_line": tail}
        if tail:
            m = re.search(r'"f":"(\w+)"', tail)
            op = m.group(1) if m else "?"
            m = re.search(r'"s":(\d+)(?:,"a":(\[[^\]]*\]))?', tail)
            if m:
                payload["records"].append({"s": int(m.group(1)), "a": json.loads(m.group(2)) if m.group(2) else []})
        kind = {66: "sanitizer", 67: "crash", 68: "hang", 124: "timeout"}.get(rc, "exit%d" % rc)
        san = re.search(r"(ERROR: \w+Sanitizer: [^\n]*|runtime error: [^\n]*)", out)
        msg = "%s during %s (%s): %s; truncated record: %s" % (
            kind, op, what, san.group(1) if san else out[-300:], (tail or "")[:300])
        if op in ("run", "usage"):       # calls outside the statement of C03: observed only
            o = ctx.extra.setdefault("observations", {}).setdefault("C03:%s:%s" % (op, kind), {"count": 0, "example": msg})
            o["count"] += 1
            vlib.log("OBSERVATION (not a verdict): " + msg)
        else:
            ctx.reject("C03:%s:%s" % (op, kind), msg, payload)
        with open(path, "w") as f:
            f.write("\n".join(lines) + ("\n" if lines else ""))
    # records of kinds / shapes outside the property's statement (observed only) are judged in a
    # separate pass so that their disagreements can never crowd out a verdict (RecordLoop keeps at
    # most 300 rejected records per chunk verbatim)
    parts = split_scope(js, path)
    for sub, nch in ((parts[0], nchunks), (parts[1], max(1, nchunks // 2))):
        if os.path.getsize(sub) == 0:
            continue
        bad = vlib.judge_trace(ctx, JUDGE, JUDGE_CFG, sub, nchunks=nch, boundary_key=None, timeout=2400)
        texts = lines_at(sub, [b["l"] for b in bad])
        for b in bad:
            line = texts.get(b["l"], "{}")
            if any("HARNESS-" in w for w in b["why"]):
                raise vlib.Infra("harness / generator defect (%s) at line %d of %s: %s" % (",".join(b["why"]), b["l"], sub, line[:300]))
            rec = json.loads(line)
            inside = sorted(w for w in b["why"] if not w.startswith("OBS:"))
            outside = sorted(w[4:] for w in b["why"] if w.startswith("OBS:"))
            if outside:
                observe(ctx, js, "C03:%s:%s" % (b["op"], "+".join(outside)), rec, line)
            if inside:
                payload = {"records": [{"s": rec["s"], "a": rec.get("a", [])}] if "s" in rec else [], "record": rec}
                ctx.reject("C03:%s:%s" % (b["op"], "+".join(inside)), "%s: the specification cannot explain %s (%s); %s; record: %s" % (
                    what, b["op"], ",".join(inside), describe(js, rec), line[:400]), payload)
    for sub in parts:
        os.unlink(sub)
    n = 0
    if count:
        n = count_classes(ctx, path)
    return n


def count_classes(ctx, path, cap=3000000):
    """class of a record = (shape, argv length, outcome); outcome of a success = the shape of the
    returned record (values abstracted to their kind, vectors to their length)"""
    n = 0

    def shape_of(v):
        if isinstance(v, dict):
            if list(v.keys()) == ["v"]:
                return ("v", len(v["v"]))
            if list(v.keys()) == ["s"]:
                return v["s"][:1]
            return tuple(sorted((k, shape_of(x)) for k, x in v.items()))
        if isinstance(v, list):
            return tuple(shape_of(x) for x in v)
        return str(v)[:1]

    with open(path) as f:
        for l in f:
            n += 1
            if n > cap:
                continue
            if '"ok":false' in l and l.startswith('{"f":"parse'):
                i = l.index('"s":') + 4
                j = l.index(",", i)
                a0 = l.index("[", j)
                a1 = l.index("]", a0)
                ln = 0 if a1 == a0 + 1 else l.count(",", a0, a1) + 1
                ctx.count_class((l[6:12], l[i:j], ln, "fail"))
                continue
            if l.startswith('{"f":"run"') and '"k":"ok"' not in l:
                i = l.index('"s":') + 4
                j = l.index(",", i)
                a0 = l.index("[", j)
                a1 = l.index("]", a0)
                ln = 0 if a1 == a0 + 1 else l.count(",", a0, a1) + 1
                ctx.count_class(("run", l[i:j], ln, "miss" if '"k":"miss"' in l else "other"))
                continue
            r = json.loads(l)
            if r["f"] == "run":
                ctx.count_class(("run", str(r["s"]), len(r["a"]), "ok", len(r["st"]), shape_of(r.get("rec"))))
            elif r["f"] == "usage":
                ctx.count_class(("usage", r["s"], len(r["lines"])))
            elif r["f"] in ("parse", "parse_help"):
                ctx.count_class((r["f"][:6], str(r["s"]), len(r["a"]), "help" if r.get("help") else shape_of(r.get("rec"))))
            elif r["f"] == "ctor":
                ctx.count_class(("ctor", r["s"], r["ctor"]))
    return n


def self_test_judge(ctx, js, path):
    """binding demonstration (a): corrupted records must be rejected by the judge"""
    good = []
    with open(path) as f:
        for l in f:
            if '"ok":true' in l and '"rec"' in l:
                good.append(l.rstrip("\n"))
            if len(good) >= 4000:
                break
    picks = good[::max(1, len(good) // 12)][:12]
    extra = {}
    with open(path) as f:
        for l in f:
            if l.startswith('{"f":"run"') and '"k":"miss"' in l and '"a":[]' not in l:
                extra.setdefault("run_miss", l.rstrip("\n"))
            elif l.startswith('{"f":"run"') and '"k":"ok"' in l and '"st":[]' not in l:
                extra.setdefault("run_ok", l.rstrip("\n"))
            elif l.startswith('{"f":"usage"') and l.count('"ind"') >= 3:
                extra.setdefault("usage", l.rstrip("\n"))
            elif l.startswith('{"f":"parse_help"') and '"text"' in l:
                extra.setdefault("help", l.rstrip("\n"))
            if len(extra) == 4:
                break
    picks += [extra[k] for k in sorted(extra)]
    bad_lines = []
    for i, l in enumerate(picks):
        r = json.loads(l)
        if r["f"] == "run" and r["k"] == "miss":
            r["k"] = "other"
            del r["st"]
        elif r["f"] == "run":
            r["st"] = r["st"][1:]
        elif r["f"] == "usage":
            done = False     # drop the first parameter name (first word longer than one character)
            for ln in r["lines"]:
                for k, w in enumerate(ln["w"]):
                    if len(w) >= 2 and not done:
                        del ln["w"][k]
                        done = True
                        break
        elif r["f"] == "parse_help" and "text" in r:
            r["text"] = r["text"] + [{"ind": 0, "w": [[45, 45, 120]]}]
        elif i % 3 == 0:
            r["ok"] = False
            del r["rec"]
        elif i % 3 == 1:
            k = sorted(r["rec"].keys())[0]
            r["rec"]["L99"] = r["rec"].pop(k)
        else:
            r["a"] = r["a"] + [r["a"][0]] if r["a"] else [js["shapes"][r["s"] - 1]["alphabet"][0]]
            # same record for a longer vector: either the reference fails or the record differs
            k = sorted(r["rec"].keys())[0]
            r["rec"][k] = {"s": "i:424242"}
        bad_lines.append(json.dumps(r, separators=(",", ":")))
    if not bad_lines:
        raise vlib.Infra("self-test: no successful parse recorded")
    # originals first, then their corrupted twins: a corrupted record must be rejected whenever its
    # original is accepted (with a defective tree an original may itself be inexplicable)
    p = os.path.join(ctx.workdir, "selftest.ndjson")
    with open(p, "w") as f:
        f.write("\n".join(picks + bad_lines) + "\n")
    bad = {b["l"] for b in vlib.judge_trace(ctx, JUDGE, JUDGE_CFG, p, nchunks=1, boundary_key=None)}
    n = len(picks)
    usable = [i for i in range(n) if (i + 1) not in bad]
    missed = [i for i in usable if (n + i + 1) not in bad]
    if missed or not usable:
        raise vlib.Infra("self-test: judge accepted corrupted records %s (usable %d)" % (
            [bad_lines[i][:200] for i in missed], len(usable)))
    ctx.extra["judge_self_test"] = {"corrupted_records": len(usable), "rejected": len(usable) - len(missed)}


def guarded_self_test(ctx, js, path):
    """verdicts already taken about the real code are never lost to a failing self-test"""
    try:
        self_test_judge(ctx, js, path)
    except vlib.Infra as e:
        if not ctx.violations:
            raise
        vlib.log("judge self-test not conclusive on this tree (violations are reported): %s" % str(e)[:300])


# --------------------------------------------------------------------------- entry points


def prepare(ctx):
    files, js = generate()
    binary = build(files)
    os.environ["PARSERS"] = os.path.join(GEN_DIR, "parsers.json")
    table = os.path.join(ctx.workdir, "extract.json")
    rc, out = vlib.run_harness(binary, ["table", table], timeout=120)
    if rc != 0:
        raise vlib.Infra("measuring the Extract table failed (rc=%d): %s" % (rc, out[-500:]))
    os.environ["EXTRACT"] = table
    ctx.extra["extract_table"] = json.load(open(table))
    return js, binary


def run(ctx):
    thorough = ctx.tier == "thorough"
    js, binary = prepare(ctx)
    nshapes = len(js["shapes"])
    ctx.extra.setdefault("observations", {})   # disagreements outside the statement of C03 (never verdicts)
    # the rule set itself (C03_SKIP_MC=1: debugging aid for runs against scratch worktrees - the
    # model checks do not depend on the tree under test)
    if os.environ.get("C03_SKIP_MC") != "1":
        model_check(ctx, js, thorough)
    # the public headers
    hp = os.path.join(ctx.workdir, "headers.ndjson")
    vlib.write_ndjson(hp, [headers_probe()])
    judge_file(ctx, js, hp, "header probe", 0, "", nchunks=1, count=False)
    # code -> spec
    total = 0
    if not thorough:
        tp = os.path.join(ctx.workdir, "recorded.ndjson")
        rc, out = vlib.run_harness(binary, ["record", tp, 4, 4, 200, 10, ctx.seed, 0, 1, 3], timeout=600)
        total += judge_file(ctx, js, tp, "argv <= 4 exhaustive + random", rc, out)
        guarded_self_test(ctx, js, tp)
        sample_from(ctx, js, tp)
    else:
        parts = 8
        paths = [os.path.join(ctx.workdir, "recorded_%d.ndjson" % k) for k in range(parts)]

        def rec(k):
            return vlib.run_harness(binary, ["record", paths[k], 5, 6, 5000, 12, ctx.seed, k, parts, 4], timeout=3000)
        outs = vlib.parallel(rec, list(range(parts)), workers=parts)
        for k in range(parts):
            rc, out = outs[k]
            total += judge_file(ctx, js, paths[k], "argv <= 5 (<= 6 cheap shapes) exhaustive + random, part %d" % k, rc, out, nchunks=16)
        guarded_self_test(ctx, js, paths[0])
        sample_from(ctx, js, paths[0])
        for p in paths:
            os.unlink(p)
    ctx.evaluations += total
    ctx.traces_validated += total
    ctx.exhaustive = True
    ctx.extra["shapes"] = nshapes
    ctx.rule = ("programs: the %d parser shapes of gen/options_family.py (value types int, unsigned, std::string, enum); "
                "inputs: EVERY argument vector of length <= %s over the shape's 9-token alphabet (own flag / option / "
                "sub-command names, foreign flag, '-', '--', number, word) plus seeded random vectors of length <= 10 that "
                "also use '', '-5', '5w', '--opt=5'; every constructor outcome, parse and parse_help result is one record "
                "judged by TLC; a class = (call, shape, argv length, outcome) where the outcome of a success is the "
                "structure of the returned record (value kinds, vector lengths)" % (
                    nshapes, "5 (6 for the %d cheapest shapes)" % sum(1 for x in js["shapes"] if x["cheap"]) if thorough else "4"))
    ctx.assumptions += [
        "Extract(T, token) (string -> int / unsigned / std::string / enum conversion) is a table measured by the harness with a plain std::istringstream; its correctness is not decided here (C15/C01)",
        "memory safety of the parsers is only OBSERVED through ASan/UBSan in the harness",
        "many() around a parser that can succeed without consuming input does not terminate by design and is excluded from the family (API precondition; the specification reports it as a harness defect)",
        "error message texts and the usage text returned by parse_help are not compared",
        "parse_help is driven with default_help_switch() only, and the family respects the documented precondition that the parser does not use the name 'help'",
        "weaker readings taken (docs/notes_C03.md): ConsumedExactlyOnce counts a token consumed by a sub-parser whose result optional()/many() then discards as consumed; OptionValueNotPositional is relative to the option names the consuming parser's context knows; 'flags never produce an error' excludes the deliberate both-names error",
    ]


def sample_from(ctx, js, path):
    """a few actual records: successes of three different composite shapes, one help text, one
    rejected definition"""
    seen = set()
    extra = {"help": 1, "ctor": 1}
    with open(path) as f:
        for l in f:
            if not (l.startswith('{"f":"parse') or l.startswith('{"f":"ctor"')):
                continue
            if '"ok":true' in l and '"rec"' in l and len(seen) < 3 and l.count(",") > 9 and l.count("{") > 5:
                r = json.loads(l)
                if r["s"] in seen or len(r["a"]) < 3:
                    continue
                seen.add(r["s"])
            elif '"help":true' in l and extra["help"]:
                r = json.loads(l)
                extra["help"] = 0
            elif '"f":"ctor"' in l and '"ctor":"ok"' not in l and extra["ctor"]:
                ctx.sample(json.loads(l))
                extra["ctor"] = 0
                continue
            else:
                continue
            r["argv_text"] = argv_str(js, r["a"])
            r["shape_name"] = js["shapes"][r["s"] - 1]["name"]
            ctx.sample(r)


def replay(ctx, payload):
    js, binary = prepare(ctx)
    pl = payload["payload"]
    if payload.get("signature", "").startswith("C03:headers:"):
        hp = os.path.join(ctx.workdir, "replay_headers.ndjson")
        vlib.write_ndjson(hp, [headers_probe()])
        judge_file(ctx, js, hp, "replay of the header probe", 0, "", nchunks=1, count=False)
    else:
        sp = os.path.join(ctx.workdir, "replay_script.ndjson")
        vlib.write_ndjson(sp, pl.get("records", []))
        rp = os.path.join(ctx.workdir, "replay_out.ndjson")
        rc, out = vlib.run_harness(binary, ["replay", sp, rp], timeout=600)
        judge_file(ctx, js, rp, "replay", rc, out, nchunks=1)
        for r in vlib.read_ndjson(rp):
            if r.get("f") in ("parse", "parse_help"):
                vlib.log("replayed: %s" % json.dumps(r))
    ctx.traces_validated += 1
    ctx.evaluations += 1
    ctx.count_class("replay")
    ctx.count_class("replay2")
    ctx.rule = "replay of one saved record (all constructor outcomes are re-recorded as well)"
