"""C06 - checked conversions and integer helpers equal their mathematical definition.

1. TLC model-checks the specification itself: IntMathLaws (closed forms = defining properties,
   uniqueness), IntMathWideLaws (BigNat arithmetic and the 32/64-bit definitions agree with the
   integer ones; tiny limb base so that every carry path is taken), IntMathImpl (fixed-width
   transcription of the code's case analysis = definition, on the scaled family of all 64 type
   pairs and on the real 8/16-bit types).  Every bug/mutant constant of IntMathImpl must make TLC
   find a counterexample (vacuity guards).
2. harness/c06_intmath.cpp calls the real fcppt functions (exhaustive 8/16-bit, the 32-bit grids of
   ceil_div/ceil_div_signed, boundary lattice + seeded random for 32/64-bit) and logs every result.
3. spec/IntMathJudge.tla (TLC, RecordLoop) judges every recorded result.
UB (sanitizer), traps and hangs inside a driven call are observed, not decided by the spec; they
are reported as rejected calls."""
import array
import json
import os
import random
import re
import subprocess
import threading
import concurrent.futures

import vlib

LEVEL = "model_checking"
JUDGE = ("IntMathJudge", "IntMathJudge.cfg")
HARNESS = "c06_intmath"
PID = "C06"

BUG_GUARDS = ["FromIntNarrowBug", "Log2ShiftBug", "CeilDivSignedBug", "DiffPromoBug", "TCToSignedBug",
              "MutTCLessEq", "MutCeilDivAdd", "MutClampLess", "IntervalTouchBug", "MutConvZeroExtend"]
# UBSan aborts via SIGABRT so that the harness' handler can append the {"e":"abort"} line naming the call
UBSAN = "print_stacktrace=1:halt_on_error=1:exitcode=66:abort_on_error=1"
PAR = max(2, min(8, vlib.NCPU // 2))      # the box is shared with other checks
RUN_TIMEOUT = 900                         # per section process; a hang inside a call is ended by the alarm() watchdog long before


# Section groups of harness/c06_drive.hpp (macro C06_GROUP = id compiles only that group's drivers and includes):
# (id, name used in signatures, in scope of the statement of C06)
GROUPS = [(1, "truncation_check", True), (2, "from_int", True), (3, "log2", True), (4, "is_power_of_2", True),
          (5, "next_power_of_2", True), (6, "div", True), (7, "mod", True), (8, "diff", True), (9, "bit_test", True),
          (10, "ceil_div", True), (11, "ceil_div_signed", True), (12, "clamp", True), (13, "power_of_2", True),
          (14, "interval_distance", False), (15, "conv", False), (16, "enum_casts", False), (17, "mask_c", True),
          (18, "to_uint_ptr", False)]
# section name (without "math:") -> function named in a signature when the process died without naming the call
SECTION_PREFIX_FN = [("tc_", "truncation_check"), ("from_int", "from_int"), ("log2", "log2"), ("is_power_of_2", "is_power_of_2"),
                     ("next_power_of_2", "next_power_of_2"), ("div", "div"), ("mod", "mod"), ("diff", "diff"), ("bit_test", "bit_test"),
                     ("ceil_div_signed", "ceil_div_signed"), ("ceil_div", "ceil_div"), ("clamp", "clamp"), ("power_of_2", "power_of_2"),
                     ("interval_distance", "interval_distance"), ("conv_", "conv"), ("enum_casts", "enum_casts"), ("mask_c", "mask_c"),
                     ("misc", "to_uint_ptr")]


def fn_of_section(s):
    s = s[5:] if s.startswith("math:") else s
    for pre, fn in SECTION_PREFIX_FN:
        if s.startswith(pre):
            return fn
    return s


def genuine_compile_error(out):
    """a diagnostic of the compiler about the code, as opposed to the compiler being killed / out of memory / out of
    disk on the shared box (our infrastructure, never a verdict)"""
    if re.search(r"Killed signal|internal compiler error|virtual memory exhausted|No space left|cannot allocate memory|std::bad_alloc", out):
        return False
    body = re.sub(r"^compile failed: [^\n]*\n?", "", out)
    return re.search(r"error|note: |required from|In file included", body) is not None


def first_error(out):
    for l in out.splitlines():
        if " error: " in l or "fatal error:" in l:
            return re.sub(r"\s+", " ", l)[:400]
    return re.sub(r"\s+", " ", out[-400:])


def build_units(ctx, pid, name, source, libs, units, whole_defs=()):
    """Build the harness.  Normally one binary drives every section.  If that translation unit does not compile
    against the tree under test (and the compiler really diagnosed the code), every unit = (defs, signature name,
    in scope) is compiled on its own: a unit that still fails is a verdict about the tree - VIOLATION
    <pid>:<name>:does-not-compile if the statement names what it drives (the property cannot hold for arguments the
    code rejects), else an OBSERVATION - and the others are run and judged as usual.
    Returns [(binary, sections or None = all of the binary)]."""
    try:
        return [(vlib.build_harness(name, [source], libs=libs, defs=tuple(whole_defs)), None)]
    except vlib.Infra as e:
        if not genuine_compile_error(str(e)) or "link failed" in str(e).splitlines()[0]:
            raise
        vlib.log("the harness does not compile as a whole against this tree (%s); building %d units separately" % (first_error(str(e)), len(units)))
        ctx.extra["whole_harness_compiles"] = False

    # the objects of the fcppt libraries do not depend on the unit: compile (cache hits after the attempt above) them once
    flags = vlib.base_flags("asan", "-O1", ())
    tag = vlib.sha((vlib.REPO + "asan" + "-O1" + "").encode())[:10]          # = build_harness(..., defs=())
    objdir = vlib.mkdir(os.path.join(vlib.BUILD, "obj", tag))
    bindir = vlib.mkdir(os.path.join(vlib.BUILD, "bin", tag))
    lib_jobs = []
    for l in libs:
        for src in vlib.lib_sources(l):
            rel = os.path.relpath(src, os.path.join(vlib.REPO, "libs")).replace("/", "_")
            lib_jobs.append((src, os.path.join(objdir, "lib_" + rel + ".o")))
    lib_objs = [o for o, _ in vlib.parallel(lambda j: vlib.compile_obj(j[0], j[1], flags), lib_jobs, workers=vlib.NCPU)] if lib_jobs else []
    src = os.path.join(vlib.HARNESS, source)

    def one(u):
        defs, uname, scope = u
        obj = os.path.join(objdir, "h_%s_%s_%s.o" % (name, uname, os.path.basename(source)))
        for attempt in (1, 2):
            try:
                o, rebuilt = vlib.compile_obj(src, obj, flags + ["-D" + d for d in defs])
                break
            except vlib.Infra as e:
                if genuine_compile_error(str(e)):
                    return None, str(e)
                if attempt == 2:
                    raise
        out = os.path.join(bindir, "%s_%s" % (name, uname))
        if rebuilt or not os.path.exists(out):
            tout = out + ".tmp%d" % os.getpid()
            p = subprocess.run(["g++", "-pthread"] + vlib.SAN_FLAGS["asan"] + [o] + lib_objs + ["-o", tout],
                               stdout=subprocess.PIPE, stderr=subprocess.STDOUT, text=True, errors="replace")
            if p.returncode != 0:
                raise vlib.Infra("link failed: %s_%s\n%s" % (name, uname, p.stdout[-4000:]))
            os.replace(tout, out)
        return out, None
    res = vlib.parallel(one, units, workers=max(2, min(6, vlib.NCPU)))
    out = []
    for (defs, uname, scope), (binary, err) in zip(units, res):
        if binary is not None:
            out.append((binary, sections_of(binary)))
            continue
        msg = "the drivers of %s (harness unit -D%s) do not compile against this tree: %s" % (uname, " -D".join(defs), first_error(err))
        ctx.extra.setdefault("units_not_compiling", []).append({"unit": uname, "first_error": first_error(err)})
        if scope:
            ctx.reject("%s:%s:does-not-compile" % (pid, uname), msg, {"unit": uname, "build": True, "compiler_output_tail": err[-2500:]})
        else:
            observe(ctx, "%s:%s:does-not-compile" % (pid, uname), msg)
    return out


def build(ctx):
    return build_units(ctx, PID, HARNESS, "c06_intmath.cpp", (), [(("C06_GROUP=%d" % g,), n, sc) for g, n, sc in GROUPS])


def tlc_retry(*a, **kw):
    """vlib.tlc, repeated once if the JVM died (the box is shared: OOM kills and timeouts under load
    are infrastructure noise, not verdicts)"""
    try:
        return vlib.tlc(*a, **kw)
    except vlib.Infra as e:
        vlib.log("TLC run failed, retrying once: %s" % str(e).splitlines()[0][:200])
        return vlib.tlc(*a, **kw)


# ------------------------------------------------------------------ model checks of the spec
def model_checks(ctx, thorough):
    if os.environ.get("VERIF_SKIP_MC") == "1" and os.environ.get("VERIF_EVIDENCE_DIR"):
        # development aid for mutant runs with scratch evidence: the model checks do not depend on the repo
        ctx.extra["model_checks_skipped"] = True
        return
    jobs = [("IntMathLaws", "MC_IntMath.cfg" if thorough else "MC_IntMath_q.cfg"), ("IntMathWideLaws", "MC_IntMathWide.cfg"),
            ("IntMathImpl", "MC_IntMathImpl_scaled.cfg"),
            ("IntMathImpl", "MC_IntMathImpl_real.cfg" if thorough else "MC_IntMathImpl_real8.cfg")]
    guards = [("IntMathImpl", "MC_IntMathImpl_bug_%s.cfg" % b, "ImplEqualsDefinition") for b in BUG_GUARDS]
    guards += [("IntMathLaws", "MC_IntMath_bug.cfg", "CeilLaw"), ("IntMathWideLaws", "MC_IntMathWide_bug.cfg", "NatLaws")]

    def mc(j):
        try:
            return vlib.tlc_mc(ctx, j[0], j[1], workers=2, timeout=1500)
        except vlib.Infra as e:
            if "model check of" in str(e):
                raise                      # a genuine spec-level failure
            vlib.log("TLC run failed, retrying once: %s" % str(e).splitlines()[0][:200])
            return vlib.tlc_mc(ctx, j[0], j[1], workers=2, timeout=1500)

    def guard(g):
        r = tlc_retry(g[0], g[1], workers=1, timeout=900)
        if g[2] not in r.invariant_violated:
            raise vlib.Infra("vacuity guard: %s did not violate %s:\n%s" % (g[1], g[2], "\n".join(r.out.splitlines()[-30:])))
        return {"cfg": g[1], "violates": g[2]}

    with concurrent.futures.ThreadPoolExecutor(max_workers=PAR) as ex:
        fm = [ex.submit(mc, j) for j in jobs]
        fg = [ex.submit(guard, g) for g in guards]
        for f in fm:
            f.result()
        ctx.extra["vacuity_guards"] = [f.result() for f in fg]


# ------------------------------------------------------------------ recording
def record(ctx, binary, sections, tag, extra=(), env=None):
    """Run one harness process per section.  Returns list of (section, path, rc, output).  `binary` may be a list
    of (binary, sections or None) as build_units returns it; `sections` then selects (None = all)."""
    e = {"UBSAN_OPTIONS": UBSAN}
    e.update(env or {})
    if isinstance(binary, str):
        todo = [(binary, s) for s in sections]
    else:
        todo = []
        for b, secs in binary:
            for s in (secs if secs is not None else sections_of(b)):
                if sections is None or s in sections:
                    todo.append((b, s))

    def one(bs):
        b, s = bs
        path = os.path.join(ctx.workdir, "%s_%s.ndjson" % (tag, s.replace(":", "_")))
        try:
            os.unlink(path)          # never judge the file of an earlier run if the process dies before opening it
        except OSError:
            pass
        rc, out = vlib.run_harness(b, ["record", path, ctx.tier, ctx.seed, s] + list(extra), timeout=RUN_TIMEOUT if ctx.tier == "quick" else 3000, env=e)
        if not os.path.exists(path):
            open(path, "w").close()
        return (s, path, rc, out)
    return vlib.parallel(one, todo, workers=PAR)


def abort_kind(rc, out):
    if "runtime error:" in out or "Sanitizer" in out:
        return "sanitizer"
    return {66: "sanitizer", 67: "crash", 68: "hang", 124: "timeout"}.get(rc, "exit%d" % rc)


IN_SCOPE_FNS = {"truncation_check", "from_int", "ceil_div", "ceil_div_signed", "div", "mod", "clamp", "diff", "is_power_of_2",
                "next_power_of_2", "log2", "power_of_2", "shifted_mask", "mask_c", "bit_test"}       # = IntMathJudge.C06InScopeFns


class Recs:
    """The complete records of all section files, addressed by index without keeping the text in memory
    (thorough tiers record several hundred MB).  Iterating yields (section, line)."""

    def __init__(self):
        self.paths = []
        self.sections = []
        self.file = array.array("l")
        self.off = array.array("q")
        self.len = array.array("l")
        self._fh = {}
        self._lock = threading.Lock()

    def add_file(self, section, path):
        """Index the complete record lines of one section file.  Returns (abort record or None, truncated tail).
        A call that never finished leaves a truncated line, which may by accident end in '}' (a nested
        object was complete): the record in front of an abort event and the last record of the file are
        therefore validated as JSON, and demoted to the truncated tail if they are not."""
        fi = len(self.paths)
        self.paths.append(path)
        self.sections.append(section)
        abort, tail = None, None
        off = 0
        last = None          # raw text of the most recently indexed record of this file

        def demote_if_truncated():
            nonlocal tail, last
            if last is None:
                return
            try:
                json.loads(last)
            except ValueError:
                tail = last.decode(errors="replace")
                self.file.pop()
                self.off.pop()
                self.len.pop()
            last = None
        with open(path, "rb") as f:
            for raw in f:
                n = len(raw)
                line = raw.rstrip(b"\r\n")
                if raw.endswith(b"\n") and line.startswith(b"{") and line.endswith(b"}"):
                    if line.startswith(b'{"e":'):
                        demote_if_truncated()
                        try:
                            abort = json.loads(line)
                        except ValueError:
                            pass
                    else:
                        self.file.append(fi)
                        self.off.append(off)
                        self.len.append(len(line))
                        last = line
                elif line.strip():
                    tail = line.decode(errors="replace")      # a call that never finished
                    last = None
                off += n
        demote_if_truncated()
        return abort, tail

    def __len__(self):
        return len(self.off)

    def size(self, i):
        return self.len[i]

    def section(self, i):
        return self.sections[self.file[i]]

    def line(self, i):
        with self._lock:
            fi = self.file[i]
            fh = self._fh.get(fi)
            if fh is None:
                fh = self._fh[fi] = open(self.paths[fi], "rb")
            fh.seek(self.off[i])
            return fh.read(self.len[i]).decode()

    def __iter__(self):
        for i in range(len(self.off)):
            yield self.sections[self.file[i]], self.line(i)


class MemRecs:
    """the same interface for a small list of (section, line)"""

    def __init__(self, items):
        self.items = items

    def __len__(self):
        return len(self.items)

    def size(self, i):
        return len(self.items[i][1])

    def section(self, i):
        return self.items[i][0]

    def line(self, i):
        return self.items[i][1]

    def __iter__(self):
        return iter(self.items)


def collect(ctx, runs, pid, section_fn=None):
    """Turn aborted sections into rejected calls (observations if the function is outside the statement);
    returns the index of the complete records (Recs)."""
    recs = Recs()
    for s, path, rc, out in runs:
        abort, tail = recs.add_file(s, path)
        if rc != 0:
            kind = abort_kind(rc, out)
            ctx.extra["sections_aborted"] = ctx.extra.get("sections_aborted", 0) + 1
            if rc == 3 and ("unknown section" in out or "usage:" in out):
                raise vlib.Infra("harness rejected its command line (section %s): %s" % (s, out[-300:]))
            f = (abort or {}).get("f") or "?"
            if f == "?" and tail:
                m = re.search(r'"f":"(\w+)"', tail)
                f = m.group(1) if m else "?"
            if f == "?":
                # the process died without naming a call (at start-up, between two calls, in a destructor, at exit /
                # leak report): name the function(s) the section drives
                f = (section_fn or fn_of_section)(s)
            msg = re.search(r"(runtime error: [^\n]*|ERROR: \w+Sanitizer: [^\n]*)", out)
            what = "%s inside a driven call of %s (section %s): %s; call: %s" % (
                kind, f, s, msg.group(1) if msg else out[-300:].replace("\n", " | "), json.dumps(abort) if abort else (tail or "")[:300])
            if pid == "C06" and f not in IN_SCOPE_FNS:
                observe(ctx, "%s:%s:%s" % (pid, f, kind), what)      # UB in a function the statement of C06 does not name
            else:
                ctx.reject("%s:%s:%s" % (pid, f, kind), what, {"sections": [s], "abort": abort, "partial_line": (tail or "")[:500]})
    return recs


# ------------------------------------------------------------------ judging
def judge(ctx, recs, module_cfg, tag, chunk_bytes=2500000):
    """Judge records (Recs / MemRecs) with TLC; records are independent, so they are shuffled (seeded) to
    balance the chunks.  Returns list of (bad entry, section, line)."""
    rnd = random.Random(ctx.seed)
    idx = list(range(len(recs)))
    rnd.shuffle(idx)
    chunks = []
    cur, size = [], 0
    for i in idx:
        cur.append(i)
        size += recs.size(i) + 1
        if size >= chunk_bytes:
            chunks.append(array.array("l", cur))
            cur, size = [], 0
    if cur:
        chunks.append(array.array("l", cur))
    del idx

    def one(k):
        p = os.path.join(ctx.workdir, "%s_chunk%d.ndjson" % (tag, k))
        with open(p, "w") as f:
            for i in chunks[k]:
                f.write(recs.line(i))
                f.write("\n")
        r = tlc_retry(module_cfg[0], module_cfg[1], workers=1, env={"TRACE": p}, timeout=2400, xmx="3g", tag=module_cfg[0] + "_j")
        v = vlib._verdict_lines(r.out)
        if "VERDICT" not in v:
            raise vlib.Infra("judge %s gave no verdict on %s (rc=%d):\n%s" % (module_cfg[0], p, r.rc, "\n".join(r.out.splitlines()[-40:])))
        vd = v["VERDICT"][-1]
        if vd["n"] != len(chunks[k]):
            raise vlib.Infra("judge consumed %d of %d records of %s" % (vd["n"], len(chunks[k]), p))
        os.unlink(p)
        return [(b, chunks[k][b["l"] - 1]) for b in vd["bad"]], vd["nbad"], r.generated
    res = vlib.parallel(one, list(range(len(chunks))), workers=PAR)
    out = []
    nbad = 0
    for bad, nb, gen in res:
        nbad += nb
        ctx.extra["trace_states"] = ctx.extra.get("trace_states", 0) + gen
        for b, i in bad:
            out.append((b, recs.section(i), recs.line(i)))
    ctx.extra["judge_chunks"] = ctx.extra.get("judge_chunks", 0) + len(chunks)
    ctx.extra["rejected_records"] = ctx.extra.get("rejected_records", 0) + nbad
    return out


def selftest(ctx, recs, module_cfg, tag, corrupt, want):
    """Vacuity guard of the judge: corrupt(rec) -> corrupted copy or None; every corrupted record must
    be rejected.  `want` = minimal number of corrupted records (Infra otherwise)."""
    bad_in = []
    seen = {}
    for s, l in recs:
        if len(l) > 20000:
            continue
        m = re.match(r'\{(?:"w":\d+,)?"f":"(\w+)"', l)
        if m and seen.get(("pre", m.group(1)), 0) >= 40:       # cheap pre-filter before parsing
            continue
        r = json.loads(l)
        seen[("pre", r["f"])] = seen.get(("pre", r["f"]), 0) + 1
        key = (r["f"], r.get("w"), r.get("S"), r.get("k"), r.get("g"))
        if seen.get(key, 0) >= 2:
            continue
        c = corrupt(r)
        if c is not None:
            seen[key] = seen.get(key, 0) + 1
            bad_in.append(("selftest", json.dumps(c, separators=(",", ":"))))
    if len(bad_in) < want:
        raise vlib.Infra("judge self-test: only %d records could be corrupted" % len(bad_in))
    saved = dict(ctx.extra)
    judge(ctx, MemRecs(bad_in), module_cfg, tag, chunk_bytes=10 ** 9)
    n = ctx.extra.get("rejected_records", 0) - saved.get("rejected_records", 0)
    for k in ("judge_chunks", "rejected_records", "trace_states"):
        if k in saved:
            ctx.extra[k] = saved[k]
        else:
            ctx.extra.pop(k, None)
    if n != len(bad_in):
        raise vlib.Infra("judge self-test: %d of %d corrupted records were accepted" % (len(bad_in) - n, len(bad_in)))
    ctx.extra["judge_selftest"] = {"corrupted_records": len(bad_in), "rejected": n}


def corrupt_c06(r):
    """flip one recorded result: value -> value + 1, nothing -> 0, bool -> not"""
    r = dict(r)
    if r["w"] == 0:
        if not r["rs"]:
            return None
        i = len(r["rs"]) // 2
        v = r["rs"][i]
        x = (r["xs"][i] if r["xs"] else r["x0"] + i)
        # only where the specification demands a result
        if r["f"] in ("log2",) and x == 0:
            return None
        if r["f"] in ("diff", "next_power_of_2", "power_of_2", "shifted_mask", "ceil_div_signed", "div", "interval_distance",
                      "cast_size", "to_signed", "to_unsigned", "promote_int", "safe_numeric", "enum_to_int", "enum_to_underlying",
                      "int_to_enum", "literal", "mask_c", "to_uint_ptr"):
            r["rs"] = [1000001 if j == i else w for j, w in enumerate(r["rs"])]      # an exception is never explained
            return r
        r["rs"] = [((0 if v == 1000000 else (1 - v if r["f"] in ("is_power_of_2", "bit_test") else v + 1)) if j == i else w)
                   for j, w in enumerate(r["rs"])]
        return r
    r["ex"] = 1
    return r


def describe(rec, at):
    if rec.get("w") == 0:
        d = {k: rec[k] for k in ("f", "S", "D", "n", "a", "b", "c")}
        if at:
            d["x"], d["result"], d["rejected_in_row"] = at[0], at[1], at[2]
        return json.dumps(d)
    return json.dumps({k: rec[k] for k in rec if k not in ("w",)})[:600]


def observe(ctx, signature, what):
    """A disagreement outside the statement of the property (judge flag in_scope = FALSE): recorded in the
    evidence (coverage.observations) and printed, never a rejected event."""
    obs = ctx.extra.setdefault("observations", [])
    for o in obs:
        if o["signature"] == signature:
            o["count"] += 1
            return
    obs.append({"signature": signature, "what": what[:900], "count": 1})
    print("OBSERVATION property=%s (outside the statement, not a violation) %s: %s" % (ctx.pid, signature, what[:400]))


def report(ctx, bads, pid):
    """Returns the number of in-scope rejections (violations or known findings)."""
    n = 0
    for b, section, line in bads:
        rec = json.loads(line)
        for why in sorted(b["why"]):
            if why.startswith("HARNESS"):
                raise vlib.Infra("harness emitted a malformed record: %s" % line[:300])
            sig = "%s:%s:%s" % (pid, b["op"], why)
            what = "spec cannot explain %s (%s): %s" % (b["op"], why, describe(rec, b.get("at")))
            if why not in b.get("inscope", []):
                observe(ctx, sig, what)
                continue
            n += 1
            ctx.reject(sig, what,
                       {"sections": [section], "record": rec if len(line) < 4000 else {k: rec[k] for k in rec if k not in ("rs", "xs")},
                        "at": b.get("at")})
    return n


def count(ctx, recs):
    n = 0
    for s, l in recs:
        r = json.loads(l)
        if r["w"] == 0:
            n += len(r["rs"])
            kinds = set("nothing" if v == 1000000 else "exception" if v == 1000001 else "value" for v in r["rs"])
            for k in kinds:
                ctx.count_class((r["f"], r["S"], r["D"], r["n"], k))
        else:
            n += 1
            k = "bool" if isinstance(r["r"], bool) else ("nothing" if r["r"] == [] else "value")
            ctx.count_class((r["f"], r["S"], r["D"], r["n"], k, "wide"))
    return n


def sample(ctx, recs):
    """a few short records of different functions, from evenly spaced positions"""
    seen = set()
    n = len(recs)
    for i in range(0, n, max(1, n // 4000)):
        if recs.size(i) > 700:
            continue
        r = json.loads(recs.line(i))
        key = (r["f"], r["w"])
        if key in seen:
            continue
        seen.add(key)
        ctx.sample(r, cap=8)
        if len(seen) >= 8:
            break


def rejected_anything(ctx):
    return bool(ctx.violations or ctx.known_hits or ctx.extra.get("observations"))


def selftest_applicable(ctx):
    """The vacuity guard of the judge corrupts *recorded* records: it presupposes that they are right and that every
    section delivered its records, so it only runs when the judge accepted everything in scope, no section aborted
    and every unit compiled (otherwise the run ends in a VIOLATION / OBSERVATION about the code anyway)."""
    return not (ctx.violations or ctx.known_hits or ctx.extra.get("sections_aborted") or ctx.extra.get("units_not_compiling"))


def after_verdict(ctx, fn):
    """Run the later stages of a check.  Once the code under test has been rejected (a VIOLATION exists), a failure
    of our machinery in a later stage must not replace that verdict by exit 2: it is logged and the run ends with the
    verdict it has.  Without a rejection an infrastructure failure stays one."""
    try:
        fn()
    except vlib.Infra as e:
        if not ctx.violations:
            raise
        vlib.log("INFRA problem after a rejection (verdict kept): %s" % str(e)[:600])
        ctx.extra["infra_after_verdict"] = str(e)[:600]
    except Exception as e:       # a record our bookkeeping cannot digest
        if not ctx.violations:
            raise
        vlib.log("bookkeeping problem after a rejection (verdict kept): %r" % (e,))
        ctx.extra["infra_after_verdict"] = repr(e)[:600]


def judge_all(ctx, recs):
    if len(recs) == 0:
        return
    ctx.evaluations += count(ctx, recs)
    sample(ctx, recs)
    bads = judge(ctx, recs, JUDGE, "c06")
    if report(ctx, bads, PID) == 0 and selftest_applicable(ctx):
        selftest(ctx, recs, JUDGE, "c06self", corrupt_c06, 40)


def sections_of(binary):
    rc, out = vlib.run_harness(binary, ["sections"], timeout=60)
    if rc != 0:
        raise vlib.Infra("harness cannot list its sections: " + out[-300:])
    return out.split()


def run(ctx):
    thorough = ctx.tier == "thorough"
    with concurrent.futures.ThreadPoolExecutor(max_workers=2) as ex:
        fb = ex.submit(build, ctx)
        model_checks(ctx, thorough)
        binaries = fb.result()
    runs = record(ctx, binaries, None, "rec")
    recs = collect(ctx, runs, PID)
    if len(recs) == 0 and not rejected_anything(ctx):
        raise vlib.Infra("the harness recorded nothing")
    after_verdict(ctx, lambda: judge_all(ctx, recs))
    ctx.traces_validated += ctx.extra.get("judge_chunks", 0)
    ctx.extra["records"] = len(recs)
    ctx.exhaustive = False
    ctx.rule = ("one evaluation = one recorded result of a real fcppt call, judged by TLC against IntMath(.Wide).tla. Inputs: every "
                "value of every 8/16-bit instantiation for unary functions and truncation_check/from_int (all 64 type pairs; enums "
                "of size 1/3/9 over u8/i8/u16/u32); all 8-bit pairs for div/mod/diff/bit::test; 16-bit pairs: lattice x lattice "
                "(quick) or lattice x all, all x rotating 64-window, all x core set (thorough); [0,2047]^2 / [-1024,1023]^2 of ceil_div<u32> / "
                "ceil_div_signed<i32>; boundary lattice (0, +-1, +-2, 2^k, 2^k+-1, min, max) squared + seeded random for 32/64-bit. "
                "A class = (function, operand type, result type, enum size, outcome kind value/nothing/exception, narrow/wide).")
    ctx.assumptions += [
        "undefined behaviour (invalid shift, signed overflow), traps and hangs inside a driven call are OBSERVED through UBSan/ASan, "
        "signal handlers and a per-row alarm() watchdog, not decided by the TLA+ specification",
        "readings where the statement is ambiguous (docs/notes_C06.md): div = C++ truncating quotient; log2 = floor; unsigned diff "
        "accepts |a-b| or the documented min(a-b, b-a) modulo 2^N; inputs whose exact result is not representable (min / -1, "
        "overflowing signed differences, shifts >= width) and log2(0) are generator preconditions and are not driven",
        "16-bit binary operand pairs are not enumerated exhaustively (4.3e9 pairs per function exceed what TLC can judge); "
        "see the rule for what is driven instead",
        "IntMathImpl.tla is a hand transcription used for model checking only; verdicts about fcppt come from the judged records",
    ]


def replay(ctx, payload):
    binaries = build(ctx)
    secs = payload["payload"].get("sections") or None
    ctx.tier = payload.get("tier", ctx.tier)
    ctx.seed = payload.get("seed", ctx.seed)
    runs = record(ctx, binaries, secs, "replay")
    recs = collect(ctx, runs, PID)
    if len(recs):
        ctx.evaluations += count(ctx, recs)
        report(ctx, judge(ctx, recs, JUDGE, "c06r"), PID)
    ctx.traces_validated += ctx.extra.get("judge_chunks", 0)
    ctx.rule = "replay: the harness section(s) of the saved rejection are recorded and judged again"
