"""C17 - typed wrappers are transparent; ==, !=, <, <=, >, >= and hash are mutually coherent.

1. TLC model-checks the axioms themselves (spec/Order.tla via MC_Order.tla): relations induced by
   component equality and the lexicographic order satisfy every axiom; an arbitrary relation on 3
   values passes the "<"-axioms exactly when it is induced by a ranking compatible with ==; and the
   machine arithmetic of spec/StrongTypedef.tla (limb arithmetic modulo 2^32, two's complement
   bitwise operators) agrees with plain modular arithmetic / a bit-level definition
   (MC_StrongTypedef.tla).  Weakened axioms / perturbed definitions must be rejected (vacuity guards).
2. The harness records, for every listed fcppt value type, the full n x n matrices of every
   comparison operator the type offers and of its hash, together with the observable components of
   each value (values with components in {0,1,2}, several produced through operations), every
   strong_typedef operator on int ([-128,127]^2) and unsigned (wrap-around boundary values), and
   what the transparent wrappers expose.
3. spec/OrderJudge.tla (TLC) evaluates the axioms on the recorded matrices (n^3 transitivity) and
   compares every strong_typedef result with StrongTypedef.tla.
4. Binding guard at run time: one entry of a recorded matrix / one recorded result is corrupted and
   the judge must reject the corrupted record."""
import json
import os
import re
import subprocess
import time

import vlib

LEVEL = "model_checking"
JUDGE = "OrderJudge"
JUDGE_CFG = "OrderJudge.cfg"

# The relations each type is seen to offer on the tree this check is registered against.  A relation
# that is listed here and no longer detected by the compiler ("a public API that the statement names no
# longer compiles with well-formed arguments of a kind the harness used to pass", docs/AUDIT_BRIEF.md
# A.5) is a VIOLATION C17:<type>:<operator>:does-not-compile; an additional relation is simply judged.
ALL6 = "EQ NE LT LE GT GE"
OFFERS = {
    "optional<int>": "EQ NE LT", "optional<optional<int>>": "EQ NE LT", "optional<reference<int>>": "EQ NE LT",
    "either<int,long>": "EQ NE",
    "variant<int,long>": "EQ NE LT", "variant<int,long,unsigned>": "EQ NE LT",
    "tuple<int,int>": "EQ NE", "tuple<int,long,int>": "EQ NE", "tuple<int>": "EQ NE",
    "array<int,2>": "EQ NE HEQ", "array<int,3>": "EQ NE HEQ", "array<int,1>": "EQ NE HEQ",
    "record<a:int,b:int>": "EQ NE", "record<a:int,b:int>|record<b:int,a:int>": "EQ NE",
    "record<a:int,b:long,c:int>|record<c,a,b>": "EQ NE",
    "strong_typedef<int>": ALL6 + " HEQ", "strong_typedef<int>/std::hash": ALL6 + " HEQ", "strong_typedef<unsigned>": ALL6 + " HEQ",
    "vector<int,2>": ALL6 + " HEQ", "vector<int,3>": ALL6 + " HEQ", "vector<int,4>": ALL6 + " HEQ", "vector<int,1>": ALL6 + " HEQ",
    "dim<int,2>": ALL6 + " HEQ", "dim<int,3>": ALL6 + " HEQ", "vector<int,2>|matrix-row": "EQ NE HEQ",
    "matrix<int,2,2>": "EQ NE HEQ", "matrix<int,3,2>": "EQ NE HEQ",
    "box<int,2>": "EQ NE LT", "box<int,1>": "EQ NE LT", "box<int,3>": "EQ NE LT",
    "sphere<int,2>": "EQ NE", "sphere<int,3>": "EQ NE",
    "bitfield<e3,u8>": "EQ NE HEQ", "bitfield<e3,u8>/std::hash": "EQ NE HEQ",
    "bitfield<e9,u8>": "EQ NE HEQ", "bitfield<e9,u8>/std::hash": "EQ NE HEQ",
    "bitfield<e11,u8>": "EQ NE HEQ", "bitfield<e11,u8>/std::hash": "EQ NE HEQ",
    "bitfield<e17,u16>": "EQ NE HEQ", "bitfield<e17,u16>/std::hash": "EQ NE HEQ", "bitfield<e17,u8>": "EQ NE HEQ",
    "bitfield<e9,default>": "EQ NE HEQ",
    "enum_array<e3,int>": "EQ NE", "enum_array<e1,int>": "EQ NE",
    "grid<int,2>": ALL6, "grid<int,1>": ALL6, "grid<int,3>": ALL6,
    "tree<int>": "EQ NE", "raw_vector<int>": ALL6 + " HEQ",
    "reference<int>": "EQ NE LT HEQ", "reference<int>/std::hash": "EQ NE LT HEQ", "reference<int const>": "EQ NE LT HEQ",
    "shared_ptr<int>": "EQ NE LT HEQ", "shared_ptr<int>/std::hash": "EQ NE LT HEQ",
    "shared_ptr<base>|shared_ptr<derived>": "EQ NE LT", "shared_ptr<derived>": "EQ NE LT HEQ",
    "recursive<int>": "EQ NE",
}
# which part records which types (to tell "the part did not run to the end" from "the type is gone")
PART_TYPES = {
    "optional": ["optional<int>", "optional<optional<int>>"], "either": ["either<int,long>"],
    "variant": ["variant<int,long>", "variant<int,long,unsigned>"], "tuple": ["tuple<int,int>", "tuple<int,long,int>", "tuple<int>"],
    "array": ["array<int,2>", "array<int,3>", "array<int,1>"],
    "record": ["record<a:int,b:int>", "record<a:int,b:int>|record<b:int,a:int>", "record<a:int,b:long,c:int>|record<c,a,b>"],
    "strong": ["strong_typedef<int>", "strong_typedef<int>/std::hash", "strong_typedef<unsigned>"],
    "vector": ["vector<int,2>", "vector<int,3>", "vector<int,4>", "vector<int,1>", "dim<int,2>", "dim<int,3>", "vector<int,2>|matrix-row"],
    "matrix": ["matrix<int,2,2>", "matrix<int,3,2>"], "box": ["box<int,2>", "box<int,1>", "box<int,3>"],
    "sphere": ["sphere<int,2>", "sphere<int,3>"],
    "bitfield": ["bitfield<e3,u8>", "bitfield<e3,u8>/std::hash", "bitfield<e9,u8>", "bitfield<e9,u8>/std::hash", "bitfield<e11,u8>",
                 "bitfield<e11,u8>/std::hash", "bitfield<e17,u16>", "bitfield<e17,u16>/std::hash", "bitfield<e17,u8>", "bitfield<e9,default>"],
    "enum_array": ["enum_array<e3,int>", "enum_array<e1,int>"], "grid": ["grid<int,2>", "grid<int,1>", "grid<int,3>"],
    "tree": ["tree<int>"], "raw_vector": ["raw_vector<int>"],
    "reference": ["reference<int>", "reference<int>/std::hash", "reference<int const>", "optional<reference<int>>"],
    "shared_ptr": ["shared_ptr<int>", "shared_ptr<int>/std::hash", "shared_ptr<base>|shared_ptr<derived>", "shared_ptr<derived>"],
    "recursive": ["recursive<int>"],
}
OPNAME = {"EQ": "operator==", "NE": "operator!=", "LT": "operator<", "LE": "operator<=", "GT": "operator>", "GE": "operator>=",
          "HEQ": "hash", "comp": "accessors"}

# Harness units: every unit is ONE translation unit compiled separately; c17_main.cpp (no fcppt header)
# refers to the entry points through weak symbols, so a unit that does not compile against the tree under
# test is left out of the link and the others are still driven and judged (docs/AUDIT_BRIEF.md A.5,
# EXTENSION_BRIEF Clarification 2).   (part = unit = section macro, source, inside the statement of C17?)
ORDER_PARTS = ["optional", "either", "variant", "tuple", "array", "record", "strong", "vector", "matrix", "box", "sphere",
               "bitfield", "enum_array", "grid", "tree", "raw_vector", "reference", "shared_ptr", "recursive"]
UNITS = [(p, "c17_order.cpp", True) for p in ORDER_PARTS] + [
    ("stops", "c17_strong.cpp", True), ("wrap", "c17_strong.cpp", True),
    # observed-only kinds (outside the statement): a failure here is an OBSERVATION
    ("own", "c17_own.cpp", False), ("wrapx", "c17_own.cpp", False)]
IN_SCOPE_PART = {u[0]: u[2] for u in UNITS}
# what each in-scope unit names in the signature of a compile failure
UNIT_NAME = {"strong": "strong_typedef", "stops": "strong_typedef-operators", "wrap": "wrappers"}


def genuine_compile_error(out):
    """a diagnostic of the compiler about the code, as opposed to the compiler being killed / out of
    memory / out of disk on the shared box (which is our infrastructure, never a verdict)"""
    if re.search(r"Killed signal|internal compiler error|virtual memory exhausted|No space left|cannot allocate memory|std::bad_alloc", out):
        return False
    body = re.sub(r"^compile failed: [^\n]*\n?", "", out)
    return re.search(r"error|note: |required from|In file included", body) is not None


def compile_error_summary(out):
    lines = out.splitlines()
    first = next((i for i, l in enumerate(lines) if " error: " in l or "fatal error:" in l), None)
    if first is None:
        return out[-400:]
    return re.sub(r"\s+", " ", lines[first])[:400]


def build(ctx):
    """Compile every unit on its own and link what compiled.  Returns (binary, parts that were linked).
    A unit that does not compile against the tree under test is a verdict about the tree (VIOLATION
    C17:<unit>:does-not-compile for the units that drive what the statement names, OBSERVATION for the
    observed-only units), never an infrastructure failure - except c17_main.cpp (no fcppt header)."""
    t0 = time.time()
    san, opt = "asan", "-O1"
    tag = vlib.sha((vlib.REPO + san + opt + "c17-units").encode())[:10]
    objdir = vlib.mkdir(os.path.join(vlib.BUILD, "obj", tag))

    def comp(u):
        unit, src, scope = u
        obj = os.path.join(objdir, "h_c17_%s.o" % unit)
        defs = () if unit == "main" else ("C17_SECTION_" + unit,)
        for attempt in (1, 2):
            try:
                o, rebuilt = vlib.compile_obj(os.path.join(vlib.HARNESS, src), obj, vlib.base_flags(san, opt, defs))
                return unit, o, rebuilt, None
            except vlib.Infra as e:
                if genuine_compile_error(str(e)):
                    return unit, None, 0, str(e)
                if attempt == 2:
                    raise
                time.sleep(5)   # compiler killed on the shared box: once more
    res = vlib.parallel(comp, [("main", "c17_main.cpp", None)] + UNITS, workers=vlib.NCPU)
    objs, failed, rebuilt = [], {}, 0
    for unit, o, r, err in res:
        if err is None:
            objs.append(o)
            rebuilt += r
        else:
            failed[unit] = err
    if "main" in failed:
        raise vlib.Infra("c17_main.cpp (no fcppt header) does not compile:\n" + failed["main"][-3000:])
    built = [u[0] for u in UNITS if u[0] not in failed]
    out = os.path.join(vlib.mkdir(os.path.join(vlib.BUILD, "bin", tag)), "c17_wrappers_" + vlib.sha(" ".join(sorted(built)).encode())[:8])
    if rebuilt or not os.path.exists(out):
        tout = out + ".tmp%d" % os.getpid()
        p = subprocess.run(["g++", "-pthread"] + vlib.SAN_FLAGS[san] + objs + ["-o", tout],
                           stdout=subprocess.PIPE, stderr=subprocess.STDOUT, text=True, errors="replace")
        if p.returncode != 0:
            raise vlib.Infra("link failed: c17_wrappers\n%s" % p.stdout[-4000:])
        os.replace(tout, out)
    vlib.log("build c17_wrappers: %d units (%d rebuilt, %d do not compile) in %.1fs" % (len(UNITS) + 1, rebuilt, len(failed), time.time() - t0))
    for unit, src, scope in UNITS:
        if unit not in failed:
            continue
        msg = "harness unit %s (harness/%s -DC17_SECTION_%s) does not compile against this tree: %s" % (
            unit, src, unit, compile_error_summary(failed[unit]))
        if scope:
            ctx.reject("C17:%s:does-not-compile" % UNIT_NAME.get(unit, unit), msg, {"unit": unit})
        else:
            observe(ctx, "C17:%s:does-not-compile" % unit, msg)
    ctx.extra["units_not_compiling"] = sorted(failed)
    return out, built


def retry_killed(fn, *a, **kw):
    """TLC processes are occasionally killed by the kernel's OOM killer when many checks share the
    box (rc=-9): that says nothing about the model, so the run is repeated (at most three times)."""
    for attempt in range(3):
        try:
            return fn(*a, **kw)
        except vlib.Infra as e:
            if "rc=-9" not in str(e) or attempt == 2:
                raise
            vlib.log("TLC was killed (rc=-9); retrying after a pause")
            time.sleep(20 * (attempt + 1))



def model_check(ctx, thorough):
    retry_killed(vlib.tlc_mc, ctx, "MC_Order", "MC_Order.cfg", workers=4)
    retry_killed(vlib.tlc_mc, ctx, "MC_StrongTypedef", "MC_StrongTypedef.cfg", workers=4)
    if thorough:
        retry_killed(vlib.tlc_mc, ctx, "MC_Order", "MC_Order_big.cfg", timeout=2400)
        retry_killed(vlib.tlc_mc, ctx, "MC_StrongTypedef", "MC_StrongTypedef_big.cfg", timeout=2400)
    # extension round (observed-only part of the check): ownership / lifetime state machine
    retry_killed(vlib.tlc_mc, ctx, "MC_Ownership", "MC_Ownership.cfg", workers=4)
    if thorough:
        retry_killed(vlib.tlc_mc, ctx, "MC_Ownership", "MC_Ownership_big.cfg", timeout=2400)
    guards = [("MC_Order", "MC_Order_guard_%s.cfg" % w, "RankLaw") for w in ("no_lt_transitive", "no_inc_transitive", "no_eq_incomparable")]
    guards += [("MC_StrongTypedef", "MC_StrongTypedef_guard_%s.cfg" % w, "UnsignedLaw") for w in ("drop_carry", "mul_no_carry", "and_as_or")]
    guards += [("MC_StrongTypedef", "MC_StrongTypedef_guard_signed_and_unsigned.cfg", "SignedLaw")]
    guards += [("MC_Ownership", "MC_Ownership_guard_%s.cfg" % b, inv) for b, inv in (
        ("move_copies", "CountAgrees"), ("lock_no_check", "LockIffAlive"), ("from_unique_keeps", "SingleOwnerKind"),
        ("assign_no_release", "AliveIffOwned"))]
    for module, cfg, inv in guards:
        r = retry_killed(vlib.tlc, module, cfg, workers=2, expect=inv)
        if inv not in r.invariant_violated:
            raise vlib.Infra("vacuity guard: %s did not violate %s" % (cfg, inv))
        ctx.extra.setdefault("vacuity_guards", []).append({"cfg": cfg, "violates": inv})


def signature(rec, reason):
    """reason = '<clause>@<type or wrapper>' -> 'C17:<type>:<clause>'"""
    clause, sep, where = reason.rpartition("@")
    if not sep:
        clause, where = reason, rec.get("type", rec["f"])
    return "C17:%s:%s" % (where, clause)


def spread(lines, nchunks):
    """A permutation of range(len(lines)) that deals the records, longest first, round-robin into
    nchunks runs: judge_trace cuts the file into nchunks runs of equal length, and the few heavy records
    (order records with 80 x 80 matrices: n^3 work) must not all land in the first one."""
    idx = sorted(range(len(lines)), key=lambda i: -len(lines[i]))
    bins = [idx[k::nchunks] for k in range(nchunks)]
    return [i for bn in bins for i in bn]


def judge_lines(ctx, lines, origin, verdict=True):
    """Judge a list of record texts; returns {1-based line: set of reasons}.  With verdict=False
    nothing is reported (used by the binding guard).  The judge keeps only the first 300 rejected
    records of a chunk verbatim, so the kinds inside the statement of C17 and each observed-only kind
    are judged as separate groups (concurrently): a flood of rejections in one group cannot hide one in
    another."""
    if verdict:
        scope = in_scope_kinds()
        groups = {}
        for k, l in enumerate(lines):
            m = re.match(r'\{"f":"(\w+)"', l)
            kd = m.group(1) if m else "?"
            groups.setdefault("inscope" if kd in scope else kd, []).append(k)
        if len(groups) > 1:
            why_of = {}
            names = sorted(groups)
            subs = vlib.parallel(lambda g: judge_group(ctx, [lines[k] for k in groups[g]], "%s_%s" % (origin, g)), names, workers=len(names))
            for g, sub in zip(names, subs):
                for l, w in sub.items():
                    why_of[groups[g][l - 1] + 1] = w
            report(ctx, lines, why_of, origin)
            return why_of
    why_of = judge_group(ctx, lines, origin, nchunks=None if verdict else 8)
    if verdict:
        report(ctx, lines, why_of, origin)
    return why_of


def judge_group(ctx, lines, origin, nchunks=None):
    """TLC judges one group of records (no reporting); returns {1-based line: set of reasons}."""
    if nchunks is None:
        nchunks = max(1, min(8, len(lines) // 400))
        if any(is_order(l) for l in lines):
            nchunks = 12
    nchunks = max(1, min(nchunks, len(lines)))
    perm = spread(lines, nchunks)
    path = os.path.join(ctx.workdir, "judge_%s.ndjson" % origin)
    with open(path, "w") as f:
        f.write("\n".join(lines[i] for i in perm) + "\n")
    bad = retry_killed(vlib.judge_trace, ctx, JUDGE, JUDGE_CFG, path, boundary_key=None, timeout=2400, nchunks=nchunks)
    os.unlink(path)
    why_of = {}
    for b in bad:
        k = perm[b["l"] - 1]
        if "HARNESS-PRECONDITION" in b["why"] or "unknown-record-kind" in b["why"] or b["op"] == "?":
            raise vlib.Infra("the judge could not interpret record %d of %s (%s): %s" % (k + 1, origin, b["why"], lines[k][:300]))
        why_of[k + 1] = set(b["why"])
    return why_of


def report(ctx, lines, why_of, origin):
    """rejected records -> VIOLATION (kinds inside the statement) / OBSERVATION (the others)"""
    ctx.evaluations += len(lines)
    scope = in_scope_kinds()
    for l in sorted(why_of):
        text = lines[l - 1]
        rec = json.loads(text)
        for why in sorted(why_of[l]):
            if rec["f"] not in scope:
                if rec["f"] == "orderx":
                    observe(ctx, signature(rec, why), "orderx record (%s): %s; %s" % (origin, why, explain(rec, why)))
                else:
                    observe(ctx, "C17:%s:%s" % (rec["f"], why), "%s record (%s): %s; %s" % (rec["f"], origin, why, text[:500]))
                continue
            detail = explain(rec, why) if rec["f"] == "order" else text[:500]
            ctx.reject(signature(rec, why), "%s record (%s): the specification cannot explain %s; %s" % (
                rec["f"], origin, why, detail), {"record": rec if rec["f"] != "order" else {"f": "order", "type": rec["type"]}, "reason": why})


def explain(rec, why):
    """A small witness from the matrices for the message (the verdict itself is TLC's)."""
    n, comp, how = rec["n"], rec["comp"], rec["how"]
    has = set(rec["has"])
    EQ, LT, HEQ = rec.get("EQ"), rec.get("LT"), rec.get("HEQ")

    def val(i):
        return "value %d (%s, components %s)" % (i + 1, how[i], comp[i])
    pairs = [(a, b) for a in range(n) for b in range(n)]
    out = None
    clause = why.split("@")[0]
    try:
        if clause == "eq-not-component-equality" and "EQ" in has:
            out = next(("%s == %s gave %d" % (val(a), val(b), EQ[a][b]) for a, b in pairs if (EQ[a][b] == 1) != (comp[a] == comp[b])), None)
        elif clause == "ne-not-the-negation-of-eq":
            out = next(("%s != %s gave %d, == gave %d" % (val(a), val(b), rec["NE"][a][b], EQ[a][b]) for a, b in pairs if rec["NE"][a][b] == EQ[a][b]), None)
        elif clause == "hash-differs-for-equal-values":
            out = next(("%s == %s but their hashes differ" % (val(a), val(b)) for a, b in pairs if EQ[a][b] == 1 and HEQ[a][b] == 0), None)
        elif clause == "lt-not-irreflexive":
            out = next(("%s < itself" % val(a) for a in range(n) if LT[a][a] == 1), None)
        elif clause == "lt-incompatible-with-eq":
            out = next(("%s == %s but one is < the other" % (val(a), val(b)) for a, b in pairs if EQ[a][b] == 1 and (LT[a][b] or LT[b][a])), None)
            if out is None:
                out = next(("%s == %s but < tells them apart against %s" % (val(a), val(b), val(c)) for a, b in pairs if EQ[a][b] == 1
                            for c in range(n) if LT[a][c] != LT[b][c] or LT[c][a] != LT[c][b]), None)
        elif clause == "lt-not-total-on-distinct-objects":
            out = next(("%s and %s are different (== gave 0) but neither is < the other" % (val(a), val(b)) for a, b in pairs
                        if EQ[a][b] == 0 and not LT[a][b] and not LT[b][a]), None)
        elif clause == "lt-not-the-documented-order":
            out = next(("%s < %s gave %d" % (val(a), val(b), LT[a][b]) for a, b in pairs if (LT[a][b] == 1) != (comp[a] < comp[b])), None)
        elif clause in ("le-not-derived-from-lt", "gt-not-derived-from-lt", "ge-not-derived-from-lt"):
            m = clause[:2].upper()
            want = {"LE": lambda a, b: 1 - LT[b][a], "GT": lambda a, b: LT[b][a], "GE": lambda a, b: 1 - LT[a][b]}[m]
            out = next(("%s %s %s gave %d" % (val(a), OPNAME[m][8:], val(b), rec[m][a][b]) for a, b in pairs if rec[m][a][b] != want(a, b)), None)
    except (KeyError, IndexError, TypeError):
        out = None
    return "type %s, %d values; %s" % (rec["type"], n, out or "see the replay payload")


def corrupt(lines, why_of):
    """Binding guard inputs: copies of records the judge ACCEPTED, each with one observation changed
    (plus one untouched copy).  Returns (texts, set of 1-based indices that must be rejected)."""
    accepted = [json.loads(l) for k, l in enumerate(lines) if (k + 1) not in why_of and not l.startswith('{"f":"st_int"')]
    accepted += [json.loads(l) for k, l in enumerate(lines) if (k + 1) not in why_of and l.startswith('{"f":"st_int"')][:50]
    out, want = [], set()

    def add(r, must_reject):
        out.append(json.dumps(r, separators=(",", ":")))
        if must_reject:
            want.add(len(out))
    orders = [r for r in accepted if r["f"] in ("order", "orderx")]
    if orders:
        add(orders[0], False)
    for k, r in enumerate(orders):
        n = r["n"]
        ms = [m for m in ("LT", "EQ", "HEQ", "LE", "GT", "GE", "NE") if m in r["has"]]
        m = ms[k % len(ms)]
        a, b = (k * 7 + 1) % n, (k * 3 + 2) % n
        if m == "HEQ":
            # only hash-equality of EQUAL values is constrained: clear an entry where the values are equal
            a = b = k % n
        r = json.loads(json.dumps(r))
        r[m][a][b] = 1 - r[m][a][b]
        add(r, True)
    for f in ("own", "wrapx"):
        src = [r for r in accepted if r["f"] == f and (f != "own" or any(o["sh"][0][0] for o in r["obs"]))]
        if not src:
            continue
        r = json.loads(json.dumps(src[len(src) // 2]))
        if f == "own":
            k = max(i for i, o in enumerate(r["obs"]) if o["sh"][0][0])
            r["obs"][k]["sh"][0][1] += 1        # a use_count that is one too high
        else:
            r["out"] = r["out"][:-1] + [r["out"][-1] + 1] if r["out"] else [1]
        add(r, True)
    for f, field, bump in (("st_int", "xor", None), ("st_u32", "mul", 2), ("wrap", "same", None)):
        src = [r for r in accepted if r["f"] == f]
        if not src:
            continue
        r = json.loads(json.dumps(src[len(src) // 2]))
        if f == "st_int":
            r["xor"] += 1
        elif f == "st_u32":
            r["mul"][bump] = (r["mul"][bump] + 1) % 256
        else:
            r["same"] = 0
        add(r, True)
    return out, want


def ownership_scripts(ctx):
    """spec -> code: one operation script per generated transition of the small ownership model."""
    r = retry_killed(vlib.tlc_mc, ctx, "MC_Ownership", "MC_OwnershipScripts.cfg", workers=4)
    scripts = [s for s in vlib._verdict_lines(r.out).get("SCRIPT", []) if s]
    if len(scripts) < 1000:
        raise vlib.Infra("ownership script emission produced only %d scripts" % len(scripts))
    last = set(s[-1]["op"] for s in scripts)
    want = {"make_shared", "copy_shared", "static_cast", "dynamic_cast", "dynamic_cast_fail", "const_cast", "shared_from_this",
            "assign_shared", "swap_shared", "move_shared", "destroy_shared", "weak_default", "weak_from_shared", "weak_copy",
            "weak_destroy", "lock", "make_unique", "make_unique_to_base", "unique_from_std", "move_unique", "destroy_unique",
            "shared_from_unique"}
    if last != want:
        raise vlib.Infra("ownership scripts do not cover every operation: %s" % sorted(want ^ last))
    path = os.path.join(ctx.workdir, "own_scripts.ndjson")
    vlib.write_ndjson(path, scripts)
    ctx.extra["ownership_scripts"] = len(scripts)
    return path


def in_scope_kinds():
    """The per-record-kind scope flag lives in the judge (InScope of spec/OrderJudge.tla)."""
    import re
    txt = open(os.path.join(vlib.SPEC, JUDGE + ".tla")).read()
    m = re.search(r"^InScope == \{([^}]*)\}", txt, re.M)
    if not m:
        raise vlib.Infra("InScope not found in %s.tla" % JUDGE)
    return set(re.findall(r'"(\w+)"', m.group(1)))


def observe(ctx, sig, what):
    """A disagreement outside the statement of C17: counted and written to the evidence, never a VIOLATION."""
    o = ctx.extra.setdefault("observations", {})
    e = o.setdefault(sig, {"count": 0, "first": what})
    e["count"] += 1
    if e["count"] == 1:
        vlib.log("OBSERVATION (outside the statement of C17, not a verdict): %s: %s" % (sig, what[:400]))


def is_order(line):
    return line.startswith('{"f":"order"') or line.startswith('{"f":"orderx"')


def crash_site(part, tail):
    """(name for the signature, description) of the record that was being written when the harness died"""
    tail = tail or ""
    m = re.search(r'"type":"([^"]+)"', tail)
    if m:
        rels = re.findall(r'"(comp|EQ|NE|LT|LE|GT|GE|HEQ)":', tail)
        step = OPNAME[rels[-1]] if rels else "building-the-values"
        return "%s:%s" % (m.group(1), step)
    m = re.search(r'"f":"(st_int|st_u32)"', tail)
    if m:
        return "strong_typedef<%s>:operators" % ("int" if m.group(1) == "st_int" else "unsigned")
    m = re.search(r'"f":"wrapx?".*?"kind":"([^"]+)"', tail)
    if m:
        return m.group(1)
    m = re.search(r'"f":"(\w+)"', tail)
    return m.group(1) if m else part


MAX_RESUMES = 4


def record_part(ctx, binary, part, thorough, scripts=None):
    """Run one part of the harness.  After a crash / sanitizer abort / hang / uncaught exception inside
    take k the complete records are kept, the event is returned (record_all turns it into a VIOLATION for
    the parts inside the statement, an OBSERVATION otherwise) and the part is resumed at take k + 1 (at
    most MAX_RESUMES times)."""
    lines, skip, events = [], 0, []
    for attempt in range(MAX_RESUMES + 1):
        path = os.path.join(ctx.workdir, "recorded_%s.ndjson" % part)
        rc, out = vlib.run_harness(binary, ["record", path, part, "thorough" if thorough else "quick", ctx.seed, skip]
                                   + ([scripts] if scripts and part == "own" else []), timeout=1500)
        try:
            got, tail = vlib.check_trace_file(path)
        except OSError:
            got, tail = [], None
        try:
            os.unlink(path)
        except OSError:
            pass
        # a crash record ({"e":"crash",...}) is not a record of the trace
        got = [l for l in got if l.startswith('{"f":"')]
        lines += got
        if rc == 0:
            break
        if rc in (3, 4):
            raise vlib.Infra("harness usage error (part %s): %s" % (part, out[-300:]))
        kind = {66: "sanitizer", 67: "crash", 68: "hang", 124: "timeout"}.get(rc, "exit%d" % rc)
        if "uncaught exception" in out:
            kind = "exception"
        site = crash_site(part, tail)
        what = "%s while recording part %s (%s); harness output: %s; partial line: %s" % (kind, part, site, out[-400:].strip(), (tail or "")[:300])
        events.append({"kind": kind, "site": site, "what": what, "tail": (tail or "")[:2000]})
        k = re.search(r'"k":(\d+)', tail or "")
        if not k or rc == 124:
            break           # died outside a record (e.g. at exit): nothing to resume
        skip = int(k.group(1))
    return part, lines, events


def record_all(ctx, binary, parts, thorough, scripts=None):
    t0 = time.time()
    res = vlib.parallel(lambda p: record_part(ctx, binary, p, thorough, scripts), parts, workers=8)
    vlib.log("harness: %d parts recorded in %.1fs" % (len(parts), time.time() - t0))
    lines, incomplete = [], set()
    for part, ls, events in res:
        lines += ls
        if events:
            incomplete.add(part)
            ctx.extra.setdefault("harness_events", []).append({"part": part, "events": ["%s:%s" % (e["site"], e["kind"]) for e in events]})
        for e in events:
            if IN_SCOPE_PART[part]:
                ctx.reject("C17:%s:%s" % (e["site"], e["kind"]), e["what"], {"part": part, "partial_line": e["tail"]})
            else:
                observe(ctx, "C17:%s:%s" % (part, e["kind"]), e["what"])
    return lines, incomplete


def check_offers(ctx, orders, parts, incomplete):
    """The operator sets detected by the compiler against the table: a relation that is gone is a
    VIOLATION (docs/AUDIT_BRIEF.md A.5); a type that is missing although its part ran to the end is a
    harness bug."""
    seen = {r["type"]: set(r["has"]) for r in orders}
    kind = {r["type"]: r["f"] for r in orders}
    scope = in_scope_kinds()
    for part in parts:
        for t in PART_TYPES.get(part, []):
            want = set(OFFERS[t].split())
            if t not in seen:
                if part not in incomplete:
                    raise vlib.Infra("the harness part %s ran to the end without recording type %s" % (part, t))
                continue
            for rel in sorted(want - seen[t]):
                if kind[t] not in scope:
                    observe(ctx, "C17:%s:%s:does-not-compile" % (t, OPNAME[rel]), "type %s no longer offers %s" % (t, OPNAME[rel]))
                    continue
                ctx.reject("C17:%s:%s:does-not-compile" % (t, OPNAME[rel]),
                           "type %s no longer offers %s (the expression does not compile with the operands the harness used to pass)" % (t, OPNAME[rel]),
                           {"record": {"f": "order", "type": t}, "missing": rel})
            extra = seen[t] - want
            if extra:
                vlib.log("INFO: type %s offers additional relations %s (judged like the others)" % (t, sorted(extra)))
    unknown = set(seen) - set(OFFERS)
    if unknown:
        raise vlib.Infra("the harness recorded types the table does not list: %s" % sorted(unknown))


def run(ctx):
    thorough = ctx.tier == "thorough"
    # VERIF_C17_SKIP_MC=1: development switch for trying source mutants quickly (the specification
    # does not depend on the tree); such a run writes no usable evidence
    if os.environ.get("VERIF_C17_SKIP_MC") != "1":
        model_check(ctx, thorough)
    binary, parts = build(ctx)
    scripts = ownership_scripts(ctx) if "own" in parts else None
    lines, incomplete = record_all(ctx, binary, parts, thorough, scripts)
    orders = [json.loads(l) for l in lines if is_order(l)]
    check_offers(ctx, orders, parts, incomplete)
    # the verdict
    why_of = judge_lines(ctx, lines, "recorded")
    # binding guard (independent of the verdict): copies of ACCEPTED records with one observation changed
    # must be rejected, an untouched copy accepted - otherwise the judge is not looking at the data
    bad_lines, want = corrupt(lines, why_of)
    if len(want) < 5 and not ctx.violations:
        raise vlib.Infra("binding guard: only %d corrupted records could be formed" % len(want))
    if want:
        got = judge_lines(ctx, bad_lines, "corrupted", verdict=False)
        if set(got) != want:
            raise vlib.Infra("binding guard: the judge rejected records %s of the corrupted log, expected %s" % (sorted(got), sorted(want)))
    ctx.extra["binding_guard"] = {"corrupted_records": len(want), "all_rejected": True, "untouched_copy_accepted": True}
    ctx.traces_validated += len(orders)
    triples = 0
    for r in orders:
        n = r["n"]
        if "LT" in r["has"]:
            triples += n * n * n
        eqc = len(set(tuple(c) for c in r["comp"]))
        ctx.count_class(("order", r["type"]))
        for h in set(r["how"]):
            ctx.count_class(("order-value", r["type"], h))
        ctx.extra.setdefault("types", []).append({"type": r["type"], "values": n, "distinct_component_vectors": eqc, "relations": r["has"]})
    ctx.extra["transitivity_triples"] = triples
    nst = 0
    for l in lines:
        if l.startswith('{"f":"st_'):
            nst += 1
            r = json.loads(l)
            if r["f"] == "st_int":
                a, b = r["a"], r["b"]
                ctx.count_class(("st_int", (a > 0) - (a < 0), (b > 0) - (b < 0), a == b, abs(a) in (127, 128), abs(b) in (127, 128)))
            else:
                ctx.count_class(("st_u32", tuple(r["a"]), tuple(r["b"])))
        elif l.startswith('{"f":"wrapx"'):
            ctx.count_class(("wrapx", json.loads(l)["kind"]))
        elif l.startswith('{"f":"wrap"'):
            ctx.count_class(("wrap", json.loads(l)["kind"]))
        elif l.startswith('{"f":"own"'):
            r = json.loads(l)
            ctx.traces_validated += 1
            prev = "start"
            for o in r["ops"]:
                ctx.count_class(("own", prev, o["op"]))
                prev = o["op"]
    if orders:
        ctx.sample({"order_record_excerpt": {k: (orders[0][k] if k in ("type", "n", "how", "comp", "has") else orders[0][k][:3]) for k in ("type", "n", "how", "comp", "has", "EQ", "LT")}})
    for prefix in ('{"f":"st_int"', '{"f":"st_u32"', '{"f":"wrap"', '{"f":"wrapx"', '{"f":"own","src":"rnd"'):
        for l in lines:
            if l.startswith(prefix) and 200 < len(l) < 2500 or (l.startswith(prefix) and "wrap" in prefix):
                ctx.sample(json.loads(l))
                break
    ctx.exhaustive = thorough
    ctx.rule = ("one 'order' record per C++ type (%d types, values with components in {0,1,2}, several values equal but produced "
                "differently) carrying the full n x n matrices of every offered relation; one record per operand pair of the "
                "strong_typedef operators (int: %s pairs of [-128,127]^2; unsigned: all pairs of 24 wrap-around boundary values); "
                "one record per wrapper observation.  A class = (type, way a value was produced) for order records, (sign pattern, "
                "equality, boundary) of the int operands, the operand pair for unsigned, the wrapper kind" % (
                    len(orders), "all 65536" if thorough else "8192 (all a x 32 b)"))
    ctx.assumptions += [
        "observable components are what the type's own accessors return (get_unsafe, type_index, x()/y(), pos()/size(), get(), iteration); for reference / shared_ptr the component is WHICH object is referred to, as their headers document",
        "the hash is only required to be equal for values that compare equal; nothing is demanded for different values",
        "operators a type does not offer are not demanded (the sets seen by the compiler are listed in coverage.types)",
        "documented-order clauses (lexicographic / total on objects) are checked only for the types whose header documents them",
        "strong_typedef<int> operands stay in [-128,127] so that no signed operation overflows; unsigned covers wrap-around",
    ]


def replay(ctx, payload):
    binary, parts = build(ctx)      # a unit that does not compile is rejected again in here
    pl = payload["payload"]
    rec = pl.get("record", {})
    want_parts = parts
    if pl.get("part"):
        want_parts = [p for p in parts if p == pl["part"]]
    elif pl.get("unit"):
        want_parts = []
    elif rec.get("f") == "order":
        want_parts = [p for p in parts if rec.get("type") in PART_TYPES.get(p, [])]
    elif rec.get("f") in ("st_int", "st_u32"):
        want_parts = [p for p in parts if p == "stops"]
    elif rec.get("f") == "wrap":
        want_parts = [p for p in parts if p == "wrap"]
    scripts = ownership_scripts(ctx) if "own" in want_parts else None
    lines, incomplete = record_all(ctx, binary, want_parts, payload.get("tier") == "thorough", scripts)
    orders = [json.loads(l) for l in lines if is_order(l)]
    check_offers(ctx, orders, want_parts, incomplete)
    if rec.get("f") == "order":
        lines = [l for l in lines if is_order(l) and json.loads(l)["type"] == rec["type"]]
    elif rec:
        keep = [l for l in lines if l.startswith('{"f":"%s"' % rec["f"]) and all(json.loads(l).get(k) == rec.get(k) for k in ("a", "b", "kind", "in"))]
        lines = keep or lines
    ctx.traces_validated += 1
    ctx.count_class("replay")
    ctx.sample({"replayed": json.loads(lines[0])["f"] if lines else None})
    if lines:
        judge_lines(ctx, lines, "replay")
    ctx.rule = "replay: the record of the saved violation is recorded again on the current tree and judged"
