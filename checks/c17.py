"""C17 - typed wrappers are transparent; ==, !=, <, <=, >, >= and hash are mutually coherent.

1. TLC model-checks the axioms themselves (spec/Order.tla via MC_Order.tla): relations induced by
   component equality and the lexicographic order satisfy every axiom; an arbitrary relation on 3
   values passes the "<"-axioms exactly when it is induced by a ranking compatible with ==; and the
   machine arithmetic of spec/StrongTypedef.tla (limb arithmetic modulo 2^32, two's complement
   bitwise operators) agrees with plain modular arithmetic / a bit-level definition
   (MC_StrongTypedef.tla).  Weakened axioms / perturbed definitions must be rejected (vacuity guards).
2. The harness records, for every listed fcppt value type, the full n x n matrices of every
   comparison operator the type offers and of its hash, together with the observable components of
   each value (values with components in {0,1,2}, several produced through operations), every
   strong_typedef operator on int ([-128,127]^2) and unsigned (wrap-around boundary values), and
   what the transparent wrappers expose.
3. spec/OrderJudge.tla (TLC) evaluates the axioms on the recorded matrices (n^3 transitivity) and
   compares every strong_typedef result with StrongTypedef.tla.
4. Binding guard at run time: one entry of a recorded matrix / one recorded result is corrupted and
   the judge must reject the corrupted record."""
import json
import os
import re
import time

import vlib

LEVEL = "model_checking"
JUDGE = "OrderJudge"
JUDGE_CFG = "OrderJudge.cfg"

# the relations each type must be seen to offer (an infrastructure guard against a harness that
# silently stops detecting an operator - not a verdict about the code)
OFFERS = {
    "optional<int>": "EQ NE LT", "optional<optional<int>>": "EQ NE LT", "either<int,long>": "EQ NE",
    "variant<int,long>": "EQ NE LT", "tuple<int,int>": "EQ NE", "array<int,2>": "EQ NE HEQ",
    "record<a:int,b:int>": "EQ NE", "strong_typedef<int>": "EQ NE LT LE GT GE HEQ",
    "strong_typedef<int>/std::hash": "EQ NE LT LE GT GE HEQ", "strong_typedef<unsigned>": "EQ NE LT LE GT GE HEQ",
    "vector<int,2>": "EQ NE LT LE GT GE HEQ", "vector<int,3>": "EQ NE LT LE GT GE HEQ",
    "dim<int,2>": "EQ NE LT LE GT GE HEQ", "matrix<int,2,2>": "EQ NE HEQ", "box<int,2>": "EQ NE LT",
    "box<int,1>": "EQ NE LT", "sphere<int,2>": "EQ NE", "bitfield<e3,u8>": "EQ NE HEQ",
    "bitfield<e3,u8>/std::hash": "EQ NE HEQ", "enum_array<e3,int>": "EQ NE", "grid<int,2>": "EQ NE LT LE GT GE",
    "tree<int>": "EQ NE", "raw_vector<int>": "EQ NE LT LE GT GE HEQ", "reference<int>": "EQ NE LT HEQ",
    "reference<int>/std::hash": "EQ NE LT HEQ", "shared_ptr<int>": "EQ NE LT HEQ",
    "shared_ptr<int>/std::hash": "EQ NE LT HEQ", "recursive<int>": "EQ NE",
}


def build():
    return vlib.build_harness("c17_wrappers", ["c17_main.cpp", "c17_order.cpp", "c17_strong.cpp", "c17_own.cpp"], libs=())


def retry_killed(fn, *a, **kw):
    """TLC processes are occasionally killed by the kernel's OOM killer when many checks share the
    box (rc=-9): that says nothing about the model, so the run is repeated (at most three times)."""
    for attempt in range(3):
        try:
            return fn(*a, **kw)
        except vlib.Infra as e:
            if "rc=-9" not in str(e) or attempt == 2:
                raise
            vlib.log("TLC was killed (rc=-9); retrying after a pause")
            time.sleep(20 * (attempt + 1))



def model_check(ctx, thorough):
    retry_killed(vlib.tlc_mc, ctx, "MC_Order", "MC_Order.cfg", workers=4)
    retry_killed(vlib.tlc_mc, ctx, "MC_StrongTypedef", "MC_StrongTypedef.cfg", workers=4)
    if thorough:
        retry_killed(vlib.tlc_mc, ctx, "MC_Order", "MC_Order_big.cfg", timeout=2400)
        retry_killed(vlib.tlc_mc, ctx, "MC_StrongTypedef", "MC_StrongTypedef_big.cfg", timeout=2400)
    # extension round (observed-only part of the check): ownership / lifetime state machine
    retry_killed(vlib.tlc_mc, ctx, "MC_Ownership", "MC_Ownership.cfg", workers=4)
    if thorough:
        retry_killed(vlib.tlc_mc, ctx, "MC_Ownership", "MC_Ownership_big.cfg", timeout=2400)
    guards = [("MC_Order", "MC_Order_guard_%s.cfg" % w, "RankLaw") for w in ("no_lt_transitive", "no_inc_transitive", "no_eq_incomparable")]
    guards += [("MC_StrongTypedef", "MC_StrongTypedef_guard_%s.cfg" % w, "UnsignedLaw") for w in ("drop_carry", "mul_no_carry", "and_as_or")]
    guards += [("MC_StrongTypedef", "MC_StrongTypedef_guard_signed_and_unsigned.cfg", "SignedLaw")]
    guards += [("MC_Ownership", "MC_Ownership_guard_%s.cfg" % b, inv) for b, inv in (
        ("move_copies", "CountAgrees"), ("lock_no_check", "LockIffAlive"), ("from_unique_keeps", "SingleOwnerKind"),
        ("assign_no_release", "AliveIffOwned"))]
    for module, cfg, inv in guards:
        r = retry_killed(vlib.tlc, module, cfg, workers=2, expect=inv)
        if inv not in r.invariant_violated:
            raise vlib.Infra("vacuity guard: %s did not violate %s" % (cfg, inv))
        ctx.extra.setdefault("vacuity_guards", []).append({"cfg": cfg, "violates": inv})


def signature(rec, reason):
    """reason = '<clause>@<type or wrapper>' -> 'C17:<type>:<clause>'"""
    clause, sep, where = reason.rpartition("@")
    if not sep:
        clause, where = reason, rec.get("type", rec["f"])
    return "C17:%s:%s" % (where, clause)


def judge_lines(ctx, lines, origin, verdict=True):
    """Judge a list of record texts; returns {1-based line: set of reasons}.  With verdict=False
    nothing is reported (used by the binding guard).  The judge keeps only the first 300 rejected
    records of a chunk verbatim, so the kinds inside the statement of C17 and each observed-only kind
    are judged as separate groups: a flood of rejections in one group cannot hide one in another."""
    if verdict:
        scope = in_scope_kinds()
        groups = {}
        for k, l in enumerate(lines):
            m = re.match(r'\{"f":"(\w+)"', l)
            kd = m.group(1) if m else "?"
            groups.setdefault("inscope" if kd in scope else kd, []).append(k)
        if len(groups) > 1:
            why_of = {}
            for g in sorted(groups):
                sub = judge_lines(ctx, [lines[k] for k in groups[g]], "%s_%s" % (origin, g), True)
                for l, w in sub.items():
                    why_of[groups[g][l - 1] + 1] = w
            return why_of
    path = os.path.join(ctx.workdir, "judge_%s.ndjson" % origin)
    with open(path, "w") as f:
        f.write("\n".join(lines) + "\n")
    bad = retry_killed(vlib.judge_trace, ctx, JUDGE, JUDGE_CFG, path, boundary_key=None, timeout=2400,
                           nchunks=(max(1, min(vlib.NCPU, len(lines) // 400)) if verdict else 1))
    os.unlink(path)
    why_of = {}
    for b in bad:
        if "HARNESS-PRECONDITION" in b["why"] or "unknown-record-kind" in b["why"] or b["op"] == "?":
            raise vlib.Infra("the judge could not interpret record %d of %s (%s): %s" % (b["l"], origin, b["why"], lines[b["l"] - 1][:300]))
        why_of[b["l"]] = set(b["why"])
    if not verdict:
        return why_of
    ctx.evaluations += len(lines)
    scope = in_scope_kinds()
    for l in sorted(why_of):
        text = lines[l - 1]
        rec = json.loads(text)
        for why in sorted(why_of[l]):
            if rec["f"] not in scope:
                observe(ctx, "C17:%s:%s" % (rec["f"], why), "%s record (%s): %s; %s" % (rec["f"], origin, why, text[:500]))
                continue
            detail = explain(rec, why) if rec["f"] == "order" else text[:500]
            ctx.reject(signature(rec, why), "%s record (%s): the specification cannot explain %s; %s" % (
                rec["f"], origin, why, detail), {"record": rec if rec["f"] != "order" else {"f": "order", "type": rec["type"]}, "reason": why})
    return why_of


def explain(rec, why):
    """A small witness from the matrices for the message (the verdict itself is TLC's)."""
    n, comp, how = rec["n"], rec["comp"], rec["how"]
    has = set(rec["has"])
    out = []
    if why.startswith("eq-not-component-equality") and "EQ" in has:
        for a in range(n):
            for b in range(n):
                if (rec["EQ"][a][b] == 1) != (comp[a] == comp[b]):
                    out.append("value %d (%s, components %s) == value %d (%s, components %s) gave %d" % (
                        a + 1, how[a], comp[a], b + 1, how[b], comp[b], rec["EQ"][a][b]))
                    break
            if out:
                break
    return "type %s, %d values; %s" % (rec["type"], n, out[0] if out else "see the replay payload")


def corrupt(lines, why_of):
    """Binding guard inputs: copies of records the judge ACCEPTED, each with one observation changed
    (plus one untouched copy).  Returns (texts, set of 1-based indices that must be rejected)."""
    accepted = [json.loads(l) for k, l in enumerate(lines) if (k + 1) not in why_of and not l.startswith('{"f":"st_int"')]
    accepted += [json.loads(l) for k, l in enumerate(lines) if (k + 1) not in why_of and l.startswith('{"f":"st_int"')][:50]
    out, want = [], set()

    def add(r, must_reject):
        out.append(json.dumps(r, separators=(",", ":")))
        if must_reject:
            want.add(len(out))
    orders = [r for r in accepted if r["f"] == "order"]
    if orders:
        add(orders[0], False)
    for k, r in enumerate(orders):
        n = r["n"]
        ms = [m for m in ("LT", "EQ", "HEQ", "LE", "GT", "GE", "NE") if m in r["has"]]
        m = ms[k % len(ms)]
        a, b = (k * 7 + 1) % n, (k * 3 + 2) % n
        if m == "HEQ":
            # only hash-equality of EQUAL values is constrained: clear an entry where the values are equal
            a = b = k % n
        r = json.loads(json.dumps(r))
        r[m][a][b] = 1 - r[m][a][b]
        add(r, True)
    for f in ("own", "wrapx"):
        src = [r for r in accepted if r["f"] == f and (f != "own" or any(o["sh"][0][0] for o in r["obs"]))]
        if not src:
            continue
        r = json.loads(json.dumps(src[len(src) // 2]))
        if f == "own":
            k = max(i for i, o in enumerate(r["obs"]) if o["sh"][0][0])
            r["obs"][k]["sh"][0][1] += 1        # a use_count that is one too high
        else:
            r["out"] = r["out"][:-1] + [r["out"][-1] + 1] if r["out"] else [1]
        add(r, True)
    for f, field, bump in (("st_int", "xor", None), ("st_u32", "mul", 2), ("wrap", "same", None)):
        src = [r for r in accepted if r["f"] == f]
        if not src:
            continue
        r = json.loads(json.dumps(src[len(src) // 2]))
        if f == "st_int":
            r["xor"] += 1
        elif f == "st_u32":
            r["mul"][bump] = (r["mul"][bump] + 1) % 256
        else:
            r["same"] = 0
        add(r, True)
    return out, want


def ownership_scripts(ctx):
    """spec -> code: one operation script per generated transition of the small ownership model."""
    r = retry_killed(vlib.tlc_mc, ctx, "MC_Ownership", "MC_OwnershipScripts.cfg", workers=4)
    scripts = [s for s in vlib._verdict_lines(r.out).get("SCRIPT", []) if s]
    if len(scripts) < 1000:
        raise vlib.Infra("ownership script emission produced only %d scripts" % len(scripts))
    last = set(s[-1]["op"] for s in scripts)
    want = {"make_shared", "copy_shared", "static_cast", "dynamic_cast", "dynamic_cast_fail", "const_cast", "shared_from_this",
            "assign_shared", "swap_shared", "move_shared", "destroy_shared", "weak_default", "weak_from_shared", "weak_copy",
            "weak_destroy", "lock", "make_unique", "make_unique_to_base", "unique_from_std", "move_unique", "destroy_unique",
            "shared_from_unique"}
    if last != want:
        raise vlib.Infra("ownership scripts do not cover every operation: %s" % sorted(want ^ last))
    path = os.path.join(ctx.workdir, "own_scripts.ndjson")
    vlib.write_ndjson(path, scripts)
    ctx.extra["ownership_scripts"] = len(scripts)
    return path


def in_scope_kinds():
    """The per-record-kind scope flag lives in the judge (InScope of spec/OrderJudge.tla)."""
    import re
    txt = open(os.path.join(vlib.SPEC, JUDGE + ".tla")).read()
    m = re.search(r"^InScope == \{([^}]*)\}", txt, re.M)
    if not m:
        raise vlib.Infra("InScope not found in %s.tla" % JUDGE)
    return set(re.findall(r'"(\w+)"', m.group(1)))


def observe(ctx, sig, what):
    """A disagreement outside the statement of C17: counted and written to the evidence, never a VIOLATION."""
    o = ctx.extra.setdefault("observations", {})
    e = o.setdefault(sig, {"count": 0, "first": what})
    e["count"] += 1
    if e["count"] == 1:
        vlib.log("OBSERVATION (outside the statement of C17, not a verdict): %s: %s" % (sig, what[:400]))


def record(ctx, binary, thorough, scripts=None):
    path = os.path.join(ctx.workdir, "recorded.ndjson")
    rc, out = vlib.run_harness(binary, [path, "all", "thorough" if thorough else "quick", ctx.seed] + ([scripts] if scripts else []), timeout=1800)
    lines, tail = vlib.check_trace_file(path)
    if rc == 3:
        raise vlib.Infra("harness usage error: %s" % out[-300:])
    if rc != 0:
        kind = {66: "sanitizer", 67: "crash", 68: "hang", 124: "timeout"}.get(rc, "exit%d" % rc)
        m = None
        if tail:
            m = re.search(r'"type":"([^"]+)"', tail) or re.search(r'"f":"(\w+)"', tail)
        what = "%s while recording: %s; partial line: %s" % (kind, out[-300:], (tail or "")[:300])
        fk = re.search(r'"f":"(\w+)"', tail or "")
        if fk and fk.group(1) not in in_scope_kinds():
            observe(ctx, "C17:%s:%s" % (fk.group(1), kind), what)
        else:
            ctx.reject("C17:%s:%s" % (m.group(1) if m else "?", kind), what, {"partial_line": tail})
    os.unlink(path)
    return lines


def run(ctx):
    thorough = ctx.tier == "thorough"
    # VERIF_C17_SKIP_MC=1: development switch for trying source mutants quickly (the specification
    # does not depend on the tree); such a run writes no usable evidence
    if os.environ.get("VERIF_C17_SKIP_MC") != "1":
        model_check(ctx, thorough)
    binary = build()
    scripts = ownership_scripts(ctx)
    lines = record(ctx, binary, thorough, scripts)
    orders = [json.loads(l) for l in lines if l.startswith('{"f":"order"')]
    seen = {r["type"]: " ".join(r["has"]) for r in orders}
    if seen != OFFERS:
        diff = {t: (seen.get(t), OFFERS.get(t)) for t in set(seen) | set(OFFERS) if seen.get(t) != OFFERS.get(t)}
        raise vlib.Infra("the harness does not see the expected operator sets (type: (seen, expected)): %s" % diff)
    # the verdict
    why_of = judge_lines(ctx, lines, "recorded")
    # binding guard (independent of the verdict): copies of ACCEPTED records with one observation changed
    # must be rejected, an untouched copy accepted - otherwise the judge is not looking at the data
    bad_lines, want = corrupt(lines, why_of)
    if len(want) < 5:
        raise vlib.Infra("binding guard: only %d corrupted records could be formed" % len(want))
    got = judge_lines(ctx, bad_lines, "corrupted", verdict=False)
    if set(got) != want:
        raise vlib.Infra("binding guard: the judge rejected records %s of the corrupted log, expected %s" % (sorted(got), sorted(want)))
    ctx.extra["binding_guard"] = {"corrupted_records": len(want), "all_rejected": True, "untouched_copy_accepted": True}
    ctx.traces_validated += len(orders)
    triples = 0
    for r in orders:
        n = r["n"]
        if "LT" in r["has"]:
            triples += n * n * n
        eqc = len(set(tuple(c) for c in r["comp"]))
        ctx.count_class(("order", r["type"]))
        for h in set(r["how"]):
            ctx.count_class(("order-value", r["type"], h))
        ctx.extra.setdefault("types", []).append({"type": r["type"], "values": n, "distinct_component_vectors": eqc, "relations": r["has"]})
    ctx.extra["transitivity_triples"] = triples
    nst = 0
    for l in lines:
        if l.startswith('{"f":"st_'):
            nst += 1
            r = json.loads(l)
            if r["f"] == "st_int":
                a, b = r["a"], r["b"]
                ctx.count_class(("st_int", (a > 0) - (a < 0), (b > 0) - (b < 0), a == b, abs(a) in (127, 128), abs(b) in (127, 128)))
            else:
                ctx.count_class(("st_u32", tuple(r["a"]), tuple(r["b"])))
        elif l.startswith('{"f":"wrapx"'):
            ctx.count_class(("wrapx", json.loads(l)["kind"]))
        elif l.startswith('{"f":"wrap"'):
            ctx.count_class(("wrap", json.loads(l)["kind"]))
        elif l.startswith('{"f":"own"'):
            r = json.loads(l)
            ctx.traces_validated += 1
            prev = "start"
            for o in r["ops"]:
                ctx.count_class(("own", prev, o["op"]))
                prev = o["op"]
    ctx.sample({"order_record_excerpt": {k: (orders[0][k] if k in ("type", "n", "how", "comp", "has") else orders[0][k][:3]) for k in ("type", "n", "how", "comp", "has", "EQ", "LT")}})
    for prefix in ('{"f":"st_int"', '{"f":"st_u32"', '{"f":"wrap"', '{"f":"wrapx"', '{"f":"own","src":"rnd"'):
        for l in lines:
            if l.startswith(prefix) and 200 < len(l) < 2500 or (l.startswith(prefix) and "wrap" in prefix):
                ctx.sample(json.loads(l))
                break
    ctx.exhaustive = thorough
    ctx.rule = ("one 'order' record per C++ type (%d types, values with components in {0,1,2}, several values equal but produced "
                "differently) carrying the full n x n matrices of every offered relation; one record per operand pair of the "
                "strong_typedef operators (int: %s pairs of [-128,127]^2; unsigned: all pairs of 24 wrap-around boundary values); "
                "one record per wrapper observation.  A class = (type, way a value was produced) for order records, (sign pattern, "
                "equality, boundary) of the int operands, the operand pair for unsigned, the wrapper kind" % (
                    len(orders), "all 65536" if thorough else "8192 (all a x 32 b)"))
    ctx.assumptions += [
        "observable components are what the type's own accessors return (get_unsafe, type_index, x()/y(), pos()/size(), get(), iteration); for reference / shared_ptr the component is WHICH object is referred to, as their headers document",
        "the hash is only required to be equal for values that compare equal; nothing is demanded for different values",
        "operators a type does not offer are not demanded (the sets seen by the compiler are listed in coverage.types)",
        "documented-order clauses (lexicographic / total on objects) are checked only for the types whose header documents them",
        "strong_typedef<int> operands stay in [-128,127] so that no signed operation overflows; unsigned covers wrap-around",
    ]


def replay(ctx, payload):
    binary = build()
    lines = record(ctx, binary, payload.get("tier") == "thorough")
    rec = payload["payload"].get("record", {})
    if rec.get("f") == "order":
        lines = [l for l in lines if l.startswith('{"f":"order"') and json.loads(l)["type"] == rec["type"]]
    elif rec:
        keep = [l for l in lines if l.startswith('{"f":"%s"' % rec["f"]) and all(json.loads(l).get(k) == rec.get(k) for k in ("a", "b", "kind", "in"))]
        lines = keep or lines
    ctx.traces_validated += 1
    ctx.count_class("replay")
    ctx.sample({"replayed": json.loads(lines[0])["f"] if lines else None})
    judge_lines(ctx, lines, "replay")
    ctx.rule = "replay: the record of the saved violation is recorded again on the current tree and judged"
