"""C16 - fcppt.algorithm and the container/array/tuple helpers equal their straightforward reference.

1. TLC model-checks spec/Algorithms.tla itself (MC_Algorithms.tla): the laws (split/join inverse,
   reverse involution, remove/unique idempotence, fold_break prefix property, binary_search vs
   contains, set algebra, get_or_insert/join on maps ...) are invariants over every sequence over
   {0,1,2} up to length 5 (6 thorough) x predicate x value, every triple of subsets of 0..3, every
   map x key x table, enumerated as initial states; 13 vacuity guards (defective definitions
   substituted in the cfg) must each be refuted by TLC.
2. harness/c16_*.cpp drives the real functions over all sequences over {0,1,2} up to length 6, all
   strings over {a,b,delimiter} up to length 7, sources vector/list/deque/set/multiset/map/array/
   tuple/mpl list/int and enum ranges, user functions as tables, and records inputs, result, final
   state of mutated containers and the call log (code -> spec).
3. spec/AlgorithmsJudge.tla (TLC, RecordLoop) judges every record.
Sanitizer reports / crashes of the harness become rejected records (observed, not decided by the
spec)."""
import json
import os
import re
import subprocess
import time

import vlib

LEVEL = "model_checking"
PARTS = ["vector", "list", "deque", "assoc", "static", "ranges", "strings", "containers", "extension", "foldtables"]
SOURCES = ["c16_algo.cpp", "c16_cont.cpp", "c16_src_vector.cpp", "c16_src_list.cpp", "c16_src_deque.cpp",
           "c16_src_assoc.cpp", "c16_src_static.cpp", "c16_src_ranges.cpp", "c16_ext.cpp"]
GUARDS = [("split", "SplitJoinInverse"), ("bsearch", "BinarySearchLaws"), ("reverse", "ReverseAntiHom"),
          ("reverse2", "ReverseInvolution"), ("remove", "RemoveLaws"), ("unique", "UniqueLaws"),
          ("foldbreak", "FoldBreakPrefix"), ("findopt", "SearchLaws"), ("atopt", "AtOptionalLaws"),
          ("mapopt", "MapLaws"), ("fromrange", "ArrayLaws"), ("setunion", "SetAlgebra"),
          ("joinmap", "MapLawsAssoc"), ("equal", "ExtensionSeqLaws"), ("popfront", "ExtensionSeqLaws"),
          ("text", "ExtensionSeqLaws"), ("indexmap", "IndexMapLaws"), ("insertmap", "ExtensionMapLaws"),
          ("insertset", "ExtensionSetLaws")]


def compiles(probe):
    """Compile-only probes.  fcppt::array::append/join/push_back with lvalue arrays
    (array/append.hpp instantiates fcppt::array::size<Array1> with a reference type) and
    fcppt::tuple::concat with lvalue tuples (enable_if on the deduced reference types) do not
    compile on the unchanged tree: compile-time restrictions, no run-time behaviour to judge.
    The lvalue calls are driven only if they compile."""
    cmd = vlib.base_flags("none") + ["-fsyntax-only", os.path.join(vlib.HARNESS, probe)]
    p = subprocess.run(cmd, stdout=subprocess.PIPE, stderr=subprocess.STDOUT, text=True, errors="replace")
    return p.returncode == 0


def build(ctx):
    defs = []
    for key, probe, macro, what in (
            ("array_append_accepts_lvalues", "c16_probe_append.cpp", "C16_APPEND_LVALUE", "fcppt::array::append/join/push_back"),
            ("tuple_concat_accepts_lvalues", "c16_probe_concat.cpp", "C16_CONCAT_LVALUE", "fcppt::tuple::concat"),
            ("tuple_apply_accepts_lvalues", "c16_probe_tuple_apply.cpp", "C16_TUPLE_APPLY_LVALUE", "fcppt::tuple::apply")):
        ok = compiles(probe)
        ctx.extra[key] = ok
        if ok:
            defs.append(macro)
        else:
            vlib.log("INFO: %s does not compile with lvalue arguments (driven with rvalues only)" % what)
    return vlib.build_harness("c16_algo", SOURCES, libs=(), defs=tuple(defs))


def model_checks(ctx):
    thorough = ctx.tier == "thorough"
    vlib.tlc_mc(ctx, "MC_Algorithms", "MC_Algorithms_seq.cfg")
    vlib.tlc_mc(ctx, "MC_Algorithms", "MC_Algorithms_set.cfg")
    vlib.tlc_mc(ctx, "MC_Algorithms", "MC_Algorithms_map.cfg")
    # container::index_map as a state machine (all reachable vectors over {0,1,2} of size <= 4)
    vlib.tlc_mc(ctx, "MC_Algorithms", "MC_Algorithms_indexmap.cfg", deadlock=False)
    r = vlib.tlc("MC_Algorithms", "MC_Algorithms_bug_indexmap_sm.cfg", workers=2, deadlock=False, tag="MC_Algorithms_bug_indexmap_sm")
    if not r.property_violated:
        raise vlib.Infra("vacuity guard: MC_Algorithms_bug_indexmap_sm.cfg did not violate IMMonotone")
    ctx.extra.setdefault("vacuity_guards", []).append({"cfg": "MC_Algorithms_bug_indexmap_sm.cfg", "violates": "IMMonotone"})
    if thorough:
        vlib.tlc_mc(ctx, "MC_Algorithms", "MC_Algorithms_seq_big.cfg", timeout=1800)
        vlib.tlc_mc(ctx, "MC_Algorithms", "MC_Algorithms_set_big.cfg", timeout=1800)

    def guard(g):
        name, inv = g
        r = vlib.tlc("MC_Algorithms", "MC_Algorithms_bug_%s.cfg" % name, workers=2, tag="MC_Algorithms_bug_" + name)
        return name, inv, r
    t0 = time.time()
    res = vlib.parallel(guard, GUARDS, workers=7)
    vlib.log("vacuity guards: %d TLC runs in %.1fs" % (len(GUARDS), time.time() - t0))
    for name, inv, r in res:
        if inv not in r.invariant_violated:
            raise vlib.Infra("vacuity guard: MC_Algorithms_bug_%s.cfg did not violate %s" % (name, inv))
        ctx.extra.setdefault("vacuity_guards", []).append({"cfg": "MC_Algorithms_bug_%s.cfg" % name, "violates": inv})


def in_scope_kinds():
    """The per-record-kind in_scope flag lives in the judge (spec/AlgorithmsJudge.tla, InScope ==): only these
    kinds can produce a VIOLATION; rejections of every other kind are observations."""
    txt = open(os.path.join(vlib.SPEC, "AlgorithmsJudge.tla")).read()
    m = re.search(r"^InScope ==(.*?)^(?:ObservedFields|Infra) ==", txt, re.S | re.M)
    if not m:
        raise vlib.Infra("cannot find InScope in the judge module")
    body = re.sub(r"\\\*[^\n]*", "", m.group(1))
    return set(re.findall(r'"([^"]+)"', body))


def observe(ctx, sig, what):
    """out-of-statement disagreement: recorded, never a VIOLATION"""
    obs = ctx.extra.setdefault("observations", {"count": 0, "by_signature": {}, "samples": []})
    obs["count"] += 1
    obs["by_signature"][sig] = obs["by_signature"].get(sig, 0) + 1
    if len(obs["samples"]) < 20 and obs["by_signature"][sig] <= 2:
        obs["samples"].append(what[:600])
    if obs["by_signature"][sig] == 1:
        print("OBSERVATION property=C16 (outside the statement, not a verdict) signature: %s" % sig)
        print("  what: %s" % what[:500])


def signature(b):
    return "C16:%s:%s" % (b["op"], "+".join(sorted(b["why"])))


def class_of(e):
    """distinct non-trivial class of a record: function, source/target/value category, input
    length, and whether the call log stopped early / the result is empty"""
    n = None
    for k in ("xs", "s", "ss", "cs", "m", "a", "as", "ts"):
        if k in e:
            n = len(e[k])
            break
    if n is None:
        n = e.get("n", 0)
    early = "log" in e and isinstance(e.get("xs"), list) and len(e["log"]) < len(e["xs"])
    r = e.get("r", e.get("st"))
    shape = "-" if r is None else ("empty" if r in ([], False) else "nonempty")
    return (e["f"], e.get("src", e.get("kind", "")), e.get("tgt", e.get("cat", "")), n, early, shape)


OBSERVED = ("r", "st", "log", "elem", "inserted", "calls", "after", "present", "null", "len", "first", "size", "unsafe", "get", "iter", "data", "min", "max")


def corrupted(x):
    """a value that differs from x in one scalar leaf (same shape); None if x has no leaf"""
    if isinstance(x, bool):
        return not x
    if isinstance(x, int):
        return x + 1
    if isinstance(x, list):
        for i, y in enumerate(x):
            c = corrupted(y)
            if c is not None:
                return x[:i] + [c] + x[i + 1:]
    return None


def judge_guard(ctx, module, cfg, chosen):
    """Binding demonstration built into every run: for every (function, observed field) one really
    recorded record with that field corrupted in one scalar; TLC must reject every one of them with
    the reason wrong-<field>.  Otherwise the judge is vacuous -> infrastructure failure."""
    keys = sorted(chosen)
    path = os.path.join(ctx.workdir, "corrupted_%s.ndjson" % ("replay" if ctx.is_replay else ctx.tier))
    vlib.write_ndjson(path, [chosen[k] for k in keys])
    bad = {b["l"]: b for b in vlib.judge_trace(ctx, module, cfg, path, boundary_key=None, nchunks=1)}
    for i, k in enumerate(keys):
        b = bad.get(i + 1)
        if b is None or not ({"wrong-" + k[1], "observed-wrong-" + k[1]} & set(b["why"])):
            raise vlib.Infra("judge vacuity guard: corrupted %s of a %s record was not rejected: %s" % (
                k[1], k[0], json.dumps(chosen[k])[:300]))
    ctx.extra["judge_guard_corrupted_records_rejected"] = len(keys)
    os.unlink(path)


def judge_parts(ctx, results):
    """results: (part, path, rc, output) per harness process.  All complete records are judged in one
    chunked TLC pass; a rejected line is mapped back to its part."""
    all_lines = []
    spans = []  # (first index, part)
    for part, path, rc, out in results:
        lines, tail = vlib.check_trace_file(path)
        if rc != 0:
            fn = "?"
            if tail:
                mm = re.search(r'"f":"(\w+)"', tail)
                fn = mm.group(1) if mm else "?"
            kind = {66: "sanitizer", 67: "crash", 68: "hang", 124: "timeout"}.get(rc, "exit%d" % rc)
            san = re.search(r"(ERROR: \w+Sanitizer: [^\n]*|runtime error: [^\n]*)", out)
            (ctx.reject if fn in in_scope_kinds() or fn == "?" else
             (lambda sig, what, payload: observe(ctx, sig.replace("C16:", "C16:observed:", 1), what)))("C16:%s:%s" % (fn, kind),
                       "%s during %s (part %s): %s; truncated record: %s" % (
                           kind, fn, part, san.group(1) if san else out[-300:], (tail or "")[:300]),
                       {"part": part, "partial_line": tail})
        elif not lines:
            raise vlib.Infra("harness part %s wrote no records" % part)
        lines = [l for l in lines if not l.startswith('{"e":"crash"')]
        spans.append((len(all_lines), part))
        all_lines += lines
        ctx.traces_validated += 1
        try:
            os.unlink(path)
        except OSError:
            pass
    if not all_lines:
        return
    path = os.path.join(ctx.workdir, "records_%s.ndjson" % ("replay" if ctx.is_replay else ctx.tier))
    with open(path, "w") as f:
        f.write("\n".join(all_lines) + "\n")
    t0 = time.time()
    bad = vlib.judge_trace(ctx, "AlgorithmsJudge", "AlgorithmsJudge.cfg", path, boundary_key=None,
                           nchunks=max(1, len(all_lines) // 30000 + 1), timeout=1800)
    vlib.log("judged %d records in %.1fs, %d rejected" % (len(all_lines), time.time() - t0, len(bad)))
    ctx.evaluations += len(all_lines)

    def part_of(l):
        cur = spans[0][1]
        for first, part in spans:
            if first <= l - 1:
                cur = part
        return cur
    for b in bad:
        line = all_lines[b["l"] - 1]
        if "HARNESS-PRECONDITION" in b["why"] or "unknown-function" in b["why"]:
            raise vlib.Infra("harness record outside the spec's preconditions at line %d of %s: %s" % (b["l"], path, line[:300]))
        real = [w for w in b["why"] if not w.startswith("observed-")]
        if not real:
            observe(ctx, "C16:observed:%s:%s" % (b["op"], "+".join(sorted(w[9:] for w in b["why"]))),
                    "spec cannot explain %s (%s); record: %s" % (b["op"], ",".join(b["why"]), line[:500]))
            continue
        b = dict(b, why=real)
        ctx.reject(signature(b), "spec cannot explain %s (%s); record: %s" % (b["op"], ",".join(b["why"]), line[:500]),
                   {"part": part_of(b["l"]), "record": json.loads(line)})
    chosen = {}
    bad_lines = set(b["l"] for b in bad)
    for ln, l in enumerate(all_lines, 1):
        e = json.loads(l)
        ctx.count_class(class_of(e))
        if ln in bad_lines:
            continue  # the guard corrupts records the judge accepted
        for fld in OBSERVED:
            if fld in e and (e["f"], fld) not in chosen:
                c = corrupted(e[fld])
                if c is not None:
                    chosen[(e["f"], fld)] = dict(e, **{fld: c})
    if not bad:  # only on a run without any disagreement (rejected records are listed up to a cap)
        judge_guard(ctx, "AlgorithmsJudge", "AlgorithmsJudge.cfg", chosen)
    ends = [f for f, _ in spans[1:]] + [len(all_lines)]
    for (first, part), end in zip(spans, ends):
        if end > first:
            ctx.sample(json.loads(all_lines[first + (end - first) * 2 // 3]), cap=8)
    if not ctx.violations:
        os.unlink(path)


def record_and_judge(ctx, binary, parts):
    def rec(part):
        path = os.path.join(ctx.workdir, "rec_%s_%s.ndjson" % (part, "replay" if ctx.is_replay else ctx.tier))
        rc, out = vlib.run_harness(binary, ["record", path, ctx.seed, ctx.tier, part], timeout=1500)
        return part, path, rc, out
    t0 = time.time()
    results = vlib.parallel(rec, parts, workers=8)
    vlib.log("harness: %d parts recorded in %.1fs" % (len(parts), time.time() - t0))
    judge_parts(ctx, results)


def run(ctx):
    model_checks(ctx)
    binary = build(ctx)
    record_and_judge(ctx, binary, PARTS)
    ctx.exhaustive = False
    ctx.rule = ("one record per call of a real fcppt function: every sequence over {0,1,2} of length <= 6 (list, deque: "
                "length <= 5 in quick) with all 8 predicate tables; the 27 unary / 64 optional / 125 sequence-valued table "
                "families are enumerated completely for inputs up to length 4 (vector) / 3 (others) in quick and seeded "
                "samples beyond, thorough enumerates them all; every string over {a,b,delimiter} <= 7, sorted inputs for binary_search/equal_range, all "
                "std::map over keys/values {0,1,2}, all pairs of subsets of 0..3 (0..4 thorough), arrays/tuples of size 0..5; "
                "fold / fold_break tables (3^9 / 6^9 of them) are seeded random in both tiers, hence exhaustive=false; "
                "a class = (function, source, target or value category, input length, log stopped early?, result empty?)")
    ctx.assumptions += [
        "the element domain {0,1,2} (ints, enum, pairs) stands for all element types (parametricity)",
        "memory errors and undefined behaviour inside a driven call are only OBSERVED via ASan/UBSan in the harness",
        "std::unique's predicate must be an equivalence relation: only the 5 equivalence relations on {0,1,2} are driven",
        "binary_search / equal_range are driven on sorted inputs only (precondition of std::equal_range)",
        "call order of std-delegated algorithms (remove_if, find_if_opt) is the in-order one of the obvious loop, which libstdc++ implements",
        "fcppt::array::append/join/push_back and fcppt::tuple::concat are driven with the value categories that compile (see array_append_accepts_lvalues / tuple_concat_accepts_lvalues in the evidence)",
    ]


def replay(ctx, payload):
    """Re-execute the harness part that produced the rejected record on the current tree and
    judge it again."""
    ctx.tier = payload.get("tier", ctx.tier)
    ctx.seed = payload.get("seed", ctx.seed)
    binary = build(ctx)
    record_and_judge(ctx, binary, [payload["payload"]["part"]])
    ctx.rule = "replay of the harness part that produced the saved rejection"
