"""C16 - fcppt.algorithm and the container/array/tuple helpers equal their straightforward reference.

1. TLC model-checks spec/Algorithms.tla itself (MC_Algorithms.tla): the laws (split/join inverse,
   reverse involution, remove/unique idempotence, fold_break prefix property, binary_search vs
   contains, set algebra, get_or_insert/join on maps ...) are invariants over every sequence over
   {0,1,2} up to length 5 (6 thorough) x predicate x value, every triple of subsets of 0..3, every
   map x key x table, enumerated as initial states; 13 vacuity guards (defective definitions
   substituted in the cfg) must each be refuted by TLC.
2. harness/c16_*.cpp drives the real functions over all sequences over {0,1,2} up to length 6, all
   strings over {a,b,delimiter} up to length 7, sources vector/list/deque/set/multiset/map/array/
   tuple/mpl list/int and enum ranges, user functions as tables, and records inputs, result, final
   state of mutated containers and the call log (code -> spec).
3. spec/AlgorithmsJudge.tla (TLC, RecordLoop) judges every record.
Sanitizer reports / crashes / hangs (CPU-time watchdog per driven call) of the harness become rejected
records naming the function (observed, not decided by the spec); the complete prefix of the part is still
judged.  Every harness unit is compiled separately (c16_main.cpp links them through weak symbols): a unit
that does not compile against the tree under test is a VIOLATION C16:<unit>:does-not-compile (functions
named by the statement) or an OBSERVATION (extension units), the other units are still driven and judged.
A record TLC cannot evaluate is isolated by bisection and rejected (spec-cannot-evaluate), integers
outside [-2^30, 2^30] are rejected before they reach TLC (absurd-<field>)."""
import json
import os
import re
import subprocess
import time

import vlib

LEVEL = "model_checking"

# Harness units.  Every unit is ONE translation unit, compiled separately; c16_main.cpp (no fcppt
# header) refers to the entry points of the parts through weak symbols, so a unit that does not
# compile against the tree under test is left out of the link and the others are still driven and
# judged (docs/AUDIT_BRIEF.md part A.5, EXTENSION_BRIEF Clarification 2).
#   (unit, source, section macros, harness parts, drives functions named by the statement?)
UNITS = [
    ("main", "c16_main.cpp", (), (), None),
    ("strings", "c16_algo.cpp", (), ("counts", "strings"), True),
    ("src_vector", "c16_src_vector.cpp", (), ("vector",), True),
    ("src_list", "c16_src_list.cpp", (), ("list",), True),
    ("src_deque", "c16_src_deque.cpp", (), ("deque",), True),
    ("src_assoc", "c16_src_assoc.cpp", (), ("assoc",), True),
    ("src_static", "c16_src_static.cpp", ("C16_STATIC_ARRAYS",), ("static",), True),
    ("src_static2", "c16_src_static.cpp", ("C16_STATIC_TUPLES",), ("static2",), True),
    ("src_static3", "c16_src_static.cpp", ("C16_STATIC_MPL",), ("static3",), True),
    ("src_ranges", "c16_src_ranges.cpp", (), ("ranges",), True),
    ("containers", "c16_cont.cpp", ("C16_SECTION_CONTAINERS",), ("containers",), True),
    ("arrays", "c16_cont.cpp", ("C16_SECTION_ARRAYS",), ("arrays",), True),
    ("tuples", "c16_cont.cpp", ("C16_SECTION_TUPLES",), ("tuples",), True),
    ("foldtables", "c16_fold.cpp", (), ("foldtables",), True),
    # observed-only kinds (outside the statement): a failure here is an OBSERVATION
    ("extension", "c16_ext.cpp", (), ("extension",), False),
    ("extension2", "c16_ext2.cpp", (), ("extension2",), False),
]
PARTS = [p for u in UNITS for p in u[3]]
OBSERVED_PARTS = set(p for u in UNITS if u[4] is False for p in u[3])
# compile-only probes: (evidence key, probe source, macro, unit that uses the macro, what, named by the statement?)
PROBES = [
    ("array_append_accepts_lvalues", "c16_probe_append.cpp", "C16_APPEND_LVALUE", "arrays",
     "fcppt::array::append/join/push_back", "array_append"),
    ("tuple_concat_accepts_lvalues", "c16_probe_concat.cpp", "C16_CONCAT_LVALUE", "tuples",
     "fcppt::tuple::concat", "tuple_concat"),
    ("tuple_apply_accepts_lvalues", "c16_probe_tuple_apply.cpp", "C16_TUPLE_APPLY_LVALUE", "extension",
     "fcppt::tuple::apply", None),
]
GUARDS = [("split", "SplitJoinInverse"), ("bsearch", "BinarySearchLaws"), ("reverse", "ReverseAntiHom"),
          ("reverse2", "ReverseInvolution"), ("remove", "RemoveLaws"), ("unique", "UniqueLaws"),
          ("foldbreak", "FoldBreakPrefix"), ("findopt", "SearchLaws"), ("atopt", "AtOptionalLaws"),
          ("mapopt", "MapLaws"), ("fromrange", "ArrayLaws"), ("setunion", "SetAlgebra"),
          ("joinmap", "MapLawsAssoc"), ("equal", "ExtensionSeqLaws"), ("popfront", "ExtensionSeqLaws"),
          ("text", "ExtensionSeqLaws"), ("indexmap", "IndexMapLaws"), ("insertmap", "ExtensionMapLaws"),
          ("insertset", "ExtensionSetLaws")]
# lvalue arguments of array::append/join/push_back and tuple::concat compile on the tree this check is
# registered against (fixes 5854b4c / fe5ac16): "a public API that the statement names no longer compiles
# with well-formed arguments of a kind the harness used to pass" is a VIOLATION (AUDIT_BRIEF A.5).
LVALUE_PROBES_ARE_VERDICTS = True


def compiles(probe):
    """Compile-only probes.  fcppt::array::append/join/push_back with lvalue arrays and
    fcppt::tuple::concat / fcppt::tuple::apply with lvalue tuples: the lvalue calls are driven only
    if they compile (the rvalue calls always are)."""
    cmd = vlib.base_flags("none") + ["-fsyntax-only", os.path.join(vlib.HARNESS, probe)]
    p = subprocess.run(cmd, stdout=subprocess.PIPE, stderr=subprocess.STDOUT, text=True, errors="replace")
    return p.returncode == 0, p.stdout


def genuine_compile_error(out):
    """a diagnostic of the compiler about the code, as opposed to the compiler being killed / out of
    memory / out of disk on the shared box (which is our infrastructure, never a verdict)"""
    if re.search(r"Killed signal|internal compiler error|virtual memory exhausted|No space left|cannot allocate memory|std::bad_alloc", out):
        return False
    # vlib.compile_obj keeps only the tail of a long diagnostic: any compiler output counts
    body = re.sub(r"^compile failed: [^\n]*\n?", "", out)
    return re.search(r"error|note: |required from|In file included", body) is not None


def compile_error_summary(out):
    """first error of a failed compilation and the fcppt functions named around it"""
    lines = out.splitlines()
    first = next((i for i, l in enumerate(lines) if " error: " in l or "fatal error:" in l), None)
    if first is None:
        return out[-400:], []
    ctxl = lines[max(0, first - 25):first + 3]
    fns = []
    for l in ctxl:
        for m in re.finditer(r"fcppt(?:::|/)(algorithm|container|array|tuple|range|enum_?|mpl)(?:::|/)(?:detail(?:::|/))?(\w+)", l):
            n = m.group(1).rstrip("_") + "::" + m.group(2)
            if n not in fns:
                fns.append(n)
    return re.sub(r"\s+", " ", lines[first])[:400], fns[:8]


def build(ctx):
    """Compile every unit on its own and link what compiled.  A unit that does not compile against the
    tree under test is a verdict about the tree (VIOLATION C16:<unit>:does-not-compile if the unit drives
    functions named by the statement, OBSERVATION otherwise), never an infrastructure failure - except
    c16_main.cpp, which includes no fcppt header."""
    t0 = time.time()
    pres = vlib.parallel(lambda pr: compiles(pr[1]), PROBES, workers=len(PROBES))
    unit_defs = {}
    for (key, probe, macro, unit, what, named), (ok, out) in zip(PROBES, pres):
        if not ok and not genuine_compile_error(out):
            ok, out = compiles(probe)
            if not ok and not genuine_compile_error(out):
                raise vlib.Infra("probe %s: the compiler failed without a diagnostic:\n%s" % (probe, out[-2000:]))
        ctx.extra[key] = ok
        if ok:
            unit_defs.setdefault(unit, []).append(macro)
            continue
        vlib.log("INFO: %s does not compile with lvalue arguments (driven with rvalues only)" % what)
        err, fns = compile_error_summary(out)
        msg = "%s no longer compiles with lvalue arguments (probe harness/%s): %s" % (what, probe, err)
        if named and LVALUE_PROBES_ARE_VERDICTS:
            ctx.reject("C16:%s:does-not-compile" % named, msg, {"unit": unit, "probe": probe})
        # fcppt::tuple::apply (outside the statement) has never accepted lvalue tuples on the registered tree:
        # documented in docs/notes_C16.md, evidence flag tuple_apply_accepts_lvalues, no observation line
    san, opt = "asan", "-O1"
    tag = vlib.sha((vlib.REPO + san + opt + "c16-units").encode())[:10]
    objdir = vlib.mkdir(os.path.join(vlib.BUILD, "obj", tag))

    def comp(u):
        unit, src, secs, parts, scope = u
        defs = tuple(secs) + tuple(unit_defs.get(unit, ()))
        obj = os.path.join(objdir, "h_c16_%s.o" % unit)
        for attempt in (1, 2):
            try:
                o, rebuilt = vlib.compile_obj(os.path.join(vlib.HARNESS, src), obj, vlib.base_flags(san, opt, defs))
                return unit, o, rebuilt, None
            except vlib.Infra as e:
                if genuine_compile_error(str(e)):
                    return unit, None, 0, str(e)
                if attempt == 2:
                    raise
                time.sleep(5)   # compiler killed on the shared box: once more
    res = vlib.parallel(comp, UNITS, workers=vlib.NCPU)
    objs, failed, rebuilt = [], {}, 0
    for unit, o, r, err in res:
        if err is None:
            objs.append(o)
            rebuilt += r
        else:
            failed[unit] = err
    if "main" in failed:
        raise vlib.Infra("c16_main.cpp (no fcppt header) does not compile:\n" + failed["main"][-3000:])
    built = [u for u in UNITS if u[0] not in failed]
    out = os.path.join(vlib.mkdir(os.path.join(vlib.BUILD, "bin", tag)),
                       "c16_algo_" + vlib.sha(" ".join(sorted(u[0] for u in built)).encode())[:8])
    if rebuilt or not os.path.exists(out) or any(os.path.getmtime(o) > os.path.getmtime(out) for o in objs):
        tout = out + ".tmp%d" % os.getpid()
        p = subprocess.run(["g++", "-pthread"] + vlib.SAN_FLAGS[san] + objs + ["-o", tout],
                           stdout=subprocess.PIPE, stderr=subprocess.STDOUT, text=True, errors="replace")
        if p.returncode != 0:
            raise vlib.Infra("link failed: c16_algo\n%s" % p.stdout[-4000:])
        os.replace(tout, out)
    vlib.log("build c16_algo: %d units (%d rebuilt, %d do not compile) in %.1fs" % (len(UNITS), rebuilt, len(failed), time.time() - t0))
    for unit, src, secs, parts, scope in UNITS:
        if unit not in failed:
            continue
        err, fns = compile_error_summary(failed[unit])
        msg = "harness unit %s (harness/%s%s; parts %s) does not compile against this tree: %s%s" % (
            unit, src, " -D" + ",".join(secs) if secs else "", ",".join(parts), err,
            "; fcppt functions named in the error context: " + ", ".join(fns) if fns else "")
        if scope:
            ctx.reject("C16:%s:does-not-compile" % unit, msg, {"unit": unit})
        else:
            observe(ctx, "C16:observed:%s:does-not-compile" % unit, msg)
    ctx.extra["units_not_compiling"] = sorted(failed)
    return out, [p for u in built for p in u[3]]


def model_checks(ctx):
    thorough = ctx.tier == "thorough"
    vlib.tlc_mc(ctx, "MC_Algorithms", "MC_Algorithms_seq.cfg")
    vlib.tlc_mc(ctx, "MC_Algorithms", "MC_Algorithms_set.cfg")
    vlib.tlc_mc(ctx, "MC_Algorithms", "MC_Algorithms_map.cfg")
    # container::index_map as a state machine (all reachable vectors over {0,1,2} of size <= 4)
    vlib.tlc_mc(ctx, "MC_Algorithms", "MC_Algorithms_indexmap.cfg", deadlock=False)
    r = vlib.tlc("MC_Algorithms", "MC_Algorithms_bug_indexmap_sm.cfg", workers=2, deadlock=False, tag="MC_Algorithms_bug_indexmap_sm")
    if not r.property_violated:
        raise vlib.Infra("vacuity guard: MC_Algorithms_bug_indexmap_sm.cfg did not violate IMMonotone")
    ctx.extra.setdefault("vacuity_guards", []).append({"cfg": "MC_Algorithms_bug_indexmap_sm.cfg", "violates": "IMMonotone"})
    if thorough:
        vlib.tlc_mc(ctx, "MC_Algorithms", "MC_Algorithms_seq_big.cfg", timeout=1800)
        vlib.tlc_mc(ctx, "MC_Algorithms", "MC_Algorithms_set_big.cfg", timeout=1800)

    def guard(g):
        name, inv = g
        r = vlib.tlc("MC_Algorithms", "MC_Algorithms_bug_%s.cfg" % name, workers=2, tag="MC_Algorithms_bug_" + name)
        return name, inv, r
    t0 = time.time()
    res = vlib.parallel(guard, GUARDS, workers=7)
    vlib.log("vacuity guards: %d TLC runs in %.1fs" % (len(GUARDS), time.time() - t0))
    for name, inv, r in res:
        if inv not in r.invariant_violated:
            raise vlib.Infra("vacuity guard: MC_Algorithms_bug_%s.cfg did not violate %s" % (name, inv))
        ctx.extra.setdefault("vacuity_guards", []).append({"cfg": "MC_Algorithms_bug_%s.cfg" % name, "violates": inv})


def in_scope_kinds():
    """The per-record-kind in_scope flag lives in the judge (spec/AlgorithmsJudge.tla, InScope ==): only these
    kinds can produce a VIOLATION; rejections of every other kind are observations."""
    txt = open(os.path.join(vlib.SPEC, "AlgorithmsJudge.tla")).read()
    m = re.search(r"^InScope ==(.*?)^(?:ObservedFields|Infra) ==", txt, re.S | re.M)
    if not m:
        raise vlib.Infra("cannot find InScope in the judge module")
    body = re.sub(r"\\\*[^\n]*", "", m.group(1))
    return set(re.findall(r'"([^"]+)"', body))


def all_kinds():
    """every record kind the judge knows (in scope or observed only)"""
    txt = open(os.path.join(vlib.SPEC, "AlgorithmsJudge.tla")).read()
    m = re.search(r"^AlgReasons\(r\) ==(.*?)\[\] OTHER", txt, re.S | re.M)
    return set(re.findall(r'"(\w+)"', m.group(1))) if m else set()


def observe(ctx, sig, what):
    """out-of-statement disagreement: recorded, never a VIOLATION"""
    obs = ctx.extra.setdefault("observations", {"count": 0, "by_signature": {}, "samples": []})
    obs["count"] += 1
    obs["by_signature"][sig] = obs["by_signature"].get(sig, 0) + 1
    if len(obs["samples"]) < 20 and obs["by_signature"][sig] <= 2:
        obs["samples"].append(what[:600])
    if obs["by_signature"][sig] == 1:
        print("OBSERVATION property=C16 (outside the statement, not a verdict) signature: %s" % sig)
        print("  what: %s" % what[:500])


def signature(b):
    return "C16:%s:%s" % (b["op"], "+".join(sorted(b["why"])))


def class_of(e):
    """distinct non-trivial class of a record: function, source/target/value category, input
    length, and whether the call log stopped early / the result is empty"""
    n = None
    for k in ("xs", "s", "ss", "cs", "m", "a", "as", "ts"):
        if k in e:
            n = len(e[k])
            break
    if n is None:
        n = e.get("n", 0)
    early = "log" in e and isinstance(e.get("xs"), list) and len(e["log"]) < len(e["xs"])
    r = e.get("r", e.get("st"))
    shape = "-" if r is None else ("empty" if r in ([], False) else "nonempty")
    return (e["f"], e.get("src", e.get("kind", "")), e.get("tgt", e.get("cat", "")), n, early, shape)


OBSERVED = ("r", "st", "log", "elem", "inserted", "calls", "after", "present", "null", "len", "first", "size", "unsafe", "get", "iter", "data", "min", "max")


def corrupted(x):
    """a value that differs from x in one scalar leaf (same shape); None if x has no leaf"""
    if isinstance(x, bool):
        return not x
    if isinstance(x, int):
        return x + 1
    if isinstance(x, list):
        for i, y in enumerate(x):
            c = corrupted(y)
            if c is not None:
                return x[:i] + [c] + x[i + 1:]
    return None


def judge_guard(ctx, module, cfg, chosen):
    """Binding demonstration built into every run: for every (function, observed field) one really
    recorded record with that field corrupted in one scalar; TLC must reject every one of them with
    the reason wrong-<field>.  Otherwise the judge is vacuous -> infrastructure failure."""
    keys = sorted(chosen)
    path = os.path.join(ctx.workdir, "corrupted_%s.ndjson" % ("replay" if ctx.is_replay else ctx.tier))
    vlib.write_ndjson(path, [chosen[k] for k in keys])
    bad = {b["l"]: b for b in vlib.judge_trace(ctx, module, cfg, path, boundary_key=None, nchunks=1)}
    for i, k in enumerate(keys):
        b = bad.get(i + 1)
        if b is None or not ({"wrong-" + k[1], "observed-wrong-" + k[1]} & set(b["why"])):
            raise vlib.Infra("judge vacuity guard: corrupted %s of a %s record was not rejected: %s" % (
                k[1], k[0], json.dumps(chosen[k])[:300]))
    ctx.extra["judge_guard_corrupted_records_rejected"] = len(keys)
    os.unlink(path)


ABSURD = re.compile(r"-?\d{10,}")
LIMIT = 1 << 30
JUDGE = ("AlgorithmsJudge", "AlgorithmsJudge.cfg")
CHUNK = 30000


def absurd_fields(e):
    """fields of a record that contain an integer outside [-2^30, 2^30] (TLC integers are 32-bit; the
    harness clamps what it logs, this is the second line of defence)"""
    def big(x):
        if isinstance(x, bool):
            return False
        if isinstance(x, int):
            return abs(x) > LIMIT
        if isinstance(x, list):
            return any(big(y) for y in x)
        if isinstance(x, dict):
            return any(big(y) for y in x.values())
        return False
    return sorted(k for k, v in e.items() if big(v))


def kind_of(line):
    m = re.match(r'\{"f":"(\w+)"', line)
    return m.group(1) if m else "?"


def judge_chunk(ctx, lines, name):
    """Judge one chunk of records with TLC.  Returns rejected records {l (1-based, in `lines`), op, why}.
    If TLC cannot evaluate the chunk (an evaluation error caused by a record the specification has no
    value for), the offending record is isolated by bisection on prefixes and reported as
    spec-cannot-evaluate; the other records of that kind in the chunk are not judged, the rest is."""
    def attempt(ls, suffix):
        path = os.path.join(ctx.workdir, "%s_%s.ndjson" % (name, suffix))
        with open(path, "w") as f:
            f.write("\n".join(ls) + "\n")
        try:
            return vlib.judge_trace(ctx, JUDGE[0], JUDGE[1], path, boundary_key=None, nchunks=1, timeout=1800)
        finally:
            try:
                os.unlink(path)
            except OSError:
                pass
    first_error = ""
    for again in (0, 1):     # a transient failure of the JVM on the shared box is not a verdict: once more
        try:
            return attempt(lines, "all")
        except vlib.Infra as e:
            first_error = str(e)
    if re.search(r"OutOfMemoryError|TLC timeout|insufficient memory|Cannot allocate|Could not reserve|hs_err_pid", first_error):
        raise vlib.Infra("trace judge ran out of resources on chunk %s:\n%s" % (name, first_error[-3000:]))
    vlib.log("judge: TLC could not evaluate chunk %s (%d records); isolating the record" % (name, len(lines)))
    idx = list(range(len(lines)))       # positions (0-based) still to be judged
    synthetic = []
    for rnd in range(4):
        cur = [lines[i] for i in idx]
        lo, hi = 0, len(cur)            # invariant: prefix of length lo judges fine, of length hi fails
        good_bad = []
        while hi - lo > 1:
            mid = (lo + hi) // 2
            try:
                good_bad = attempt(cur[:mid], "bisect")
                lo = mid
            except vlib.Infra:
                hi = mid
        k = idx[hi - 1]
        if hi == 1 and rnd == 0:
            # not even the first record alone: make sure TLC judges *something* before blaming the record
            try:
                attempt(['{"f":"repeat","count":"int","n":0,"calls":0}'], "probe")
            except vlib.Infra:
                raise vlib.Infra("trace judge does not work at all:\n" + first_error[-3000:])
        f = kind_of(lines[k])
        synthetic.append({"l": k + 1, "op": f, "why": ["spec-cannot-evaluate"]})
        idx = [i for i in idx if kind_of(lines[i]) != f]
        if not idx:
            return synthetic
        try:
            rest = attempt([lines[i] for i in idx], "rest")
            return sorted(synthetic + [dict(b, l=idx[b["l"] - 1] + 1) for b in rest], key=lambda b: b["l"])
        except vlib.Infra:
            continue
    raise vlib.Infra("trace judge failed on chunk %s even without the kinds %s:\n%s" % (
        name, ",".join(b["op"] for b in synthetic), first_error[-3000:]))


def judge_parts(ctx, results):
    """results: (part, path, rc, output) per harness process.  All complete records are judged in one
    chunked TLC pass; a rejected line is mapped back to its part.  Everything the code under test can
    cause (crash, hang, sanitizer report, truncated line, absurd integers, a record TLC cannot evaluate)
    ends in ctx.reject (in scope) or observe (outside the statement), never in an exception."""
    scope = in_scope_kinds()
    all_lines = []
    spans = []  # (first index, part)
    for part, path, rc, out in results:
        try:
            lines, tail = vlib.check_trace_file(path)
        except OSError:
            lines, tail = [], None
        if rc != 0:
            fn = "?"
            if tail:
                mm = re.search(r'"f":"(\w+)"', tail)
                fn = mm.group(1) if mm else "?"
            if fn == "?":
                # no truncated record (a leak report at exit, a crash in a destructor): the sanitizer's
                # stack names the fcppt function
                mm = re.search(r"fcppt::(?:algorithm|container|array|tuple)::(?:detail::)?(\w+)", out or "")
                named = {"array": "array_", "tuple": "tuple_"}
                if mm:
                    ns = re.search(r"fcppt::(\w+)::", mm.group(0)).group(1)
                    fn = named.get(ns, "") + mm.group(1)
            kind = {66: "sanitizer", 67: "crash", 68: "hang", 124: "timeout"}.get(rc, "exit%d" % rc)
            san = re.search(r"(ERROR: \w+Sanitizer: [^\n]*|runtime error: [^\n]*|what\(\): [^\n]*|Assertion [^\n]*)", out or "")
            what = "%s during %s (part %s): %s; truncated record: %s" % (
                kind, fn, part, san.group(1) if san else (out or "")[-300:], (tail or "")[:300])
            if fn in scope or (fn not in all_kinds() and part not in OBSERVED_PARTS):
                ctx.reject("C16:%s:%s" % (fn, kind), what, {"part": part, "partial_line": tail})
            else:
                observe(ctx, "C16:observed:%s:%s" % (fn, kind), what)
        elif not lines:
            raise vlib.Infra("harness part %s wrote no records" % part)
        lines = [l for l in lines if l.startswith('{"f":"')]   # drops the crash record
        spans.append((len(all_lines), part))
        all_lines += lines
        ctx.traces_validated += 1
        try:
            os.unlink(path)
        except OSError:
            pass
    if not all_lines:
        return

    def part_of(l):
        cur = spans[0][1]
        for first, part in spans:
            if first <= l - 1:
                cur = part
        return cur
    # integers TLC cannot represent never reach it: judged here (any such value is wrong)
    bad = []
    judged = []      # (global 1-based line number) of the records handed to TLC
    for ln, l in enumerate(all_lines, 1):
        if ABSURD.search(l):
            e = json.loads(l)
            flds = absurd_fields(e)
            if flds:
                bad.append({"l": ln, "op": e["f"], "why": ["absurd-" + k for k in flds]})
                continue
        judged.append(ln)
    t0 = time.time()
    tag = "replay" if ctx.is_replay else ctx.tier
    chunks = [judged[i:i + CHUNK] for i in range(0, len(judged), CHUNK)]
    # spread the records evenly (the last chunk is not a tiny one that wastes a JVM start)
    if len(chunks) > 1:
        per = (len(judged) + len(chunks) - 1) // len(chunks)
        chunks = [judged[i:i + per] for i in range(0, len(judged), per)]

    def one(ic):
        i, lns = ic
        return [dict(b, l=lns[b["l"] - 1]) for b in judge_chunk(ctx, [all_lines[n - 1] for n in lns], "records_%s_c%d" % (tag, i))]
    for r in vlib.parallel(one, list(enumerate(chunks))):
        bad += r
    bad.sort(key=lambda b: b["l"])
    vlib.log("judged %d records in %.1fs, %d rejected" % (len(all_lines), time.time() - t0, len(bad)))
    ctx.evaluations += len(all_lines)
    path = os.path.join(ctx.workdir, "records_%s.ndjson" % tag)
    for b in bad:
        line = all_lines[b["l"] - 1]
        infra = [w for w in b["why"] if w in ("HARNESS-PRECONDITION", "unknown-function")]
        if infra and (b["op"] in scope or "unknown-function" in infra):
            # inputs of in-scope kinds are built by the harness from std containers: a failed precondition
            # there is a harness bug.  (For observed-only kinds an input may come out of an fcppt object -
            # enum names, the previous state of an index_map - and a corrupted object is an observation.)
            with open(path, "w") as f:
                f.write(line + "\n")
            raise vlib.Infra("harness record outside the spec's preconditions (saved as %s): %s" % (path, line[:300]))
        real = [w for w in b["why"] if not w.startswith("observed-") and w not in infra and b["op"] in scope]
        if not real:
            why = sorted(set(w[9:] if w.startswith("observed-") else w for w in b["why"]))
            observe(ctx, "C16:observed:%s:%s" % (b["op"], "+".join(why)),
                    "spec cannot explain %s (%s); record: %s" % (b["op"], ",".join(b["why"]), line[:500]))
            continue
        b = dict(b, why=real)
        ctx.reject(signature(b), "spec cannot explain %s (%s); record: %s" % (b["op"], ",".join(b["why"]), line[:500]),
                   {"part": part_of(b["l"]), "record": json.loads(line)})
    chosen = {}
    bad_lines = set(b["l"] for b in bad)
    for ln, l in enumerate(all_lines, 1):
        e = json.loads(l)
        ctx.count_class(class_of(e))
        if ln in bad_lines:
            continue  # the guard corrupts records the judge accepted
        for fld in OBSERVED:
            if fld in e and (e["f"], fld) not in chosen:
                c = corrupted(e[fld])
                if c is not None:
                    chosen[(e["f"], fld)] = dict(e, **{fld: c})
    if not bad:  # only on a run without any disagreement (rejected records are listed up to a cap)
        judge_guard(ctx, JUDGE[0], JUDGE[1], chosen)
    ends = [f for f, _ in spans[1:]] + [len(all_lines)]
    for (first, part), end in zip(spans, ends):
        if end > first:
            ctx.sample(json.loads(all_lines[first + (end - first) * 2 // 3]), cap=len(PARTS))
    if ctx.violations:
        with open(path, "w") as f:   # kept for inspection
            f.write("\n".join(all_lines) + "\n")


def record_and_judge(ctx, binary, parts):
    def rec(part):
        path = os.path.join(ctx.workdir, "rec_%s_%s.ndjson" % (part, "replay" if ctx.is_replay else ctx.tier))
        try:
            os.unlink(path)
        except OSError:
            pass
        rc, out = vlib.run_harness(binary, ["record", path, ctx.seed, ctx.tier, part],
                                   timeout=900 if ctx.tier == "quick" else 2400)
        return part, path, rc, out
    t0 = time.time()
    results = vlib.parallel(rec, parts, workers=8)
    vlib.log("harness: %d parts recorded in %.1fs" % (len(parts), time.time() - t0))
    judge_parts(ctx, results)


def run(ctx):
    model_checks(ctx)
    binary, parts = build(ctx)
    record_and_judge(ctx, binary, parts)
    ctx.exhaustive = False
    ctx.rule = ("one record per call of a real fcppt function: every sequence over {0,1,2} of length <= 6 (list, deque: "
                "length <= 5 in quick) with all 8 predicate tables; the 27 unary / 64 optional / 125 sequence-valued table "
                "families are enumerated completely for inputs up to length 4 (vector) / 3 (others) in quick and seeded "
                "samples beyond, thorough enumerates them all; every string over {a,b,delimiter} <= 7, sorted inputs for binary_search/equal_range, all "
                "std::map over keys/values {0,1,2}, all pairs of subsets of 0..3 (0..4 thorough), arrays/tuples of size 0..5; "
                "fold / fold_break tables (3^9 / 6^9 of them) are seeded random in both tiers, hence exhaustive=false; "
                "round 3: beyond the exhaustive bounds seeded inputs of length 7..33 (sequences, sorted forms, multisets), "
                "strings of 8..40 characters, maps of 4..10 entries, arrays of 5..9 and tuples of 5..7 elements, joins of "
                "4..6 containers / arrays / tuples, counts 8..65539, 64-bit indices, rvalue and mutable lvalue source ranges, "
                "algorithm::map into array / tuple targets; "
                "a class = (function, source, target or value category, input length, log stopped early?, result empty?)")
    ctx.assumptions += [
        "the element domain {0,1,2} (ints, enum, pairs) stands for all element types (parametricity)",
        "memory errors and undefined behaviour inside a driven call are only OBSERVED via ASan/UBSan in the harness",
        "std::unique's predicate must be an equivalence relation: only the 5 equivalence relations on {0,1,2} are driven",
        "binary_search / equal_range are driven on sorted inputs only (precondition of std::equal_range)",
        "call order of std-delegated algorithms (remove_if, find_if_opt) is the in-order one of the obvious loop, which libstdc++ implements",
        "fcppt::array::append/join/push_back and fcppt::tuple::concat are always driven with rvalues, with lvalues if the lvalue probes compile (array_append_accepts_lvalues / tuple_concat_accepts_lvalues in the evidence); a probe that does not compile is a VIOLATION (<fn>:does-not-compile), as is any harness unit of in-scope functions that does not compile against the tree",
        "logged integers are clamped to [-2^30, 2^30] (TLC integers are 32-bit); indices >= 2^30 passed to at_optional are recorded as 2^30 (same prediction: out of range)",
    ]


def replay(ctx, payload):
    """Re-execute the harness part that produced the rejected record on the current tree and
    judge it again."""
    ctx.tier = payload.get("tier", ctx.tier)
    ctx.seed = payload.get("seed", ctx.seed)
    binary, parts = build(ctx)      # a unit that does not compile is rejected again in here
    part = payload["payload"].get("part")
    if part in parts:
        record_and_judge(ctx, binary, [part])
    ctx.rule = "replay of the harness part that produced the saved rejection"
