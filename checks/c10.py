"""C10 - fcppt::container::bitfield::object is observationally a set of enumerators.

1. TLC model-checks spec/BitfieldImpl.tla (the word-level transcription of the bitfield headers)
   in lock-step with the set algebra of spec/Bitfield.tla: every state reachable from (null, null)
   through the operators, for (enum size, word width) in {1,3,8,9,17} x {8,16,32,64} (exhaustive up
   to 9 enumerators, simulation for 17); invariants Refines (every operator commutes with Abs),
   EqualSetsEqualWords (same set => equal words and hashes), ObserversAgree, NoPadding,
   ConstructorsAgree, Laws.  Bug constants re-introduce one defect each (vacuity guards).
2. TLC emits one operation script per generated transition of the 3-enumerator model; the harness
   replays them on the real bitfields of every word type (spec -> code).
3. The harness drives the real operators (code -> spec): every subset produced in six ways,
   every enumerator operation, every pair of subsets (exhaustive up to 9 enumerators), random
   expression trees (depth <= 6) and random register-machine histories.
4. spec/BitfieldJudge.tla (TLC) judges every record with the set algebra of Bitfield.tla.
Sanitizer reports of the harness become rejected events (observed, not decided by the spec)."""
import json
import os
import time
import re
import threading

import vlib

LEVEL = "model_checking"
JUDGE = "BitfieldJudge"
JUDGE_CFG = "BitfieldJudge.cfg"
SIZES = (1, 3, 8, 9, 17)
WORDS = (8, 16, 32, 64)
KIND_ORDER = {"single": 0, "elem": 1, "proxy": 1, "proxyx": 1, "out": 1, "rel": 2, "build": 3, "bits": 3, "pair": 4, "tree": 5, "hist": 6, "histp": 6}


def build():
    return vlib.build_harness("c10_bitfield", ["c10_bitfield.cpp"] + ["c10_bitfield_n%d.cpp" % n for n in SIZES], libs=())


def retry_killed(fn, *a, **kw):
    """TLC processes are occasionally killed by the kernel's OOM killer when many checks share the
    box (rc=-9): that says nothing about the model, so the run is repeated (at most three times)."""
    for attempt in range(3):
        try:
            return fn(*a, **kw)
        except vlib.Infra as e:
            if "rc=-9" not in str(e) or attempt == 2:
                raise
            vlib.log("TLC was killed (rc=-9); retrying after a pause")
            time.sleep(20 * (attempt + 1))



def mc_env(n, w, bug="none", full=False):
    return {"BF_N": str(n), "BF_W": str(w), "BF_BUG": bug, "BF_FULL": "1" if full else "0"}


# ------------------------------------------------------------------ model checking of the spec


def model_check(ctx, thorough):
    """The specification itself.  Failures raise Infra (exit 2), never a VIOLATION."""
    def mc(n, w, full, **kw):
        r = retry_killed(vlib.tlc_mc, ctx, "MC_BitfieldImpl", "MC_BitfieldImpl.cfg", env=mc_env(n, w, "none", full), xmx="3g", **kw)
        ctx.mc_runs[-1]["constants"] = {"N": n, "W": w, "Bug": "none", "FullOps": full}
        return r
    # every operation record (aliases included) on the small enums, all word widths
    for n in (1, 3):
        for w in WORDS:
            mc(n, w, True, workers=4, coverage=(thorough and n == 3 and w == 8))
    # one representative per code path on the larger ones (quick: the full-word case (8,8) and the
    # two-words-with-padding case (9,8); thorough: all eight combinations)
    big = [(8, w) for w in WORDS] + [(9, w) for w in WORDS] if thorough else [(8, 8), (9, 8)]
    for n, w in big:
        mc(n, w, False, timeout=2400)
    # 17 enumerators: 2^34 pairs - random walks from (null, null)
    # (simulate=k generates k behaviours per worker; the algebraic Laws are left to the exhaustive runs)
    for n, w in ([(17, w) for w in WORDS] if thorough else [(9, 16), (17, 8), (17, 16)]):
        r = retry_killed(vlib.tlc_mc, ctx, "MC_BitfieldImpl", "MC_BitfieldImpl_sim.cfg", env=mc_env(n, w, "none", False), workers=4,
                        simulate=(2000 if thorough else 100), depth=40, seed=ctx.seed, timeout=2400)
        ctx.mc_runs[-1]["constants"] = {"N": n, "W": w, "Bug": "none", "FullOps": False}
    # vacuity guards: each invariant CAN fail - with one defect re-introduced into the transcription
    # TLC must find a counterexample to the named invariant
    # (shallow counterexamples only: the guards must stay cheap when the machine is busy)
    guards = [
        (1, 8, "not_padding", "EqualSetsEqualWords"),
        (3, 8, "not_padding", "EqualSetsEqualWords"),
        (3, 16, "not_padding", "ObserversAgree"),
        (9, 8, "not_padding", "NoPadding"),
        (17, 64, "not_padding", "NoPadding"),
        (3, 8, "xor_as_or", "Refines"),
        (9, 8, "offset_div", "Refines"),
        (3, 8, "offset_div", "ObserversAgree"),
        (3, 8, "subset_right", "ObserversAgree"),
        (3, 8, "proxy_rebind", "Refines"),
        (9, 8, "proxy_rebind", "Refines"),
        (3, 8, "not_padding", "UnderlyingAgrees"),
        (9, 16, "not_padding", "UnderlyingAgrees"),
    ]
    for n, w, bug, inv in guards:
        r = retry_killed(vlib.tlc, "MC_BitfieldImpl", "MC_BitfieldImpl_guard_%s.cfg" % inv, workers=4, env=mc_env(n, w, bug, n <= 3 or bug == "proxy_rebind"), timeout=900, expect=inv)
        if inv not in r.invariant_violated:
            raise vlib.Infra("vacuity guard: Bug=%s N=%d W=%d did not violate %s" % (bug, n, w, inv))
        ctx.extra.setdefault("vacuity_guards", []).append(
            {"constants": {"N": n, "W": w, "Bug": bug}, "violates": inv, "states": r.distinct})
    # and the converse sanity law (thorough): when the enumerators fill the words exactly there is no
    # padding and the old operator~ is indistinguishable from the repaired one
    if thorough:
        r = retry_killed(vlib.tlc, "MC_BitfieldImpl", "MC_BitfieldImpl.cfg", workers=8, env=mc_env(8, 8, "not_padding", False), timeout=2400)
        if not r.completed:
            raise vlib.Infra("Bug=not_padding must be unobservable for 8 enumerators in 8-bit words")
        ctx.extra["vacuity_guards"].append({"constants": {"N": 8, "W": 8, "Bug": "not_padding"}, "violates": None, "states": r.distinct})
    ctx.extra["coverage_note"] = ("the lock-step model has one parameterised action; operation coverage is measured on the "
                                  "emitted scripts (every operation name must be the last step of some script)")


def emit_scripts(ctx):
    r = retry_killed(vlib.tlc_mc, ctx, "MC_BitfieldImpl", "MC_BitfieldScripts.cfg", workers=4, env=mc_env(3, 8, "none", True))
    ctx.mc_runs[-1]["constants"] = {"N": 3, "W": 8, "Bug": "none", "FullOps": True}
    scripts = vlib._verdict_lines(r.out).get("SCRIPT", [])
    scripts = [s for s in scripts if s]
    if len(scripts) < 4000:
        raise vlib.Infra("script emission produced only %d scripts" % len(scripts))
    last = set(s[-1]["op"] for s in scripts)
    want = {"set", "idx", "ore", "orae", "or", "and", "xor", "ora", "anda", "xora", "not", "swap", "copy", "null",
            "selfora", "selfanda", "selfxora", "idxcopy", "idxcopy_y", "chain"}
    if last != want:
        raise vlib.Infra("script emission does not cover every operation: missing %s" % sorted(want - last))
    ctx.extra["script_op_coverage"] = sorted(last)
    return scripts


# ------------------------------------------------------------------ judging


def in_scope_kinds():
    """The per-record-kind scope flag lives in the judge (InScope of spec/BitfieldJudge.tla): only
    rejected records of these kinds may become a VIOLATION; the others are observations."""
    txt = open(os.path.join(vlib.SPEC, JUDGE + ".tla")).read()
    m = re.search(r"^InScope == \{([^}]*)\}", txt, re.M)
    if not m:
        raise vlib.Infra("InScope not found in %s.tla" % JUDGE)
    return set(re.findall(r'"(\w+)"', m.group(1)))


def observe(ctx, sig, what):
    """A disagreement outside the statement of C10: counted and written to the evidence, never a VIOLATION."""
    o = ctx.extra.setdefault("observations", {})
    e = o.setdefault(sig, {"count": 0, "first": what})
    e["count"] += 1
    if e["count"] == 1:
        vlib.log("OBSERVATION (outside the statement of C10, not a verdict): %s: %s" % (sig, what[:400]))


def signature(reason):
    """reason = '<call>/<what>[@<where in the record>]' -> 'C10:<call>:<what>'"""
    return "C10:" + reason.split("@")[0].replace("/", ":", 1)


def harness_failure(ctx, what, rc, out, tail, payload):
    kind = {66: "sanitizer", 67: "crash", 68: "hang", 124: "timeout"}.get(rc, "exit%d" % rc)
    if rc == 3:
        raise vlib.Infra("harness usage/script error (%s): %s" % (what, out[-400:]))
    f = "?"
    if tail:
        m = re.search(r'"f":"(\w+)"', tail)
        f = m.group(1) if m else "?"
    san = re.search(r"(ERROR: \w+Sanitizer: [^\n]*|runtime error: [^\n]*)", out)
    ctx.reject("C10:%s:%s" % (f, kind), "%s while recording a %s record (%s): %s; partial line: %s" % (
        kind, f, what, san.group(1) if san else out[-300:], (tail or "")[:300]), payload)


def kind_of(text):
    m = re.match(r'\{"f":"(\w+)"', text)
    return m.group(1) if m else "?"


def judge_lines(ctx, lines, origin):
    """lines: list of (text, payload-args).  The judge keeps only the first 300 rejected records of a
    chunk verbatim, so record kinds are judged in separate groups: the kinds inside the statement of
    C10 together, every observed-only kind on its own - a flood of rejections in one group (e.g. the
    known proxy observations) can then never hide a rejection in another."""
    scope = in_scope_kinds()
    groups = {}
    for k, item in enumerate(lines):
        kd = kind_of(item[0])
        groups.setdefault("inscope" if kd in scope else kd, []).append(k)
    rejected = set()
    for g in sorted(groups):
        idx = groups[g]
        sub = [lines[k] for k in idx]
        for r in judge_group(ctx, sub, "%s_%s" % (origin, g), scope):
            rejected.add(idx[r])
    return rejected


def judge_group(ctx, lines, origin, scope):
    batch = 400000
    rejected = set()
    for start in range(0, len(lines), batch):
        part = lines[start:start + batch]
        path = os.path.join(ctx.workdir, "judge_%s_%d.ndjson" % (origin, start))
        with open(path, "w") as f:
            for text, _ in part:
                f.write(text)
                f.write("\n")
        bad = retry_killed(vlib.judge_trace, ctx, JUDGE, JUDGE_CFG, path, boundary_key=None, timeout=2400,
                           nchunks=max(1, min(vlib.NCPU, len(part) // 2000)))
        ctx.evaluations += len(part)
        ctx.extra["record_chunks"] = ctx.extra.get("record_chunks", 0) + min(vlib.NCPU, len(part))
        recs = []
        for b in bad:
            rejected.add(start + b["l"] - 1)
            text, args = part[b["l"] - 1]
            if "HARNESS-PRECONDITION" in b["why"] or "unknown-record-kind" in b["why"] or b["op"] == "?":
                raise vlib.Infra("the judge could not interpret record %d of %s (%s): %s" % (b["l"], path, b["why"], text[:300]))
            recs.append((KIND_ORDER.get(b["op"], 9), len(text), b, text, args))
        # simplest failing record first: it becomes the replay payload of its signature
        recs.sort(key=lambda t: (t[0], t[1]))
        for _, _, b, text, args in recs:
            rec = json.loads(text)
            for why in sorted(b["why"]):
                if b["op"] not in scope:
                    observe(ctx, signature(why), "%s record (n=%d, w=%d): %s; record: %s" % (b["op"], rec["n"], rec["w"], why, text[:500]))
                    continue
                ctx.reject(signature(why), "%s record (n=%d, w=%d, %s): the specification cannot explain %s; record: %s" % (
                    b["op"], rec["n"], rec["w"], origin, why, text[:600]), {"args": args, "record": rec, "reason": why})
        os.unlink(path)
    return rejected


def toggle0(xs):
    return xs[1:] if xs and xs[0] == 0 else [0] + xs


def binding_guard(ctx, lines, rejected):
    """Copies of ACCEPTED records with one observation changed must be rejected by the judge, an
    untouched copy accepted - otherwise the judge is not looking at the data.  Independent of the
    verdict about the code."""
    first = {}
    for k, (text, _) in enumerate(lines):
        if k in rejected:
            continue
        m = re.match(r'\{"f":"(\w+)"', text)
        if m and m.group(1) not in first and (not m.group(1).startswith("hist") or '"ops":[]' not in text):
            first[m.group(1)] = json.loads(text)
        if len(first) == 12:
            break
    out, want = [], set()

    def add(r, must):
        out.append(json.dumps(r, separators=(",", ":")))
        if must:
            want.add(len(out))
    for f, r in sorted(first.items()):
        add(r, False)
        c = json.loads(json.dumps(r))
        if f == "pair":
            c["xor"][0] = toggle0(c["xor"][0])
        elif f == "rel":
            c["rel"][0] = 1 - c["rel"][0]
        elif f == "single":
            c["not"][0] = toggle0(c["not"][0])
        elif f == "elem":
            c["g"] = 1 - c["g"]
        elif f == "build":
            c["r"][0] = toggle0(c["r"][0])
        elif f == "tree":
            c["q"][2][4] = 1 - c["q"][2][4]
        elif f in ("hist", "histp"):
            c["obs"][-1]["x"] = toggle0(c["obs"][-1]["x"])
        elif f == "proxy":
            c["ch1"][0] = toggle0(c["ch1"][0])
        elif f == "proxyx":
            c["rid"][0] = 0
        elif f == "out":
            c["s"] = c["s"][:-1] + [44, 125]
        elif f == "bits":
            c["s0"][-1] = toggle0(c["s0"][-1])
        add(c, True)
    if len(want) < 5:
        raise vlib.Infra("binding guard: only %d corrupted records could be formed" % len(want))
    path = os.path.join(ctx.workdir, "judge_corrupted.ndjson")
    with open(path, "w") as fh:
        fh.write("\n".join(out) + "\n")
    bad = retry_killed(vlib.judge_trace, ctx, JUDGE, JUDGE_CFG, path, nchunks=1, boundary_key=None, timeout=900)
    os.unlink(path)
    why = {b["l"]: set(b["why"]) for b in bad}
    # out = untouched copy, corrupted copy, untouched, corrupted, ...: every corrupted copy must be
    # rejected.  (Its original is normally accepted; when the code is defective it may itself be rejected.)
    for k in sorted(want):
        if not why.get(k):
            raise vlib.Infra("binding guard: the judge did not notice the corruption of record %d: %s" % (k, out[k - 1][:300]))
    ctx.extra["binding_guard_originals_accepted"] = sum(1 for k in want if not why.get(k - 1))
    ctx.extra["binding_guard"] = {"corrupted_records": len(want), "all_rejected": True}


def count_classes(ctx, lines, cap=150000):
    stride = max(1, len(lines) // cap)
    for text, _ in lines[::stride]:
        r = json.loads(text)
        f = r["f"]
        key = (f, r["n"], r["w"])
        if f in ("pair", "rel"):
            a, b = set(r["a"]), set(r["b"])
            shape = "eq" if a == b else "sub" if a < b else "sup" if a > b else "disj" if not (a & b) else "ovl"
            key += (r["pa"], r["pb"], shape, min(len(a), 3), min(len(b), 3))
        elif f == "single":
            key += (r["p"], min(len(r["a"]), 4))
        elif f == "elem":
            key += (r["p"], r["e"], r["g"])
        elif f == "build":
            key += (r["how"], len(r["s"]))
        elif f == "proxy":
            key += (r["p"], r["i"] == r["j"], r["i"] in r["a"], r["j"] in r["a"], r["j"] in r["b"])
        elif f == "proxyx":
            key += (r["p"], r["i"] in r["a"], r["j"] in r["a"])
        elif f == "out":
            key += (r["p"], min(len(r["a"]), 4), bool(r["uv"]))
        elif f == "bits":
            key += (min(len(r["a"]), 6),)
        elif f == "tree":
            key += (r["t"]["o"], r["u"]["o"], set(r["r"][0]) == set(r["q"][0]))
        elif f in ("hist", "histp"):
            for o in r["ops"]:
                ctx.count_class(("hist-op", r["n"], r["w"], o["op"]))
            key += (r["src"], min(len(r["ops"]), 8))
        ctx.count_class(key)
    return stride


def record_plan(ctx, thorough):
    """(n, w, pairs_mode, ntrees, nhist, bits_stride, lastword_stride) per instantiation.
    bits_stride k: all single-enumerator operations of every k-th subset; lastword_stride k (multi-word
    bitfields): all pairs of subsets differing only in the last storage word, every k-th choice of the
    other words.  Thorough makes both exhaustive for the multi-word instantiations of 17 enumerators."""
    plan = []
    for n in SIZES:
        for w in WORDS:
            multi = n > w
            if n <= 3:
                pairs = "all"
            elif n <= 9:
                pairs = "all" if (thorough or (n, w) in ((8, 8), (9, 8))) else "4000"
            else:
                pairs = "100000" if thorough else "4000"
            if n <= 9:
                bits, lastword = 1, 0      # (all pairs already cover the last word there)
            elif thorough:
                bits, lastword = (1 if multi else 16), 1
            else:
                bits, lastword = 257, 1024
            plan.append((n, w, pairs, 6000 if thorough else 600, 1200 if thorough else 150, bits, lastword))
    return plan


def run_record(binary, ctx, item, tag="rec"):
    n, w, pairs, ntrees, nhist, bits, lastword = item
    path = os.path.join(ctx.workdir, "%s_%d_%d.ndjson" % (tag, n, w))
    rc, out = vlib.run_harness(binary, ["record", path, n, w, ctx.seed, pairs, ntrees, nhist, bits, lastword,
                                        1 if ctx.tier == "thorough" else 0], timeout=2400)
    return item, path, rc, out


def collect(ctx, path, rc, out, what, args):
    lines, tail = vlib.check_trace_file(path)
    if rc != 0:
        harness_failure(ctx, what, rc, out, tail, {"args": args})
    os.unlink(path)
    return [(l, args) for l in lines]


def run(ctx):
    thorough = ctx.tier == "thorough"
    # 1. the specification itself - in the background, while the harness is built and run
    mc_err = []

    def mc_thread():
        try:
            # VERIF_C10_SKIP_MC=1: development switch for trying source mutants quickly (the
            # specification does not depend on the tree); such a run writes no usable evidence
            if os.environ.get("VERIF_C10_SKIP_MC") != "1":
                model_check(ctx, thorough)
        except BaseException as e:  # noqa: BLE001 - re-raised in the main thread
            mc_err.append(e)
    strides = []
    scripts = emit_scripts(ctx)
    th = threading.Thread(target=mc_thread)
    th.start()
    try:
        binary = build()
        # 2. spec -> code: every generated transition of the 3-enumerator model, on every word type
        spath = os.path.join(ctx.workdir, "scripts.ndjson")
        vlib.write_ndjson(spath, scripts)
        lines = []
        for w in WORDS:
            rpath = os.path.join(ctx.workdir, "replayed_3_%d.ndjson" % w)
            rc, out = vlib.run_harness(binary, ["replay", spath, rpath, 3, w], timeout=900)
            lines += collect(ctx, rpath, rc, out, "TLC-generated scripts n=3 w=%d" % w, {"mode": "scripts", "n": 3, "w": w})
        ctx.traces_validated += len(lines)
        ctx.sample({"tlc_script": scripts[len(scripts) // 2]})
        # 3. code -> spec
        plan = record_plan(ctx, thorough)
        results = vlib.parallel(lambda it: run_record(binary, ctx, it), plan, workers=8)
        for item, path, rc, out in results:
            n, w, pairs, ntrees, nhist, bits, lastword = item
            got = collect(ctx, path, rc, out, "record n=%d w=%d" % (n, w),
                          {"mode": "record", "n": n, "w": w, "pairs": pairs, "ntrees": ntrees, "nhist": nhist,
                           "bits": bits, "lastword": lastword, "deep": 1 if thorough else 0, "seed": ctx.seed})
            ctx.traces_validated += nhist
            lines += got
            if len(lines) >= 1200000:
                strides.append(count_classes(ctx, lines))
                judge_lines(ctx, lines, "recorded")
                lines = []
        if lines:
            for kind in ("pair", "tree", "hist", "proxy", "out"):
                for text, _ in lines:
                    if text.startswith('{"f":"%s","n":9,"w":8' % kind) and 300 < len(text) < 1500:
                        ctx.sample({"recorded": json.loads(text)})
                        break
            strides.append(count_classes(ctx, lines))
            rejected = judge_lines(ctx, lines, "recorded")
            binding_guard(ctx, lines, rejected)
    finally:
        th.join()
    if mc_err:
        raise mc_err[0]
    ctx.extra["record_plan"] = [{"n": n, "w": w, "pairs": p, "trees": t, "histories": h, "bits_stride": b, "lastword_stride": lw}
                                for n, w, p, t, h, b, lw in plan]
    ctx.exhaustive = False
    ctx.rule = ("records of the real operators judged by TLC: for each (enum size, word width) every subset (<= 9 enumerators; "
                "a sample of 228 for 17) produced in six ways (set, init, ~complement, ~~, xor with ~null, or with ~all) x every "
                "enumerator operation, all 36 two-way productions of the same subset, every pair of subsets where the plan says "
                "'all' (quick: sizes 1, 3 and (8,8), (9,8); thorough: every size <= 9) and random pairs otherwise, random "
                "expression trees of depth <= 6, random register-machine histories <= 40 ops, and one TLC-generated script per "
                "transition of the 3-enumerator model.  A class = (record kind, enum size, word width, how the operands were "
                "produced, relation of the operands (equal/subset/superset/disjoint/overlapping), operand size bucket) resp. "
                "(history source, operation); counted on every k-th record, k = %s per judged batch" % strides)
    ctx.assumptions += [
        "undefined behaviour inside the operators (shifts, out-of-range enumerators) is only OBSERVED via ASan/UBSan in the harness, not decided by the TLA+ spec",
        "enumerators outside the enum (static_cast of a larger integer) are outside the API precondition and are not driven",
        "the hash is only required to be equal for equal sets; nothing is demanded for different sets",
        "BitfieldImpl.tla is a hand transcription of the headers; verdicts about the code come only from the recorded calls judged with Bitfield.tla",
        "17 enumerators: pairs, single subsets and model states are sampled (2^34 pairs); exhaustive only up to 9 enumerators",
    ]


def replay(ctx, payload):
    binary = build()
    args = payload["payload"]["args"]
    n, w = args["n"], args["w"]
    if args["mode"] == "scripts":
        # the saved record carries its own operation list
        rec = payload["payload"].get("record")
        spath = os.path.join(ctx.workdir, "replay_script.ndjson")
        vlib.write_ndjson(spath, [rec["ops"]] if rec else [])
        rpath = os.path.join(ctx.workdir, "replay_out.ndjson")
        rc, out = vlib.run_harness(binary, ["replay", spath, rpath, n, w], timeout=600)
        lines = collect(ctx, rpath, rc, out, "replay of a script", args)
    else:
        rpath = os.path.join(ctx.workdir, "replay_out.ndjson")
        rc, out = vlib.run_harness(binary, ["record", rpath, n, w, args["seed"], args["pairs"], args["ntrees"], args["nhist"],
                                            args.get("bits", 0), args.get("lastword", 0), args.get("deep", 0)], timeout=2400)
        lines = collect(ctx, rpath, rc, out, "replay of the recording n=%d w=%d" % (n, w), args)
    ctx.traces_validated += 1
    count_classes(ctx, lines)
    if lines:
        ctx.sample({"replayed": json.loads(lines[0][0])})
        judge_lines(ctx, lines, "replay")
    ctx.rule = "replay of the saved recording (same instantiation, seed and plan) on the current tree"
