"""C10 - fcppt::container::bitfield::object is observationally a set of enumerators.

1. TLC model-checks spec/BitfieldImpl.tla (the word-level transcription of the bitfield headers)
   in lock-step with the set algebra of spec/Bitfield.tla: every state reachable from (null, null)
   through the operators, for (enum size, word width) in {1,3,8,9,17} x {8,16,32,64} (exhaustive up
   to 9 enumerators, simulation for 17 and for 33, 64, 65 enumerators - more than 32 resp. 64 bits,
   up to nine storage words); invariants Refines (every operator commutes with Abs),
   EqualSetsEqualWords (same set => equal words and hashes), ObserversAgree, NoPadding,
   ConstructorsAgree, Laws.  Bug constants re-introduce one defect each (vacuity guards).
2. TLC emits one operation script per generated transition of the 3-enumerator model; the harness
   replays them on the real bitfields of every word type (spec -> code).
3. The harness drives the real operators (code -> spec): every subset produced in six ways,
   every enumerator operation, every pair of subsets (exhaustive up to 9 enumerators), random
   expression trees (depth <= 6) and random register-machine histories.
   Enums with 33, 64 and 65 enumerators (index >= 32 inside a 64-bit word, index 63, a second
   64-bit word, up to nine 8-bit words) are driven with structured subsets around the word
   boundaries of every word type plus seeded random ones.
4. spec/BitfieldJudge.tla (TLC) judges every record with the set algebra of Bitfield.tla.

Failures caused by the code under test are verdicts (docs/EXTENSION_BRIEF.md, Clarification 2): one
executable per enum; an executable of the in-scope part that does not compile is a VIOLATION
(C10:bitfield_n<N>:does-not-compile) and the others are still judged; the record kinds outside the
statement live in executables of their own (c10_bitfield_x<N>) whose compile errors, crashes and
disagreements are OBSERVATIONS; crashes, sanitizer reports, hangs (alarm per record) and escaping
exceptions end in C10:<operation>:<crash|sanitizer|hang|exception>, the complete records written
before them are judged as usual."""
import json
import os
import time
import re
import threading

import vlib

LEVEL = "model_checking"
JUDGE = "BitfieldJudge"
JUDGE_CFG = "BitfieldJudge.cfg"
SIZES = (1, 3, 8, 9, 17, 33, 64, 65)
BIG = (33, 64, 65)          # sampled around the word boundaries (harness: driver::big)
WORDS = (8, 16, 32, 64)
KIND_ORDER = {"single": 0, "elem": 1, "proxy": 1, "proxyx": 1, "out": 1, "rel": 2, "build": 3, "buildx": 3, "bits": 3, "pair": 4,
              "tree": 5, "hist": 6, "histp": 6}
KNOWN_KINDS = set(KIND_ORDER)
FAILURES = {66: "sanitizer", 67: "crash", 68: "hang", 124: "timeout", 65: "exception"}


def build_unit(part, n):
    """One executable per enum and part ("in": the record kinds inside the statement, "obs": the
    observed-only kinds).  Returns (path, None) or (None, first compiler error)."""
    name = "c10_bitfield_%s%d" % ("n" if part == "in" else "x", n)
    try:
        return vlib.build_harness(name, [name + ".cpp"], libs=(), jobs=1), None
    except vlib.Infra as e:
        msg = str(e)
        if "compile failed" not in msg and "link failed" not in msg:
            raise
        # (vlib keeps the last 6000 characters of the compiler output: the first "error:" line may be cut off)
        first = next((l.strip() for l in msg.splitlines() if "error:" in l), " ".join(msg.split())[-300:])
        return None, first[:400]


def build_all(ctx, sizes=SIZES, parts=("in", "obs")):
    """Builds the executables in parallel.  A unit that does not compile against the tree under test
    is a verdict about that tree, not an infrastructure failure: the in-scope part drives nothing
    but the API the statement names, with well-formed arguments - if the compiler rejects it the
    property cannot hold for those inputs (VIOLATION C10:bitfield_n<N>:does-not-compile); an
    observed-only unit becomes an OBSERVATION.  The other units are built and judged regardless."""
    units = [(part, n) for part in parts for n in sizes]
    res = vlib.parallel(lambda u: build_unit(u[0], u[1]), units, workers=vlib.NCPU)
    bins = {}
    for (part, n), (binary, err) in zip(units, res):
        bins[(part, n)] = binary
        if binary is not None:
            continue
        name = "c10_bitfield_%s%d" % ("n" if part == "in" else "x", n)
        what = "harness unit %s.cpp (enum with %d enumerators, words of 8/16/32/64 bits) does not compile against the tree under test: %s" % (
            name, n, err)
        ctx.extra.setdefault("harness_units_not_built", []).append({"unit": name, "first_error": err})
        if part == "in":
            ctx.reject("C10:bitfield_n%d:does-not-compile" % n, what, {"args": {"mode": "build", "part": part, "n": n, "w": 0}})
        else:
            observe(ctx, "C10:observed_unit_x%d:does-not-compile" % n, what)
    return bins


def retry_killed(fn, *a, **kw):
    """TLC processes are occasionally killed by the kernel's OOM killer when many checks share the
    box (rc=-9): that says nothing about the model, so the run is repeated (at most three times)."""
    for attempt in range(3):
        try:
            return fn(*a, **kw)
        except vlib.Infra as e:
            if "rc=-9" not in str(e) or attempt == 2:
                raise
            vlib.log("TLC was killed (rc=-9); retrying after a pause")
            time.sleep(20 * (attempt + 1))



def mc_env(n, w, bug="none", full=False):
    return {"BF_N": str(n), "BF_W": str(w), "BF_BUG": bug, "BF_FULL": "1" if full else "0"}


# ------------------------------------------------------------------ model checking of the spec


def model_check(ctx, thorough):
    """The specification itself.  Failures raise Infra (exit 2), never a VIOLATION."""
    def mc(n, w, full, **kw):
        r = retry_killed(vlib.tlc_mc, ctx, "MC_BitfieldImpl", "MC_BitfieldImpl.cfg", env=mc_env(n, w, "none", full), xmx="3g", **kw)
        ctx.mc_runs[-1]["constants"] = {"N": n, "W": w, "Bug": "none", "FullOps": full}
        return r
    # every operation record (aliases included) on the small enums, all word widths
    for n in (1, 3):
        for w in WORDS:
            mc(n, w, True, workers=4, coverage=(thorough and n == 3 and w == 8))
    # one representative per code path on the larger ones (quick: the full-word case (8,8) and the
    # two-words-with-padding case (9,8); thorough: all eight combinations)
    big = [(8, w) for w in WORDS] + [(9, w) for w in WORDS] if thorough else [(8, 8), (9, 8)]
    for n, w in big:
        mc(n, w, False, timeout=2400)
    # and the converse sanity law (thorough): when the enumerators fill the words exactly there is no
    # padding and the old operator~ is indistinguishable from the repaired one
    if thorough:
        r = retry_killed(vlib.tlc, "MC_BitfieldImpl", "MC_BitfieldImpl.cfg", workers=8, env=mc_env(8, 8, "not_padding", False), timeout=2400)
        if not r.completed:
            raise vlib.Infra("Bug=not_padding must be unobservable for 8 enumerators in 8-bit words")
        ctx.extra["converse_guard"] = {"constants": {"N": 8, "W": 8, "Bug": "not_padding"}, "violates": None, "states": r.distinct}
    ctx.extra["coverage_note"] = ("the lock-step model has one parameterised action; operation coverage is measured on the "
                                  "emitted scripts (every operation name must be the last step of some script)")


class SubCtx:
    """mc_runs of a second model-checking thread (merged into ctx.mc_runs by the main thread)."""
    def __init__(self):
        self.mc_runs = []
        self.extra = {}


def model_check_light(ctx, seed, thorough):
    """The cheap runs (random walks, vacuity guards; a few CPU-seconds each, mostly JVM start-up) -
    in a thread of their own, next to the exhaustive runs of model_check.  ctx is a SubCtx."""
    # 17 enumerators: 2^34 pairs - random walks from (null, null)
    # (simulate=k generates k behaviours per worker; the algebraic Laws are left to the exhaustive runs)
    # 33, 64, 65 enumerators (bit index >= 32 in a 64-bit word, index 63, a second 64-bit word, five and
    # nine storage words): random walks as well
    wide = [(n, w) for n in BIG for w in WORDS] if thorough else [(33, 64), (64, 32), (65, 8), (65, 64)]
    for n, w in ([(17, w) for w in WORDS] if thorough else [(9, 16), (17, 8), (17, 16)]) + wide:
        # (wide enums: without ConstructorsAgree / UnderlyingAgrees, whose evaluation is quadratic in N, and fewer
        # walks - under contention with the exhaustive runs these were the critical path of the quick tier)
        r = retry_killed(vlib.tlc_mc, ctx, "MC_BitfieldImpl", "MC_BitfieldImpl_sim.cfg" if n <= 17 else "MC_BitfieldImpl_simwide.cfg",
                        env=mc_env(n, w, "none", False), workers=4,
                        simulate=((2000 if thorough else 100) if n <= 17 else (200 if thorough else 10)), depth=40, seed=seed, timeout=2400)
        ctx.mc_runs[-1]["constants"] = {"N": n, "W": w, "Bug": "none", "FullOps": False}
    # vacuity guards: each invariant CAN fail - with one defect re-introduced into the transcription
    # TLC must find a counterexample to the named invariant
    # (shallow counterexamples only: the guards must stay cheap when the machine is busy)
    guards = [
        (1, 8, "not_padding", "EqualSetsEqualWords"),
        (3, 8, "not_padding", "EqualSetsEqualWords"),
        (3, 16, "not_padding", "ObserversAgree"),
        (9, 8, "not_padding", "NoPadding"),
        (17, 64, "not_padding", "NoPadding"),
        (3, 8, "xor_as_or", "Refines"),
        (9, 8, "offset_div", "Refines"),
        (3, 8, "offset_div", "ObserversAgree"),
        (3, 8, "subset_right", "ObserversAgree"),
        (3, 8, "proxy_rebind", "Refines"),
        (9, 8, "proxy_rebind", "Refines"),
        (3, 8, "not_padding", "UnderlyingAgrees"),
        (9, 16, "not_padding", "UnderlyingAgrees"),
        # the single-bit mask computed with a 32-bit shift: needs an enumerator >= 32 inside a 64-bit word
        (33, 64, "mask_shift32", "Refines"),
        (65, 64, "mask_shift32", "ObserversAgree"),
        (17, 64, "mask_shift32", None),      # converse: invisible while every enumerator is below 32
    ]
    for n, w, bug, inv in guards:
        if inv is None:
            # the defect must NOT be visible in this configuration (random walks; the model localises it)
            if thorough:
                retry_killed(vlib.tlc_mc, ctx, "MC_BitfieldImpl", "MC_BitfieldImpl_sim.cfg", env=mc_env(n, w, bug, False), workers=4,
                             simulate=200, depth=40, seed=seed, timeout=900)
                ctx.mc_runs[-1]["constants"] = {"N": n, "W": w, "Bug": bug, "FullOps": False}
            continue
        r = retry_killed(vlib.tlc, "MC_BitfieldImpl", "MC_BitfieldImpl_guard_%s.cfg" % inv, workers=4, env=mc_env(n, w, bug, n <= 3 or bug == "proxy_rebind"), timeout=900, expect=inv)
        if inv not in r.invariant_violated:
            raise vlib.Infra("vacuity guard: Bug=%s N=%d W=%d did not violate %s" % (bug, n, w, inv))
        ctx.extra.setdefault("vacuity_guards", []).append(
            {"constants": {"N": n, "W": w, "Bug": bug}, "violates": inv, "states": r.distinct})

def emit_scripts(ctx):
    r = retry_killed(vlib.tlc_mc, ctx, "MC_BitfieldImpl", "MC_BitfieldScripts.cfg", workers=4, env=mc_env(3, 8, "none", True))
    ctx.mc_runs[-1]["constants"] = {"N": 3, "W": 8, "Bug": "none", "FullOps": True}
    scripts = vlib._verdict_lines(r.out).get("SCRIPT", [])
    scripts = [s for s in scripts if s]
    if len(scripts) < 4000:
        raise vlib.Infra("script emission produced only %d scripts" % len(scripts))
    last = set(s[-1]["op"] for s in scripts)
    want = {"set", "idx", "ore", "orae", "or", "and", "xor", "ora", "anda", "xora", "not", "swap", "copy", "null",
            "selfora", "selfanda", "selfxora", "idxcopy", "idxcopy_y", "chain"}
    if last != want:
        raise vlib.Infra("script emission does not cover every operation: missing %s" % sorted(want - last))
    ctx.extra["script_op_coverage"] = sorted(last)
    return scripts


# ------------------------------------------------------------------ judging


def in_scope_kinds():
    """The per-record-kind scope flag lives in the judge (InScope of spec/BitfieldJudge.tla): only
    rejected records of these kinds may become a VIOLATION; the others are observations."""
    txt = open(os.path.join(vlib.SPEC, JUDGE + ".tla")).read()
    m = re.search(r"^InScope == \{([^}]*)\}", txt, re.M)
    if not m:
        raise vlib.Infra("InScope not found in %s.tla" % JUDGE)
    return set(re.findall(r'"(\w+)"', m.group(1)))


def observe(ctx, sig, what):
    """A disagreement outside the statement of C10: counted and written to the evidence, never a VIOLATION."""
    o = ctx.extra.setdefault("observations", {})
    e = o.setdefault(sig, {"count": 0, "first": what})
    e["count"] += 1
    if e["count"] == 1:
        vlib.log("OBSERVATION (outside the statement of C10, not a verdict): %s: %s" % (sig, what[:400]))


def signature(reason):
    """reason = '<call>/<what>[@<where in the record>]' -> 'C10:<call>:<what>'"""
    return "C10:" + reason.split("@")[0].replace("/", ":", 1)


def harness_failure(ctx, part, what, rc, out, tail, events, side, payload):
    """The harness process did not end normally, or an exception escaped from the code under test.
    events: the {"e":"crash"|"exc", "op":..., "f":...} lines the harness wrote."""
    if rc == 3:
        raise vlib.Infra("harness usage/script error (%s): %s" % (what, out[-400:]))
    report = (lambda sig, txt: ctx.reject(sig, txt, payload)) if part == "in" else (lambda sig, txt: observe(ctx, sig, txt))
    san = re.search(r"(ERROR: \w+Sanitizer: [^\n]*|runtime error: [^\n]*)", out)
    seen = set()
    for ev in events:
        if ev.get("e") == "exc":
            sig = "C10:%s:exception" % ev.get("op", "?")
            if sig not in seen:
                report(sig, "an exception escaped from the code under test while recording a %s record (%s): %s" % (
                    ev.get("f", "?"), what, str(ev.get("what", ""))[:300]))
            seen.add(sig)
    crash = [ev for ev in events if ev.get("e") == "crash"]
    if rc not in (0, 65) or crash:
        kind = FAILURES.get(rc, "exit%d" % rc)
        if crash and crash[-1].get("what") in ("hang", "sanitizer"):
            kind = crash[-1]["what"]
        f, op = "?", None
        if crash:
            f, op = str(crash[-1].get("f", "?")), str(crash[-1].get("op", "?"))
        elif side and side[0]:
            op, f = side[0], side[1] or "?"
        elif tail:
            m = re.search(r'"f":"(\w+)"', tail)
            f = m.group(1) if m else "?"
        report("C10:%s:%s" % (op or f, kind), "%s while recording a %s record (%s): %s; partial line: %s" % (
            kind, f, what, san.group(1) if san else out[-300:].strip(), (tail or "")[:300]))


def kind_of(text):
    m = re.match(r'\{"f":"(\w+)"', text)
    return m.group(1) if m else "?"


def judge_lines(ctx, lines, origin):
    """lines: list of (text, payload-args).  The judge keeps only the first 300 rejected records of a
    chunk verbatim, so record kinds are judged in separate groups: the kinds inside the statement of
    C10 together, every observed-only kind on its own - a flood of rejections in one group (e.g. the
    known proxy observations) can then never hide a rejection in another."""
    scope = in_scope_kinds()
    groups = {}
    for k, item in enumerate(lines):
        kd = kind_of(item[0])
        groups.setdefault("inscope" if kd in scope else kd, []).append(k)
    rejected = set()
    for g in sorted(groups):
        idx = groups[g]
        sub = [lines[k] for k in idx]
        for r in judge_group(ctx, sub, "%s_%s" % (origin, g), scope):
            rejected.add(idx[r])
    return rejected


def judge_group(ctx, lines, origin, scope):
    batch = 400000
    rejected = set()
    for start in range(0, len(lines), batch):
        part = lines[start:start + batch]
        path = os.path.join(ctx.workdir, "judge_%s_%d.ndjson" % (origin, start))
        with open(path, "w") as f:
            for text, _ in part:
                f.write(text)
                f.write("\n")
        bad = retry_killed(vlib.judge_trace, ctx, JUDGE, JUDGE_CFG, path, boundary_key=None, timeout=2400,
                           nchunks=max(1, min(vlib.NCPU, len(part) // 2000)))
        ctx.evaluations += len(part)
        ctx.extra["record_chunks"] = ctx.extra.get("record_chunks", 0) + min(vlib.NCPU, len(part))
        recs = []
        for b in bad:
            rejected.add(start + b["l"] - 1)
            text, args = part[b["l"] - 1]
            if "HARNESS-PRECONDITION" in b["why"] or "unknown-record-kind" in b["why"] or b["op"] == "?":
                raise vlib.Infra("the judge could not interpret record %d of %s (%s): %s" % (b["l"], path, b["why"], text[:300]))
            recs.append((KIND_ORDER.get(b["op"], 9), len(text), b, text, args))
        # simplest failing record first: it becomes the replay payload of its signature
        recs.sort(key=lambda t: (t[0], t[1]))
        for _, _, b, text, args in recs:
            rec = json.loads(text)
            for why in sorted(b["why"]):
                if b["op"] not in scope:
                    observe(ctx, signature(why), "%s record (n=%d, w=%d): %s; record: %s" % (b["op"], rec["n"], rec["w"], why, text[:500]))
                    continue
                ctx.reject(signature(why), "%s record (n=%d, w=%d, %s): the specification cannot explain %s; record: %s" % (
                    b["op"], rec["n"], rec["w"], origin, why, text[:600]), {"args": args, "record": rec, "reason": why})
        os.unlink(path)
    return rejected


def toggle0(xs):
    return xs[1:] if xs and xs[0] == 0 else [0] + xs


def binding_guard(ctx, lines, rejected):
    """Copies of ACCEPTED records with one observation changed must be rejected by the judge, an
    untouched copy accepted - otherwise the judge is not looking at the data.  Independent of the
    verdict about the code."""
    first = {}
    for k, (text, _) in enumerate(lines):
        if k in rejected:
            continue
        m = re.match(r'\{"f":"(\w+)"', text)
        if m and m.group(1) not in first and (not m.group(1).startswith("hist") or '"ops":[]' not in text):
            first[m.group(1)] = json.loads(text)
        if len(first) == len(KNOWN_KINDS):
            break
    out, want = [], set()

    def add(r, must):
        out.append(json.dumps(r, separators=(",", ":")))
        if must:
            want.add(len(out))
    for f, r in sorted(first.items()):
        add(r, False)
        c = json.loads(json.dumps(r))
        if f == "pair":
            c["xor"][0] = toggle0(c["xor"][0])
        elif f == "rel":
            c["rel"][0] = 1 - c["rel"][0]
        elif f == "single":
            c["not"][0] = toggle0(c["not"][0])
        elif f == "elem":
            c["g"] = 1 - c["g"]
        elif f in ("build", "buildx"):
            c["r"][0] = toggle0(c["r"][0])
        elif f == "tree":
            c["q"][2][4] = 1 - c["q"][2][4]
        elif f in ("hist", "histp"):
            c["obs"][-1]["x"] = toggle0(c["obs"][-1]["x"])
        elif f == "proxy":
            c["ch1"][0] = toggle0(c["ch1"][0])
        elif f == "proxyx":
            c["rid"][0] = 0
        elif f == "out":
            c["s"] = c["s"][:-1] + [44, 125]
        elif f == "bits":
            c["s0"][-1] = toggle0(c["s0"][-1])
        add(c, True)
    # On a defective tree "accepted" is unreliable (the judge lists only the first 300 rejected records
    # of a chunk) and there may be hardly any accepted record: the guard is strict only when the
    # code gave no reason for complaint - never an infrastructure failure caused by the code under test.
    strict = not ctx.violations and not ctx.extra.get("observations")
    if len(want) < 5:
        if strict:
            raise vlib.Infra("binding guard: only %d corrupted records could be formed" % len(want))
        ctx.extra["binding_guard"] = {"skipped": "only %d accepted record kinds on a tree with rejected records" % len(want)}
        return
    path = os.path.join(ctx.workdir, "judge_corrupted.ndjson")
    with open(path, "w") as fh:
        fh.write("\n".join(out) + "\n")
    bad = retry_killed(vlib.judge_trace, ctx, JUDGE, JUDGE_CFG, path, nchunks=1, boundary_key=None, timeout=900)
    os.unlink(path)
    why = {b["l"]: set(b["why"]) for b in bad}
    # out = untouched copy, corrupted copy, untouched, corrupted, ...: every corrupted copy must be
    # rejected.  (Its original is normally accepted; when the code is defective it may itself be rejected.)
    for k in sorted(want):
        if not why.get(k) and not strict:
            ctx.extra["binding_guard"] = {"skipped": "a corrupted copy was accepted on a tree with rejected records (its original was probably rejected beyond the judge's list of 300)"}
            return
        if not why.get(k):
            raise vlib.Infra("binding guard: the judge did not notice the corruption of record %d: %s" % (k, out[k - 1][:300]))
    ctx.extra["binding_guard_originals_accepted"] = sum(1 for k in want if not why.get(k - 1))
    ctx.extra["binding_guard"] = {"corrupted_records": len(want), "all_rejected": True}


def count_classes(ctx, lines, cap=150000):
    stride = max(1, len(lines) // cap)
    for text, _ in lines[::stride]:
        r = json.loads(text)
        f = r["f"]
        key = (f, r["n"], r["w"])
        if f in ("pair", "rel"):
            a, b = set(r["a"]), set(r["b"])
            shape = "eq" if a == b else "sub" if a < b else "sup" if a > b else "disj" if not (a & b) else "ovl"
            key += (r["pa"], r["pb"], shape, min(len(a), 3), min(len(b), 3))
        elif f == "single":
            key += (r["p"], min(len(r["a"]), 4))
        elif f == "elem":
            key += (r["p"], r["e"], r["g"])
        elif f in ("build", "buildx"):
            key += (r["how"], min(len(r["s"]), 9))
        elif f == "proxy":
            key += (r["p"], r["i"] == r["j"], r["i"] in r["a"], r["j"] in r["a"], r["j"] in r["b"])
        elif f == "proxyx":
            key += (r["p"], r["i"] in r["a"], r["j"] in r["a"])
        elif f == "out":
            key += (r["p"], min(len(r["a"]), 4), bool(r["uv"]))
        elif f == "bits":
            key += (min(len(r["a"]), 6),)
        elif f == "tree":
            key += (r["t"]["o"], r["u"]["o"], set(r["r"][0]) == set(r["q"][0]))
        elif f in ("hist", "histp"):
            for o in r["ops"]:
                ctx.count_class(("hist-op", r["n"], r["w"], o["op"]))
            key += (r["src"], min(len(r["ops"]), 8))
        ctx.count_class(key)
    return stride


def record_plan(ctx, thorough):
    """(n, w, pairs_mode, ntrees, nhist, bits_stride, lastword_stride) per instantiation.
    bits_stride k: all single-enumerator operations of every k-th subset; lastword_stride k (multi-word
    bitfields): all pairs of subsets differing only in the last storage word, every k-th choice of the
    other words.  Thorough makes both exhaustive for the multi-word instantiations of 17 enumerators.
    Enums with more than 17 enumerators (BIG): ~55 structured + random subsets (harness), random pairs,
    fewer trees and histories (their records are long)."""
    plan = []
    for n in SIZES:
        for w in WORDS:
            multi = n > w
            if n in BIG:
                plan.append((n, w, "4000" if thorough else "400", 1500 if thorough else 150, 300 if thorough else 40, 1, 1))
                continue
            if n <= 3:
                pairs = "all"
            elif n <= 9:
                pairs = "all" if (thorough or (n, w) in ((8, 8), (9, 8))) else "4000"
            else:
                pairs = "100000" if thorough else "4000"
            if n <= 9:
                bits, lastword = 1, 0      # (all pairs already cover the last word there)
            elif thorough:
                bits, lastword = (1 if multi else 16), 1
            else:
                bits, lastword = 257, 1024
            plan.append((n, w, pairs, 6000 if thorough else 600, 1200 if thorough else 150, bits, lastword))
    return plan


def run_job(bins, ctx, job):
    """job = (part, mode, n, w, item): runs one harness process, returns (job, path, rc, out)."""
    part, mode, n, w, item = job
    binary = bins.get((part, n))
    if binary is None:
        return job, None, None, ""
    if mode == "scripts":
        path = os.path.join(ctx.workdir, "replayed_%d_%d.ndjson" % (n, w))
        rc, out = vlib.run_harness(binary, ["replay", item, path, n, w], timeout=900)
        return job, path, rc, out
    _, _, pairs, ntrees, nhist, bits, lastword = item
    path = os.path.join(ctx.workdir, "rec_%s_%d_%d.ndjson" % (part, n, w))
    rc, out = vlib.run_harness(binary, ["record", path, n, w, ctx.seed, pairs, ntrees, nhist, bits, lastword,
                                        1 if ctx.tier == "thorough" else 0], timeout=2400)
    return job, path, rc, out


def collect(ctx, part, path, rc, out, what, args):
    """Complete records of one harness run (judged whatever happened afterwards); a process that
    did not end normally / an escaped exception becomes a rejected event (in scope) or an
    observation (observed-only part)."""
    lines, tail = vlib.check_trace_file(path) if os.path.exists(path) else ([], None)
    records, events = [], []
    for l in lines:
        try:
            r = json.loads(l)
        except ValueError:
            continue
        if isinstance(r, dict) and r.get("f") in KNOWN_KINDS and "n" in r and "w" in r:
            records.append(l)
        elif isinstance(r, dict) and r.get("e") in ("crash", "exc"):
            events.append(r)
        else:
            tail = tail or l       # a line that parses but is not a record: treated like a truncated one
    # the harness mirrors the operation / record kind it is working on into OUT.op (memory-mapped):
    # the last word of a process that died without running any handler
    side = None
    try:
        raw = open(path + ".op", "rb").read(128)
        side = tuple(re.sub(r"[^\w<>=!|&^~\[\]-]", "", raw[k:k + 64].split(b"\0")[0].decode(errors="replace")) for k in (0, 64))
        os.unlink(path + ".op")
    except OSError:
        pass
    if rc != 0 or events:
        harness_failure(ctx, part, what, rc, out, tail, events, side, {"args": args})
    if os.path.exists(path):
        os.unlink(path)
    return [(l, args) for l in records]


def run(ctx):
    thorough = ctx.tier == "thorough"
    # 1. the specification itself - in the background, while the harness is built and run
    mc_err = []

    sub = SubCtx()

    def mc_thread(fn, *a):
        try:
            # VERIF_C10_SKIP_MC=1: development switch for trying source mutants quickly (the
            # specification does not depend on the tree); such a run writes no usable evidence
            if os.environ.get("VERIF_C10_SKIP_MC") != "1":
                fn(*a)
        except BaseException as e:  # noqa: BLE001 - re-raised in the main thread
            mc_err.append(e)
    strides = []
    scripts = emit_scripts(ctx)
    ths = [threading.Thread(target=mc_thread, args=(model_check, ctx, thorough)),
           threading.Thread(target=mc_thread, args=(model_check_light, sub, ctx.seed, thorough))]
    for th in ths:
        th.start()
    try:
        bins = build_all(ctx)
        spath = os.path.join(ctx.workdir, "scripts.ndjson")
        vlib.write_ndjson(spath, scripts)
        plan = record_plan(ctx, thorough)
        # 2. spec -> code: every generated transition of the 3-enumerator model, on every word type
        jobs = [("in", "scripts", 3, w, spath) for w in WORDS]
        # 3. code -> spec: the record kinds inside the statement, then the observed-only kinds
        jobs += [("in", "record", it[0], it[1], it) for it in plan]
        jobs += [("obs", "record", it[0], it[1], (it[0], it[1], "0", 0, 0, 0, 0)) for it in plan]
        results = vlib.parallel(lambda j: run_job(bins, ctx, j), jobs, workers=12)
        lines = []
        ctx.sample({"tlc_script": scripts[len(scripts) // 2]})
        for job, path, rc, out in results:
            part, mode, n, w, item = job
            if path is None:
                continue          # the unit did not compile (reported by build_all)
            if mode == "scripts":
                got = collect(ctx, part, path, rc, out, "TLC-generated scripts n=3 w=%d" % w, {"mode": "scripts", "part": part, "n": 3, "w": w})
                ctx.traces_validated += len(got)
            else:
                _, _, pairs, ntrees, nhist, bits, lastword = item
                got = collect(ctx, part, path, rc, out, "record%s n=%d w=%d" % ("" if part == "in" else " (observed-only kinds)", n, w),
                              {"mode": "record", "part": part, "n": n, "w": w, "pairs": pairs, "ntrees": ntrees, "nhist": nhist,
                               "bits": bits, "lastword": lastword, "deep": 1 if thorough else 0, "seed": ctx.seed})
                ctx.traces_validated += nhist
            lines += got
            if len(lines) >= 1200000:
                strides.append(count_classes(ctx, lines))
                judge_lines(ctx, lines, "recorded")
                lines = []
        if lines:
            for kind in ("pair", "tree", "hist", "proxy", "out"):
                for text, _ in lines:
                    if text.startswith('{"f":"%s","n":9,"w":8' % kind) and 300 < len(text) < 1500:
                        ctx.sample({"recorded": json.loads(text)})
                        break
            strides.append(count_classes(ctx, lines))
            rejected = judge_lines(ctx, lines, "recorded")
            binding_guard(ctx, lines, rejected)
    finally:
        for th in ths:
            th.join()
    if mc_err:
        raise mc_err[0]
    ctx.mc_runs += sub.mc_runs
    ctx.extra.update(sub.extra)
    if "converse_guard" in ctx.extra:
        ctx.extra.setdefault("vacuity_guards", []).append(ctx.extra.pop("converse_guard"))
    ctx.extra["record_plan"] = [{"n": n, "w": w, "pairs": p, "trees": t, "histories": h, "bits_stride": b, "lastword_stride": lw}
                                for n, w, p, t, h, b, lw in plan]
    ctx.exhaustive = False
    ctx.rule = ("records of the real operators judged by TLC: for each (enum size, word width) every subset (<= 9 enumerators; "
                "a sample of 228 for 17; ~55 structured subsets around the 8/16/32/64-bit word boundaries plus random ones for "
                "33, 64 and 65 enumerators) produced in six ways (set, init, ~complement, ~~, xor with ~null, or with ~all) x every "
                "enumerator operation (33-65: the enumerators next to the 32/64-bit boundaries), all 36 two-way productions of the "
                "same subset, every pair of subsets where the plan says "
                "'all' (quick: sizes 1, 3 and (8,8), (9,8); thorough: every size <= 9) and random pairs otherwise, random "
                "expression trees of depth <= 6, random register-machine histories <= 40 ops, and one TLC-generated script per "
                "transition of the 3-enumerator model.  A class = (record kind, enum size, word width, how the operands were "
                "produced, relation of the operands (equal/subset/superset/disjoint/overlapping), operand size bucket) resp. "
                "(history source, operation); counted on every k-th record, k = %s per judged batch" % strides)
    ctx.assumptions += [
        "undefined behaviour inside the operators (shifts, out-of-range enumerators) is only OBSERVED via ASan/UBSan in the harness, not decided by the TLA+ spec",
        "enumerators outside the enum (static_cast of a larger integer) are outside the API precondition and are not driven",
        "the hash is only required to be equal for equal sets; nothing is demanded for different sets",
        "BitfieldImpl.tla is a hand transcription of the headers; verdicts about the code come only from the recorded calls judged with Bitfield.tla",
        "17 enumerators: pairs, single subsets and model states are sampled (2^34 pairs); exhaustive only up to 9 enumerators",
        "33, 64, 65 enumerators: structured + seeded random subsets, pairs and histories; the model is exercised by random walks only",
    ]


def replay(ctx, payload):
    args = payload["payload"]["args"]
    n, w, part = args["n"], args["w"], args.get("part", "in")
    bins = build_all(ctx, sizes=(n,), parts=(part,))
    binary = bins.get((part, n))
    if args["mode"] == "build" or binary is None:
        ctx.rule = "replay: the harness unit for %d enumerators is built again on the current tree" % n
        return
    if args["mode"] == "scripts":
        # the saved record carries its own operation list
        rec = payload["payload"].get("record")
        spath = os.path.join(ctx.workdir, "replay_script.ndjson")
        vlib.write_ndjson(spath, [rec["ops"]] if rec else [])
        rpath = os.path.join(ctx.workdir, "replay_out.ndjson")
        rc, out = vlib.run_harness(binary, ["replay", spath, rpath, n, w], timeout=600)
        lines = collect(ctx, part, rpath, rc, out, "replay of a script", args)
    else:
        rpath = os.path.join(ctx.workdir, "replay_out.ndjson")
        rc, out = vlib.run_harness(binary, ["record", rpath, n, w, args["seed"], args["pairs"], args["ntrees"], args["nhist"],
                                            args.get("bits", 0), args.get("lastword", 0), args.get("deep", 0)], timeout=2400)
        lines = collect(ctx, part, rpath, rc, out, "replay of the recording n=%d w=%d" % (n, w), args)
    ctx.traces_validated += 1
    count_classes(ctx, lines)
    if lines:
        ctx.sample({"replayed": json.loads(lines[0][0])})
        judge_lines(ctx, lines, "replay")
    ctx.rule = "replay of the saved recording (same instantiation, seed and plan) on the current tree"
