SPECIFICATION Spec
CONSTANTS
  MaxLen = 4
  MaxLenCheap = 4
  KindLen = 3
  InitAll = FALSE
  BugNextArgNoSkip = FALSE
  BugUseFlagAll = FALSE
  BugOptionalOrigState = FALSE
  BugNames = "none"
  BugErrorState = "sum_left"
  BugMissingIsOther = FALSE
  BugUsage = "none"
VIEW View
INVARIANTS ErrorStateLaw
CHECK_DEADLOCK FALSE
