---------------------------- MODULE PegTypes ----------------------------
(* Result types and result values of fcppt.parse parsers (property C02).

   Types are records:  [t |-> "unit"], "char", "int" (the signed type of int_), "uint",
   "float", "str" (std::basic_string), [t |-> "vec", e |-> T], [t |-> "opt", e |-> T],
   [t |-> "tup", es |-> <<T..>>], [t |-> "var", es |-> <<T..>>], [t |-> "box", e |-> T]
   (a user struct built by construct<>), [t |-> "rec", e |-> T] (fcppt::recursive),
   [t |-> "named", n |-> name] (declared result type of a grammar nonterminal).

   The rules are the documented ones:
     sequence_result     (sequence_result.hpp): unit is dropped, tuples are concatenated,
                         non-tuples are wrapped;
     alternative_result  (alternative_result.hpp + parse.doxygen "variant<digit,...,digit> is
                         simplified to digit"): variants are flattened, duplicates removed
                         keeping the first occurrence, a single remaining type is not wrapped;
     repetition_result   (repetition_result.hpp): string for a character, vector otherwise;
     optional -> optional<T>; separator / list -> std::vector<T> (separator_decl.hpp);
     literal/string/epsilon/fail/not_/ignore -> unit; char_/char_set/complement -> char.

   Values are records tagged the same way; Enc(v) is the flat integer serialisation the
   harness logs (harness/c02_main.cpp `enc`): comparing flat integer sequences keeps TLC's
   equality total whatever the real code returned. *)
EXTENDS Naturals, Integers, Sequences

TUnit == [t |-> "unit"]
TChar == [t |-> "char"]
TInt == [t |-> "int"]
TUInt == [t |-> "uint"]
TFloat == [t |-> "float"]
TStr == [t |-> "str"]
TVec(e) == [t |-> "vec", e |-> e]
TOpt(e) == [t |-> "opt", e |-> e]
TTup(es) == [t |-> "tup", es |-> es]
TVar(es) == [t |-> "var", es |-> es]
TBox(e) == [t |-> "box", e |-> e]
TRec(e) == [t |-> "rec", e |-> e]
TNull == [t |-> "null"]
TBool == [t |-> "bool"]

TupList(T) == IF T.t = "tup" THEN T.es ELSE <<T>>
VarList(T) == IF T.t = "var" THEN T.es ELSE <<T>>

InSeqT(x, s) == \E i \in 1..Len(s) : s[i] = x
RECURSIVE UniqueFrom(_, _)
UniqueFrom(acc, s) ==
  IF s = <<>> THEN acc
  ELSE UniqueFrom(IF InSeqT(Head(s), acc) THEN acc ELSE Append(acc, Head(s)), Tail(s))
Unique(s) == UniqueFrom(<<>>, s)
IndexOf(x, s) == CHOOSE i \in 1..Len(s) : s[i] = x

SeqTy(L, R) ==
  IF L = TUnit THEN R ELSE IF R = TUnit THEN L ELSE TTup(TupList(L) \o TupList(R))
AltTy(L, R) ==
  LET u == Unique(VarList(L) \o VarList(R)) IN IF Len(u) = 1 THEN u[1] ELSE TVar(u)
RepTy(E) == IF E = TChar THEN TStr ELSE TVec(E)

(* ---- values ---- *)
VUnit == [t |-> "unit"]
VChar(c) == [t |-> "char", c |-> c]
VInt(n) == [t |-> "int", n |-> n]
VUInt(n) == [t |-> "uint", n |-> n]
VFloat == [t |-> "float"]
VStr(cs) == [t |-> "str", cs |-> cs]
VVec(es) == [t |-> "vec", es |-> es]
VNone == [t |-> "opt", es |-> <<>>]
VSome(v) == [t |-> "opt", es |-> <<v>>]
VTup(es) == [t |-> "tup", es |-> es]
VVar(i, v) == [t |-> "var", i |-> i, v |-> v]
VBox(v) == [t |-> "box", v |-> v]
VNull == [t |-> "null"]                 \* a user type with one value (json::null)
VBool(b) == [t |-> "bool", b |-> b]
VRec(v) == [t |-> "rec", v |-> v]

TupVals(T, v) == IF T.t = "tup" THEN v.es ELSE <<v>>
SeqVal(L, R, lv, rv) ==
  IF L = TUnit THEN rv ELSE IF R = TUnit THEN lv ELSE VTup(TupVals(L, lv) \o TupVals(R, rv))

(* value of an alternative of type T whose branch of type B produced v: the variant holds the
   value under the index of its type in T's list (0-based, as variant::type_index) *)
AltVal(T, B, v) ==
  IF T.t # "var" THEN v
  ELSE IF B.t = "var" THEN VVar(IndexOf(B.es[v.i + 1], T.es) - 1, v.v)
  ELSE VVar(IndexOf(B, T.es) - 1, v)

(* repetition: string of the characters, or vector of the element values *)
RepVal(E, vals) ==
  IF E = TChar THEN VStr([i \in 1..Len(vals) |-> vals[i].c]) ELSE VVec(vals)
(* the element values of a repetition value *)
RepElems(v) == IF v.t = "str" THEN [i \in 1..Len(v.cs) |-> VChar(v.cs[i])] ELSE v.es

RECURSIVE Enc(_), EncAll(_)
EncAll(vs) == IF vs = <<>> THEN <<>> ELSE Enc(Head(vs)) \o EncAll(Tail(vs))
Enc(v) ==
  CASE v.t = "unit" -> <<0>>
    [] v.t = "char" -> <<1, v.c>>
    [] v.t = "int" -> <<2, v.n>>
    [] v.t = "str" -> <<3, Len(v.cs)>> \o v.cs
    [] v.t = "vec" -> <<4, Len(v.es)>> \o EncAll(v.es)
    [] v.t = "opt" -> <<5, Len(v.es)>> \o EncAll(v.es)
    [] v.t = "tup" -> <<6, Len(v.es)>> \o EncAll(v.es)
    [] v.t = "var" -> <<7, v.i>> \o Enc(v.v)
    [] v.t = "float" -> <<8>>
    [] v.t = "box" -> <<9>> \o Enc(v.v)
    [] v.t = "rec" -> <<10>> \o Enc(v.v)
    [] v.t = "uint" -> <<11, v.n>>
    [] v.t = "null" -> <<12>>
    [] v.t = "bool" -> <<13, IF v.b THEN 1 ELSE 0>>
=============================================================================
