--------------------------- MODULE ParseStream ---------------------------
(* Abstract specification of fcppt::parse::basic_stream (property C12), written
   from the class documentation in libs/parse/include/fcppt/parse/basic_stream_decl.hpp:

     a stream points to an index 0 <= i <= n in a string a_1 ... a_n; the index is
     BEFORE the next character that will be read.  get_char returns nothing if
     i = n, otherwise a_{i+1} and increments i.  The position is the index plus
       line   = 1 + number of newline characters among a_1 .. a_i
       column = i - j + 1,  j = index of the last newline <= i  (j = 0 if none)
     set_position takes values returned from get_position.

   Line and column are computed FROM SCRATCH from (text, offset) - never
   incrementally - so the abstract state is just the offset, and "restoring a saved
   position makes all subsequent reads and positions identical to those observed
   when it was saved" holds by construction: the future is a function of the
   offset alone.

   The character-level parsers literal / char_set consume one character and, on a
   mismatch, report the location immediately AFTER the offending character.

   `bad` = the underlying std stream has been put into the bad state by the
   environment.  The property only demands "a failure, never a character" then;
   everything else on a bad stream is left open (see Explains* below).

   Events (shared encoding of harness logs, TLC-generated scripts and the model's
   history; integers only, texts are sequences of code points):
     <<1, r>>                      get_char:   r >= 0 character, -1 nothing, -2 exception
     <<2, id, off, line, col>>     get_position returned the id-th position (ids 0,1,2.. count
                                   the successful get_position calls of the history);
     <<2, -2>>                     get_position threw
     <<3, id, x>>                  set_position(position id): x = 0 returned, -2 threw
     <<4>>                         the driver set badbit on the underlying std stream
     <<5, c, res, line, col>>      literal(c).parse(stream, epsilon skipper):
     <<6, cs, res, line, col, ch>> char_set(cs).parse(...):  res = 1 success (ch = the character),
                                   0 failure whose message starts with "Line line:col: ",
                                   -1 failure without a location, -2 exception
   Extension round:
     <<7, i, j, eq>>               position i == position j  (position_equal.hpp "Compares two
                                   positions for equality"): eq = 1 / 0
     <<8, i, line, col>>           the location of position i written with operator<< (location_output.hpp;
                                   the documented error format "Line 1:3: ..." fixes it as line:col),
                                   parsed back; -1 -1 if it does not have that form
     <<9, r>>                      get_char_error (get_char_error.hpp: "The next character in a stream.
                                   Returns the error message "EOF" on failure"): r >= 0 character, -1 failure
                                   with the message EOF, -3 failure with another message, -2 exception
     <<10, w, res, line, col>>     string(w).parse (basic_string_decl.hpp: "succeeds if the next input
                                   characters are c_1, ..., c_n. Otherwise, an error is returned"): how much
                                   input a FAILED string parser has consumed is not documented - the offset is
                                   unknown afterwards (until a position is restored); its message carries no
                                   location in the code and the documentation does not say: not judged.
   Stream kinds of a recorded history (field "kind"): 0 std::basic_istringstream, 1 std::basic_stringstream
   (in|out), 2 a stream buffer that cannot seek (tellg fails: get_position / the location of a mismatch may
   throw - basic_stream does not say; only the characters are judged), 3 a stream buffer that throws when the
   character at offset n ("failat") is requested: the std stream turns bad there ("a failing underlying
   stream yields a failure, never a character"). *)
EXTENDS Naturals, Integers, Sequences, FiniteSets, TLC, Json, TextPos

CONSTANTS Sym,      \* alphabet (code points) used by the model checker
          MaxLen,   \* texts up to this length are explored
          MaxOps,   \* bound on the length of explored operation sequences
          WithFailAt \* explore underlying streams that fail at some offset as well

(* NL, Line(text, off), Col(text, off): the documented definition, computed from scratch - module TextPos *)
Position(text, off) == [off |-> off, line |-> Line(text, off), col |-> Col(text, off)]

AtEnd(text, off) == off = Len(text)

(* ---- what the specification decides for each call
        (s = [off, bad, failat, ...]; failat = -1: the underlying stream never fails by itself) ---- *)

(* the underlying stream fails when the next character is requested *)
Hits(s) == ~s.bad /\ s.off = s.failat

(* get_char *)
ModelGetChar(text, s) ==
  IF s.bad THEN -2 ELSE IF Hits(s) \/ AtEnd(text, s.off) THEN -1 ELSE text[s.off + 1]
ExplainsGetChar(text, s, r) ==
  IF s.bad \/ Hits(s) THEN r \in {-1, -2}     \* a failure, never a character
  ELSE r = ModelGetChar(text, s)                \* nothing exactly at the end, else a_{i+1}
OffAfterGetChar(text, s, r) == IF r >= 0 THEN s.off + 1 ELSE s.off
(* a request that hits the failing offset leaves the stream bad *)
BadAfterRead(s) == s.bad \/ Hits(s)

(* get_position: on a healthy stream it never fails (also at the end of input, also after a
   get_char that returned nothing) and returns the documented position *)
ExplainsGetPosition(text, s, ev) ==
  s.bad \/ (Len(ev) = 5 /\ [off |-> ev[3], line |-> ev[4], col |-> ev[5]] = Position(text, s.off))

(* set_position(p), p handed out earlier: never fails on a healthy stream *)
ExplainsSetPosition(s, ev) == s.bad \/ ev[3] = 0

(* one-character parsers: consume one character; result / reported location *)
ModelCharParser(text, s, accepts(_)) ==
  IF s.bad THEN [res |-> -2, line |-> 0, col |-> 0, ch |-> 0, off |-> s.off]
  ELSE IF Hits(s) \/ AtEnd(text, s.off) THEN [res |-> -1, line |-> 0, col |-> 0, ch |-> 0, off |-> s.off]
  ELSE LET c == text[s.off + 1] IN
       IF accepts(c) THEN [res |-> 1, line |-> 0, col |-> 0, ch |-> c, off |-> s.off + 1]
       ELSE [res |-> 0, line |-> Line(text, s.off + 1), col |-> Col(text, s.off + 1), ch |-> 0,
             off |-> s.off + 1]

(* res/line/col/ch as logged; at the end of input there is no offending character: only
   "failure" is demanded, with or without a location *)
ExplainsCharParser(text, s, accepts(_), res, line, col, ch) ==
  LET m == ModelCharParser(text, s, accepts) IN
  IF s.bad \/ Hits(s) THEN res # 1
  ELSE IF AtEnd(text, s.off) THEN res \in {0, -1}
  ELSE IF m.res = 1 THEN res = 1 /\ ch = m.ch
  ELSE res = 0 /\ line = m.line /\ col = m.col

(* get_char_error: get_char with the failure turned into the error "EOF" *)
ModelGetCharError(text, s) == ModelGetChar(text, s)
ExplainsGetCharError(text, s, r) ==
  IF s.bad \/ Hits(s) THEN r \in {-1, -2, -3}
  ELSE r = ModelGetChar(text, s)                \* at the end: a failure whose message is EOF

(* equality of two handed-out positions of one stream: equal iff they denote the same offset *)
ModelPosEq(o1, o2) == IF o1 = o2 THEN 1 ELSE 0

(* string(w): success iff the next characters are w *)
StringMatches(text, s, w) ==
  ~s.bad /\ s.off + Len(w) <= Len(text) /\ SubSeq(text, s.off + 1, s.off + Len(w)) = w
  /\ (s.failat < 0 \/ s.failat >= s.off + Len(w))

InSeq(c, cs) == \E k \in 1..Len(cs) : cs[k] = c

-----------------------------------------------------------------------------
(* The abstract state machine (all texts <= MaxLen over Sym, all call sequences). *)
VARIABLES text,   \* the input, fixed per behaviour
          st,     \* [off, bad, saved]; saved = set of offsets whose position was handed out
          hist    \* calls so far (hidden by the VIEW): script emission
avars == <<text, st, hist>>

Texts == UNION {[1..k -> Sym] : k \in 0..MaxLen}

LitChars == {97}                 \* literal('a'): both outcomes occur over the alphabet
CSets == {<<10, 9>>}             \* char_set{'\n','\t'}: both outcomes occur

AInit ==
  /\ text \in Texts
  /\ \E fa \in (IF WithFailAt THEN -1..Len(text) ELSE {-1}) :
       st = [off |-> 0, bad |-> FALSE, saved |-> {}, failat |-> fa]
  /\ hist = <<>>

(* calls: <<1>>, <<2>>, <<3, off>>, <<4>>, <<5, c>>, <<6, cs>>, <<9>> *)
Calls(s) ==
  {<<1>>, <<2>>} \cup (IF WithFailAt THEN {<<9>>} ELSE {})   \* get_char_error only in the extension configurations
  \cup {<<3, o>> : o \in s.saved} \cup (IF s.bad THEN {} ELSE {<<4>>})
  \cup {<<5, c>> : c \in LitChars} \cup {<<6, cs>> : cs \in CSets}

(* the abstract effect of a call: new state and the history entry (the model resolves the
   open choices on a bad stream to "exception, nothing changes") *)
AEff(t, s, c) ==
  CASE c[1] \in {1, 9} ->
                   LET r == ModelGetChar(t, s) IN
                   [st |-> [s EXCEPT !.off = OffAfterGetChar(t, s, r), !.bad = BadAfterRead(s)], ev |-> <<c[1], r>>]
    [] c[1] = 2 -> IF s.bad THEN [st |-> s, ev |-> <<2, -2>>]
                   ELSE LET p == Position(t, s.off) IN
                        [st |-> [s EXCEPT !.saved = @ \cup {s.off}], ev |-> <<2, 0, p.off, p.line, p.col>>]
    [] c[1] = 3 -> IF s.bad THEN [st |-> s, ev |-> <<3, c[2], -2>>]
                   ELSE [st |-> [s EXCEPT !.off = c[2]], ev |-> <<3, c[2], 0>>]
    [] c[1] = 4 -> [st |-> [s EXCEPT !.bad = TRUE], ev |-> <<4>>]
    [] c[1] = 5 -> LET m == ModelCharParser(t, s, LAMBDA x : x = c[2]) IN
                   [st |-> [s EXCEPT !.off = m.off, !.bad = BadAfterRead(s)], ev |-> <<5, c[2], m.res, m.line, m.col>>]
    [] c[1] = 6 -> LET m == ModelCharParser(t, s, LAMBDA x : InSeq(x, c[2])) IN
                   [st |-> [s EXCEPT !.off = m.off, !.bad = BadAfterRead(s)], ev |-> <<6, c[2], m.res, m.line, m.col, m.ch>>]

AStep(c) ==
  /\ Len(hist) < MaxOps
  /\ LET e == AEff(text, st, c) IN
     /\ st' = e.st
     /\ hist' = Append(hist, e.ev)
  /\ UNCHANGED text

AGetChar == Len(hist) >= 0 /\ AStep(<<1>>)
AGetPosition == Len(hist) >= 0 /\ AStep(<<2>>)
AGetCharError == WithFailAt /\ AStep(<<9>>)   \* only in the extension configurations
ASetPosition == \E o \in st.saved : AStep(<<3, o>>)
ASetBad == ~st.bad /\ AStep(<<4>>)
ALiteral == Len(hist) >= 0 /\ \E c \in LitChars : AStep(<<5, c>>)
ACharSet == Len(hist) >= 0 /\ \E cs \in CSets : AStep(<<6, cs>>)
ANext == AGetChar \/ AGetCharError \/ AGetPosition \/ ASetPosition \/ ASetBad \/ ALiteral \/ ACharSet
ASpec == AInit /\ [][ANext]_avars
AView == <<text, st>>
AViewDepth == <<text, st, Len(hist)>>

-----------------------------------------------------------------------------
(* Theorems of the model. *)
ATypeOK ==
  /\ st.off \in 0..Len(text)
  /\ st.saved \subseteq 0..Len(text)
  /\ st.bad \in BOOLEAN
  /\ st.failat \in -1..Len(text)
  \* no character at or beyond the failing offset is ever consumed
  /\ st.failat >= 0 => st.off <= st.failat

(* the from-scratch definition has the incremental characterisation every implementation
   relies on; line and column are at least 1; the start is 1:1 *)
PosLaws ==
  /\ Position(text, 0) = [off |-> 0, line |-> 1, col |-> 1]
  /\ \A o \in 0..Len(text) :
       /\ Line(text, o) >= 1 /\ Col(text, o) >= 1 /\ Col(text, o) <= o + 1
       /\ Line(text, o) <= o + 1
       /\ o < Len(text) =>
            IF text[o + 1] = NL
            THEN Line(text, o + 1) = Line(text, o) + 1 /\ Col(text, o + 1) = 1
            ELSE Line(text, o + 1) = Line(text, o) /\ Col(text, o + 1) = Col(text, o) + 1

(* whatever the model emits is accepted by the judge's predicates (model and judge agree) *)
ModelExplained ==
  LET s == st IN
  /\ ExplainsGetChar(text, s, ModelGetChar(text, s))
  /\ ExplainsGetCharError(text, s, ModelGetCharError(text, s))
  /\ ExplainsGetPosition(text, s, AEff(text, s, <<2>>).ev)
  /\ \A c \in LitChars :
       LET m == ModelCharParser(text, s, LAMBDA x : x = c) IN
       ExplainsCharParser(text, s, LAMBDA x : x = c, m.res, m.line, m.col, m.ch)

(* rewinding: the observable future (characters up to the end, and the position after each)
   is a function of the offset, so it is the same whenever the same offset is restored *)
Future(t, o) == [k \in 0..(Len(t) - o) |->
                   [pos |-> Position(t, o + k), ch |-> IF o + k < Len(t) THEN t[o + k + 1] ELSE -1]]
(* positions handed out are consistent with the text (the documented precondition of
   set_position) and stay so *)
SavedValid == \A o \in st.saved : o \in 0..Len(text) /\ Future(text, o)[0].pos = Position(text, o)

(* two handed-out positions are equal exactly when they denote the same offset (what operator==
   of positions decides: offset and location) *)
EqLaw == \A o1 \in st.saved : \A o2 \in st.saved : (Position(text, o1) = Position(text, o2)) = (ModelPosEq(o1, o2) = 1)

EmitScripts == PrintT("SCRIPT " \o ToJson([text |-> text, failat |-> st.failat, hist |-> hist]))
=============================================================================
