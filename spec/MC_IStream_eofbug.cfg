SPECIFICATION ISpec
CONSTANTS
  Sym = {97, 10, 32, 9}
  MaxLen = 3
  MaxOps = 8
  ColBug = FALSE
  SetPosBug = FALSE
  EofBug = TRUE
VIEW IViewDepth
INVARIANTS ReturnsAgree
CHECK_DEADLOCK FALSE
