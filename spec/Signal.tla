----------------------------- MODULE Signal -----------------------------
(* Abstract specification of fcppt::signal::object (property C11, second sentence).

   A signal owns an intrusive list of connections (fcppt::signal::base::connections_), so
   its state IS a Membership state: list slots are signal slots, element slots are
   connection slots.
     sig_ctor / sig_move_ctor / sig_move_assign / sig_dtor   = the list operations
     connect(e, l)      appends connection e to signal l       = elem_ctor
     disconnect(e)      the connection object dies             = elem_dtor
   (connections are neither movable nor unlinkable through the public API).

   Calling signal l with (init, arg) invokes exactly the connections in member[l], once
   each, in that order, each with arg, and returns the LEFT fold of the combiner over
   their results starting from init.  Callbacks and combiner are the caller's functions:
   the specification treats them as uninterpreted - a recorded call is judged from the
   logged (arguments, result) of every callback and combiner invocation (CallReasons).
   With the unregister flavour (fcppt::signal::unregister::base) the death of a
   connection runs its unregister callback exactly once; no other operation runs one.

   Beyond the statement (permissive): what a moved-from signal's combiner does is
   unspecified, so a signal with a result type is only called while it "has a combiner"
   (constructed, or taken over from one that had it): CallPre is a precondition of the
   drivers, tracked in sx.comb.  The order between callback and combiner invocations is
   not constrained, only each of the two sequences. *)
EXTENDS Membership

CONSTANTS SigBug,  \* "none"; other values break the model (vacuity guards of the laws below)
          NB       \* number of connection-container slots

Boxes == 1..NB

(* Who owns a connection.  connect() "returns an fcppt::signal::auto_connection, which is a
   unique pointer to a connection"; "The callback function is disconnected from the signal when
   the connection object dies" (signal.doxygen).  The connection object is not movable
   (FCPPT_NONMOVABLE(connection)), its owner is: an auto_connection can be move-constructed and
   move-assigned (fcppt::unique_ptr), put into an fcppt::signal::auto_connection_container
   (a std::vector of auto_connection: examples/signal/connection.cpp "pass a container of
   connections") or into an fcppt::signal::optional_auto_connection.  Connection ids (Elems) name
   connection objects; holder slots (also indexed by Elems) and containers (Boxes) own them:
     connect(x, l)       creates connection x, owned by holder x
     disconnect(x)       holder x drops its connection: it dies
     hold_move(x, x2)    empty holder x is move-constructed from holder x2: nothing dies, nothing
                         is called; membership of every signal is unchanged
     hold_assign(x, x2)  holder x = std::move(holder x2): the connection x owned dies
     box_ctor(b) / box_push(b, x) / box_dtor(b): a container takes over holder x's connection;
                         when the container dies all its connections die together (the order in
                         which a std::vector destroys its elements is not specified: the
                         unregister callbacks are compared as a multiset). *)
SigOps == {"sig_ctor", "sig_move_ctor", "sig_move_assign", "sig_dtor", "connect", "disconnect",
           "hold_move", "hold_assign", "box_ctor", "box_push", "box_dtor"}

ToList(a) ==
  [a EXCEPT !.op = CASE a.op = "sig_ctor" -> "list_ctor"
                     [] a.op = "sig_move_ctor" -> "list_move_ctor"
                     [] a.op = "sig_move_assign" -> "list_move_assign"
                     [] a.op = "sig_dtor" -> "list_dtor"
                     [] a.op = "connect" -> "elem_ctor"
                     [] OTHER -> "none"]

(* sx.comb[l]: signal l has a usable combiner; sx.unreg[e]: how often the unregister callback
   of connection e has run since it was connected; sx.hold[h]: the connection holder h owns
   (0 = none); sx.box[b]: the connections container b owns, sx.blive[b]: the container exists *)
EmptyX == [comb |-> [L \in Lists |-> FALSE], unreg |-> [e \in Elems |-> 0],
           hold |-> [h \in Elems |-> 0], box |-> [b \in Boxes |-> <<>>],
           blive |-> [b \in Boxes |-> FALSE]]

(* the connections that die in an operation *)
Dying(x, a) ==
  CASE a.op \in {"disconnect", "hold_assign"} -> <<x.hold[a.x]>>
    [] a.op = "box_dtor" ->
         IF SigBug = "box_dtor_first_only" /\ x.box[a.b] # <<>> THEN <<x.box[a.b][1]>> ELSE x.box[a.b]
    [] OTHER -> <<>>

SPre(m, x, a) ==
  LET full(h) == h \in Elems /\ x.hold[h] # 0
      free(h) == h \in Elems /\ x.hold[h] = 0
  IN CASE a.op \in {"sig_ctor", "sig_move_ctor", "sig_move_assign", "sig_dtor"} -> Pre(m, ToList(a))
       [] a.op = "connect" -> free(a.x) /\ ~m.elive[a.x] /\ a.l \in Lists /\ m.llive[a.l]
       [] a.op = "disconnect" -> full(a.x)
       [] a.op = "hold_move" -> free(a.x) /\ full(a.x2)
       [] a.op = "hold_assign" -> full(a.x) /\ full(a.x2) /\ a.x # a.x2
       [] a.op = "box_ctor" -> a.b \in Boxes /\ ~x.blive[a.b]
       [] a.op = "box_push" -> a.b \in Boxes /\ x.blive[a.b] /\ full(a.x)
       [] a.op = "box_dtor" -> a.b \in Boxes /\ x.blive[a.b]
       [] OTHER -> FALSE

RECURSIVE KillAll(_, _)
KillAll(m, cs) ==
  IF cs = <<>> THEN m
  ELSE KillAll(Eff(m, [BaseOp EXCEPT !.op = "elem_dtor", !.x = Head(cs)]), Tail(cs))

SEff(m, x, a) ==
  IF a.op \in {"sig_ctor", "sig_move_ctor", "sig_move_assign", "sig_dtor", "connect"}
  THEN Eff(m, ToList(a))
  ELSE KillAll(m, Dying(x, a))

(* DYING-TIME VIEW.  "calling a signal invokes exactly the callbacks whose connection object is
   still alive ... and runs a connection's unregister callback exactly once when that connection
   dies": a connection that is being destroyed is not alive, and its unregister callback runs WHEN
   it dies - so what that callback sees of the signals is the state in which the dying connection
   is a member of no signal any more (and nothing else has changed).  signal.doxygen, section
   "Disconnect callbacks" ("when the last connection to a named signal dies, the signal should die
   with it") and examples/signal/unregister.cpp rely on exactly this: the unregister callback asks
   the signal whether it is empty().
   When several connections die in one operation (a container of connections) the order of the
   deaths is not specified, so only operations in which exactly one connection dies are judged. *)
JudgeDying(x, a) == Len(Dying(x, a)) = 1
DyingState(m, x, a) ==
  IF SigBug = "dying_still_member" THEN [m EXCEPT !.elive[Dying(x, a)[1]] = FALSE]
  ELSE KillAll(m, Dying(x, a))

(* the unregister callbacks an operation runs (unr: unregister flavour) *)
UnregLog(x, a, unr) ==
  IF unr THEN (IF SigBug = "unreg_twice" THEN Dying(x, a) \o Dying(x, a) ELSE Dying(x, a)) ELSE <<>>

Count(q, e) == Cardinality({i \in DOMAIN q : q[i] = e})

XEff(x, a, unr) ==
  LET c == x.comb
      ul == UnregLog(x, a, unr)
      c2 == CASE a.op = "sig_ctor" -> [c EXCEPT ![a.l] = TRUE]
              [] a.op \in {"sig_move_ctor", "sig_move_assign"} -> [c EXCEPT ![a.l] = c[a.l2], ![a.l2] = FALSE]
              [] a.op = "sig_dtor" -> [c EXCEPT ![a.l] = FALSE]
              [] OTHER -> c
      u2 == IF a.op = "connect" THEN [x.unreg EXCEPT ![a.x] = 0]
            ELSE [e \in Elems |-> x.unreg[e] + Count(ul, e)]
      h == x.hold
      h2 == CASE a.op = "connect" -> [h EXCEPT ![a.x] = a.x]
              [] a.op \in {"disconnect", "box_push"} -> [h EXCEPT ![a.x] = 0]
              [] a.op \in {"hold_move", "hold_assign"} ->
                   IF SigBug = "hold_move_copies" THEN [h EXCEPT ![a.x] = h[a.x2]]
                   ELSE [h EXCEPT ![a.x] = h[a.x2], ![a.x2] = 0]
              [] OTHER -> h
      b2 == CASE a.op = "box_push" -> [x.box EXCEPT ![a.b] = Append(@, h[a.x])]
              [] a.op \in {"box_ctor", "box_dtor"} -> [x.box EXCEPT ![a.b] = <<>>]
              [] OTHER -> x.box
      l2 == CASE a.op = "box_ctor" -> [x.blive EXCEPT ![a.b] = TRUE]
              [] a.op = "box_dtor" -> [x.blive EXCEPT ![a.b] = FALSE]
              [] OTHER -> x.blive
  IN [comb |-> c2, unreg |-> u2, hold |-> h2, box |-> b2, blive |-> l2]

(* res: the signal has a result type (and therefore a combiner) *)
CallPre(m, x, L, res) == L \in Lists /\ m.llive[L] /\ (res => x.comb[L])

-----------------------------------------------------------------------------
(* Judging one recorded call.  c = [init, args, ret, over, threw, cbs, combs] with args = the
   0, 1 or 2 arguments of the call,
   cbs = sequence of [c |-> connection, args |-> arguments seen, r |-> result],
   combs = sequence of [a, b, r] (combiner invocations), over = the driver stopped a
   call that invoked more callbacks than there are connection slots, threw = the call ended
   with an exception (no callback of the driver throws one). *)
HasDup(s) == \E i, j \in DOMAIN s : i # j /\ s[i] = s[j]

SeqReasons(tag, got, want) ==
  LET extra == Range(got) \ Range(want) # {}
      missing == Range(want) \ Range(got) # {}
      dup == HasDup(got)
  IN (IF extra THEN {tag \o "-extra"} ELSE {})
     \cup (IF missing THEN {tag \o "-missing"} ELSE {})
     \cup (IF dup THEN {tag \o "-twice"} ELSE {})
     \cup (IF ~extra /\ ~missing /\ ~dup /\ got # want THEN {tag \o "-order"} ELSE {})

FoldChainOK(c) ==
  LET n == Len(c.cbs) IN
  /\ Len(c.combs) = n
  /\ \A i \in 1..n : /\ c.combs[i].a = (IF i = 1 THEN c.init ELSE c.combs[i - 1].r)
                     /\ c.combs[i].b = c.cbs[i].r
  /\ c.ret = (IF n = 0 THEN c.init ELSE c.combs[n].r)

CallReasons(m, L, c, res) ==
  LET got == [i \in 1..Len(c.cbs) |-> c.cbs[i].c] IN
  SeqReasons("called", got, m.member[L])
  \cup (IF c.over THEN {"call-does-not-end"} ELSE {})
  \cup (IF c.threw THEN {"call-throws"} ELSE {})
  \cup (IF \A i \in DOMAIN c.cbs : c.cbs[i].args = c.args THEN {} ELSE {"callback-argument"})
  \cup (IF res /\ ~c.over /\ ~c.threw /\ ~FoldChainOK(c) THEN {"left-fold"} ELSE {})

(* the unregister callbacks an operation ran (got) against the connections that died in it, as
   multisets: "exactly once when that connection dies" *)
UnregReasons(x, a, unr, got) ==
  LET want == IF unr THEN Dying(x, a) ELSE <<>>
      es == Range(got) \cup Range(want)
  IN IF \A e \in es : Count(got, e) = Count(want, e) THEN {}
     ELSE IF \E e \in es : Count(got, e) < Count(want, e) THEN {"unregister-not-run"}
     ELSE IF Range(got) = Range(want) THEN {"unregister-run-twice"}
     ELSE {"unregister-of-other-connection"}

(* What the unregister callback of the (one) dying connection saw: views = one record per run of
   an unregister callback, [c |-> connection, sigs |-> what every signal slot showed (as in the
   observation after an operation)].  Reasons carry the prefix "dying-". *)
DyingReasons(m, x, a, unr, res, views) ==
  IF ~unr \/ ~JudgeDying(x, a) THEN {}
  ELSE LET c == Dying(x, a)[1]
           v == DyingState(m, x, a)
       IN UNION {
            UNION {
              LET r == views[i].sigs[L] IN
                (IF r.empty = IsEmpty(v, L) THEN {} ELSE {"dying-empty"})
                \cup (IF r.call.done THEN {"dying-" \o w : w \in CallReasons(v, L, r.call, res)} ELSE {})
              : L \in {K \in Lists : v.llive[K]}}
            : i \in {j \in DOMAIN views : views[j].c = c}}

-----------------------------------------------------------------------------
(* Model: all histories over small constants (unregister flavour, result type int), with
   model functions for callbacks and combiner to state the laws. *)
CbVal(e, arg) == 10 * e + arg
Comb(a, b) == 2 * a + b          \* neither commutative nor associative

RECURSIVE FoldLeft(_, _)
FoldLeft(acc, rs) == IF rs = <<>> THEN acc ELSE FoldLeft(Comb(acc, Head(rs)), Tail(rs))
RECURSIVE FoldRight(_, _)
FoldRight(acc, rs) == IF rs = <<>> THEN acc ELSE Comb(Head(rs), FoldRight(acc, Tail(rs)))
RECURSIVE Pow2(_)
Pow2(n) == IF n = 0 THEN 1 ELSE 2 * Pow2(n - 1)
RECURSIVE WeightedSum(_)
WeightedSum(rs) == IF rs = <<>> THEN 0 ELSE Pow2(Len(rs) - 1) * Head(rs) + WeightedSum(Tail(rs))

(* the call log the model produces *)
RECURSIVE CombChain(_, _)
CombChain(acc, rs) ==
  IF rs = <<>> THEN <<>>
  ELSE <<[a |-> acc, b |-> Head(rs), r |-> Comb(acc, Head(rs))]>> \o CombChain(Comb(acc, Head(rs)), Tail(rs))

ModelCall(m, L, init, arg) ==
  LET who == IF SigBug = "skip_first" /\ m.member[L] # <<>> THEN Tail(m.member[L]) ELSE m.member[L]
      rs == [i \in 1..Len(who) |-> CbVal(who[i], arg)]
  IN [init |-> init, args |-> <<arg>>, over |-> FALSE, threw |-> FALSE,
      cbs |-> [i \in 1..Len(who) |-> [c |-> who[i], args |-> <<arg>>, r |-> rs[i]]],
      combs |-> CombChain(init, rs),
      ret |-> IF SigBug = "fold_right" THEN FoldRight(init, rs) ELSE FoldLeft(init, rs)]

SigAllOps ==
  {[BaseOp EXCEPT !.op = o, !.l = L] : o \in {"sig_ctor", "sig_dtor"}, L \in Lists}
  \cup {[BaseOp EXCEPT !.op = o, !.l = L, !.l2 = M] :
          o \in {"sig_move_ctor", "sig_move_assign"}, L \in Lists, M \in Lists}
  \cup {[BaseOp EXCEPT !.op = "connect", !.x = x, !.l = L] : x \in Elems, L \in Lists}
  \cup {[BaseOp EXCEPT !.op = "disconnect", !.x = x] : x \in Elems}
  \cup {[BaseOp EXCEPT !.op = o, !.x = x, !.x2 = y] : o \in {"hold_move", "hold_assign"}, x \in Elems, y \in Elems}
  \cup {[BaseOp EXCEPT !.op = o, !.b = b] : o \in {"box_ctor", "box_dtor"}, b \in Boxes}
  \cup {[BaseOp EXCEPT !.op = "box_push", !.b = b, !.x = x] : b \in Boxes, x \in Elems}

VARIABLES sx, ever
svars == <<st, hist, sx, ever>>

SInit == Init /\ sx = EmptyX /\ ever = [e \in Elems |-> FALSE]

SNext == \E a \in SigAllOps :
           /\ SPre(st, sx, a)
           /\ st' = SEff(st, sx, a)
           /\ sx' = XEff(sx, a, TRUE)
           /\ ever' = IF a.op = "connect" THEN [ever EXCEPT ![a.x] = TRUE] ELSE ever
           /\ hist' = Append(hist, a)

SSpec == SInit /\ [][SNext]_svars
SView == <<st, sx, ever>>

(* Laws *)
(* a live connection's unregister callback has not run; a dead one's ran exactly once *)
LawUnregisterOnce ==
  \A e \in Elems : IF st.elive[e] THEN sx.unreg[e] = 0 ELSE (ever[e] => sx.unreg[e] = 1)
(* a connection is alive exactly while some holder or container owns it, and it has one owner;
   a container that does not exist owns nothing *)
Owned == [e \in Elems |-> Cardinality({h \in Elems : sx.hold[h] = e})
                            + Cardinality({<<b, i>> \in Boxes \X (1..NE) : i <= Len(sx.box[b]) /\ sx.box[b][i] = e})]
LawOwnership ==
  /\ \A e \in Elems : Owned[e] = (IF st.elive[e] THEN 1 ELSE 0)
  /\ \A b \in Boxes : ~sx.blive[b] => sx.box[b] = <<>>
(* every live connection is called by at most one signal, dead ones by none *)
LawCalledAreLive == MembersAlive(st) /\ NoDup(st)
(* what the model's call produces is accepted by the judge, and its result is the LEFT fold:
   with Comb(a,b) = 2a+b the left fold is 2^n init + sum 2^(n-i) r_i *)
LawCallExplained ==
  \A L \in Lists : CallPre(st, sx, L, TRUE) =>
    \A arg \in 0..1 :
      LET c == ModelCall(st, L, 1, arg)
          rs == [i \in 1..Len(c.cbs) |-> c.cbs[i].r]
      IN /\ CallReasons(st, L, c, TRUE) = {}
         /\ c.ret = Pow2(Len(rs)) * 1 + WeightedSum(rs)
(* while a connection dies it is a member of no signal, is not called by any, and everything
   else is as before; the model's own call in that state is accepted by the judge of the view *)
LawDyingView ==
  \A a \in {b \in SigAllOps : SPre(st, sx, b) /\ JudgeDying(sx, b)} :
    LET c == Dying(sx, a)[1]
        v == DyingState(st, sx, a)
        view(w) == [c |-> c, sigs |-> [L \in Lists |->
                      [live |-> w.llive[L], empty |-> IsEmpty(w, L),
                       call |-> ModelCall(w, L, 1, 0) @@ [done |-> CallPre(w, sx, L, TRUE)]]]]
    IN /\ st.elive[c] /\ ~v.elive[c]
       /\ v.llive = st.llive
       /\ \A L \in Lists : v.member[L] = Without(st.member[L], c)
       /\ DyingReasons(st, sx, a, TRUE, TRUE, <<view(KillAll(st, <<c>>))>>) = {}
       \* the judge of the view can tell: the view BEFORE the death is rejected when c was a member
       \* of a callable signal
       /\ (ListOf(st, c) # 0 /\ CallPre(st, sx, ListOf(st, c), TRUE) => DyingReasons(st, sx, a, TRUE, TRUE, <<view(st)>>) # {})
(* ACTION_CONSTRAINT of the script-emission config that generates only histories of the
   operations the statement of C11 names (no moves of owners, no containers) *)
InScopeStep == hist' = hist \/ hist'[Len(hist')].op \in {"sig_ctor", "sig_move_ctor", "sig_move_assign", "sig_dtor", "connect", "disconnect"}

SEmit == PrintT("SCRIPT " \o ToJson(hist))
=============================================================================
