----------------------------- MODULE Signal -----------------------------
(* Abstract specification of fcppt::signal::object (property C11, second sentence).

   A signal owns an intrusive list of connections (fcppt::signal::base::connections_), so
   its state IS a Membership state: list slots are signal slots, element slots are
   connection slots.
     sig_ctor / sig_move_ctor / sig_move_assign / sig_dtor   = the list operations
     connect(e, l)      appends connection e to signal l       = elem_ctor
     disconnect(e)      the connection object dies             = elem_dtor
   (connections are neither movable nor unlinkable through the public API).

   Calling signal l with (init, arg) invokes exactly the connections in member[l], once
   each, in that order, each with arg, and returns the LEFT fold of the combiner over
   their results starting from init.  Callbacks and combiner are the caller's functions:
   the specification treats them as uninterpreted - a recorded call is judged from the
   logged (arguments, result) of every callback and combiner invocation (CallReasons).
   With the unregister flavour (fcppt::signal::unregister::base) the death of a
   connection runs its unregister callback exactly once; no other operation runs one.

   Beyond the statement (permissive): what a moved-from signal's combiner does is
   unspecified, so a signal with a result type is only called while it "has a combiner"
   (constructed, or taken over from one that had it): CallPre is a precondition of the
   drivers, tracked in sx.comb.  The order between callback and combiner invocations is
   not constrained, only each of the two sequences. *)
EXTENDS Membership

CONSTANTS SigBug   \* "none"; other values break the model (vacuity guards of the laws below)

SigOps == {"sig_ctor", "sig_move_ctor", "sig_move_assign", "sig_dtor", "connect", "disconnect"}

ToList(a) ==
  [a EXCEPT !.op = CASE a.op = "sig_ctor" -> "list_ctor"
                     [] a.op = "sig_move_ctor" -> "list_move_ctor"
                     [] a.op = "sig_move_assign" -> "list_move_assign"
                     [] a.op = "sig_dtor" -> "list_dtor"
                     [] a.op = "connect" -> "elem_ctor"
                     [] a.op = "disconnect" -> "elem_dtor"
                     [] OTHER -> "none"]

(* sx.comb[l]: signal l has a usable combiner; sx.unreg[e]: how often the unregister
   callback of the connection in slot e has run since it was connected *)
EmptyX == [comb |-> [L \in Lists |-> FALSE], unreg |-> [e \in Elems |-> 0]]

SPre(m, a) == a.op \in SigOps /\ Pre(m, ToList(a))
SEff(m, a) == Eff(m, ToList(a))

(* the unregister callbacks an operation runs, in order (unr: unregister flavour) *)
UnregLog(a, unr) ==
  IF a.op = "disconnect" /\ unr
  THEN (IF SigBug = "unreg_twice" THEN <<a.x, a.x>> ELSE <<a.x>>)
  ELSE <<>>

XEff(x, a, unr) ==
  LET c == x.comb
      ul == UnregLog(a, unr)
      cnt(e) == Cardinality({i \in DOMAIN ul : ul[i] = e})
      c2 == CASE a.op = "sig_ctor" -> [c EXCEPT ![a.l] = TRUE]
              [] a.op \in {"sig_move_ctor", "sig_move_assign"} -> [c EXCEPT ![a.l] = c[a.l2], ![a.l2] = FALSE]
              [] a.op = "sig_dtor" -> [c EXCEPT ![a.l] = FALSE]
              [] OTHER -> c
      u2 == IF a.op = "connect" THEN [x.unreg EXCEPT ![a.x] = 0]
            ELSE [e \in Elems |-> x.unreg[e] + cnt(e)]
  IN [comb |-> c2, unreg |-> u2]

(* res: the signal has a result type (and therefore a combiner) *)
CallPre(m, x, L, res) == L \in Lists /\ m.llive[L] /\ (res => x.comb[L])

-----------------------------------------------------------------------------
(* Judging one recorded call.  c = [init, arg, ret, over, threw, cbs, combs] with
   cbs = sequence of [c |-> connection slot, arg |-> argument seen, r |-> result],
   combs = sequence of [a, b, r] (combiner invocations), over = the driver stopped a
   call that invoked more callbacks than there are connection slots, threw = the call ended
   with an exception (no callback of the driver throws one). *)
HasDup(s) == \E i, j \in DOMAIN s : i # j /\ s[i] = s[j]

SeqReasons(tag, got, want) ==
  LET extra == Range(got) \ Range(want) # {}
      missing == Range(want) \ Range(got) # {}
      dup == HasDup(got)
  IN (IF extra THEN {tag \o "-extra"} ELSE {})
     \cup (IF missing THEN {tag \o "-missing"} ELSE {})
     \cup (IF dup THEN {tag \o "-twice"} ELSE {})
     \cup (IF ~extra /\ ~missing /\ ~dup /\ got # want THEN {tag \o "-order"} ELSE {})

FoldChainOK(c) ==
  LET n == Len(c.cbs) IN
  /\ Len(c.combs) = n
  /\ \A i \in 1..n : /\ c.combs[i].a = (IF i = 1 THEN c.init ELSE c.combs[i - 1].r)
                     /\ c.combs[i].b = c.cbs[i].r
  /\ c.ret = (IF n = 0 THEN c.init ELSE c.combs[n].r)

CallReasons(m, L, c, res) ==
  LET got == [i \in 1..Len(c.cbs) |-> c.cbs[i].c] IN
  SeqReasons("called", got, m.member[L])
  \cup (IF c.over THEN {"call-does-not-end"} ELSE {})
  \cup (IF c.threw THEN {"call-throws"} ELSE {})
  \cup (IF \A i \in DOMAIN c.cbs : c.cbs[i].arg = c.arg THEN {} ELSE {"callback-argument"})
  \cup (IF res /\ ~c.over /\ ~c.threw /\ ~FoldChainOK(c) THEN {"left-fold"} ELSE {})

UnregReasons(a, unr, got) ==
  LET want == IF a.op = "disconnect" /\ unr THEN <<a.x>> ELSE <<>> IN
  IF got = want THEN {}
  ELSE IF want # <<>> /\ got = <<>> THEN {"unregister-not-run"}
  ELSE IF want # <<>> /\ Range(got) = Range(want) THEN {"unregister-run-twice"}
  ELSE {"unregister-of-other-connection"}

-----------------------------------------------------------------------------
(* Model: all histories over small constants (unregister flavour, result type int), with
   model functions for callbacks and combiner to state the laws. *)
CbVal(e, arg) == 10 * e + arg
Comb(a, b) == 2 * a + b          \* neither commutative nor associative

RECURSIVE FoldLeft(_, _)
FoldLeft(acc, rs) == IF rs = <<>> THEN acc ELSE FoldLeft(Comb(acc, Head(rs)), Tail(rs))
RECURSIVE FoldRight(_, _)
FoldRight(acc, rs) == IF rs = <<>> THEN acc ELSE Comb(Head(rs), FoldRight(acc, Tail(rs)))
RECURSIVE Pow2(_)
Pow2(n) == IF n = 0 THEN 1 ELSE 2 * Pow2(n - 1)
RECURSIVE WeightedSum(_)
WeightedSum(rs) == IF rs = <<>> THEN 0 ELSE Pow2(Len(rs) - 1) * Head(rs) + WeightedSum(Tail(rs))

(* the call log the model produces *)
RECURSIVE CombChain(_, _)
CombChain(acc, rs) ==
  IF rs = <<>> THEN <<>>
  ELSE <<[a |-> acc, b |-> Head(rs), r |-> Comb(acc, Head(rs))]>> \o CombChain(Comb(acc, Head(rs)), Tail(rs))

ModelCall(m, L, init, arg) ==
  LET who == IF SigBug = "skip_first" /\ m.member[L] # <<>> THEN Tail(m.member[L]) ELSE m.member[L]
      rs == [i \in 1..Len(who) |-> CbVal(who[i], arg)]
  IN [init |-> init, arg |-> arg, over |-> FALSE, threw |-> FALSE,
      cbs |-> [i \in 1..Len(who) |-> [c |-> who[i], arg |-> arg, r |-> rs[i]]],
      combs |-> CombChain(init, rs),
      ret |-> IF SigBug = "fold_right" THEN FoldRight(init, rs) ELSE FoldLeft(init, rs)]

SigAllOps ==
  {[BaseOp EXCEPT !.op = o, !.l = L] : o \in {"sig_ctor", "sig_dtor"}, L \in Lists}
  \cup {[BaseOp EXCEPT !.op = o, !.l = L, !.l2 = M] :
          o \in {"sig_move_ctor", "sig_move_assign"}, L \in Lists, M \in Lists}
  \cup {[BaseOp EXCEPT !.op = "connect", !.x = x, !.l = L] : x \in Elems, L \in Lists}
  \cup {[BaseOp EXCEPT !.op = "disconnect", !.x = x] : x \in Elems}

VARIABLES sx, ever
svars == <<st, hist, sx, ever>>

SInit == Init /\ sx = EmptyX /\ ever = [e \in Elems |-> FALSE]

SNext == \E a \in SigAllOps :
           /\ SPre(st, a)
           /\ st' = SEff(st, a)
           /\ sx' = XEff(sx, a, TRUE)
           /\ ever' = IF a.op = "connect" THEN [ever EXCEPT ![a.x] = TRUE] ELSE ever
           /\ hist' = Append(hist, a)

SSpec == SInit /\ [][SNext]_svars
SView == <<st, sx, ever>>

(* Laws *)
(* a live connection's unregister callback has not run; a dead one's ran exactly once *)
LawUnregisterOnce ==
  \A e \in Elems : IF st.elive[e] THEN sx.unreg[e] = 0 ELSE (ever[e] => sx.unreg[e] = 1)
(* every live connection is called by at most one signal, dead ones by none *)
LawCalledAreLive == MembersAlive(st) /\ NoDup(st)
(* what the model's call produces is accepted by the judge, and its result is the LEFT fold:
   with Comb(a,b) = 2a+b the left fold is 2^n init + sum 2^(n-i) r_i *)
LawCallExplained ==
  \A L \in Lists : CallPre(st, sx, L, TRUE) =>
    \A arg \in 0..1 :
      LET c == ModelCall(st, L, 1, arg)
          rs == [i \in 1..Len(c.cbs) |-> c.cbs[i].r]
      IN /\ CallReasons(st, L, c, TRUE) = {}
         /\ c.ret = Pow2(Len(rs)) * 1 + WeightedSum(rs)
SEmit == PrintT("SCRIPT " \o ToJson(hist))
=============================================================================
