SPECIFICATION Spec
CONSTANTS
  MaxLen = 4
  MaxLenCheap = 4
  InitAll = TRUE
  BugNextArgNoSkip = FALSE
  BugUseFlagAll = FALSE
  BugOptionalOrigState = FALSE
VIEW View
INVARIANTS TypeOK FamilyTerminates ConsumedExactlyOnce OptionValueNotPositional FlagNeverFails HelpLaw SuccessLeavesNothing
CHECK_DEADLOCK FALSE
