SPECIFICATION Spec
CONSTANTS
  MaxLen = 4
  MaxLenCheap = 4
  KindLen = 3
  InitAll = TRUE
  BugNextArgNoSkip = FALSE
  BugUseFlagAll = FALSE
  BugOptionalOrigState = FALSE
  BugNames = "none"
  BugMissingIsOther = FALSE
  BugUsage = "none"
VIEW View
INVARIANTS TypeOK FamilyTerminates ConsumedExactlyOnce OptionValueNotPositional FlagNeverFails HelpLaw SuccessLeavesNothing ErrorKindLaw UsageModelOK
CHECK_DEADLOCK FALSE
