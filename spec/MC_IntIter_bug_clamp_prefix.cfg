SPECIFICATION Spec
CONSTANTS
  T = "u8"
  Dom <- DomEdgeT
  ClampBug = TRUE
  SizeBug = FALSE
INVARIANTS Prefix
