SPECIFICATION Spec
CONSTANTS
  T = "u8"
  Dom <- DomEdgeT
  ClampBug = TRUE
  SizeBug = FALSE
  DefBug = FALSE
INVARIANTS Prefix
