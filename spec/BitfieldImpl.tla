---------------------------- MODULE BitfieldImpl ----------------------------
(* Word-level model of fcppt::container::bitfield::object, transcribed from

     array_fwd.hpp      NW = ceil_div(N, digits(Word)) storage words
     proxy_impl.hpp     array_offset = pos / W, bit_offset = pos % W,
                        bit_mask = 1 << bit_offset; assign = |= mask or &= ~mask;
                        conversion to bool = word & mask
     operators.hpp      |=, &=, ^= : std::transform over the words; ~ : every word
                        complemented, then the padding of the last word cleared
     comparison.hpp     == compares the word arrays
     hash_impl.hpp      range hash over the word array (a function of the words)
     is_subset_eq.hpp   (left & right) == left

   A storage word is modelled as the set of its one-bits (a subset of 0..W-1), so
   64-bit words need no wide integers.  Bits of the last word at positions
   NW*W-1 .. N are *padding*: no enumerator names them, but == and the hash read
   them.

   The module runs in lock-step with the register machine of Bitfield.tla (x, y
   abstract; ix, iy words) and TLC checks in every reachable state

     Refines               Abs(ix) = x, Abs(iy) = y   (every operator commutes with Abs)
     EqualSetsEqualWords   x = y  =>  ix == iy  and  hash(ix) = hash(iy)
     ObserversAgree        get / == / != / is_subset_eq computed on words agree
                           with membership / set equality / inclusion
     NoPadding             representation invariant: padding bits are zero

   Bug re-introduces one defect into the transcription (vacuity guards; the check
   demands that TLC finds a counterexample for each):
     "not_padding"   operator~ complements whole words (the code as it was before
                     "fix: bitfield operator~ leaves the padding bits of the last
                     word cleared"): ~null has padding bits set and differs (==,
                     hash, is_subset_eq) from the same set built with set()
     "xor_as_or"     ^= implemented as |=
     "offset_div"    bit_offset computed with / instead of %
     "subset_right"  is_subset_eq compares (l & r) with r
     "proxy_rebind"  proxy::operator=(proxy const &) / (proxy &&) defaulted (the code as
                     it was before "fix: bitfield proxy assignment assigns the referenced
                     bit", 506c999): x[i] = x[j] re-seats the temporary proxy and leaves
                     bit i alone; x[i] = x[j] = b only sets bit j
     "mask_shift32"  bit_mask computed with a 32-bit shift (static_cast<Word>(1U << bit) in
                     shifted_mask / power_of_2): on the usual hardware the shift count is taken
                     modulo 32, so enumerator 32 + k of a 64-bit word lands on bit k.  Invisible
                     unless some enumerator has a bit offset >= 32, i.e. N > 32 and W = 64 *)
EXTENDS Bitfield, Json

CONSTANTS W,      \* bits per storage word (std::numeric_limits<Word>::digits)
          Bug,    \* "none" or one of the defects listed above
          FullOps \* TRUE: every operation record of Bitfield!Ops; FALSE: CoreOps

VARIABLES x, y,     \* abstract registers (sets of enumerators)
          ix, iy,   \* their storage words
          hist      \* operations applied so far (hidden by VIEW; for script emission)
ivars == <<x, y, hist, ix, iy>>

NW == (N + W - 1) \div W                \* fcppt::math::ceil_div_static
WordIdx == 0..(NW - 1)
BitPos == 0..(W - 1)
FullWord == BitPos

ArrayOffset(pos) == pos \div W
BitOffset(pos) == IF Bug = "offset_div" THEN pos \div W ELSE pos % W

(* bit_mask(bit) = shifted_mask<Word>(bit) = Word(1) << bit: the one bit of the mask *)
MaskBit(m) == IF Bug = "mask_shift32" THEN m % 32 ELSE m

INull == [k \in WordIdx |-> {}]         \* detail::null_array

(* proxy::operator=(bool) *)
ISet(ws, pos, b) ==
  LET k == ArrayOffset(pos)
      m == MaskBit(BitOffset(pos))
  IN [ws EXCEPT ![k] = IF b THEN @ \cup {m} ELSE @ \ {m}]

(* proxy::operator bool *)
IGet(ws, pos) == MaskBit(BitOffset(pos)) \in ws[ArrayOffset(pos)]

IOr(a, b) == [k \in WordIdx |-> a[k] \cup b[k]]
IAnd(a, b) == [k \in WordIdx |-> a[k] \cap b[k]]
IXor(a, b) == IF Bug = "xor_as_or" THEN IOr(a, b)
              ELSE [k \in WordIdx |-> (a[k] \ b[k]) \cup (b[k] \ a[k])]

(* bits of word k that belong to an enumerator *)
Used(k) == {j \in BitPos : k * W + j < N}

INot(a) ==
  IF Bug = "not_padding"
  THEN [k \in WordIdx |-> FullWord \ a[k]]
  ELSE [k \in WordIdx |-> (FullWord \ a[k]) \cap Used(k)]

IEq(a, b) == a = b                       \* array ==
INe(a, b) == ~IEq(a, b)
(* the hash is a function of the word array: equal arrays hash equally; for
   different arrays the model pessimistically assumes different hashes *)
IHashEq(a, b) == a = b
ISubsetEq(a, b) == IF Bug = "subset_right" THEN IEq(IAnd(a, b), b) ELSE IEq(IAnd(a, b), a)

RECURSIVE ISetAll(_, _, _)
(* object(initializer_list): null, then set(e, true) for each element *)
ISetAll(ws, xs, k) == IF k > Len(xs) THEN ws ELSE ISetAll(ISet(ws, xs[k], TRUE), xs, k + 1)
RECURSIVE IInitFrom(_, _, _)
(* init: null, then set(e, f(e)) for every enumerator in order *)
IInitFrom(ws, s, e) == IF e >= N THEN ws ELSE IInitFrom(ISet(ws, e, e \in s), s, e + 1)

(* abstraction: enumerator i is bit i % W of word i / W (by definition, not through
   the possibly defective BitOffset) *)
Abs(ws) == {i \in Elems : (i % W) \in ws[i \div W]}

IR(nx, ny) == [x |-> nx, y |-> ny]
IEff(vx, vy, a) ==
  CASE a.op \in {"set", "idx"} -> IR(ISet(vx, a.i, a.b), vy)
    [] a.op \in {"ore", "orae"} -> IR(ISet(vx, a.i, TRUE), vy)
    [] a.op \in {"or", "ora"} -> IR(IOr(vx, vy), vy)
    [] a.op \in {"and", "anda"} -> IR(IAnd(vx, vy), vy)
    [] a.op \in {"xor", "xora"} -> IR(IXor(vx, vy), vy)
    [] a.op = "selfora" -> IR(IOr(vx, vx), vy)
    [] a.op = "selfanda" -> IR(IAnd(vx, vx), vy)
    [] a.op = "selfxora" -> IR(IXor(vx, vx), vy)
    [] a.op = "not" -> IR(INot(vx), vy)
    [] a.op = "swap" -> IR(vy, vx)
    [] a.op = "copy" -> IR(vx, vx)
    [] a.op = "null" -> IR(INull, vy)
    [] a.op = "ilist" -> IR(ISetAll(INull, a.s, 1), vy)
    [] a.op = "init" -> IR(IInitFrom(INull, SeqToSet(a.s), 0), vy)
    (* proxy::operator=(proxy const &): assigns the bit the other proxy refers to *)
    [] a.op = "idxcopy" -> IR(IF Bug = "proxy_rebind" THEN vx ELSE ISet(vx, a.i, IGet(vx, a.j)), vy)
    [] a.op = "idxcopy_y" -> IR(IF Bug = "proxy_rebind" THEN vx ELSE ISet(vx, a.i, IGet(vy, a.j)), vy)
    [] a.op = "chain" -> IR(IF Bug = "proxy_rebind" THEN ISet(vx, a.j, a.b)
                            ELSE ISet(ISet(vx, a.j, a.b), a.i, a.b), vy)

IInit == x = Null /\ y = Null /\ hist = <<>> /\ ix = INull /\ iy = INull

IStep(a) ==
  /\ Pre(a)
  /\ LET e == Eff(x, y, a) IN x' = e.x /\ y' = e.y
  /\ LET e == IEff(ix, iy, a) IN ix' = e.x /\ iy' = e.y
  /\ hist' = Append(hist, a)

INext == \E a \in (IF FullOps THEN Ops ELSE CoreOps) : IStep(a)
ISpec == IInit /\ [][INext]_ivars
IView == <<x, y, ix, iy>>

(* ---- what TLC checks ---- *)
ITypeOK ==
  /\ x \in Values /\ y \in Values
  /\ DOMAIN ix = WordIdx /\ DOMAIN iy = WordIdx
  /\ \A k \in WordIdx : ix[k] \subseteq BitPos /\ iy[k] \subseteq BitPos

Refines == Abs(ix) = x /\ Abs(iy) = y

EqualSetsEqualWords == (x = y) => (IEq(ix, iy) /\ IHashEq(ix, iy) /\ ~INe(ix, iy))

ObserversAgree ==
  /\ \A i \in Elems : IGet(ix, i) = Get(x, i)
  /\ IEq(ix, iy) = Eq(x, y)
  /\ ISubsetEq(ix, iy) = SubsetEq(x, y)
  /\ ISubsetEq(iy, ix) = SubsetEq(y, x)

(* underlying_value: the single storage word as a number (evaluated while the word
   fits TLC's integers) *)
IUnderlying(ws) == SumPow2(ws[0])
UnderlyingAgrees ==
  (NW = 1 /\ ix[0] \subseteq 0..29) => (IUnderlying(ix) = Underlying(x) /\ Abs([k \in WordIdx |-> FromWord(IUnderlying(ix))]) = x)

NoPadding == \A k \in WordIdx : ix[k] \subseteq Used(k) /\ iy[k] \subseteq Used(k)

(* constructors from a set, checked for the current value of x (a law over every
   reachable x): building x again from an initializer list / with init gives the
   same words whatever route x itself took *)
SetToSeq(s) == LET RECURSIVE F(_) F(t) == IF t = {} THEN <<>> ELSE LET m == CHOOSE m \in t : \A o \in t : m <= o IN <<m>> \o F(t \ {m}) IN F(s)
ConstructorsAgree ==
  /\ Abs(ISetAll(INull, SetToSeq(x), 1)) = x
  /\ Abs(IInitFrom(INull, x, 0)) = x
  /\ IEq(ISetAll(INull, SetToSeq(x), 1), IInitFrom(INull, x, 0))
  /\ (Bug = "none") => IEq(ix, IInitFrom(INull, x, 0))

Laws == LawsOf(x, y)

(* script emission (spec -> code): with EmitScripts as a CONSTRAINT TLC prints the
   operation history of every generated transition *)
EmitScripts == PrintT("SCRIPT " \o ToJson(hist))
=============================================================================
