SPECIFICATION Spec
CONSTANTS
  NO = 3
  NS = 2
  NW = 2
  NU = 2
  Bug = "lock_no_check"
VIEW View
INVARIANT LockIffAlive
CHECK_DEADLOCK FALSE
