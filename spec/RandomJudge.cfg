SPECIFICATION RLSpec
CONSTANT Reasons <- RandomReasons
INVARIANT RLVerdict
CONSTRAINT RLConsumed
POSTCONDITION RLPost
CHECK_DEADLOCK FALSE
