SPECIFICATION RLSpec
CONSTANT Reasons <- C17Reasons
INVARIANT RLVerdict
CONSTRAINT RLConsumed
POSTCONDITION RLPost
CHECK_DEADLOCK FALSE
