SPECIFICATION Spec
CONSTANTS
  MaxObj = 4
  Allowed = {}
  LCat = "lvalue"
INVARIANTS NoGoodEnd
CHECK_DEADLOCK FALSE
