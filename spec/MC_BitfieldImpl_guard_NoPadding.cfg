SPECIFICATION ISpec
CONSTANTS
  N <- EnvN
  W <- EnvW
  Bug <- EnvBug
  FullOps <- EnvFull
VIEW IView
INVARIANT NoPadding
CHECK_DEADLOCK FALSE
