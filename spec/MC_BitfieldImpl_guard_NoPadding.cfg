SPECIFICATION ISpec
CONSTANTS
  N <- EnvN
  W <- EnvW
  Bug <- EnvBug
VIEW IView
INVARIANT NoPadding
CHECK_DEADLOCK FALSE
