SPECIFICATION SpecSeq
CONSTANTS
  MaxLen = 4
  SetMax = 3
  MapOptional <- MapOptionalFirstOnly
INVARIANT MapLaws
