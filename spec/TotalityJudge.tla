---------------------------- MODULE TotalityJudge ----------------------------
(* Judge of the call records of harness/c01_total.cpp (property C01): the
   recorded outcome class of every call of a registered function must be one
   that Totality.Outcome allows for its arguments; a recorded value is checked
   where Totality.ValueOk defines it.  An undocumented exception, a "nothing"
   for handled arguments or a value for unhandled ones is a rejected call.
   Sanitizer reports, traps and watchdog expiries never reach this module: the
   check turns them into rejected calls directly (they are observations).     *)
EXTENDS Totality

MathRowBad(r) == {i \in 1..Len(r.rs) : ClassOfCode(r.rs[i]) \notin OutcomeMathNarrow(r, X(r, i))}
C01Reasons(r) ==
  IF r.w = 0
  THEN IF ~NarrowKnown(r) THEN {"unregistered-function"}
       ELSE {"outcome:" \o ClassOfCode(r.rs[i]) : i \in MathRowBad(r)}
  ELSE IF r.w = 1
  THEN IF ~WideKnown(r) THEN {"unregistered-function"}
       ELSE IF ClassOfWide(r) \in OutcomeMathWide(r) THEN {} ELSE {"outcome:" \o ClassOfWide(r)}
  ELSE IF r.f \notin Registered THEN {"unregistered-function"}
  ELSE IF Recorded(r) \notin Outcome(r) THEN {"outcome:" \o Recorded(r)}
  ELSE IF r.out = "value" /\ ~ValueOk(r) THEN {"wrong-value"}
  ELSE {}

(* in_scope (C01): "Every public fcppt function that is not explicitly named or documented as unsafe
   returns normally ...: it never exhibits undefined behaviour ..., never fails to terminate and never
   throws an undocumented exception.  Inputs the function cannot handle are reported only through an
   empty optional, an either failure or the documented exception type."  The statement is about the
   outcome CLASS of a call; a recorded value that differs from the owning specification's value
   ("wrong-value") is that property's business (C06, C08, C15, C16, ...) and only an OBSERVATION here. *)
C01InScopeReason(w) == w # "wrong-value"
TNext ==
  /\ l <= Len(T)
  /\ l' = l + 1
  /\ LET w == Reasons(T[l]) IN
     IF w = {} THEN UNCHANGED <<bad, nbad>>
     ELSE /\ nbad' = nbad + 1
          /\ bad' = IF \E i \in 1..Len(bad) : bad[i].op = T[l].f /\ bad[i].why = w
                    THEN bad
                    ELSE Append(bad, [l |-> l, op |-> T[l].f, why |-> w, at |-> <<>>,
                                      inscope |-> {x \in w : C01InScopeReason(x)}])
TSpec == RLInit /\ [][TNext]_rlvars
=============================================================================
