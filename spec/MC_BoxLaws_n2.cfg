SPECIFICATION Spec
CONSTANTS
  N = 2
  Rad = 3
  Bug = 0
  OldDistance = FALSE
CHECK_DEADLOCK FALSE
INVARIANTS PtsLaw ContainsPointLaw IntersectsLaw IntersectionLaw ContainsLaw ExtendLaw ExtendPointLaw CornerLaw ShrinkStretchLaw CenterLaw DistanceLaw DistanceDocLaw
