SPECIFICATION Spec
CONSTANTS
  T = "i8"
  Dom <- DomEdgeT
  ClampBug = TRUE
  SizeBug = FALSE
INVARIANTS InType
