SPECIFICATION Spec
CONSTANTS
  T = "i8"
  Dom <- DomEdgeT
  ClampBug = TRUE
  SizeBug = FALSE
  DefBug = FALSE
INVARIANTS InType
