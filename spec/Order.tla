------------------------------- MODULE Order -------------------------------
(* C17 - ==, !=, <, <=, >, >= and hash of a value type are mutually coherent.

   The axioms are stated over RECORDED relations.  For one C++ type the harness
   enumerates n values v_1 .. v_n (several of them equal, produced in different
   ways), logs for each its observable components comp[i] (a sequence of
   integers: what the type's own accessors return) and the full n x n result
   matrices of the operators the type offers, as 0/1:

      EQ[a][b] = (v_a == v_b)   NE  LT  LE  GT  GE    HEQ[a][b] = (hash(v_a) = hash(v_b))

   Axioms (the property statement, clause by clause):
     EqIsComponentEquality   == holds exactly when all observable components are equal
                             (hence == is an equivalence)
     NeIsNegation            != is the negation of ==
     strict weak order       < is irreflexive and transitive, and incomparability
                             (neither a<b nor b<a) is transitive
     compatible with ==      equal values are incomparable, and < cannot tell equal
                             values apart (a==a', b==b' => (a<b <=> a'<b'))
     derived                 a<=b <=> ~(b<a),  a>b <=> b<a,  a>=b <=> ~(a<b)
     HashCoherent            a==b => hash(a) = hash(b)

   Beyond the statement, and only where the header documents it:
     DocumentedLex           < is the lexicographic order of the component sequences
                             (optional: "has_value first"; variant: "(type_index,
                             value)"; math vector/dim, raw_vector, grid "size, then
                             lexicographical_compare"; box "(pos, size)" pair)
     DocumentedTotal         < compares pointers with std::less, a strict TOTAL order
                             on the referenced objects: incomparable => equal

   Nothing is demanded of the hash of unequal values, and no order is demanded of a
   type that does not offer <. *)
EXTENDS Naturals, Sequences, FiniteSets

Idx(n) == 1..n

(* ---- the axioms over 0/1 matrices ---- *)
EqIsComponentEquality(n, comp, EQ) ==
  \A a, b \in Idx(n) : (EQ[a][b] = 1) = (comp[a] = comp[b])

(* stated on its own as well: == is an equivalence relation *)
EqIsEquivalence(n, EQ) ==
  /\ \A a \in Idx(n) : EQ[a][a] = 1
  /\ \A a, b \in Idx(n) : EQ[a][b] = EQ[b][a]
  /\ \A a, b, c \in Idx(n) : (EQ[a][b] = 1 /\ EQ[b][c] = 1) => EQ[a][c] = 1

NeIsNegation(n, EQ, NE) == \A a, b \in Idx(n) : NE[a][b] # EQ[a][b]

Inc(LT, a, b) == LT[a][b] = 0 /\ LT[b][a] = 0

LtIrreflexive(n, LT) == \A a \in Idx(n) : LT[a][a] = 0
LtTransitive(n, LT) == \A a, b, c \in Idx(n) : (LT[a][b] = 1 /\ LT[b][c] = 1) => LT[a][c] = 1
IncTransitive(n, LT) == \A a, b, c \in Idx(n) : (Inc(LT, a, b) /\ Inc(LT, b, c)) => Inc(LT, a, c)
StrictWeakOrder(n, LT) == LtIrreflexive(n, LT) /\ LtTransitive(n, LT) /\ IncTransitive(n, LT)

(* compatible with ==: equal values are incomparable and interchangeable *)
LtCompatibleWithEq(n, EQ, LT) ==
  /\ \A a, b \in Idx(n) : EQ[a][b] = 1 => Inc(LT, a, b)
  /\ \A a, b, c \in Idx(n) : EQ[a][b] = 1 => (LT[a][c] = LT[b][c] /\ LT[c][a] = LT[c][b])

LeDerived(n, LT, LE) == \A a, b \in Idx(n) : (LE[a][b] = 1) = (LT[b][a] = 0)
GtDerived(n, LT, GT) == \A a, b \in Idx(n) : GT[a][b] = LT[b][a]
GeDerived(n, LT, GE) == \A a, b \in Idx(n) : (GE[a][b] = 1) = (LT[a][b] = 0)

HashCoherent(n, EQ, HEQ) == \A a, b \in Idx(n) : EQ[a][b] = 1 => HEQ[a][b] = 1

(* ---- documented orders ---- *)
RECURSIVE SeqLess(_, _)
(* std::lexicographical_compare: a proper prefix is smaller *)
SeqLess(s, t) ==
  IF t = <<>> THEN FALSE
  ELSE IF s = <<>> THEN TRUE
  ELSE IF Head(s) < Head(t) THEN TRUE
  ELSE IF Head(t) < Head(s) THEN FALSE
  ELSE SeqLess(Tail(s), Tail(t))

DocumentedLex(n, comp, LT) == \A a, b \in Idx(n) : (LT[a][b] = 1) = SeqLess(comp[a], comp[b])
DocumentedTotal(n, EQ, LT) == \A a, b \in Idx(n) : Inc(LT, a, b) => EQ[a][b] = 1

(* ---- the relations a lexicographic order on component sequences induces;
        used by the model check: they satisfy every axiom ---- *)
B(c) == IF c THEN 1 ELSE 0
LexEQ(n, comp) == [a \in Idx(n) |-> [b \in Idx(n) |-> B(comp[a] = comp[b])]]
LexLT(n, comp) == [a \in Idx(n) |-> [b \in Idx(n) |-> B(SeqLess(comp[a], comp[b]))]]
Neg(n, M) == [a \in Idx(n) |-> [b \in Idx(n) |-> 1 - M[a][b]]]
Transpose(n, M) == [a \in Idx(n) |-> [b \in Idx(n) |-> M[b][a]]]

AllAxioms(n, comp, EQ, NE, LT, LE, GT, GE, HEQ) ==
  /\ EqIsComponentEquality(n, comp, EQ)
  /\ EqIsEquivalence(n, EQ)
  /\ NeIsNegation(n, EQ, NE)
  /\ StrictWeakOrder(n, LT)
  /\ LtCompatibleWithEq(n, EQ, LT)
  /\ LeDerived(n, LT, LE) /\ GtDerived(n, LT, GT) /\ GeDerived(n, LT, GE)
  /\ HashCoherent(n, EQ, HEQ)
=============================================================================
