--------------------------- MODULE RecordLoop ---------------------------
(* Generic judge for logs of independent call records (pure functions).
   A root module  XJudge  EXTENDS the subsystem's reference module X and
   RecordLoop, defines  XReasons(r)  (the set of reasons why record r is NOT
   explained by X; {} = explained) and its cfg substitutes
        CONSTANT Reasons <- XReasons
   One TLC state per record; rejected records are collected (first 300 kept
   verbatim, all counted) and printed as one VERDICT line when the log is
   consumed.  Every record must have a field "f" naming the function. *)
EXTENDS Naturals, Sequences, TLC, Json, IOUtils

CONSTANT Reasons(_)

VARIABLES l, bad, nbad
rlvars == <<l, bad, nbad>>

T == ndJsonDeserialize(IOEnv.TRACE)

RLInit == l = 1 /\ bad = <<>> /\ nbad = 0

RLNext ==
  /\ l <= Len(T)
  /\ l' = l + 1
  /\ LET w == Reasons(T[l]) IN
     IF w = {} THEN UNCHANGED <<bad, nbad>>
     ELSE /\ nbad' = nbad + 1
          /\ bad' = IF nbad < 300 THEN Append(bad, [l |-> l, op |-> T[l].f, why |-> w]) ELSE bad

RLSpec == RLInit /\ [][RLNext]_rlvars

RLVerdict == (l = Len(T) + 1) => PrintT("VERDICT " \o ToJson([n |-> Len(T), nbad |-> nbad, bad |-> bad]))
RLConsumed == TLCSet(1, l)
RLPost == IF TLCGet(1) = Len(T) + 1 THEN TRUE ELSE PrintT("STUCK " \o ToString(TLCGet(1)))
=============================================================================
