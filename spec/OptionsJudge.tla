---------------------------- MODULE OptionsJudge ----------------------------
(* C03 - judge of the records written by harness/c03_options.cpp (one TLC state per
   record, see RecordLoop.tla).  Record kinds (field f):

     tokens     the harness' global token table            must equal Family.tokens
     alphabet   alphabet / extra tokens / help flag of a shape   must equal the family's
     headers    result of compiling a translation unit that includes every public parser
                header of fcppt.options together          must be ok
     ctor       outcome of constructing shape s: "ok" or the exception class
                    WellFormed(p)  => "ok";  otherwise one of IllKinds(p)
     parse      fcppt::options::parse(parser, argv): ok / rec   (or exc: an exception left the call)
     parse_help fcppt::options::parse_help(default_help_switch(), parser, argv): ok / help / rec
                    ok, help and the record must be the ones of Parse / ParseHelp (every value position
                    of a record is itself a record, see Leaf in Options.tla, so a structurally
                    wrong result is unequal rather than a type error of the judge); on a
                    success the design-level properties of Options.tla are evaluated for this
                    (shape, argv) as well (they are model-checked only up to a bound).

     usage      parser.usage() as lines [ind, w]: the structural requirements of Options.tla
                (UsageReasons); a parse_help record that returned the help text carries that
                text and usage() of the parser: they must be the same text ("the usage string is
                gathered from _parser and returned", parse_help.hpp) and meet the requirements
     run        a direct call of the parser interface, Parser::parse(state, context) with the
                parser's own option names as context: k = ok | miss | other, st = remaining
                arguments (ok, miss), rec = value (ok): kind, state and value of RunTop

   A reason starting with HARNESS- is a defect of the harness / generator, not of fcppt. *)
EXTENDS Options, RecordLoop

InRange(r) == r.s \in 1..NShapes
ArgvOK(r) == \A i \in 1..Len(r.a) : r.a[i] \in 1..NTok

ResultReasons(r, e, p) ==
  IF "diverge" \in DOMAIN e /\ e.diverge THEN {"HARNESS-PRECONDITION-many-over-nonconsuming-parser"}
  ELSE
  (IF r.ok /\ ~e.ok THEN {"succeeds-but-reference-fails"} ELSE {})
  \cup (IF ~r.ok /\ e.ok THEN {"fails-but-reference-succeeds"} ELSE {})
  \cup (IF r.ok /\ e.ok /\ r.help # e.help THEN {"help-text-vs-result"} ELSE {})
  \cup (IF r.ok /\ e.ok /\ ~r.help /\ ~e.help /\ r.rec # e.val THEN {"record"} ELSE {})
  \cup (IF r.ok /\ e.ok /\ ~ConsumedExactlyOnceIn(e, r.a) THEN {"invariant-ConsumedExactlyOnce"} ELSE {})
  \cup (IF r.ok /\ e.ok /\ ~OptionValueNotPositionalIn(e, r.a) THEN {"invariant-OptionValueNotPositional"} ELSE {})
  \cup (IF ~FlagNeverFailsIn(p, r.a) THEN {"invariant-FlagNeverFails"} ELSE {})

HelpSwitchOf(sh) == [short |-> sh.hshort, long |-> sh.hlong]

RunReasons(r, e) ==
  IF e.k = "diverge" THEN {"HARNESS-PRECONDITION-many-over-nonconsuming-parser"}
  ELSE
  (IF r.k = "ok" /\ e.k # "ok" THEN {"succeeds-but-reference-fails"} ELSE {})
  \cup (IF r.k # "ok" /\ e.k = "ok" THEN {"fails-but-reference-succeeds"} ELSE {})
  \cup (IF r.k # "ok" /\ e.k # "ok" /\ r.k # e.k THEN {"error-kind-missing-vs-other"} ELSE {})
  \cup (IF r.k = "ok" /\ e.k = "ok" /\ r.st # Remaining(e) THEN {"remaining-state"} ELSE {})
  \cup (IF r.k = "ok" /\ e.k = "ok" /\ r.rec # e.val THEN {"record"} ELSE {})
  \cup (IF r.k = "miss" /\ e.k = "miss" /\ r.st # Remaining(e) THEN {"missing-error-state"} ELSE {})

HelpTextReasons(r, e, p) ==
  IF r.ok /\ e.ok /\ r.help /\ e.help
  THEN (IF r.text = r.usage THEN {} ELSE {"help-text-is-not-usage-of-the-parser"}) \cup UsageReasons(r.text, p)
  ELSE {}

RawReasons(r) ==
  CASE r.f = "tokens" -> IF r.toks = Tokens THEN {} ELSE {"HARNESS-token-table-differs-from-family"}
    [] r.f = "headers" -> IF r.ok THEN {} ELSE {"public-parser-headers-do-not-compile-together"}
    [] ~InRange(r) -> {"HARNESS-unknown-shape"}
    [] r.f = "alphabet" ->
         IF /\ r.al = Shapes[r.s].alphabet /\ r.ex = Shapes[r.s].extra /\ r.help = Shapes[r.s].help
            /\ r.hshort = Shapes[r.s].hshort /\ r.hlong = Shapes[r.s].hlong
         THEN {} ELSE {"HARNESS-alphabet-differs-from-family"}
    [] r.f = "ctor" ->
         LET ill == IllKinds(Shapes[r.s].p) IN
         IF ill = {} THEN (IF r.ctor = "ok" THEN {} ELSE {"well-formed-definition-rejected"})
         ELSE IF r.ctor = "ok" THEN {"ill-formed-definition-accepted"}
         ELSE IF r.ctor \in ill THEN {} ELSE {"unexpected-exception-type"}
    [] r.f \in {"usage", "run", "parse", "parse_help"} /\ "exc" \in DOMAIN r ->
         (* parse / parse_help "return" a result (an error or a record), Parser::parse returns a
            parse_result, usage() a string: an exception leaving one of them is explained by no rule *)
         IF WellFormed(Shapes[r.s].p) THEN {"throws-an-exception"} ELSE {}
    [] r.f = "usage" -> IF WellFormed(Shapes[r.s].p) THEN UsageReasons(r.lines, Shapes[r.s].p) ELSE {}
    [] r.f = "run" ->
         IF ~ArgvOK(r) THEN {"HARNESS-unknown-token"}
         ELSE IF ~WellFormed(Shapes[r.s].p) THEN {}
         ELSE RunReasons(r, RunTop(Shapes[r.s].p, r.a))
    [] r.f \in {"parse", "parse_help"} ->
         LET p == Shapes[r.s].p IN
         IF ~ArgvOK(r) THEN {"HARNESS-unknown-token"}
         ELSE IF ~WellFormed(p) THEN {}   \* the verdict is the ctor record ("ill-formed-definition-accepted");
                                          \* what such a parser then parses is not specified
         ELSE IF r.f = "parse_help" /\ ~Shapes[r.s].help THEN {"HARNESS-help-precondition"}
         ELSE ResultReasons(r, IF r.f = "parse" THEN Parse(p, r.a) ELSE ParseHelp(p, HelpSwitchOf(Shapes[r.s]), r.a), p)
    [] OTHER -> {"HARNESS-unknown-record-kind"}

(* Scope (docs/EXTENSION_BRIEF.md, "stay inside the property's statement").  A disagreement is a
   verdict about property C03 only for the record kinds below; for every other kind it is an
   OBSERVATION (reason prefixed "OBS:", written to the evidence, never a VIOLATION).
     headers, ctor   "every well-formed parser definition (distinct names, distinct active/inactive
                     values) can be constructed for every value type"
     parse           "for every argument vector, parse succeeds exactly when the documented
                     left-to-right consumption semantics succeeds and returns the same record; ...
                     every element of the argument vector has been consumed by exactly one
                     sub-parser ..., an option's value is never taken as a positional argument"
     parse_help      the same clause, for "the help wrapper" (success / help-or-result / record)
   but only for parsers "composed of argument, flag/switch, option, unit, unit_switch, optional,
   many, product (apply), sum, commands and the help wrapper": shapes that contain a make_base /
   make_cref wrapper are outside.  Outside as well (the statement does not mention them): the
   structure of usage() and of the help text, the kind of an error (missing vs other), the
   remaining state / value of a direct Parser::parse call. *)
HasWrap(p) == \E q \in Nodes(p) : q.k = "wrap"
InScope(r) ==
  CASE r.f \in {"tokens", "alphabet", "headers"} -> TRUE
    [] r.f \in {"ctor", "parse", "parse_help"} -> InRange(r) => ~HasWrap(Shapes[r.s].p)
    [] OTHER -> FALSE        \* usage, run, and anything added later: observed only
Observed(S) == {"OBS:" \o w : w \in S}

OptionsReasons(r) ==
  (IF InScope(r) THEN RawReasons(r) ELSE Observed(RawReasons(r)))
  \cup (IF r.f = "parse_help" /\ InRange(r) /\ "exc" \notin DOMAIN r /\ ArgvOK(r) /\ WellFormed(Shapes[r.s].p) /\ Shapes[r.s].help
        THEN Observed(HelpTextReasons(r, ParseHelp(Shapes[r.s].p, HelpSwitchOf(Shapes[r.s]), r.a), Shapes[r.s].p))
        ELSE {})
=============================================================================
