---------------------------- MODULE OptionsJudge ----------------------------
(* C03 - judge of the records written by harness/c03_options.cpp (one TLC state per
   record, see RecordLoop.tla).  Record kinds (field f):

     tokens     the harness' global token table            must equal Family.tokens
     alphabet   alphabet / extra tokens / help flag of a shape   must equal the family's
     headers    result of compiling a translation unit that includes every public parser
                header of fcppt.options together          must be ok
     ctor       outcome of constructing shape s: "ok" or the exception class
                    WellFormed(p)  => "ok";  otherwise one of IllKinds(p)
     parse      fcppt::options::parse(parser, argv): ok / rec
     parse_help fcppt::options::parse_help(default_help_switch(), parser, argv): ok / help / rec
                    ok, help and the record must be the ones of Parse / ParseHelp (every value position
                    of a record is itself a record, see Leaf in Options.tla, so a structurally
                    wrong result is unequal rather than a type error of the judge); on a
                    success the design-level properties of Options.tla are evaluated for this
                    (shape, argv) as well (they are model-checked only up to a bound).

   A reason starting with HARNESS- is a defect of the harness / generator, not of fcppt. *)
EXTENDS Options, RecordLoop

InRange(r) == r.s \in 1..NShapes
ArgvOK(r) == \A i \in 1..Len(r.a) : r.a[i] \in 1..NTok

ResultReasons(r, e, p) ==
  IF "diverge" \in DOMAIN e /\ e.diverge THEN {"HARNESS-PRECONDITION-many-over-nonconsuming-parser"}
  ELSE
  (IF r.ok /\ ~e.ok THEN {"succeeds-but-reference-fails"} ELSE {})
  \cup (IF ~r.ok /\ e.ok THEN {"fails-but-reference-succeeds"} ELSE {})
  \cup (IF r.ok /\ e.ok /\ r.help # e.help THEN {"help-text-vs-result"} ELSE {})
  \cup (IF r.ok /\ e.ok /\ ~r.help /\ ~e.help /\ r.rec # e.val THEN {"record"} ELSE {})
  \cup (IF r.ok /\ e.ok /\ ~ConsumedExactlyOnceIn(e, r.a) THEN {"invariant-ConsumedExactlyOnce"} ELSE {})
  \cup (IF r.ok /\ e.ok /\ ~OptionValueNotPositionalIn(e, r.a) THEN {"invariant-OptionValueNotPositional"} ELSE {})
  \cup (IF ~FlagNeverFailsIn(p, r.a) THEN {"invariant-FlagNeverFails"} ELSE {})

OptionsReasons(r) ==
  CASE r.f = "tokens" -> IF r.toks = Tokens THEN {} ELSE {"HARNESS-token-table-differs-from-family"}
    [] r.f = "headers" -> IF r.ok THEN {} ELSE {"public-parser-headers-do-not-compile-together"}
    [] ~InRange(r) -> {"HARNESS-unknown-shape"}
    [] r.f = "alphabet" ->
         IF r.al = Shapes[r.s].alphabet /\ r.ex = Shapes[r.s].extra /\ r.help = Shapes[r.s].help
         THEN {} ELSE {"HARNESS-alphabet-differs-from-family"}
    [] r.f = "ctor" ->
         LET ill == IllKinds(Shapes[r.s].p) IN
         IF ill = {} THEN (IF r.ctor = "ok" THEN {} ELSE {"well-formed-definition-rejected"})
         ELSE IF r.ctor = "ok" THEN {"ill-formed-definition-accepted"}
         ELSE IF r.ctor \in ill THEN {} ELSE {"unexpected-exception-type"}
    [] r.f \in {"parse", "parse_help"} ->
         LET p == Shapes[r.s].p IN
         IF ~ArgvOK(r) THEN {"HARNESS-unknown-token"}
         ELSE IF ~WellFormed(p) THEN {}   \* the verdict is the ctor record ("ill-formed-definition-accepted");
                                          \* what such a parser then parses is not specified
         ELSE IF r.f = "parse_help" /\ ~Shapes[r.s].help THEN {"HARNESS-help-precondition"}
         ELSE ResultReasons(r, IF r.f = "parse" THEN Parse(p, r.a) ELSE ParseHelp(p, r.a), p)
    [] OTHER -> {"HARNESS-unknown-record-kind"}
=============================================================================
