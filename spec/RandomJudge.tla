----------------------------- MODULE RandomJudge -----------------------------
(* C20 - judge of the records written by harness/c20_random.cpp.  The wrapped standard
   distribution is not specified: every record carries the run of the fcppt wrapper (w...) and
   the run of the std:: distribution / engine on an identical engine (s...); Random.tla demands
   lock-step equality, the bounds, the factory laws and the aggregate "both ends reached".

   Record kinds (field f):
     draw         uniform_int<R> over [a,b] on one script: values wv, cursor after each draw wc,
                  wex = the run ended because the script ran out; sv/sc/sex the same for
                  std::uniform_int_distribution<base>(a,b).  wide = values are (sign, magnitude).
                  via = "basic_param": drawn with operator()(rng, parameters); pa/pb = the
                  parameters read back through param() after param(parameters)
     agg          per parameter set, over all scripts up to a length: number of values drawn and
                  their minimum / maximum, for the wrapper and for std; distribution min()/max()
     enum_params  interval of make_uniform_enum<E>() for an enum with `size` enumerators
     container    make_uniform_indices / make_uniform_container on elems, draws on one script:
                  element values wv, positions widx (by identity); sv = std index draws
     raw          provided engine vs std engine, same seed: raw values, min(), max()
     engine       variate over a provided engine vs std distribution over the std engine
     real         uniform_real / normal: bit patterns of the draws
     session      a sequence of operations (ops) on one distribution::basic object and on the
                  equivalent std distribution, each with its own engine: per step the observation
                  of the wrapper (w) and of std (s) as a sequence of 0 or 1 values (empty = the
                  script ran out), and the number of raw values the engine has produced so far
                  (wn / sn).  op = draw | reset | param_get | param_set | draw_param | minmax |
                  eq | out.  A reset step also carries the values (fresh) and raw counts (freshn,
                  relative) of a FRESH std distribution with the parameters in effect, started on a
                  copy of the std engine at that point.  uniform_int draws carry lo / hi.        *)
EXTENDS Random, RecordLoop

Pre == "HARNESS-PRECONDITION"
If(c, x) == IF c THEN {x} ELSE {}

Leq(wide, x, y) == IF wide THEN NumLeq(x, y) ELSE x <= y
Between(wide, x, lo, hi) == Leq(wide, lo, x) /\ Leq(wide, x, hi)

\* a recorded run is well formed: one cursor per draw (plus one for an aborted draw), monotone
RunShape(v, c, ex, n) ==
  /\ Len(c) = Len(v) + (IF ex THEN 1 ELSE 0)
  /\ Monotone(c)
  /\ \A i \in 1..Len(c) : c[i] \in 0..n

DrawReasons(r) ==
  LET n == Len(r.script) IN
  IF ~RunShape(r.sv, r.sc, r.sex, n) \/ ~RunShape(r.wv, r.wc, r.wex, n) \/ ~Leq(r.wide, r.a, r.b)
     \/ \E i \in 1..Len(r.sv) : ~Between(r.wide, r.sv[i], r.a, r.b)
  THEN {Pre}
  ELSE If(r.wv # r.sv, "not-transparent-values")
       \cup If(r.wc # r.sc \/ r.wex # r.sex, "not-transparent-consumption")
       \cup If(\E i \in 1..Len(r.wv) : ~Between(r.wide, r.wv[i], r.a, r.b), "out-of-bounds")
       \* parameters set and read back (only present when basic::param() is drivable)
       \cup If("pa" \in DOMAIN r /\ (r.pa # r.a \/ r.pb # r.b), "parameter-translation")

AggReasons(r) ==
  \* the script set must be large enough for the standard distribution itself to reach both ends
  IF r.sn > 0 /\ ~(r.slo = r.a /\ r.shi = r.b) THEN {Pre}
  ELSE If(r.n # r.sn, "aggregate-not-transparent")
       \cup If(r.n > 0 /\ ~(r.lo = r.a /\ r.hi = r.b), "end-not-reached")
       \cup If(r.dmin # r.a \/ r.dmax # r.b, "min-max")

EnumParamsReasons(r) ==
  LET p == BaseParams("enum", EnumParams(r.size - 1)) IN
  If(r.a # NumOfInt(p.a) \/ r.b # NumOfInt(p.b), "enum-interval")
  \* make_uniform_enum_advanced with a user-supplied distribution policy: the same interval
  \cup If("aa" \in DOMAIN r /\ (r.aa # NumOfInt(p.a) \/ r.ab # NumOfInt(p.b)), "enum-interval-advanced")

ContainerReasons(r) ==
  LET size == Len(r.elems)
      ip == IndexParams(size)
      n == Len(r.script)
  IN IF ~RunShape(r.sv, r.sc, r.sex, n) \/ ~RunShape(r.wv, r.wc, r.wex, n) \/ Len(r.widx) # Len(r.wv) THEN {Pre}
     ELSE If(r.isome # (ip # None), "indices-empty-guard")
          \cup If(r.isome /\ ip # None /\ [a |-> r.ia, b |-> r.ib] # BaseParams("plain", ip[1]), "indices-interval")
          \cup If(r.some # (size # 0), "container-empty-guard")
          \cup If(\E i \in 1..Len(r.wv) : ~(r.widx[i] \in 0..(size - 1)), "not-an-element")
          \cup If(\E i \in 1..Len(r.wv) :
                    /\ (\A j \in 1..i : r.widx[j] \in 0..(size - 1))
                    /\ r.wv[i] # ContainerElement(IF "after" \in DOMAIN r
                                                  THEN ContainerAfterWrites(r.elems, SubSeq(r.widx, 1, i - 1), 900)
                                                  ELSE r.elems, r.widx[i]), "element-value")
          \cup If(r.some /\ size # 0 /\ r.widx # r.sv, "not-transparent-values")
          \cup If(r.some /\ size # 0 /\ (r.wc # r.sc \/ r.wex # r.sex), "not-transparent-consumption")
          \* the results are references INTO the container: values assigned through them arrive there
          \cup If(/\ "after" \in DOMAIN r
                   /\ (\A i \in 1..Len(r.widx) : r.widx[i] \in 0..(size - 1))
                   /\ r.after # ContainerAfterWrites(r.elems, r.widx, 900), "not-a-reference")

\* seed_from_chrono: only that a generator is constructed and stays within [min(), max()]
ChronoReasons(r) == If(\E i \in 1..Len(r.wv) : ~NumBetween(r.wv[i], r.wmin, r.wmax), "engine-min-max")

RawReasons(r) ==
  If(r.wv # r.sv, "not-transparent-values") \cup If(r.wmin # r.smin \/ r.wmax # r.smax, "engine-min-max")

EngineReasons(r) ==
  IF ~NumLeq(r.a, r.b) \/ \E i \in 1..Len(r.sv) : ~NumBetween(r.sv[i], r.a, r.b) THEN {Pre}
  ELSE If(r.wv # r.sv, "not-transparent-values")
       \cup If(r.wnext # r.snext, "not-transparent-consumption")
       \cup If(\E i \in 1..Len(r.wv) : ~NumBetween(r.wv[i], r.a, r.b), "out-of-bounds")

RealReasons(r) ==
  If(r.wv # r.sv, "not-transparent-values") \cup If(r.wnext # r.snext, "not-transparent-consumption")

RECURSIVE DrawRun(_, _)
\* number of consecutive plain draws that follow step i
DrawRun(ops, i) == IF i + 1 <= Len(ops) /\ ops[i + 1].op = "draw" THEN 1 + DrawRun(ops, i + 1) ELSE 0
Min2(a, b) == IF a < b THEN a ELSE b

\* steps i+1.. after the reset at step i agree with the fresh distribution (sel = "w" / "s")
FreshOk(ops, i, sel) ==
  \A k \in 1..Min2(DrawRun(ops, i), Len(ops[i].fresh)) :
    IF sel = "w" THEN ops[i + k].w = <<ops[i].fresh[k]>> /\ ops[i + k].wn - ops[i].wn = ops[i].freshn[k]
    ELSE ops[i + k].s = <<ops[i].fresh[k]>> /\ ops[i + k].sn - ops[i].sn = ops[i].freshn[k]

SessionReasons(r) ==
  LET ops == r.ops
      I == 1..Len(ops)
      resets == {i \in I : ops[i].op = "reset"}
  IN IF \/ \E i \in resets : ~FreshOk(ops, i, "s")          \* the std distribution itself must obey the reset law
        \/ \E i \in I : i > 1 /\ ops[i].sn < ops[i - 1].sn
        \/ \E i \in I : "lo" \in DOMAIN ops[i] /\ ops[i].s # <<>> /\ ~(ops[i].lo <= ops[i].s[1] /\ ops[i].s[1] <= ops[i].hi)
     THEN {Pre}
     ELSE {"not-transparent-" \o ops[i].op : i \in {j \in I : ops[j].w # ops[j].s \/ ops[j].wn # ops[j].sn}}
          \cup If(\E i \in resets : ~FreshOk(ops, i, "w"), "reset-not-fresh")
          \cup If(\E i \in I : "lo" \in DOMAIN ops[i] /\ ops[i].w # <<>> /\ ~(ops[i].lo <= ops[i].w[1] /\ ops[i].w[1] <= ops[i].hi), "out-of-bounds")

RandomReasons0(r) ==
  CASE r.f = "draw" -> DrawReasons(r)
    [] r.f = "agg" -> AggReasons(r)
    [] r.f = "enum_params" -> EnumParamsReasons(r)
    [] r.f = "container" -> ContainerReasons(r)
    [] r.f = "raw" -> RawReasons(r)
    [] r.f = "chrono" -> ChronoReasons(r)
    [] r.f = "engine" -> EngineReasons(r)
    [] r.f = "real" -> RealReasons(r)
    [] r.f = "session" -> SessionReasons(r)
    [] OTHER -> {"unknown-record-kind"}

(* ---- scope.  Only what the statement of C20 covers may become a rejected event:
     "an fcppt variate/distribution produces exactly the sequence that the wrapped standard
      distribution produces from the wrapped engine with the same parameters, re-wrapped in the
      requested type"                      -> values drawn, raw values consumed, exhaustion, the
                                              engines themselves, the sequence after reset / copy
     "uniform integer and enum distributions only yield values inside the closed interval they were
      given and reach both ends"           -> out-of-bounds, end-not-reached, the enum interval
     "uniform_container only yields elements of its container"   -> not-an-element, element-value
     "the index/container factories return nothing for an empty container"  -> the factory reasons
   Everything else is OBSERVED ONLY: its reasons are prefixed "obs:" (checks/c20.py counts them in
   evidence coverage.observations and never rejects): accessors and operators that are not the
   produced sequence (param(), min()/max(), ==, <<, the parameters read back), writing through the
   references of uniform_container, seed_from_chrono, and every session that uses operator>>.   *)
ObservedOnlyReasons ==
  {"not-transparent-param_get", "not-transparent-minmax", "not-transparent-eq", "not-transparent-out",
   "not-transparent-inout", "min-max", "parameter-translation", "not-a-reference"}

UsesIstream(r) == r.f = "session" /\ \E i \in 1..Len(r.ops) : r.ops[i].op = "inout"

RandomReasons(r) ==
  {IF w # Pre /\ (w \in ObservedOnlyReasons \/ r.f = "chrono" \/ UsesIstream(r)) THEN "obs:" \o w ELSE w : w \in RandomReasons0(r)}
=============================================================================
