----------------------------- MODULE RandomJudge -----------------------------
(* C20 - judge of the records written by harness/c20_random.cpp.  The wrapped standard
   distribution is not specified: every record carries the run of the fcppt wrapper (w...) and
   the run of the std:: distribution / engine on an identical engine (s...); Random.tla demands
   lock-step equality, the bounds, the factory laws and the aggregate "both ends reached".

   Record kinds (field f):
     draw         uniform_int<R> over [a,b] on one script: values wv, cursor after each draw wc,
                  wex = the run ended because the script ran out; sv/sc/sex the same for
                  std::uniform_int_distribution<base>(a,b).  wide = values are (sign, magnitude).
                  via = "basic_param": drawn with operator()(rng, parameters); pa/pb = the
                  parameters read back through param() after param(parameters)
     agg          per parameter set, over all scripts up to a length: number of values drawn and
                  their minimum / maximum, for the wrapper and for std; distribution min()/max()
     enum_params  interval of make_uniform_enum<E>() for an enum with `size` enumerators
     container    make_uniform_indices / make_uniform_container on elems, draws on one script:
                  element values wv, positions widx (by identity); sv = std index draws
     raw          provided engine vs std engine, same seed: raw values, min(), max()
     engine       variate over a provided engine vs std distribution over the std engine
     real         uniform_real / normal: bit patterns of the draws
     session      a sequence of operations (ops) on one distribution::basic object and on the
                  equivalent std distribution, each with its own engine: per step the observation
                  of the wrapper (w) and of std (s) as a sequence of 0 or 1 values (empty = the
                  script ran out), and the number of raw values the engine has produced so far
                  (wn / sn).  op = draw | reset | param_get | param_set | draw_param | minmax |
                  eq | out.  A reset step also carries the values (fresh) and raw counts (freshn,
                  relative) of a FRESH std distribution with the parameters in effect, started on a
                  copy of the std engine at that point.  uniform_int draws carry lo / hi.        *)
EXTENDS Random, RecordLoop

Pre == "HARNESS-PRECONDITION"
If(c, x) == IF c THEN {x} ELSE {}

Leq(wide, x, y) == IF wide THEN NumLeq(x, y) ELSE x <= y
Between(wide, x, lo, hi) == Leq(wide, lo, x) /\ Leq(wide, x, hi)

\* a recorded run is well formed: one cursor per draw (plus one for an aborted draw), monotone
RunShape(v, c, ex, n) ==
  /\ Len(c) = Len(v) + (IF ex THEN 1 ELSE 0)
  /\ Monotone(c)
  /\ \A i \in 1..Len(c) : c[i] \in 0..n

DrawReasons(r) ==
  LET n == Len(r.script) IN
  IF ~RunShape(r.sv, r.sc, r.sex, n) \/ ~RunShape(r.wv, r.wc, r.wex, n) \/ ~Leq(r.wide, r.a, r.b)
     \/ \E i \in 1..Len(r.sv) : ~Between(r.wide, r.sv[i], r.a, r.b)
  THEN {Pre}
  ELSE If(r.wv # r.sv, "not-transparent-values")
       \cup If(r.wc # r.sc \/ r.wex # r.sex, "not-transparent-consumption")
       \cup If(\E i \in 1..Len(r.wv) : ~Between(r.wide, r.wv[i], r.a, r.b), "out-of-bounds")
       \* parameters set and read back (only present when basic::param() is drivable)
       \cup If("pa" \in DOMAIN r /\ (r.pa # r.a \/ r.pb # r.b), "parameter-translation")

AggReasons(r) ==
  \* the script set must be large enough for the standard distribution itself to reach both ends
  IF r.sn > 0 /\ ~(r.slo = r.a /\ r.shi = r.b) THEN {Pre}
  ELSE If(r.n # r.sn, "aggregate-not-transparent")
       \cup If(r.n > 0 /\ ~(r.lo = r.a /\ r.hi = r.b), "end-not-reached")
       \cup If(r.dmin # r.a \/ r.dmax # r.b, "min-max")

EnumParamsReasons(r) ==
  LET p == BaseParams("enum", EnumParams(r.size - 1)) IN
  If(r.a # NumOfInt(p.a) \/ r.b # NumOfInt(p.b), "enum-interval")

ContainerReasons(r) ==
  LET size == Len(r.elems)
      ip == IndexParams(size)
      n == Len(r.script)
  IN IF ~RunShape(r.sv, r.sc, r.sex, n) \/ ~RunShape(r.wv, r.wc, r.wex, n) \/ Len(r.widx) # Len(r.wv) THEN {Pre}
     ELSE If(r.isome # (ip # None), "indices-empty-guard")
          \cup If(r.isome /\ ip # None /\ [a |-> r.ia, b |-> r.ib] # BaseParams("plain", ip[1]), "indices-interval")
          \cup If(r.some # (size # 0), "container-empty-guard")
          \cup If(\E i \in 1..Len(r.wv) : ~(r.widx[i] \in 0..(size - 1)), "not-an-element")
          \cup If(\E i \in 1..Len(r.wv) : r.widx[i] \in 0..(size - 1) /\ r.wv[i] # ContainerElement(r.elems, r.widx[i]), "element-value")
          \cup If(r.some /\ size # 0 /\ r.widx # r.sv, "not-transparent-values")
          \cup If(r.some /\ size # 0 /\ (r.wc # r.sc \/ r.wex # r.sex), "not-transparent-consumption")

RawReasons(r) ==
  If(r.wv # r.sv, "not-transparent-values") \cup If(r.wmin # r.smin \/ r.wmax # r.smax, "engine-min-max")

EngineReasons(r) ==
  IF ~NumLeq(r.a, r.b) \/ \E i \in 1..Len(r.sv) : ~NumBetween(r.sv[i], r.a, r.b) THEN {Pre}
  ELSE If(r.wv # r.sv, "not-transparent-values")
       \cup If(r.wnext # r.snext, "not-transparent-consumption")
       \cup If(\E i \in 1..Len(r.wv) : ~NumBetween(r.wv[i], r.a, r.b), "out-of-bounds")

RealReasons(r) ==
  If(r.wv # r.sv, "not-transparent-values") \cup If(r.wnext # r.snext, "not-transparent-consumption")

RECURSIVE DrawRun(_, _)
\* number of consecutive plain draws that follow step i
DrawRun(ops, i) == IF i + 1 <= Len(ops) /\ ops[i + 1].op = "draw" THEN 1 + DrawRun(ops, i + 1) ELSE 0
Min2(a, b) == IF a < b THEN a ELSE b

\* steps i+1.. after the reset at step i agree with the fresh distribution (sel = "w" / "s")
FreshOk(ops, i, sel) ==
  \A k \in 1..Min2(DrawRun(ops, i), Len(ops[i].fresh)) :
    IF sel = "w" THEN ops[i + k].w = <<ops[i].fresh[k]>> /\ ops[i + k].wn - ops[i].wn = ops[i].freshn[k]
    ELSE ops[i + k].s = <<ops[i].fresh[k]>> /\ ops[i + k].sn - ops[i].sn = ops[i].freshn[k]

SessionReasons(r) ==
  LET ops == r.ops
      I == 1..Len(ops)
      resets == {i \in I : ops[i].op = "reset"}
  IN IF \/ \E i \in resets : ~FreshOk(ops, i, "s")          \* the std distribution itself must obey the reset law
        \/ \E i \in I : i > 1 /\ ops[i].sn < ops[i - 1].sn
        \/ \E i \in I : "lo" \in DOMAIN ops[i] /\ ops[i].s # <<>> /\ ~(ops[i].lo <= ops[i].s[1] /\ ops[i].s[1] <= ops[i].hi)
     THEN {Pre}
     ELSE {"not-transparent-" \o ops[i].op : i \in {j \in I : ops[j].w # ops[j].s \/ ops[j].wn # ops[j].sn}}
          \cup If(\E i \in resets : ~FreshOk(ops, i, "w"), "reset-not-fresh")
          \cup If(\E i \in I : "lo" \in DOMAIN ops[i] /\ ops[i].w # <<>> /\ ~(ops[i].lo <= ops[i].w[1] /\ ops[i].w[1] <= ops[i].hi), "out-of-bounds")

RandomReasons(r) ==
  CASE r.f = "draw" -> DrawReasons(r)
    [] r.f = "agg" -> AggReasons(r)
    [] r.f = "enum_params" -> EnumParamsReasons(r)
    [] r.f = "container" -> ContainerReasons(r)
    [] r.f = "raw" -> RawReasons(r)
    [] r.f = "engine" -> EngineReasons(r)
    [] r.f = "real" -> RealReasons(r)
    [] r.f = "session" -> SessionReasons(r)
    [] OTHER -> {"unknown-record-kind"}
=============================================================================
