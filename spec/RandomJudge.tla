----------------------------- MODULE RandomJudge -----------------------------
(* C20 - judge of the records written by harness/c20_random.cpp.  The wrapped standard
   distribution is not specified: every record carries the run of the fcppt wrapper (w...) and
   the run of the std:: distribution / engine on an identical engine (s...); Random.tla demands
   lock-step equality, the bounds, the factory laws and the aggregate "both ends reached".

   Record kinds (field f):
     draw         uniform_int<R> over [a,b] on one script: values wv, cursor after each draw wc,
                  wex = the run ended because the script ran out; sv/sc/sex the same for
                  std::uniform_int_distribution<base>(a,b).  wide = values are (sign, magnitude).
                  via = "basic_param": drawn with operator()(rng, parameters); pa/pb = the
                  parameters read back through param() after param(parameters)
     agg          per parameter set, over all scripts up to a length: number of values drawn and
                  their minimum / maximum, for the wrapper and for std; distribution min()/max()
     enum_params  interval of make_uniform_enum<E>() for an enum with `size` enumerators
     container    make_uniform_indices / make_uniform_container on elems, draws on one script:
                  element values wv, positions widx (by identity); sv = std index draws
     raw          provided engine vs std engine, same seed: raw values, min(), max()
     engine       variate over a provided engine vs std distribution over the std engine
     real         uniform_real / normal: bit patterns of the draws                            *)
EXTENDS Random, RecordLoop

Pre == "HARNESS-PRECONDITION"
If(c, x) == IF c THEN {x} ELSE {}

Leq(wide, x, y) == IF wide THEN NumLeq(x, y) ELSE x <= y
Between(wide, x, lo, hi) == Leq(wide, lo, x) /\ Leq(wide, x, hi)

\* a recorded run is well formed: one cursor per draw (plus one for an aborted draw), monotone
RunShape(v, c, ex, n) ==
  /\ Len(c) = Len(v) + (IF ex THEN 1 ELSE 0)
  /\ Monotone(c)
  /\ \A i \in 1..Len(c) : c[i] \in 0..n

DrawReasons(r) ==
  LET n == Len(r.script) IN
  IF ~RunShape(r.sv, r.sc, r.sex, n) \/ ~RunShape(r.wv, r.wc, r.wex, n) \/ ~Leq(r.wide, r.a, r.b)
     \/ \E i \in 1..Len(r.sv) : ~Between(r.wide, r.sv[i], r.a, r.b)
  THEN {Pre}
  ELSE If(r.wv # r.sv, "not-transparent-values")
       \cup If(r.wc # r.sc \/ r.wex # r.sex, "not-transparent-consumption")
       \cup If(\E i \in 1..Len(r.wv) : ~Between(r.wide, r.wv[i], r.a, r.b), "out-of-bounds")
       \* parameters set and read back (only present when basic::param() is drivable)
       \cup If("pa" \in DOMAIN r /\ (r.pa # r.a \/ r.pb # r.b), "parameter-translation")

AggReasons(r) ==
  \* the script set must be large enough for the standard distribution itself to reach both ends
  IF r.sn > 0 /\ ~(r.slo = r.a /\ r.shi = r.b) THEN {Pre}
  ELSE If(r.n # r.sn, "aggregate-not-transparent")
       \cup If(r.n > 0 /\ ~(r.lo = r.a /\ r.hi = r.b), "end-not-reached")
       \cup If(r.dmin # r.a \/ r.dmax # r.b, "min-max")

EnumParamsReasons(r) ==
  LET p == BaseParams("enum", EnumParams(r.size - 1)) IN
  If(r.a # NumOfInt(p.a) \/ r.b # NumOfInt(p.b), "enum-interval")

ContainerReasons(r) ==
  LET size == Len(r.elems)
      ip == IndexParams(size)
      n == Len(r.script)
  IN IF ~RunShape(r.sv, r.sc, r.sex, n) \/ ~RunShape(r.wv, r.wc, r.wex, n) \/ Len(r.widx) # Len(r.wv) THEN {Pre}
     ELSE If(r.isome # (ip # None), "indices-empty-guard")
          \cup If(r.isome /\ ip # None /\ [a |-> r.ia, b |-> r.ib] # BaseParams("plain", ip[1]), "indices-interval")
          \cup If(r.some # (size # 0), "container-empty-guard")
          \cup If(\E i \in 1..Len(r.wv) : ~(r.widx[i] \in 0..(size - 1)), "not-an-element")
          \cup If(\E i \in 1..Len(r.wv) : r.widx[i] \in 0..(size - 1) /\ r.wv[i] # ContainerElement(r.elems, r.widx[i]), "element-value")
          \cup If(r.some /\ size # 0 /\ r.widx # r.sv, "not-transparent-values")
          \cup If(r.some /\ size # 0 /\ (r.wc # r.sc \/ r.wex # r.sex), "not-transparent-consumption")

RawReasons(r) ==
  If(r.wv # r.sv, "not-transparent-values") \cup If(r.wmin # r.smin \/ r.wmax # r.smax, "engine-min-max")

EngineReasons(r) ==
  IF ~NumLeq(r.a, r.b) \/ \E i \in 1..Len(r.sv) : ~NumBetween(r.sv[i], r.a, r.b) THEN {Pre}
  ELSE If(r.wv # r.sv, "not-transparent-values")
       \cup If(r.wnext # r.snext, "not-transparent-consumption")
       \cup If(\E i \in 1..Len(r.wv) : ~NumBetween(r.wv[i], r.a, r.b), "out-of-bounds")

RealReasons(r) ==
  If(r.wv # r.sv, "not-transparent-values") \cup If(r.wnext # r.snext, "not-transparent-consumption")

RandomReasons(r) ==
  CASE r.f = "draw" -> DrawReasons(r)
    [] r.f = "agg" -> AggReasons(r)
    [] r.f = "enum_params" -> EnumParamsReasons(r)
    [] r.f = "container" -> ContainerReasons(r)
    [] r.f = "raw" -> RawReasons(r)
    [] r.f = "engine" -> EngineReasons(r)
    [] r.f = "real" -> RealReasons(r)
    [] OTHER -> {"unknown-record-kind"}
=============================================================================
