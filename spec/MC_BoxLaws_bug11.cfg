SPECIFICATION Spec
CONSTANTS
  N = 2
  Rad = 1
  Bug = 11
CHECK_DEADLOCK FALSE
INVARIANTS CenterLaw
