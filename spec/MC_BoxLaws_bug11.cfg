SPECIFICATION Spec
CONSTANTS
  N = 2
  Lo = -1
  Hi = 1
  Bug = 11
INVARIANTS CenterLaw
