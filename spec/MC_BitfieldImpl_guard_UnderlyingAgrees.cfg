SPECIFICATION ISpec
CONSTANTS
  N <- EnvN
  W <- EnvW
  Bug <- EnvBug
  FullOps <- EnvFull
VIEW IView
INVARIANT UnderlyingAgrees
CHECK_DEADLOCK FALSE
