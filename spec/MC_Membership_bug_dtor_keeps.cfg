SPECIFICATION Spec
CONSTANTS
  NL = 2
  NE = 3
  AbsBug = "dtor_keeps"
VIEW View
INVARIANTS LawMembersAlive
CHECK_DEADLOCK FALSE
