----------------------------- MODULE GridObjMC -----------------------------
(* Model of the grid object machine (GridObj.tla): NS slots, every operation
   with every argument over small constants, abstract state `st` and the
   member-level transcription `im` in lock-step.

   Invariants
     Refines   every live implementation slot satisfies its representation
               invariant (|container_| = content(size_)) and abstracts to the
               abstract slot; dead/moved slots agree in kind
     Laws      value semantics: a copy equals its source and the source is
               unchanged, swap twice is the identity, a write is read back at
               the same position and nowhere else, storage order = row-major
   `hist` (hidden by VIEW) is the operation history; with EmitScripts as a
   CONSTRAINT TLC prints one script per generated transition (spec -> code).
   Bug in {"swap", "move", "offset"} re-introduces a slip into the
   transcription: the vacuity guards of Refines. LawBug = TRUE breaks the
   abstract swap: the vacuity guard of Laws. *)
EXTENDS GridObj, Json

CONSTANTS NS, Sizes, Vals, Gens, RowShapes, MaxOps, Bug, LawBug

VARIABLES st, im, hist
vars == <<st, im, hist>>

Slots == 1..NS
Z2 == <<0, 0>>
Z3 == <<0, 0, 0>>
A(op, d, s, size, v, gen, p, k) == [op |-> op, d |-> d, s |-> s, size |-> size, v |-> v, gen |-> gen, p |-> p, k |-> k]
Probes == {<<x, y>> : x \in 0..3, y \in 0..3}

Actions ==
  {A("ctor_value", d, 0, sz, v, Z3, Z2, 0) : d \in Slots, sz \in Sizes, v \in Vals}
  \cup {A("ctor_fn", d, 0, sz, 0, g, Z2, 0) : d \in Slots, sz \in Sizes, g \in Gens}
  \cup {A("ctor_rows", d, 0, sh, 0, Z3, Z2, 0) : d \in Slots, sh \in RowShapes}
  \cup {A(op, d, s, Z2, 0, Z3, Z2, 0) : op \in {"copy_ctor", "move_ctor", "copy_assign", "move_assign", "swap"}, d \in Slots, s \in Slots}
  \cup {A("write_unsafe", d, 0, Z2, v, Z3, p, 0) : d \in Slots, v \in Vals, p \in Probes}
  \cup {A("write_at", d, 0, Z2, v, Z3, p, 0) : d \in Slots, v \in Vals, p \in Probes}
  \cup {A("write_iter", d, 0, Z2, v, Z3, Z2, k) : d \in Slots, v \in Vals, k \in 0..3}
  \cup {A("resize_assign", d, 0, sz, 0, g, Z2, 0) : d \in Slots, sz \in Sizes, g \in Gens}
  \cup {A("fill", d, 0, Z2, 0, g, Z2, 0) : d \in Slots, g \in Gens}
  \cup {A(op, d, 0, Z2, 0, Z3, Z2, 0) : op \in {"destroy", "output"}, d \in Slots}

AbsEff(s, a) ==
  IF LawBug /\ a.op = "swap" THEN [st |-> [s EXCEPT ![a.d] = s[a.s]], ret |-> 0] ELSE Eff(s, a)

Init ==
  /\ st = [k \in Slots |-> Dead]
  /\ im = [k \in Slots |-> IDead]
  /\ hist = <<>>

Next ==
  \E a \in Actions :
    /\ Len(hist) < MaxOps
    /\ Pre(st, a)
    /\ st' = AbsEff(st, a).st
    /\ im' = ImplEff(im, a, Bug)
    /\ hist' = Append(hist, a)

Spec == Init /\ [][Next]_vars
View == <<st, im>>

Refines ==
  \A k \in Slots :
    /\ im[k].k = st[k].k
    /\ IsLive(st[k]) => (IRepOk(im[k]) /\ IAbs(im[k]) = st[k].g)

(* laws of the abstract operations, evaluated in every reachable state for every enabled action *)
Laws ==
  \A a \in Actions : Pre(st, a) =>
    LET e == AbsEff(st, a).st IN
    /\ a.op \in {"copy_ctor", "copy_assign"} => (e[a.d] = st[a.s] /\ (a.d # a.s => e[a.s] = st[a.s]))
    /\ a.op = "swap" => (Pre(e, a) /\ AbsEff(e, a).st = st /\ e[a.d] = st[a.s] /\ e[a.s] = st[a.d])
    /\ a.op \in {"write_unsafe", "write_iter"} =>
         LET p == IF a.op = "write_unsafe" THEN a.p ELSE PosAt(st[a.d].g.size, a.k) IN
         /\ e[a.d].g.cell[p] = a.v
         /\ e[a.d].g.size = st[a.d].g.size
         /\ \A q \in Positions(st[a.d].g.size) \ {p} : e[a.d].g.cell[q] = st[a.d].g.cell[q]
         /\ Storage(e[a.d].g)[Offset(p, st[a.d].g.size) + 1] = a.v
    /\ a.op = "write_at" => (AbsEff(st, a).ret = 1 <=> a.p \in Positions(st[a.d].g.size))
    /\ \A k \in Slots \ {a.d, a.s} : e[k] = st[k]

EmitScripts == PrintT("SCRIPT " \o ToJson(hist))

MCSizes == {<<0, 0>>, <<1, 2>>, <<2, 1>>, <<2, 2>>}
MCGens == {<<10, 1, 2>>}
MCRows == {<<1, 1>>, <<3, 2>>}

=============================================================================
