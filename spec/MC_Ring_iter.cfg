SPECIFICATION RSpec
CONSTANTS
  NL = 2
  NE = 3
  AbsBug = "none"
  BugAssignEmpty = FALSE
  BugMoveUnlinked = FALSE
  BugDtorOneSided = FALSE
  BugMoveNoReset = FALSE
  BugListMoveCtor = FALSE
  WithIter = TRUE
VIEW RView
INVARIANTS TypeOK RingOK NoDeadRef NoUAF NoStaleHead WalkAgree Refines IterRefines
CONSTRAINT REmit
CHECK_DEADLOCK FALSE
