SPECIFICATION RLSpec
CONSTANT Reasons <- CodecReasons
INVARIANT RLVerdict
CONSTRAINT RLConsumed
POSTCONDITION RLPost
CHECK_DEADLOCK FALSE
