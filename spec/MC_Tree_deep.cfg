SPECIFICATION Spec
CONSTANTS
  NS = 3
  Val = {0}
  MaxNodes = 7
VIEW View
INVARIANTS TypeOK GeneratorSound Laws
CHECK_DEADLOCK FALSE
