------------------------------- MODULE Peg -------------------------------
(* Executable semantics of the fcppt.parse combinators (property C02): the rule set of
   DESIGN.md Appendix A, written clause by clause from doc/files/modules/parse.doxygen, the
   class documentation in libs/parse/include/fcppt/parse/*_decl.hpp and the *_impl.hpp anchors.

   A grammar is a tree of records (loaded from JSON, produced by gen/peg_family.py):
     leaves  [k |-> "eps"] "fail" "char" [k |-> "lit", c] [k |-> "cset", cs] [k |-> "compl", cs]
             [k |-> "str", w] "uint" "int" "float" [k |-> "probe", id]
     unary   (field g) "rep" "plus" "opt" "not" "fatal" "lexeme" "named" "ignore" "recursive" "base"
             [k |-> "conv", f] [k |-> "convif", f] [k |-> "cconst", v]
     binary  [k |-> "seq", l, r] [k |-> "alt", l, r] [k |-> "sep", i, s]
     list    [k |-> "list", b, i, s, e]
     ref     [k |-> "ref", n]  - nonterminal n of the production record ps
   every node carries its result type `ty` (checked against PegTypes by WellTyped).
   Skippers: [k |-> "eps"] [k |-> "lit", c] [k |-> "cset", cs] [k |-> "rep", g] [k |-> "seq", l, r].

   Input s: sequence of code points; p: number of characters consumed so far.
   Parse(g, sk, s, p, ps) = [ok, fatal, pos, val, probes]
     ok      success?                       fatal   (failure) is the error fatal?
     pos     (success) position reached     val     (success) the value (PegTypes)
     probes  positions at which user-defined probe parsers were entered, in order, as
             <<id, offset, line, column>> - also those entered inside branches that failed and
             were rewound: this makes the rewind positions observable.
   The position after a failure is never observable (every caller either rewinds or propagates
   the failure to the entry point) and is not modelled. *)
EXTENDS PegTypes, TextPos, TLC

(* "none" everywhere except in the vacuity-guard configurations of MC_Peg, where one rule is
   deliberately broken and TLC must report the corresponding law as violated:
   "not" (not_ moves the position), "alt" (the right alternative does not start at the entry
   position), "rep" (a repetition fails when its first element fails), "opt" (optional does not
   restore the position), "fatal" (alternative tries the right side after a fatal error),
   "loc" (error location before instead of after the offending character) *)
CONSTANT Bug

InSeq(c, cs) == \E i \in 1..Len(cs) : cs[i] = c

(* Error locations.  "Line l:c: Expected x, got y" is the message of a literal / char_set (parser
   or skipper) that read a character it does not accept (detail/expected.hpp; parse.doxygen, section
   Fatal Errors: "{ Line 1:3: Expected }, got ] OR Line 1:2: Expected [, got { }" for a | b and
   "Line 1:3: Expected }, got ]." when the first error is fatal); l:c is the location AFTER the
   offending character (property C12).  `locs` of a failure is the ordered list of the locations
   that the composed message must contain:
     <<l, c>>    a location that must be present (literal / char_set mismatch)
     <<-1, -1>>  a place where a location MAY be present (complement and string mismatches carry none
                 in the code and the documentation does not say; not judged)
   End of input ("EOF") carries no location.  Composition follows the documented control flow: a
   sequence returns the first error; an alternative whose sides both fail non-fatally contains
   the left error then the right error, a fatal error is returned alone; repetition / optional
   return the element's error only if it is fatal; named / not_ / convert_if / the number
   conversions produce their own message (no location).  The wording is not modelled. *)
LocAfter(s, p) == <<Line(s, p + 1), Col(s, p + 1)>>
MayLoc == <<-1, -1>>

Ok(p, v, pr) == [ok |-> TRUE, fatal |-> FALSE, pos |-> p, val |-> v, probes |-> pr, locs |-> <<>>]
FailL(f, pr, lc) == [ok |-> FALSE, fatal |-> f, pos |-> 0, val |-> VUnit, probes |-> pr, locs |-> lc]
Fail(f, pr) == FailL(f, pr, <<>>)

EpsSk == [k |-> "eps"]
DigitCs == <<48, 49, 50, 51, 52, 53, 54, 55, 56, 57>>

(* ------------------------------------------------------------------ skippers *)
SOk(p) == [ok |-> TRUE, pos |-> p, locs |-> <<>>]
SFail(lc) == [ok |-> FALSE, pos |-> 0, locs |-> lc]
(* one-character skipper failing at p: location after the character read, none at end of input *)
SMismatch(s, p) == SFail(IF p < Len(s) THEN <<IF Bug = "loc" THEN <<Line(s, p), Col(s, p)>> ELSE LocAfter(s, p)>> ELSE <<>>)

RECURSIVE Skip(_, _, _), SkipRep(_, _, _)
Skip(sk, s, p) ==
  CASE sk.k = "eps" -> SOk(p)
    [] sk.k = "lit" -> IF p < Len(s) /\ s[p + 1] = sk.c THEN SOk(p + 1) ELSE SMismatch(s, p)
    [] sk.k = "cset" -> IF p < Len(s) /\ InSeq(s[p + 1], sk.cs) THEN SOk(p + 1) ELSE SMismatch(s, p)
    [] sk.k = "seq" -> LET a == Skip(sk.l, s, p) IN IF a.ok THEN Skip(sk.r, s, a.pos) ELSE a
    [] sk.k = "rep" -> SkipRep(sk.g, s, p)
(* repetition: apply while it succeeds, committing after each success; on failure rewind to the
   last commit; no listed skipper fails fatally, so a repetition never fails.  (An operand that
   succeeds without consuming would loop forever in the code: excluded from the family.) *)
SkipRep(g, s, p) ==
  LET a == Skip(g, s, p) IN IF a.ok /\ a.pos > p THEN SkipRep(g, s, a.pos) ELSE SOk(p)

(* can this skipper fail?  (repetitions are only generated under skippers that cannot) *)
RECURSIVE SkCanFail(_)
SkCanFail(sk) ==
  CASE sk.k \in {"eps", "rep"} -> FALSE
    [] sk.k \in {"lit", "cset"} -> TRUE
    [] sk.k = "seq" -> SkCanFail(sk.l) \/ SkCanFail(sk.r)

(* ------------------------------------------------------------------ derived nodes *)
MkLit(c) == [k |-> "lit", c |-> c, ty |-> TUnit]
MkCSet(cs) == [k |-> "cset", cs |-> cs, ty |-> TChar]
MkSeq(l, r) == [k |-> "seq", l |-> l, r |-> r, ty |-> SeqTy(l.ty, r.ty)]
MkAlt(l, r) == [k |-> "alt", l |-> l, r |-> r, ty |-> AltTy(l.ty, r.ty)]
MkRep(g) == [k |-> "rep", g |-> g, ty |-> RepTy(g.ty)]
MkPlus(g) == [k |-> "plus", g |-> g, ty |-> RepTy(g.ty)]
MkOpt(g) == [k |-> "opt", g |-> g, ty |-> TOpt(g.ty)]
MkLexeme(g) == [k |-> "lexeme", g |-> g, ty |-> g.ty]
MkBox(g) == [k |-> "conv", f |-> "box", g |-> g, ty |-> TBox(g.ty)]
MkCConst(g, v, ty) == [k |-> "cconst", g |-> g, v |-> v, ty |-> ty]

(* value of a digit string, saturating above cap (TLC integers are 32-bit) *)
RECURSIVE DigitsVal(_, _, _)
DigitsVal(cs, acc, cap) ==
  IF cs = <<>> THEN acc
  ELSE LET n == acc * 10 + (Head(cs) - 48) IN DigitsVal(Tail(cs), IF n > cap THEN cap + 1 ELSE n, cap)

UIntMax == 65535     \* uint<unsigned short>

(* int_<int>: the digit string (without the sign) must denote a value <= 2147483647; decided on the
   digit string itself because TLC integers are 32-bit *)
RECURSIVE StripZeros(_), LexLE(_, _), PlainVal(_, _)
StripZeros(cs) == IF cs # <<>> /\ Head(cs) = 48 THEN StripZeros(Tail(cs)) ELSE cs
LexLE(a, b) == IF a = <<>> THEN TRUE ELSE IF Head(a) < Head(b) THEN TRUE ELSE IF Head(a) > Head(b) THEN FALSE
               ELSE LexLE(Tail(a), Tail(b))
IntMaxDigits == <<50, 49, 52, 55, 52, 56, 51, 54, 52, 55>>
IntFits(cs) == LET d == StripZeros(cs) IN Len(d) < 10 \/ (Len(d) = 10 /\ LexLE(d, IntMaxDigits))
PlainVal(cs, acc) == IF cs = <<>> THEN acc ELSE PlainVal(Tail(cs), acc * 10 + (Head(cs) - 48))

(* user-supplied conversion functions of the generated family (gen/peg_family.py) *)
ConvVal(f, v) ==
  CASE f = "code" -> VInt(v.c)                                    \* char -> its code
    [] f = "len" -> VInt(IF v.t = "str" THEN Len(v.cs) ELSE Len(v.es))  \* string/vector -> size
    [] f = "box" -> VBox(v)                                       \* construct<boxed<T>>
    [] f = "inc" -> VInt(v.n + 1)
    [] f = "struct" -> VBox(v)     \* as_struct<S>: "Result{t_1,...,t_n}" - the struct of the tuple's elements
    [] f = "swap" -> VTup(<<v.es[2], v.es[1]>>)                   \* convert on a 2-tuple
    [] f = "jvalue" -> VBox(v)                                    \* construct<json::value>
(* no key occurs twice in a vector of (string, value) entries *)
UniqueKeys(es) == \A i \in 1..Len(es) : \A j \in 1..Len(es) : i # j => es[i].es[1] # es[j].es[1]
(* convert_if functions: [ok, val] *)
ConvIf(f, v) ==
  CASE f = "is_a" -> [ok |-> v.c = 97, val |-> VInt(1)]           \* char: 'a' -> 1, else error
    [] f = "nonempty" -> [ok |-> (IF v.t = "str" THEN Len(v.cs) ELSE Len(v.es)) > 0, val |-> v]
    [] f = "ordered" -> [ok |-> v.es[1].c <= v.es[2].c, val |-> v]  \* 2-tuple of chars, first <= second
    [] f = "uniqkeys" -> [ok |-> UniqueKeys(v.es), val |-> v]      \* JSON object: "Double insert" error

(* ------------------------------------------------------------------ parsers *)
RECURSIVE Parse(_, _, _, _, _), RepLoop(_, _, _, _, _, _, _)

(* one-character parser failing at p *)
Mismatch(s, p, may) ==
  FailL(FALSE, <<>>, IF p >= Len(s) THEN <<>> ELSE IF may THEN <<MayLoc>>
                     ELSE <<IF Bug = "loc" THEN <<Line(s, p), Col(s, p)>> ELSE LocAfter(s, p)>>)

(* repetition(g) from position q with acc collected so far: element, then skipper; the position
   is committed only after both succeeded; any failure ends the loop and rewinds to the last
   commit; the repetition fails only if that failure is fatal. *)
RepLoop(g, sk, s, q, acc, pr, ps) ==
  LET e == Parse(g, sk, s, q, ps) IN
  IF ~e.ok THEN (IF e.fatal THEN FailL(TRUE, pr \o e.probes, e.locs) ELSE Ok(q, acc, pr \o e.probes))
  ELSE LET k == Skip(sk, s, e.pos) IN
       IF ~k.ok \/ k.pos = q THEN Ok(q, acc, pr \o e.probes)   \* (skipper failure: family restriction)
       ELSE RepLoop(g, sk, s, k.pos, Append(acc, e.val), pr \o e.probes, ps)

(* result e of an operand passed through with its value mapped *)
MapVal(e, v) == IF e.ok THEN Ok(e.pos, v, e.probes) ELSE e

Parse(g, sk, s, p, ps) ==
  CASE g.k = "eps" -> Ok(p, VUnit, <<>>)
    [] g.k = "fail" -> Fail(FALSE, <<>>)
    [] g.k = "probe" -> Ok(p, VUnit, <<<<g.id, p, Line(s, p), Col(s, p)>>>>)
    [] g.k = "char" -> IF p < Len(s) THEN Ok(p + 1, VChar(s[p + 1]), <<>>) ELSE Fail(FALSE, <<>>)
    [] g.k = "lit" -> IF p < Len(s) /\ s[p + 1] = g.c THEN Ok(p + 1, VUnit, <<>>) ELSE Mismatch(s, p, FALSE)
    [] g.k = "cset" -> IF p < Len(s) /\ InSeq(s[p + 1], g.cs) THEN Ok(p + 1, VChar(s[p + 1]), <<>>)
                       ELSE Mismatch(s, p, FALSE)
    [] g.k = "compl" -> IF p < Len(s) /\ ~InSeq(s[p + 1], g.cs) THEN Ok(p + 1, VChar(s[p + 1]), <<>>)
                        ELSE Mismatch(s, p, TRUE)
    [] g.k = "str" -> IF p + Len(g.w) <= Len(s) /\ SubSeq(s, p + 1, p + Len(g.w)) = g.w
                      THEN Ok(p + Len(g.w), VUnit, <<>>) ELSE FailL(FALSE, <<>>, <<MayLoc>>)
    [] g.k = "seq" ->
         \* left; skipper; right; the first failure is the result; no rewind
         LET l == Parse(g.l, sk, s, p, ps) IN
         IF ~l.ok THEN l
         ELSE LET k == Skip(sk, s, l.pos) IN
              IF ~k.ok THEN FailL(FALSE, l.probes, k.locs)
              ELSE LET r == Parse(g.r, sk, s, k.pos, ps) IN
                   IF ~r.ok THEN FailL(r.fatal, l.probes \o r.probes, r.locs)
                   ELSE Ok(r.pos, SeqVal(g.l.ty, g.r.ty, l.val, r.val), l.probes \o r.probes)
    [] g.k = "alt" ->
         \* left at p; success -> that; fatal -> that; otherwise right at p (rewound); if both fail
         \* non-fatally the error holds the left error, then the right error; a fatal right error alone
         LET l == Parse(g.l, sk, s, p, ps) IN
         IF l.ok THEN Ok(l.pos, AltVal(g.ty, g.l.ty, l.val), l.probes)
         ELSE IF l.fatal /\ Bug # "fatal" THEN l
         ELSE LET r == Parse(g.r, sk, s, IF Bug = "alt" /\ p < Len(s) THEN p + 1 ELSE p, ps) IN
              IF r.ok THEN Ok(r.pos, AltVal(g.ty, g.r.ty, r.val), l.probes \o r.probes)
              ELSE FailL(r.fatal, l.probes \o r.probes, IF r.fatal THEN r.locs ELSE l.locs \o r.locs)
    [] g.k = "rep" ->
         LET r == RepLoop(g.g, sk, s, p, <<>>, <<>>, ps) IN
         IF Bug = "rep" /\ r.ok /\ r.val = <<>> THEN Fail(FALSE, r.probes)
         ELSE IF r.ok THEN Ok(r.pos, RepVal(g.g.ty, r.val), r.probes) ELSE r
    [] g.k = "plus" ->
         \* p >> *p with the head prepended
         LET h == Parse(g.g, sk, s, p, ps) IN
         IF ~h.ok THEN h
         ELSE LET k == Skip(sk, s, h.pos) IN
              IF ~k.ok THEN FailL(FALSE, h.probes, k.locs)
              ELSE LET r == RepLoop(g.g, sk, s, k.pos, <<>>, <<>>, ps) IN
                   IF ~r.ok THEN FailL(TRUE, h.probes \o r.probes, r.locs)
                   ELSE Ok(r.pos, RepVal(g.g.ty, <<h.val>> \o r.val), h.probes \o r.probes)
    [] g.k = "opt" ->
         LET e == Parse(g.g, sk, s, p, ps) IN
         IF e.ok THEN Ok(e.pos, VSome(e.val), e.probes)
         ELSE IF e.fatal THEN e
         ELSE Ok(IF Bug = "opt" /\ p < Len(s) THEN p + 1 ELSE p, VNone, e.probes)
    [] g.k = "not" ->
         \* always rewinds; a failure of the operand - fatal or not - is a success
         LET e == Parse(g.g, sk, s, p, ps) IN
         IF e.ok THEN Fail(FALSE, e.probes)
         ELSE Ok(IF Bug = "not" /\ p < Len(s) THEN p + 1 ELSE p, VUnit, e.probes)
    [] g.k = "fatal" -> LET e == Parse(g.g, sk, s, p, ps) IN IF e.ok THEN e ELSE FailL(TRUE, e.probes, e.locs)
    [] g.k = "named" -> LET e == Parse(g.g, sk, s, p, ps) IN IF e.ok THEN e ELSE Fail(FALSE, e.probes)
    [] g.k = "lexeme" -> Parse(g.g, EpsSk, s, p, ps)
    [] g.k = "base" -> Parse(g.g, sk, s, p, ps)
    [] g.k = "ref" -> Parse(ps[g.n], sk, s, p, ps)
    [] g.k = "ignore" -> LET e == Parse(g.g, sk, s, p, ps) IN MapVal(e, VUnit)
    [] g.k = "recursive" -> LET e == Parse(g.g, sk, s, p, ps) IN MapVal(e, VRec(e.val))
    [] g.k = "conv" -> LET e == Parse(g.g, sk, s, p, ps) IN MapVal(e, IF e.ok THEN ConvVal(g.f, e.val) ELSE VUnit)
    [] g.k = "cconst" -> LET e == Parse(g.g, sk, s, p, ps) IN MapVal(e, g.v)
    [] g.k = "convif" ->
         LET e == Parse(g.g, sk, s, p, ps) IN
         IF ~e.ok THEN e
         ELSE LET c == ConvIf(g.f, e.val) IN IF c.ok THEN Ok(e.pos, c.val, e.probes) ELSE Fail(FALSE, e.probes)
    [] g.k = "sep" ->
         \* documented derived form: -(inner >> *(sep >> inner)), flattened to a vector
         LET d == MkOpt(MkSeq(MkBox(g.i), MkRep(MkSeq(g.s, g.i))))
             e == Parse(d, sk, s, p, ps)
         IN IF ~e.ok THEN e
            ELSE IF e.val.es = <<>> THEN Ok(e.pos, VVec(<<>>), e.probes)
            ELSE LET t == e.val.es[1] IN
                 Ok(e.pos, VVec(<<t.es[1].v>> \o RepElems(t.es[2])), e.probes)
    [] g.k = "list" ->
         \* start >> (convert_const(end, {}) | (separator >> end))
         LET sepn == [k |-> "sep", i |-> g.i, s |-> g.s, ty |-> TVec(g.i.ty)]
             d == MkSeq(g.b, MkAlt(MkCConst(g.e, VVec(<<>>), TVec(g.i.ty)), MkSeq(sepn, g.e)))
         IN Parse(d, sk, s, p, ps)
    [] g.k = "uint" ->
         \* lexeme(+digit), then conversion; fails if the digits exceed the type
         LET e == Parse(MkLexeme(MkPlus(MkCSet(DigitCs))), sk, s, p, ps) IN
         IF ~e.ok THEN e
         ELSE LET n == DigitsVal(e.val.cs, 0, UIntMax) IN
              IF n > UIntMax THEN Fail(FALSE, <<>>) ELSE Ok(e.pos, VUInt(n), <<>>)
    [] g.k = "int" ->
         \* lexeme(-literal('-') >> +digit); the digits are converted to the signed type, then negated
         LET e == Parse(MkLexeme(MkSeq(MkOpt(MkLit(45)), MkPlus(MkCSet(DigitCs)))), sk, s, p, ps) IN
         IF ~e.ok THEN e
         ELSE LET ds == e.val.es[2].cs
                  neg == e.val.es[1].es # <<>>
              IN IF ~IntFits(ds) THEN Fail(FALSE, <<>>)
                 ELSE LET n == PlainVal(StripZeros(ds), 0) IN Ok(e.pos, VInt(IF neg THEN 0 - n ELSE n), <<>>)
    [] g.k = "float" ->
         \* lexeme(-'-' >> +digit >> '.' >> +digit); the floating value itself is not judged
         LET dg == MkPlus(MkCSet(DigitCs))
             e == Parse(MkLexeme(MkSeq(MkSeq(MkSeq(MkOpt(MkLit(45)), dg), MkLit(46)), dg)), sk, s, p, ps)
         IN IF ~e.ok THEN e ELSE Ok(e.pos, VFloat, <<>>)

(* ------------------------------------------------------------------ entry points *)
(* The result as the harness logs it: [ok, fatal, val (flat), probes, locs].
   "string": phrase_parse_string(g, s, sk) (parse_string = the same with the epsilon skipper;
      grammar_parse_string = the same with the grammar's start symbol and skipper): run the skipper,
      then the parser (phrase_parse.hpp: "First, the skipper is called. If this succeeds, then the
      result of parsing the input with the parser and the skipper is returned"); success only if the
      whole input was consumed - there is NO trailing skipper run.
   "stream": phrase_parse_stream / parse_stream / grammar_parse_stream over a std stream: the same
      without the remaining-input check (what remains readable afterwards is not documented and
      not judged).
   "bad":    phrase_parse_stream of  g >> B >> char_  where the user-defined parser B puts the
      underlying std stream into the bad state: whatever touches the stream next throws, and
      phrase_parse "catches all exceptions produced by the input and returns them as an error":
      never a success; the probes are those of g. *)
Res(ok, fatal, val, pr, lc) == [ok |-> ok, fatal |-> fatal, val |-> val, probes |-> pr, locs |-> lc]
Run(mode, g, sk, s, ps) ==
  LET k == Skip(sk, s, 0) IN
  IF ~k.ok THEN Res(FALSE, FALSE, <<>>, <<>>, k.locs)
  ELSE LET r == Parse(g, sk, s, k.pos, ps) IN
       IF ~r.ok THEN Res(FALSE, r.fatal, <<>>, r.probes, r.locs)
       ELSE IF mode = "bad" THEN Res(FALSE, FALSE, <<>>, r.probes, <<>>)
       ELSE IF mode = "string" /\ r.pos < Len(s) THEN Res(FALSE, FALSE, <<>>, r.probes, <<>>)
       ELSE Res(TRUE, FALSE, Enc(r.val), r.probes, <<>>)

(* do the `Line l:c` locations found in a real error message (in order) fit the locations of the
   specification's error?  must-entries have to be there, may-entries may be there (any value) *)
RECURSIVE LocsMatch(_, _)
LocsMatch(logged, spec) ==
  IF spec = <<>> THEN logged = <<>>
  ELSE IF Head(spec) = MayLoc
       THEN LocsMatch(logged, Tail(spec)) \/ (logged # <<>> /\ LocsMatch(Tail(logged), Tail(spec)))
       ELSE logged # <<>> /\ Head(logged) = Head(spec) /\ LocsMatch(Tail(logged), Tail(spec))

(* ------------------------------------------------------------------ static checks on a grammar *)
Kids(g) ==
  CASE g.k \in {"seq", "alt"} -> <<g.l, g.r>>
    [] g.k = "sep" -> <<g.i, g.s>>
    [] g.k = "list" -> <<g.b, g.i, g.s, g.e>>
    [] g.k \in {"rep", "plus", "opt", "not", "fatal", "lexeme", "named", "ignore", "recursive", "base",
                "conv", "convif", "cconst"} -> <<g.g>>
    [] OTHER -> <<>>

RECURSIVE Subterms(_)
Subterms(g) == {g} \cup UNION {Subterms(Kids(g)[i]) : i \in 1..Len(Kids(g))}

(* the type every node must carry, by the PegTypes rules *)
TyOf(g) ==
  CASE g.k \in {"eps", "fail", "probe", "lit", "str", "not", "ignore"} -> TUnit
    [] g.k \in {"char", "cset", "compl"} -> TChar
    [] g.k = "uint" -> TUInt [] g.k = "int" -> TInt [] g.k = "float" -> TFloat
    [] g.k \in {"rep", "plus"} -> RepTy(g.g.ty)
    [] g.k = "opt" -> TOpt(g.g.ty)
    [] g.k \in {"fatal", "lexeme", "named", "base"} -> g.g.ty
    [] g.k = "recursive" -> TRec(g.g.ty)
    [] g.k = "conv" -> (CASE g.f \in {"box", "struct", "jvalue"} -> TBox(g.g.ty)
                          [] g.f = "swap" -> TTup(<<g.g.ty.es[2], g.g.ty.es[1]>>)
                          [] OTHER -> TInt)
    [] g.k = "convif" -> (IF g.f = "is_a" THEN TInt ELSE g.g.ty)
    [] g.k = "cconst" -> g.ty
    [] g.k = "seq" -> SeqTy(g.l.ty, g.r.ty)
    [] g.k = "alt" -> AltTy(g.l.ty, g.r.ty)
    [] g.k \in {"sep", "list"} -> TVec(g.i.ty)
    [] g.k = "ref" -> g.ty

(* static_asserts of the library / argument requirements of the conversion functions *)
ArgsOK(g) ==
  CASE g.k \in {"not", "cconst"} -> g.g.ty = TUnit
    [] g.k = "sep" -> g.s.ty = TUnit
    [] g.k = "list" -> g.b.ty = TUnit /\ g.s.ty = TUnit /\ g.e.ty = TUnit
    [] g.k = "plus" -> g.g.ty.t \notin {"unit", "tup"}
    [] g.k = "conv" -> (CASE g.f = "code" -> g.g.ty = TChar [] g.f = "len" -> g.g.ty.t \in {"str", "vec"}
                          [] g.f = "inc" -> g.g.ty = TInt
                          [] g.f = "struct" -> g.g.ty.t = "tup"
                          [] g.f = "swap" -> g.g.ty.t = "tup" /\ Len(g.g.ty.es) = 2
                          [] OTHER -> TRUE)
    [] g.k = "convif" -> (CASE g.f = "is_a" -> g.g.ty = TChar
                            [] g.f = "ordered" -> g.g.ty = TTup(<<TChar, TChar>>)
                            [] OTHER -> g.g.ty.t \in {"str", "vec"})
    [] OTHER -> TRUE

WellTyped(g) == \A h \in Subterms(g) : h.ty = TyOf(h) /\ ArgsOK(h)

(* can the parser succeed without consuming input?  (conservative) *)
RECURSIVE Nullable(_)
Nullable(g) ==
  CASE g.k \in {"eps", "probe", "rep", "opt", "not", "sep"} -> TRUE
    [] g.k \in {"fail", "char", "lit", "cset", "compl", "uint", "int", "float", "ref"} -> FALSE
    [] g.k = "str" -> g.w = <<>>
    [] g.k = "seq" -> Nullable(g.l) /\ Nullable(g.r)
    [] g.k = "alt" -> Nullable(g.l) \/ Nullable(g.r)
    [] g.k = "list" -> Nullable(g.b) /\ Nullable(g.e)
    [] OTHER -> Nullable(g.g)

(* no repetition of a nullable parser (the loop would not terminate, by design) *)
NoNullableRep(g) ==
  \A h \in Subterms(g) :
    /\ h.k \in {"rep", "plus"} => ~Nullable(h.g)
    /\ h.k \in {"sep", "list"} => ~Nullable(h.i) \/ ~Nullable(h.s)

HasKind(g, ks) == \E h \in Subterms(g) : h.k \in ks
=============================================================================
