SPECIFICATION Spec
CONSTANTS
  MaxLen = 4
  MaxLenCheap = 4
  KindLen = 3
  InitAll = FALSE
  BugNextArgNoSkip = FALSE
  BugUseFlagAll = TRUE
  BugOptionalOrigState = FALSE
  BugNames = "none"
  BugErrorState = "none"
  BugMissingIsOther = FALSE
  BugUsage = "none"
VIEW View
INVARIANTS TypeOK FamilyTerminates ConsumedExactlyOnce OptionValueNotPositional FlagNeverFails HelpLaw SuccessLeavesNothing
CHECK_DEADLOCK FALSE
