SPECIFICATION Spec
CONSTANTS
  MaxD = 6
  Origins <- OriginSet
  SpiralBug = 2
VIEW View
CONSTRAINT Bounded
INVARIANTS AtEnd
