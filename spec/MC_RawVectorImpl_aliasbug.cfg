SPECIFICATION ISpec
CONSTANTS
  NV = 2
  NB = 0
  Val = {0, 1}
  MaxLen = 3
  MaxW = 0
  MaxCap = 12
  AliasBug = TRUE
  EraseRetBug = FALSE
VIEW IView
INVARIANTS Refines
CHECK_DEADLOCK FALSE
