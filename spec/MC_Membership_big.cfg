SPECIFICATION Spec
CONSTANTS
  NL = 3
  NE = 6
  AbsBug = "none"
VIEW View
INVARIANTS TypeOK LawMembersAlive LawNoDup LawFrame
CHECK_DEADLOCK FALSE
