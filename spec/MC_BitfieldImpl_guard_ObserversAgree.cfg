SPECIFICATION ISpec
CONSTANTS
  N <- EnvN
  W <- EnvW
  Bug <- EnvBug
  FullOps <- EnvFull
VIEW IView
INVARIANT ObserversAgree
CHECK_DEADLOCK FALSE
