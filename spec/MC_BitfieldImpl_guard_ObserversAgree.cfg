SPECIFICATION ISpec
CONSTANTS
  N <- EnvN
  W <- EnvW
  Bug <- EnvBug
VIEW IView
INVARIANT ObserversAgree
CHECK_DEADLOCK FALSE
