----------------------------- MODULE PegJudge -----------------------------
(* Judge for C02: every record of the log written by harness/c02_main.cpp
     {"f":"parse","g":grammar id,"sk":skipper name,"ch":0|1,"s":[code points],
      "ok":..,"fatal":..,"val":[flat value],"probes":[[id,off,line,col],...]}
   is one call of parse_string / phrase_parse_string / grammar_parse_string on the real
   combinators.  TLC evaluates the specification's Run on the same grammar (grammars.json, env
   GRAMMARS), skipper and input and compares success, the fatal flag of a failure, the value of a
   success and the positions at which the probe parsers were entered.  Error text is not
   compared. *)
EXTENDS Peg, RecordLoop

G == JsonDeserialize(IOEnv.GRAMMARS)
GOf(id) == IF id > 9000 THEN G.recursive[id - 9000] ELSE G.grammars[id]

PegReasons(r) ==
  LET gr == GOf(r.g) IN
  IF gr.id # r.g \/ ~(\E i \in 1..Len(gr.sks) : gr.sks[i] = r.sk) THEN {"HARNESS-PRECONDITION"}
  ELSE LET e == Run(gr.g, G.skippers[r.sk], r.s, gr.ps) IN
       (IF r.ok = e.ok THEN {}
        ELSE {IF e.ok THEN "failure-where-the-semantics-succeeds" ELSE "success-where-the-semantics-fails"})
       \cup (IF ~r.ok /\ ~e.ok /\ r.fatal # e.fatal THEN {"fatal-flag"} ELSE {})
       \cup (IF r.ok /\ e.ok /\ r.val # e.val THEN {"value"} ELSE {})
       \cup (IF r.probes # e.probes THEN {"probe-positions"} ELSE {})
=============================================================================
