----------------------------- MODULE PegJudge -----------------------------
(* Judge for C02: every record of the log written by harness/c02_main.cpp
     {"f":"parse","g":grammar id,"sk":skipper name,"ch":0|1,"s":[code points],
      "e":"string"|"stream"|"bad","ok":..,"fatal":..,"val":[flat value],
      "probes":[[id,off,line,col],...],"locs":[[line,col],...]}
   is one call of parse_string / phrase_parse_string / grammar_parse_string ("string"), of
   parse_stream / phrase_parse_stream / grammar_parse_stream ("stream") or of phrase_parse_stream on
   a stream that is put into the bad state at the end of the grammar ("bad") on the real
   combinators; locs = the `Line l:c: ` occurrences of the error message, in order.  TLC evaluates the specification's Run on the same grammar (grammars.json, env
   GRAMMARS), skipper and input and compares success, the fatal flag of a failure, the value of a
   success, the positions at which the probe parsers were entered and the error locations of a
   failure.  Error wording is not compared. *)
EXTENDS Peg, RecordLoop

G == JsonDeserialize(IOEnv.GRAMMARS)
GOf(id) == IF id > 9000 THEN G.recursive[id - 9000] ELSE G.grammars[id]

(* Scope (docs/EXTENSION_BRIEF.md, clarification).  The statement of C02: "For every grammar assembled
   from the fcppt.parse parsers and skippers and every input string, parsing yields exactly the outcome
   of the documented semantics: alternatives are tried left to right with the input rewound in between,
   repetitions and optionals are greedy and never fail (unless a fatal error occurs), sequences run the
   skipper between their parts, negative lookahead consumes nothing, fatal errors stop backtracking, and
   the string entry points succeed if and only if the whole input was consumed. The value produced on
   success is the one determined by that unique derivation."  (quantifier: literal, char_set, complement,
   char_, string, epsilon, fail, int_/uint/float_, sequence, alternative, repetition, repetition_plus,
   optional, not_, fatal, lexeme, separator, list, convert/convert_if/construct/ignore, named,
   recursive/base/grammar; observed at the return value of parse_string / phrase_parse_string /
   grammar_parse_string: success value or failure, fatal flag.)
   Inside: records of the STRING entry points of grammars built from the listed combinators - outcome,
   fatal flag, value, and the probe positions (they are how "the input rewound in between" is observed).
   OBSERVED ONLY (reason prefixed "obs:"; never a VIOLATION):
     - the error locations of a failure (error messages are not in the statement);
     - the stream entry points ("stream") and the stream that turns bad ("bad") - the statement speaks of
       input strings and the string entry points;
     - grammars using as_struct (not in the statement's list of combinators). *)
UsesAsStruct(gr) ==
  \E h \in Subterms(gr.g) \cup UNION {Subterms(gr.ps[n]) : n \in DOMAIN gr.ps} : h.k = "conv" /\ h.f = "struct"
RecordInScope(r, gr) == r.e = "string" /\ ~UsesAsStruct(gr)

PegReasons(r) ==
  LET gr == GOf(r.g) IN
  IF gr.id # r.g \/ ~(\E i \in 1..Len(gr.sks) : gr.sks[i] = r.sk) THEN {"HARNESS-PRECONDITION"}
  ELSE IF r.e \notin {"string", "stream", "bad"} THEN {"HARNESS-PRECONDITION"}
  ELSE LET e == Run(r.e, gr.g, G.skippers[r.sk], r.s, gr.ps)
           inside == RecordInScope(r, gr)
           Tag(w) == IF inside THEN w ELSE "obs:" \o r.e \o ":" \o w
       IN
       \* an exception leaving an entry point is no outcome of the documented semantics (a verdict for the string
       \* entry points of the statement over a healthy stream, an observation for the others)
       (IF r.exc THEN {Tag("exception-escaped")} ELSE {}) \cup
       (IF r.ok = e.ok THEN {}
        ELSE {Tag(IF e.ok THEN "failure-where-the-semantics-succeeds" ELSE "success-where-the-semantics-fails")})
       \cup (IF ~r.ok /\ ~e.ok /\ r.fatal # e.fatal THEN {Tag("fatal-flag")} ELSE {})
       \cup (IF r.ok /\ e.ok /\ r.val # e.val THEN {Tag("value")} ELSE {})
       \cup (IF r.probes # e.probes THEN {Tag("probe-positions")} ELSE {})
       \cup (IF ~r.ok /\ ~e.ok /\ ~LocsMatch(r.locs, e.locs) THEN {"obs:" \o r.e \o ":error-locations"} ELSE {})
=============================================================================
