SPECIFICATION Spec
CONSTANTS
  MaxObj = 4
  Allowed = {"lvalue-argument-modified"}
  LCat = "lvalue"
INVARIANTS InvLvalueIntact
CHECK_DEADLOCK FALSE
