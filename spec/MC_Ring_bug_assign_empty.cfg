SPECIFICATION RSpec
CONSTANTS
  NL = 2
  NE = 2
  AbsBug = "none"
  BugAssignEmpty = TRUE
  BugMoveUnlinked = FALSE
  BugDtorOneSided = FALSE
  BugMoveNoReset = FALSE
  BugListMoveCtor = FALSE
  WithIter = FALSE
VIEW RView
INVARIANTS RingOK
CHECK_DEADLOCK FALSE
