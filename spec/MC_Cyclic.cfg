SPECIFICATION Spec
CONSTANTS
  MaxLen = 6
  MaxN = 20
  NoFixBug = FALSE
  StepBug = FALSE
INVARIANTS Inside StepLaw AdvanceLaw RALaw PostLaw SubscriptLaw
