SPECIFICATION SSpec
CONSTANTS
  NL = 3
  NE = 4
  AbsBug = "none"
  SigBug = "none"
VIEW SView
INVARIANTS TypeOK LawUnregisterOnce LawCalledAreLive LawCallExplained
CHECK_DEADLOCK FALSE
