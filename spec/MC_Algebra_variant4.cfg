SPECIFICATION Spec
CONSTANTS
  N = 3
  Bug = "none"
  Group = "variant4"
  MaxLen = 0
INVARIANTS TypeOK LawVariantAssign LawVarAccessors LawDynamicCast
