SPECIFICATION ASpec
CONSTANTS
  Sym = {97, 10, 32, 9}
  MaxLen = 3
  WithFailAt = TRUE
  MaxOps = 99
VIEW AView
INVARIANTS ATypeOK PosLaws ModelExplained SavedValid EqLaw
CHECK_DEADLOCK FALSE
