SPECIFICATION Spec
CONSTANTS
  T = "i8"
  Dom <- DomEdgeT
  ClampBug = FALSE
  SizeBug = TRUE
  DefBug = FALSE
INVARIANTS SizeLaw
