------------------------------ MODULE BoxLaws ------------------------------
(* Formula level == point-set level (Box.tla), model-checked for every pair
   of boxes (a, b) with corners in -Rad..Rad in N dimensions - the input space is
   the set of initial states, every law is an invariant, a failing case is a
   one-state counterexample.  Points range over the cube Lo-1..Hi+1, shrink /
   stretch amounts over 0..2.

   Bug = k (k = 1..12) swaps one formula for a plausible wrong one: the
   vacuity guard of the k-th law (the check requires TLC to refute it). *)
EXTENDS Box

CONSTANTS N, Rad, Bug, OldDistance
Lo == -Rad
Hi == Rad

(* TLC computes (and checks) initial states with one thread: the first box is
   chosen by Init, the second by the only action, so that the pairs are
   spread over all workers.  Laws about one box are checked in the initial
   states (ph = 0), laws about a pair in their successors (ph = 1). *)
VARIABLES a, b, ph
Coord == [1..N -> Lo..Hi]
Boxes == [pos : Coord, max : Coord]
Init == a \in Boxes /\ b = a /\ ph = 0
Next == ph = 0 /\ ph' = 1 /\ b' \in Boxes /\ a' = a
Spec == Init /\ [][Next]_<<a, b, ph>>
One == ph = 0
Two == ph = 1

Points == [1..N -> (Lo - 1)..(Hi + 1)]
Amounts == [1..N -> 0..2]
Plus(p, v) == [i \in 1..N |-> p[i] + v[i]]
Minus(p, v) == [i \in 1..N |-> p[i] - v[i]]

(* the formulas under test, with the bug switch *)
tNE(x) == IF Bug = 1 THEN \A i \in 1..N : x.pos[i] <= x.max[i] ELSE NonEmpty(x)
tCP(x, p) == IF Bug = 2 THEN \A i \in 1..N : x.pos[i] <= p[i] /\ p[i] <= x.max[i] ELSE FContainsPoint(x, p)
tIS(x, y) == IF Bug = 3 THEN \A i \in 1..N : y.pos[i] <= x.max[i] /\ x.pos[i] <= y.max[i] ELSE FIntersects(x, y)
tIN(x, y) ==
  IF Bug = 4
  THEN (IF FIntersects(x, y)
        THEN Box([i \in 1..N |-> IF i = 1 THEN Min2(x.pos[i], y.pos[i]) ELSE Max2(x.pos[i], y.pos[i])],
                 [i \in 1..N |-> Min2(x.max[i], y.max[i])])
        ELSE Null(N))
  ELSE IF Bug = 5 THEN Box([i \in 1..N |-> Max2(x.pos[i], y.pos[i])], [i \in 1..N |-> Min2(x.max[i], y.max[i])])  \* no null box
  ELSE FIntersection(x, y)
tCO(o, i) == IF Bug = 6 THEN \A k \in 1..N : i.pos[k] > o.pos[k] /\ i.max[k] <= o.max[k] ELSE FContains(o, i)
tEX(x, y) == IF Bug = 7 THEN Box([i \in 1..N |-> Max2(x.pos[i], y.pos[i])], [i \in 1..N |-> Max2(x.max[i], y.max[i])]) ELSE FExtend(x, y)
tEP(x, p) == IF Bug = 8 THEN Box(x.pos, [i \in 1..N |-> Max2(p[i], x.max[i])]) ELSE FExtendPoint(x, p)
tCN(x) == IF Bug = 9 THEN {[i \in 1..N |-> IF i \in s THEN x.max[i] - 1 ELSE x.pos[i]] : s \in SUBSET (1..N)} ELSE Corners(x)
tSH(x, v) == IF Bug = 10 THEN Box(Plus(x.pos, v), x.max) ELSE Shrink(x, v)
tST(x, v) == IF Bug = 10 THEN Box(Minus(x.pos, v), x.max) ELSE Stretch(x, v)
tCE(x) == IF Bug = 11 THEN [i \in 1..N |-> x.pos[i] + (x.max[i] - x.pos[i] + 1) \div 2] ELSE Center(x)
tID(a1, a2, b1, b2) == IF Bug = 12 THEN {Max2(b1 - a2, a1 - b2) + 1} ELSE IntervalDistances(a1, a2, b1, b2)

PtsLaw == One =>
  /\ tNE(a) <=> Pts(a) # {}
  /\ NonEmpty(a) => (a = BoundingBox(Pts(a)) /\ Cardinality(Pts(a)) = ProdTo(Size(a), N))
ContainsPointLaw == One => \A p \in Points : tCP(a, p) <=> SContainsPoint(a, p)
IntersectsLaw == (Two /\ NonEmpty(a) /\ NonEmpty(b)) => (tIS(a, b) <=> SIntersects(a, b))
IntersectionLaw == Two => SIsIntersection(tIN(a, b), a, b)
ContainsLaw == (Two /\ NonEmpty(b)) => (tCO(a, b) <=> SContains(a, b))
ExtendLaw ==
  (Two /\ NonEmpty(a) /\ NonEmpty(b)) =>
    /\ tEX(a, b) = SExtend(a, b)
    /\ Pts(a) \cup Pts(b) \subseteq Pts(tEX(a, b))
ExtendPointLaw ==
  (One /\ NonEmpty(a)) => \A p \in Points :
    /\ p \in Pts(a) => tEP(a, p) = a
    /\ Pts(a) \subseteq Pts(tEP(a, p))
    /\ \A i \in 1..N : tEP(a, p).pos[i] <= p[i] /\ p[i] <= tEP(a, p).max[i]
    /\ tEP(a, p) = FExtend(a, Box(p, p))
CornerLaw ==
  (One /\ NonEmpty(a)) =>
    /\ Cardinality(tCN(a)) = 2 ^ N
    /\ BoundingBox({[i \in 1..N |-> IF c[i] = a.max[i] THEN c[i] - 1 ELSE c[i]] : c \in tCN(a)}) = a
ShrinkStretchLaw == One =>
  \A v \in Amounts :
    /\ Pts(tSH(a, v)) = {p \in Pts(a) : Minus(p, v) \in Pts(a) /\ Plus(p, v) \in Pts(a)}
    /\ NonEmpty(a) => Pts(tST(a, v)) = {Plus(p, d) : p \in Pts(a), d \in [1..N -> -2..2]} \cap
                                      {p \in Pts(tST(a, v)) : \E q \in Pts(a) : \A i \in 1..N : AbsI(p[i] - q[i]) <= v[i]}
    /\ NonEmpty(a) => \A p \in Pts(a) : \A d \in [1..N -> -2..2] :
                        (\A i \in 1..N : AbsI(d[i]) <= v[i]) => Plus(p, d) \in Pts(tST(a, v))
    /\ tSH(tST(a, v), v) = a
CenterLaw ==
  (One /\ NonEmpty(a)) =>
    /\ tCE(a) \in Pts(a)
    /\ \A i \in 1..N : LET below == tCE(a)[i] - a.pos[i]
                           above == a.max[i] - 1 - tCE(a)[i]
                       IN below - above \in {0, 1}
DistanceLaw ==
  (Two /\ NonEmpty(a) /\ NonEmpty(b)) => \A i \in 1..N :
    LET d == tID(a.pos[i], a.max[i], b.pos[i], b.max[i])
        A == a.pos[i]..(a.max[i] - 1)
        B == b.pos[i]..(b.max[i] - 1)
    IN /\ d = tID(b.pos[i], b.max[i], a.pos[i], a.max[i])
       /\ (A \cap B = {}) <=> \A x \in d : x >= 0
       /\ (A \cap B = {}) => d = {Cardinality({x \in Lo..Hi : (\A y \in A : y < x) /\ (\A y \in B : x < y)}
                                                \cup {x \in Lo..Hi : (\A y \in B : y < x) /\ (\A y \in A : x < y)})}
       /\ (A \cap B # {} /\ ~(A \subseteq B) /\ ~(B \subseteq A)) => d = {-Cardinality(A \cap B)}

(* extension: the transcribed body of interval_distance returns what the documentation promises,
   for every pair of non-empty intervals (each coordinate of the pair of boxes is one such pair),
   in both argument orders.  OldDistance = TRUE transcribes the code before the repair: TLC must
   refute the law (this is the defect reported as C13:interval_distance:nested-touching-not-zero). *)
DistanceDocLaw ==
  (Two /\ NonEmpty(a) /\ NonEmpty(b)) => \A i \in 1..N :
    LET d == IntervalDistanceDoc(a.pos[i], a.max[i], b.pos[i], b.max[i]) IN
    /\ IntervalDistanceImpl(a.pos[i], a.max[i], b.pos[i], b.max[i], OldDistance) = d
    /\ IntervalDistanceImpl(b.pos[i], b.max[i], a.pos[i], a.max[i], OldDistance) = d
    /\ d \in IntervalDistances(a.pos[i], a.max[i], b.pos[i], b.max[i])
=============================================================================
