SPECIFICATION ISpec
CONSTANTS
  NS = 3
  Val = {0}
  MaxNodes = 5
  SwapBug = FALSE
  CopyAssignBug = FALSE
  MoveAssignBug = FALSE
  InsertNoParentBug = FALSE
  CopyNoReparentBug = FALSE
  EraseKeepsBug = FALSE
  PushFrontRetBug = FALSE
  ReleaseNoClear = FALSE
  LogDupBug = FALSE
  LogSetShallowBug = FALSE
  LeakTempBug = FALSE
  MoveAssignInPlaceBug = FALSE
VIEW IView
INVARIANTS ParentConsistent RootsHaveNoParent NoDangling Refines ReturnsAgree
CONSTRAINT EmitIScripts
CHECK_DEADLOCK FALSE
