SPECIFICATION RLSpec
CONSTANT Reasons <- BoxReasons
INVARIANT RLVerdict
CONSTRAINT RLConsumed
POSTCONDITION RLPost
CHECK_DEADLOCK FALSE
