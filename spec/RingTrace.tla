---------------------------- MODULE RingTrace ----------------------------
(* Trace validation for C11: replays an ndjson log recorded from the real
   fcppt::intrusive::list / base and fcppt::signal::object (harness/c11_intrusive.cpp)
   through the operators of Membership.tla / Signal.tla.  One TLC state per log line.

   After every operation the harness logs what EVERY live list / signal shows (not only
   the ones the operation names), so the frame condition of Membership.tla is enforced on
   the real code: a list that changes although the operation does not concern it, or an
   element that reappears, is a mismatch.
     list flavour   : forward iteration = member[L], backward iteration = its reverse,
                      empty() = (member[L] = <<>>), both walks stay on live elements of
                      the list and end at the head;
     signal flavours: empty(); for every callable signal one call: the callbacks that ran
                      are exactly member[L] in order, each with the call's argument, the
                      combiner invocations form a left fold from the initial value and the
                      call returns its result; the operation ran exactly the unregister
                      callbacks it must (the dying connection's, once - unregister flavour);
                      and what that unregister callback itself saw of every signal (empty(), one
                      call) while its connection was dying: the dying connection is a member of
                      no signal any more (DyingReasons of Signal.tla).
   An event the specification cannot explain is recorded in `bad`; the rest of that
   history is not judged (the next reset line starts a fresh history), so one defect gives
   one rejection per history: the first observable symptom. *)
EXTENDS Signal, IOUtils

VARIABLES l, bad, fl, skip, ai, taint
tvars == <<st, hist, sx, ever, l, bad, fl, skip, ai, taint>>

T == ndJsonDeserialize(IOEnv.TRACE)

(* core: the history was driven by a CORE unit of the harness (compiled without the observed-only
   parts because the full harness does not compile against the tree): no const iteration recorded *)
NoFl == [list |-> TRUE, res |-> FALSE, unr |-> FALSE, core |-> FALSE]

OpOf(ev) == [op |-> ev.op, l |-> ev.l, l2 |-> ev.l2, x |-> ev.x, x2 |-> ev.x2, b |-> ev.b, mode |-> ev.mode]

(* the harness' own bookkeeping of which slots are alive must agree with the specification;
   a disagreement is a harness bug, not a verdict *)
SlotsAgree(m, ev) ==
  /\ Len(ev.lists) = NL /\ Len(ev.elive) = NE
  /\ \A L \in Lists : ev.lists[L].live = m.llive[L]
  /\ \A e \in Elems : (ev.elive[e] = 1) = m.elive[e]
OwnersAgree(x, ev) ==
  /\ Len(ev.hold) = NE /\ Len(ev.boxes) = NB
  /\ \A h \in Elems : ev.hold[h] = x.hold[h]
  /\ \A b \in Boxes : ev.boxes[b].live = x.blive[b] /\ ev.boxes[b].ids = x.box[b]

(* SCOPE.  A rejection may only become a VIOLATION of C11 for behaviour the STATEMENT of C11
   covers; everything else this specification judges is OBSERVED ONLY (reported in the evidence,
   never a violation).  Per record kind (operation) and per reason:
   in scope - "After any history of creating, destroying and moving elements and of moving,
     move-assigning and destroying lists, an intrusive list contains exactly the live, not
     moved-from elements that were linked into it (or into a list it took over), in link order,
     and never refers to a destroyed element": the list and element constructors, moves and
     destructors; what forward / backward iteration and empty() of a list show;
   in scope - "calling a signal invokes exactly the callbacks whose connection object is still
     alive, once each in connection order, combines their results as a left fold from the
     initial value, and runs a connection's unregister callback exactly once when that
     connection dies": signal construction / moves / destruction (a signal is such a list),
     connect, death of a connection; which callbacks ran, the combiner chain, the unregister log.
   observed only (not named by the statement): unlink(), iterator operations, const iteration,
     moving / assigning / collecting the OWNERS of connections (auto_connection,
     auto_connection_container, optional_auto_connection: their semantics are those of
     fcppt::unique_ptr / std::vector, not of the signal), signal::empty(), the arguments a
     callback receives, a call that throws, and everything reentrant.
   A history that has executed an observed-only operation is TAINTED: whatever it shows later
   is observed only as well (the state the statement talks about may have been changed by
   something the statement does not talk about). *)
InScopeOp(op) ==
  op \in {"list_ctor", "list_move_ctor", "list_move_assign", "list_dtor",
          "elem_ctor", "elem_move_ctor", "elem_move_assign", "elem_dtor",
          "sig_ctor", "sig_move_ctor", "sig_move_assign", "sig_dtor", "connect", "disconnect"}
InScopeReason(w, isl) ==
  \/ isl /\ w \in {"forward-extra", "forward-missing", "forward-twice", "forward-order",
                    "backward-extra", "backward-missing", "backward-twice", "backward-order",
                    "forward-walk-leaves-the-list", "backward-walk-leaves-the-list", "empty"}
  \/ ~isl /\ w \in {"called-extra", "called-missing", "called-twice", "called-order",
                     "call-does-not-end", "left-fold",
                     "unregister-not-run", "unregister-run-twice", "unregister-of-other-connection",
                     \* "calling a signal invokes exactly the callbacks whose connection object is still
                     \* alive ... runs a connection's unregister callback exactly once WHEN that connection
                     \* dies": a call made from inside the unregister callback (the connection is being
                     \* destroyed, it is not alive).  "dying-empty" (signal::empty() there) stays observed only.
                     "dying-called-extra", "dying-called-missing", "dying-called-twice", "dying-called-order",
                     "dying-call-does-not-end", "dying-left-fold"}

(* ai = [it |-> the abstract iterator the driver holds, fresh |-> no other operation since it was
   obtained by begin()/end() (only then is it judged: the documentation does not say that an
   iterator survives operations on the list)] *)
NoAi == [it |-> NoIter, fresh |-> FALSE]
SetOf(q) == {q[i] : i \in DOMAIN q}
IterReasons(m, it, a, ob) ==
  (IF /\ ob.held
      /\ ob.elem = it.x
      /\ SetOf(ob.end_of) = (IF it.x = 0 THEN {it.end} ELSE {})
      /\ SetOf(ob.begin_of) = {L \in Lists : m.llive[L] /\ IterBegin(m, L) = it}
   THEN {} ELSE {"iterator-position"})
  \cup (IF a.op \in {"iter_inc", "iter_dec"} /\ a.mode = 1 /\ ~ob.ret_old THEN {"iterator-postfix-result"} ELSE {})

ListReasons(m, ev) ==
  UNION {
    LET r == ev.lists[L] IN
      SeqReasons("forward", r.fwd, Forward(m, L))
      \cup (IF fl.core THEN {} ELSE SeqReasons("forward-const", r.cfwd, Forward(m, L)))
      \cup SeqReasons("backward", r.bwd, Backward(m, L))
      \cup (IF r.fok THEN {} ELSE {"forward-walk-leaves-the-list"})
      \cup (IF r.cok THEN {} ELSE {"forward-const-walk-leaves-the-list"})
      \cup (IF r.bok THEN {} ELSE {"backward-walk-leaves-the-list"})
      \cup (IF r.empty = IsEmpty(m, L) THEN {} ELSE {"empty"})
    : L \in {K \in Lists : m.llive[K]}}

SignalReasons(m, x, a, ev) ==
  UNION {
    LET r == ev.lists[L] IN
      (IF r.empty = IsEmpty(m, L) THEN {} ELSE {"empty"})
      \cup (IF r.call.done THEN CallReasons(m, L, r.call, fl.res) ELSE {})
    : L \in {K \in Lists : m.llive[K]}}
  \cup UnregReasons(x, a, fl.unr, ev.unreg)

(* the driver calls exactly the callable signals *)
CallsAgree(m, x, ev) ==
  \A L \in Lists : m.llive[L] => ev.lists[L].call.done = CallPre(m, x, L, fl.res)
(* ... also from inside an unregister callback, and it records one view per run of such a callback
   (the liveness of signal slots and the combiner flags do not change in an operation in which a
   connection dies) *)
ViewsAgree(m, x, ev) ==
  /\ Len(ev.dying) = Len(ev.unreg)
  /\ \A i \in DOMAIN ev.dying :
       /\ ev.dying[i].c = ev.unreg[i]
       /\ Len(ev.dying[i].sigs) = NL
       /\ \A L \in Lists : /\ ev.dying[i].sigs[L].live = m.llive[L]
                            /\ m.llive[L] => ev.dying[i].sigs[L].call.done = CallPre(m, x, L, fl.res)

TInit ==
  /\ st = EmptyM
  /\ hist = <<>>
  /\ sx = EmptyX
  /\ ever = <<>>
  /\ l = 1
  /\ bad = <<>>
  /\ fl = NoFl
  /\ skip = FALSE
  /\ ai = NoAi
  /\ taint = FALSE

AllDead(m) == (\A L \in Lists : ~m.llive[L]) /\ (\A e \in Elems : ~m.elive[e])

TReset ==
  /\ T[l].e = "reset"
  /\ st' = EmptyM
  /\ sx' = EmptyX
  /\ fl' = [list |-> T[l].list, res |-> T[l].res, unr |-> T[l].unr, core |-> T[l].core]
  /\ ai' = NoAi
  /\ taint' = FALSE
  \* an "observed only" history (behaviour the documentation is silent about, e.g. callbacks that
  \* connect / disconnect during the call) is driven under the sanitizers but not judged
  /\ skip' = T[l].observed
  /\ bad' = IF skip \/ AllDead(st) THEN bad
            ELSE Append(bad, [l |-> l, op |-> "reset", why |-> {"HARNESS-STATE-NOT-EMPTY-AT-RESET"}, scope |-> "in"])

TEnd ==
  /\ T[l].e = "end"
  /\ bad' = IF skip \/ AllDead(st) THEN bad
            ELSE Append(bad, [l |-> l, op |-> "end", why |-> {"HARNESS-STATE-NOT-EMPTY-AT-RESET"}, scope |-> "in"])
  /\ UNCHANGED <<st, sx, fl, skip, ai, taint>>

(* written by the check after a history that a sanitizer / crash / hang cut short (that
   operation has been rejected already): the remains of the history are not judged *)
TAborted ==
  /\ T[l].e = "aborted"
  /\ skip' = TRUE
  /\ UNCHANGED <<st, sx, fl, bad, ai, taint>>

TOp ==
  /\ T[l].e = "op"
  /\ LET ev == T[l]
         a == OpOf(ev)
         isl == fl.list
         \* "iter_refused": the driver did not dare to take a scripted iterator step (mode 1 = ++, 2 = --)
         refused == isl /\ a.op = "iter_refused"
         wanted == [a EXCEPT !.op = IF a.mode = 1 THEN "iter_inc" ELSE "iter_dec"]
         isit == isl /\ a.op \in IterOps
         preok == IF refused THEN TRUE ELSE IF isit THEN (IF ai.fresh \/ a.op \in {"iter_begin", "iter_end"} THEN IterPre(st, ai.it, a) ELSE ai.it.held)
                  ELSE IF isl THEN a.op \in ListOps \cup ElemOps /\ Pre(st, a)
                  ELSE SPre(st, sx, a)
     IN
     IF skip THEN UNCHANGED <<st, sx, bad, fl, skip, ai, taint>>
     ELSE IF ~preok
     THEN /\ bad' = Append(bad, [l |-> l, op |-> ev.op, why |-> {"HARNESS-PRECONDITION"}, scope |-> "in"])
          /\ skip' = TRUE
          /\ UNCHANGED <<st, sx, fl, ai, taint>>
     ELSE LET m == IF isit \/ refused THEN st ELSE IF isl THEN Eff(st, a) ELSE SEff(st, sx, a)
              x == IF isl THEN sx ELSE XEff(sx, a, fl.unr)
              judged == isit /\ a.op # "iter_drop" /\ (ai.fresh \/ a.op \in {"iter_begin", "iter_end"})
              ai2 == IF ~isl THEN NoAi
                     ELSE IF refused THEN [it |-> IF ai.it.held THEN Dangling ELSE NoIter, fresh |-> FALSE]
                     ELSE IF ~isit THEN [it |-> IterAfter(ai.it, a), fresh |-> FALSE]
                     ELSE IF a.op = "iter_drop" THEN NoAi
                     ELSE IF judged THEN [it |-> IterEff(st, ai.it, a), fresh |-> TRUE]
                     ELSE [it |-> Dangling, fresh |-> FALSE]     \* position not tracked any more
              why == IF ~SlotsAgree(m, ev) THEN {"HARNESS-SLOTS"}
                     ELSE IF isl THEN ListReasons(m, ev) \cup (IF judged THEN IterReasons(m, ai2.it, a, ev.iter) ELSE {})
                                      \cup (IF refused /\ ai.fresh /\ IterPre(st, ai.it, wanted)
                                            THEN {"iterator-step-refused"} ELSE {})
                     ELSE IF ~OwnersAgree(x, ev) THEN {"HARNESS-OWNERS"}
                     ELSE IF ~CallsAgree(m, x, ev) THEN {"HARNESS-CALLS"}
                     ELSE IF UnregReasons(sx, a, fl.unr, ev.unreg) = {} /\ ~ViewsAgree(m, x, ev) THEN {"HARNESS-VIEWS"}
                     ELSE SignalReasons(m, sx, a, ev) \cup DyingReasons(st, sx, a, fl.unr, fl.res, ev.dying)
              t2 == taint \/ ~InScopeOp(a.op)
              harness == \E w \in why : w \in {"HARNESS-SLOTS", "HARNESS-OWNERS", "HARNESS-CALLS", "HARNESS-VIEWS"}
              inwhy == {w \in why : InScopeReason(w, isl)}
              scope == IF harness \/ (~t2 /\ inwhy # {}) THEN "in" ELSE "observed"
          IN /\ st' = m
             /\ sx' = x
             /\ fl' = fl
             /\ ai' = ai2
             /\ taint' = t2
             /\ bad' = IF why = {} THEN bad
                       ELSE Append(bad, [l |-> l, op |-> ev.op, why |-> why, scope |-> scope])
             \* an in-scope rejection (or any rejection in a tainted history) ends the judging of
             \* this history; an observed-only disagreement of an untainted history does not
             /\ skip' = (why # {} /\ (scope = "in" \/ t2))

TNext ==
  /\ l <= Len(T)
  /\ l' = l + 1
  /\ hist' = hist
  /\ ever' = ever
  /\ (TReset \/ TOp \/ TEnd \/ TAborted)

TSpec == TInit /\ [][TNext]_tvars

(* verdict: printed once when the whole trace has been consumed *)
Done == l = Len(T) + 1
Verdict == Done => PrintT("VERDICT " \o ToJson([n |-> Len(T), bad |-> bad]))
(* an unknown event kind (or a crash event) is explained by no action: TLC stops with
   l <= Len(T) and the postcondition reports the line *)
Consumed == TLCSet(1, l)
Post == IF TLCGet(1) = Len(T) + 1 THEN TRUE ELSE PrintT("STUCK " \o ToString(TLCGet(1)))
=============================================================================
