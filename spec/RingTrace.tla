---------------------------- MODULE RingTrace ----------------------------
(* Trace validation for C11: replays an ndjson log recorded from the real
   fcppt::intrusive::list / base and fcppt::signal::object (harness/c11_intrusive.cpp)
   through the operators of Membership.tla / Signal.tla.  One TLC state per log line.

   After every operation the harness logs what EVERY live list / signal shows (not only
   the ones the operation names), so the frame condition of Membership.tla is enforced on
   the real code: a list that changes although the operation does not concern it, or an
   element that reappears, is a mismatch.
     list flavour   : forward iteration = member[L], backward iteration = its reverse,
                      empty() = (member[L] = <<>>), both walks stay on live elements of
                      the list and end at the head;
     signal flavours: empty(); for every callable signal one call: the callbacks that ran
                      are exactly member[L] in order, each with the call's argument, the
                      combiner invocations form a left fold from the initial value and the
                      call returns its result; the operation ran exactly the unregister
                      callbacks it must (the dying connection's, once - unregister flavour).
   An event the specification cannot explain is recorded in `bad`; the rest of that
   history is not judged (the next reset line starts a fresh history), so one defect gives
   one rejection per history: the first observable symptom. *)
EXTENDS Signal, IOUtils

VARIABLES l, bad, fl, skip
tvars == <<st, hist, sx, ever, l, bad, fl, skip>>

T == ndJsonDeserialize(IOEnv.TRACE)

NoFl == [list |-> TRUE, res |-> FALSE, unr |-> FALSE]

OpOf(ev) == [op |-> ev.op, l |-> ev.l, l2 |-> ev.l2, x |-> ev.x, x2 |-> ev.x2]

(* the harness' own bookkeeping of which slots are alive must agree with the specification;
   a disagreement is a harness bug, not a verdict *)
SlotsAgree(m, ev) ==
  /\ Len(ev.lists) = NL /\ Len(ev.elive) = NE
  /\ \A L \in Lists : ev.lists[L].live = m.llive[L]
  /\ \A e \in Elems : (ev.elive[e] = 1) = m.elive[e]

ListReasons(m, ev) ==
  UNION {
    LET r == ev.lists[L] IN
      SeqReasons("forward", r.fwd, Forward(m, L))
      \cup SeqReasons("backward", r.bwd, Backward(m, L))
      \cup (IF r.fok THEN {} ELSE {"forward-walk-leaves-the-list"})
      \cup (IF r.bok THEN {} ELSE {"backward-walk-leaves-the-list"})
      \cup (IF r.empty = IsEmpty(m, L) THEN {} ELSE {"empty"})
    : L \in {K \in Lists : m.llive[K]}}

SignalReasons(m, x, a, ev) ==
  UNION {
    LET r == ev.lists[L] IN
      (IF r.empty = IsEmpty(m, L) THEN {} ELSE {"empty"})
      \cup (IF r.call.done THEN CallReasons(m, L, r.call, fl.res) ELSE {})
    : L \in {K \in Lists : m.llive[K]}}
  \cup UnregReasons(a, fl.unr, ev.unreg)

(* the driver calls exactly the callable signals *)
CallsAgree(m, x, ev) ==
  \A L \in Lists : m.llive[L] => ev.lists[L].call.done = CallPre(m, x, L, fl.res)

TInit ==
  /\ st = EmptyM
  /\ hist = <<>>
  /\ sx = EmptyX
  /\ ever = <<>>
  /\ l = 1
  /\ bad = <<>>
  /\ fl = NoFl
  /\ skip = FALSE

AllDead(m) == (\A L \in Lists : ~m.llive[L]) /\ (\A e \in Elems : ~m.elive[e])

TReset ==
  /\ T[l].e = "reset"
  /\ st' = EmptyM
  /\ sx' = EmptyX
  /\ fl' = [list |-> T[l].list, res |-> T[l].res, unr |-> T[l].unr]
  /\ skip' = FALSE
  /\ bad' = IF skip \/ AllDead(st) THEN bad
            ELSE Append(bad, [l |-> l, op |-> "reset", why |-> {"HARNESS-STATE-NOT-EMPTY-AT-RESET"}])

TEnd ==
  /\ T[l].e = "end"
  /\ bad' = IF skip \/ AllDead(st) THEN bad
            ELSE Append(bad, [l |-> l, op |-> "end", why |-> {"HARNESS-STATE-NOT-EMPTY-AT-RESET"}])
  /\ UNCHANGED <<st, sx, fl, skip>>

(* written by the check after a history that a sanitizer / crash / hang cut short (that
   operation has been rejected already): the remains of the history are not judged *)
TAborted ==
  /\ T[l].e = "aborted"
  /\ skip' = TRUE
  /\ UNCHANGED <<st, sx, fl, bad>>

TOp ==
  /\ T[l].e = "op"
  /\ LET ev == T[l]
         a == OpOf(ev)
         isl == fl.list
         preok == IF isl THEN a.op \in ListOps \cup ElemOps /\ Pre(st, a) ELSE SPre(st, a)
     IN
     IF skip THEN UNCHANGED <<st, sx, bad, fl, skip>>
     ELSE IF ~preok
     THEN /\ bad' = Append(bad, [l |-> l, op |-> ev.op, why |-> {"HARNESS-PRECONDITION"}])
          /\ skip' = TRUE
          /\ UNCHANGED <<st, sx, fl>>
     ELSE LET m == IF isl THEN Eff(st, a) ELSE SEff(st, a)
              x == IF isl THEN sx ELSE XEff(sx, a, fl.unr)
              why == IF ~SlotsAgree(m, ev) THEN {"HARNESS-SLOTS"}
                     ELSE IF isl THEN ListReasons(m, ev)
                     ELSE IF ~CallsAgree(m, x, ev) THEN {"HARNESS-CALLS"}
                     ELSE SignalReasons(m, x, a, ev)
          IN /\ st' = m
             /\ sx' = x
             /\ fl' = fl
             /\ bad' = IF why = {} THEN bad ELSE Append(bad, [l |-> l, op |-> ev.op, why |-> why])
             /\ skip' = (why # {})

TNext ==
  /\ l <= Len(T)
  /\ l' = l + 1
  /\ hist' = hist
  /\ ever' = ever
  /\ (TReset \/ TOp \/ TEnd \/ TAborted)

TSpec == TInit /\ [][TNext]_tvars

(* verdict: printed once when the whole trace has been consumed *)
Done == l = Len(T) + 1
Verdict == Done => PrintT("VERDICT " \o ToJson([n |-> Len(T), bad |-> bad]))
(* an unknown event kind (or a crash event) is explained by no action: TLC stops with
   l <= Len(T) and the postcondition reports the line *)
Consumed == TLCSet(1, l)
Post == IF TLCGet(1) = Len(T) + 1 THEN TRUE ELSE PrintT("STUCK " \o ToString(TLCGet(1)))
=============================================================================
