------------------------------ MODULE OptionsMC ------------------------------
(* C03 - model checking of the options rule set itself (no real code involved).

   One TLC state per (shape, argv): the states are ALL argument vectors of length
   <= MaxLen (<= MaxLenCheap for the shapes marked cheap) over the shape's 9-token
   alphabet, for every well-formed shape of the family.  With InitAll = TRUE every
   pair is an initial state; with InitAll = FALSE the vectors are grown token by
   token by Next (same state space, explored by all workers).  res / hres are the
   results of Parse / ParseHelp, so the design-level properties below are plain
   state invariants and a failing (shape, argv) is printed by TLC.

   Env: PARSERS, EXTRACT (see Options.tla), C03_PART / C03_PARTS (shape subset). *)
EXTENDS Options, Integers

CONSTANTS MaxLen, MaxLenCheap, InitAll,
          KindLen     \* ErrorKindLaw (a Run per node) is evaluated for argv up to this length

VARIABLES sid, argv, res, hres
vars == <<sid, argv, res, hres>>
View == <<sid, argv>>

Part == atoi(IOEnv.C03_PART)
Parts == atoi(IOEnv.C03_PARTS)
MCShapes == {s \in 1..NShapes : (s - 1) % Parts = Part /\ WellFormed(Shapes[s].p)}

Alphabet(s) == {Shapes[s].alphabet[i] : i \in 1..Len(Shapes[s].alphabet)}
Bound(s) == IF Shapes[s].cheap THEN MaxLenCheap ELSE MaxLen
NoHelp == [ok |-> FALSE, help |-> FALSE, diverge |-> FALSE]
HelpSwitch(s) == [short |-> Shapes[s].hshort, long |-> Shapes[s].hlong]
HelpOf(s, a) == IF Shapes[s].help THEN ParseHelp(Shapes[s].p, HelpSwitch(s), a) ELSE NoHelp

Init ==
  /\ sid \in MCShapes
  /\ IF InitAll THEN argv \in UNION {[1..n -> Alphabet(sid)] : n \in 0..Bound(sid)} ELSE argv = <<>>
  /\ res = Parse(Shapes[sid].p, argv)
  /\ hres = HelpOf(sid, argv)

Next ==
  /\ ~InitAll
  /\ Len(argv) < Bound(sid)
  /\ \E t \in Alphabet(sid) : argv' = Append(argv, t)
  /\ UNCHANGED sid
  /\ res' = Parse(Shapes[sid].p, argv')
  /\ hres' = HelpOf(sid, argv')

Spec == Init /\ [][Next]_vars

-----------------------------------------------------------------------------
TypeOK ==
  /\ sid \in 1..NShapes
  /\ res.ok \in BOOLEAN /\ hres.ok \in BOOLEAN
  /\ res.ok => DOMAIN res.val = Labels(Shapes[sid].p)

(* the family respects the API precondition "no many() around a parser that can succeed
   without consuming" *)
FamilyTerminates == (~res.ok => ~res.diverge) /\ (~hres.ok => ~hres.diverge)

ConsumedExactlyOnce == ConsumedExactlyOnceIn(res, argv) /\ ConsumedExactlyOnceIn(hres, argv)
OptionValueNotPositional == OptionValueNotPositionalIn(res, argv) /\ OptionValueNotPositionalIn(hres, argv)
FlagNeverFails == FlagNeverFailsIn(Shapes[sid].p, argv)

(* parse_help: without the help switch in argv it is parse; the help switch alone gives the usage *)
HelpToks == {FlagTok(Shapes[sid].hlong, FALSE)} \cup {FlagTok(Shapes[sid].hshort[i], TRUE) : i \in 1..Len(Shapes[sid].hshort)}
HelpLaw ==
  Shapes[sid].help =>
    /\ (\A i \in 1..Len(argv) : Tokens[argv[i]] \notin HelpToks) =>
          /\ hres.ok = res.ok /\ ~hres.help
          /\ res.ok => hres.val = res.val
    /\ (Len(argv) = 1 /\ Tokens[argv[1]] \in HelpToks) => hres.ok /\ hres.help

(* error kinds of every node (see Options.tla) *)
ErrorKindLaw == Len(argv) <= KindLen => ErrorKindLawIn(Shapes[sid].p, argv)

(* the state carried by results and missing errors of every node (see Options.tla) *)
ErrorStateLaw == Len(argv) <= KindLen => ErrorStateLawIn(Shapes[sid].p, argv)

(* the structural requirements on usage() are met by the design's own renderer (per shape; the
   usage text does not depend on argv) *)
UsageModelOK == argv = <<>> => UsageReasons(UsageLines(Shapes[sid].p), Shapes[sid].p) = {}

(* a success consumed everything: there is no shorter/longer vector hidden in it *)
SuccessLeavesNothing == res.ok => Cardinality({u.idx : u \in res.used}) = Len(argv)

(* stronger readings - expected to FAIL for some (shape, argv); run for information only *)
ObsNothingDropped == NothingDroppedIn(res)
ObsFlagNeverFailsStrict == FlagNeverFailsStrictIn(Shapes[sid].p, argv)
ObsOptionValueNotPositionalAnyContext == OptionValueNotPositionalAnyContextIn(res, argv)
ObsSuccessorOfOptionNameNotPositional == SuccessorOfOptionNameNotPositionalIn(res, argv)
=============================================================================
