SPECIFICATION Spec
CONSTANTS
  NV = 2
  NB = 1
  Val = {0, 1}
  MaxLen = 3
  MaxW = 2
VIEW View
INVARIANTS TypeOK GeneratorSound Laws
CHECK_DEADLOCK FALSE
