SPECIFICATION ISpec
CONSTANTS
  N <- EnvN
  W <- EnvW
  Bug <- EnvBug
  FullOps <- EnvFull
VIEW IView
INVARIANTS ITypeOK Refines EqualSetsEqualWords ObserversAgree NoPadding
CHECK_DEADLOCK FALSE
