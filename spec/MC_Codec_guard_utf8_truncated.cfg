SPECIFICATION Spec
CONSTANTS
  Mode = "utf8"
  Step = 17
  DecRange = 70000
  U8 <- Utf8BugCont
  WR <- Write
  TD <- ToDec
  NT <- NumText
  NTL <- NumTextLoc
  CV <- Convert
  RV <- ReadVec
INVARIANTS LawUtf8Truncated
CHECK_DEADLOCK FALSE
