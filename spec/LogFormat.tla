---------------------------- MODULE LogFormat ----------------------------
(* Pure (variable-free) part of the fcppt.log specification: level names and their conversions,
   formatter functions and their composition, the default level streams, the level_stream
   sink machine, the laziness of the FCPPT_LOG_* macros, object accessors.  Extension round of
   C19.  Every definition quotes the sentence of the documentation it is taken from.
   Text is a sequence of code points.  A formatter is modelled by what it does to a text:
     [k |-> 0]                    nothing (empty optional_function)
     [k |-> 1, l |-> level]       format::default_level(level)
     [k |-> 2, pre, suf]          format::inserter(pre, suf)
     [k |-> 3, pre]               a caller-supplied function  text |-> pre \o text
     [k |-> 4, pre]               format::prefix(pre)
     [k |-> 5, a, b]              composition  a (.) b
   Used by LogContext.tla (and through it by the judge LogTrace.tla); laws are model-checked in
   LogFormatMC.tla. *)
EXTENDS Naturals, Integers, Sequences, FiniteSets

ColonSpace == <<58, 32>>
LevelName == << <<118,101,114,98,111,115,101>>,      \* verbose
                <<100,101,98,117,103>>,              \* debug
                <<105,110,102,111>>,                 \* info
                <<119,97,114,110,105,110,103>>,      \* warning
                <<101,114,114,111,114>>,             \* error
                <<102,97,116,97,108>> >>             \* fatal
NoLevel == 6

(* level_to_string.hpp: "Converts a log level given by level to its enumerator name as a string."
   level_output.hpp: "Outputs a level to a stream." *)
LevelToString(l) == LevelName[l + 1]

(* level_from_string.hpp: "Converts the name of a log level given by name to its corresponding
   level enumerator.  Accepts all strings as parameters that are listed in fcppt::log::level."
   A string that is not the name of a level has no corresponding enumerator: nothing. *)
LevelFromString(s) ==
  IF \E l \in 0..5 : LevelName[l + 1] = s THEN CHOOSE l \in 0..5 : LevelName[l + 1] = s ELSE NoLevel

(* default_stream.hpp: "Log levels verbose through warning log to fcppt::io::clog, and log levels
   error and fatal log to fcppt::io::cerr."   0 = clog, 1 = cerr *)
DefaultStream(l) == IF l <= 3 THEN 0 ELSE 1

RECURSIVE Prefixes(_)
Prefixes(path) == IF path = <<>> THEN <<>> ELSE Head(path) \o ColonSpace \o Prefixes(Tail(path))

FNone == [k |-> 0]
FDefault(l) == [k |-> 1, l |-> l]
FInserter(pre, suf) == [k |-> 2, pre |-> pre, suf |-> suf]
FUser(pre) == [k |-> 3, pre |-> pre]
FPrefix(pre) == [k |-> 4, pre |-> pre]

(* format/default_level.hpp: "This formatter prints the level's string in front as obtained by
   fcppt::log::level_to_string.  It also appends a newline at the end."  (separator ": " as in the
   documented outputs "fcppt: debug: test", "root: warning: Print from root.")
   format/inserter.hpp: "Creates a formatter from a prefix and a suffix."
   format/prefix.hpp: "Creates a formatter that outputs prefix in front."  (": " as above) *)
RECURSIVE Apply(_, _)
Apply(f, text) ==
  CASE f.k = 0 -> text
    [] f.k = 1 -> LevelToString(f.l) \o ColonSpace \o text \o <<10>>
    [] f.k = 2 -> f.pre \o text \o f.suf
    [] f.k = 3 -> f.pre \o text
    [] f.k = 4 -> f.pre \o ColonSpace \o text
    [] f.k = 5 -> Apply(f.a, Apply(f.b, text))

(* format/chain.hpp: "If parent and child are not nothing, their functions are composed
   (parent (.) child).  Otherwise, if parent is not nothing, parent is returned.  Otherwise, child
   is returned."   swapBug: vacuity guard (child (.) parent) *)
Chain(swapBug, parent, child) ==
  IF parent.k = 0 THEN child
  ELSE IF child.k = 0 THEN parent
  ELSE IF swapBug THEN [k |-> 5, a |-> child, b |-> parent] ELSE [k |-> 5, a |-> parent, b |-> child]

(* the older interface of LogContext: level-stream formatter records [k, pre, suf] with k = 1
   meaning default_level of the level the stream belongs to *)
LevelFmt(f, l, text) ==
  IF f.k = 0 THEN text
  ELSE IF f.k = 1 THEN Apply(FDefault(l), text)
  ELSE Apply(FInserter(f.pre, f.suf), text)

(* log.doxygen: "'This is a formatting test: fcppt: debug: test'": object formatter, location
   names root to leaf, level formatter.  level_stream.hpp (log): "additional_formatter ... This
   formatter is used first, and is usually provided by the logger object itself." *)
LogText(ofmt, path, f, l, msg) == ofmt \o Prefixes(path) \o LevelFmt(f, l, msg)

(* object.hpp: formatter() "Returns the associated formatter": the object's own formatter composed
   with the location prefixes *)
ObjectFormatterText(ofmt, path, text) == ofmt \o Prefixes(path) \o text

(* level_stream.hpp: constructor "Constructs a level stream with sink stream and formatter
   formatter"; log "Logs the output represented by output, using additional formatting provided
   by additional_formatter"; sink "Sets a new sink"; get "Gets the current stream".
   A run is a sequence of steps [s |-> "log", add, msg] / [s |-> "sink", k] / [s |-> "get"];
   result: per step [k |-> sink that received text or is reported (0 = none), text].
   ignoreBug: vacuity guard (sink() has no effect) *)
RECURSIVE LsRun(_, _, _, _)
LsRun(ignoreBug, own, cur, steps) ==
  IF steps = <<>> THEN <<>>
  ELSE LET st == Head(steps) IN
       IF st.s = "log"
       THEN <<[k |-> cur, text |-> Apply(Chain(FALSE, st.add, own), st.msg)]>> \o LsRun(ignoreBug, own, cur, Tail(steps))
       ELSE IF st.s = "sink"
       THEN <<[k |-> 0, text |-> <<>>]>> \o LsRun(ignoreBug, own, IF ignoreBug THEN cur ELSE st.k, Tail(steps))
       ELSE <<[k |-> cur, text |-> <<>>]>> \o LsRun(ignoreBug, own, cur, Tail(steps))

(* log.doxygen: "The macro FCPPT_LOG_DEBUG is a short-hand for logging only if the debug log level
   is enabled.  This is important because the construction of the log message is avoided
   altogether when debug is not enabled."  Number of evaluations of the message expression: 0 when
   disabled; at least 1 when enabled (the message is emitted). *)
MacroEvalsOK(enabled, evals) == IF enabled THEN evals >= 1 ELSE evals = 0

IsSeqPrefix(p, s) == Len(p) <= Len(s) /\ SubSeq(s, 1, Len(p)) = p
IsSeqSuffix(p, s) == Len(p) <= Len(s) /\ SubSeq(s, Len(s) - Len(p) + 1, Len(s)) = p
=============================================================================
