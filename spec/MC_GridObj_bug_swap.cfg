SPECIFICATION Spec
CONSTANTS
  NS = 2
  Sizes <- MCSizes
  Vals = {7}
  Gens <- MCGens
  RowShapes <- MCRows
  MaxOps = 3
  Bug = "swap"
  LawBug = FALSE
VIEW View
INVARIANTS Refines
CHECK_DEADLOCK FALSE
