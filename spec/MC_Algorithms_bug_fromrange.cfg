SPECIFICATION SpecSeq
CONSTANTS
  MaxLen = 4
  SetMax = 3
  ArrayFromRange <- ArrayFromRangeAtLeast
INVARIANT ArrayLaws
