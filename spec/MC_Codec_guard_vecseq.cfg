SPECIFICATION Spec
CONSTANTS
  Mode = "vecseq"
  Step = 257
  DecRange = 40000
  U8 <- Utf8
  WR <- Write
  TD <- ToDec
  NT <- NumText
  NTL <- NumTextLoc
  CV <- Convert
  RV <- ReadVecNoSkip
INVARIANTS LawVecSeq
CHECK_DEADLOCK FALSE
