--------------------------- MODULE IntMathWideLaws ---------------------------
(* Laws of BigNat.tla and IntMathWide.tla, checked by TLC with a tiny limb base
   (cfg: LimbBits <- SmallLimbBits, base 4) so that numbers of a few hundred have several limbs
   and every carry/borrow path is taken: the BigNat operations agree with TLC's
   own integer arithmetic and the W-operators agree with IntMath.tla.
   State = one (a, b, q) triple. *)
EXTENDS IntMathWide, TLC

CONSTANTS N, BreakSub      \* BreakSub: vacuity guard (drops the borrow)
SmallLimbBits == 2

VARIABLES a, b, q
vars == <<a, b, q>>
Extra == {-1025, -256, -255, -129, -128, 127, 128, 255, 256, 1023, 1024, 4095}
Dom == (-N..N) \cup Extra
Init == a \in Dom /\ b \in Dom /\ q \in {-N, -3, -2, -1, 0, 1, 2, 3, 5, 8, N} \cup {CeilQ(a, IF b = 0 THEN 1 ELSE b), TruncQ(a, IF b = 0 THEN 1 ELSE b)}
Next == UNCHANGED vars
Spec == Init /\ [][Next]_vars

Z(x) == ZOfInt(x)
Sgn(x) == IF x < 0 THEN -1 ELSE IF x = 0 THEN 0 ELSE 1
MySub(x, y) == IF BreakSub THEN Norm([i \in 1..Len(x) |-> (x[i] - Limb(y, i)) % Base]) ELSE SubN(x, y)

NatLaws == (a >= 0 /\ b >= 0) =>
  LET A == NOfInt(a)
      B == NOfInt(b)
  IN /\ IsNat(A) /\ IntOfN(A) = a
     /\ AddN(A, B) = NOfInt(a + b)
     /\ MulN(A, B) = NOfInt(a * b)
     /\ CmpN(A, B) = Sgn(a - b)
     /\ (a >= b => MySub(A, B) = NOfInt(a - b))
     /\ (b > 0 => DivModN(A, B) = [q |-> NOfInt(a \div b), r |-> NOfInt(a % b)])
     /\ (AndNonZeroN(A, B) <=> BitTest(a, b))
ZLaws ==
  /\ IsZ(Z(a)) /\ IntOfZ(Z(a)) = a
  /\ AddZ(Z(a), Z(b)) = Z(a + b) /\ SubZ(Z(a), Z(b)) = Z(a - b) /\ MulZ(Z(a), Z(b)) = Z(a * b)
  /\ CmpZ(Z(a), Z(b)) = Sgn(a - b) /\ NegZ(Z(a)) = Z(-a) /\ AbsZ(Z(a)) = Z(Abs(a))
ASSUME PowLaws == \A k \in 0..64 :
  /\ IsNat(Pow2N[k])
  /\ (k <= 30 => Pow2N[k] = NOfInt(P2[k]))
  /\ (k > 0 => Pow2N[k] = AddN(Pow2N[k - 1], Pow2N[k - 1]))
ASSUME BoundTable == \A T \in {"i8", "u8", "i16", "u16"} : MinZ(T) = Z(Min(T)) /\ MaxZ(T) = Z(Max(T))
BoundLaws == \A T \in {"i8", "u8", "i16", "u16"} :
  /\ (RepZ(T, Z(a * 50 + b)) <=> Representable(T, a * 50 + b))

MapZ(o) == IF o = None THEN None ELSE Some(Z(o[1]))
WideLaws ==
  /\ \A T \in {"i8", "u8"} : WTruncationCheck(T, Z(a + b)) = MapZ(TruncationCheck(T, a + b))
  /\ (a >= 0 /\ b >= 0 => WFromInt(b, Z(a)) = MapZ(FromInt(b, a)))
  /\ (b # 0 => /\ (WIsCeil(Z(a), Z(b), Z(q)) <=> IsCeil(a, b, q))
               /\ (WIsTrunc(Z(a), Z(b), Z(q)) <=> IsTrunc(a, b, q))
               /\ WTruncQ(Z(a), Z(b)) = Z(TruncQ(a, b))
               /\ WCeilQ(Z(a), Z(b)) = Z(CeilQ(a, b)))
  /\ (a >= 0 /\ b >= 0 => WMod(Z(a), Z(b)) = MapZ(Mod(a, b)))
  /\ WClamp(Z(q), Z(a), Z(b)) = MapZ(Clamp(q, a, b))
  /\ WDiff(Z(a), Z(b)) = Z(Diff(a, b))
  /\ (a \in 0..255 /\ b \in 0..255 => WDiffModular(8, Z(a), Z(b)) = Z(DiffModular(256, a, b)))
  /\ (WIsPow2(Z(a)) <=> IsPow2(a))
  /\ (a >= 0 => WNextPow2(Z(a)) = Z(NextPow2(a)))
  /\ (a >= 1 => \A r \in 0..12 : WIsLog2(Z(a), r) <=> IsLog2(a, r))
  /\ (a \in 0..20 => WPow2(a) = Z(Pow2(a)))
  /\ (a >= 0 /\ b >= 0 => (WBitTest(Z(a), Z(b)) <=> BitTest(a, b)))
=============================================================================
