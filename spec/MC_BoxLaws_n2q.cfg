SPECIFICATION Spec
CONSTANTS
  N = 2
  Lo = -2
  Hi = 2
  Bug = 0
INVARIANTS PtsLaw ContainsPointLaw IntersectsLaw IntersectionLaw ContainsLaw ExtendLaw ExtendPointLaw CornerLaw ShrinkStretchLaw CenterLaw DistanceLaw
