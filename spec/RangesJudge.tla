---------------------------- MODULE RangesJudge ----------------------------
(* Judge of the records written by harness/c18_ranges.cpp (property C18):
   RangesReasons(r) = the reasons why Ranges.tla cannot explain what the real
   code enumerated ({} = explained).  "HARNESS-PRECONDITION" marks a record
   outside the API precondition / the driver's own input space (never a
   verdict about fcppt). *)
EXTENDS Ranges, RecordLoop

R(cond, why) == IF cond THEN {} ELSE {why}
(* Scope (binding): only behaviour named by the statement of C18 may become a VIOLATION:
     "make_int_range(b, e) yields b, b+1, ..., e-1 (nothing if e <= b) and make_int_range_count(n)
      yields 0..n-1, with size() equal to the number of elements whenever that number is representable
      in the range's own integer type, also for strong-typedef and narrow integer types; enum ranges
      yield every enumerator of the (closed) sub-range once in order; a cyclic iterator advanced by n
      equals |n| single steps forward or backward and always stays inside its boundary; the grid spiral
      range visits every lattice point within the given Manhattan distance exactly once in rings of
      non-decreasing distance; and iterator::range, adapt_range and the moore/neumann neighbour helpers
      return exactly the stated elements."
   Judged but OBSERVED ONLY (prefix "obs:", never rejects a record): fcppt::range::size, math::int_range,
   what a cyclic iterator dereferences to (the value; the element reached is judged by identity), ordering,
   equality, swap of cyclic iterators, and the input-iterator operations of int_iterator / enum_::iterator
   taken by themselves.
   Round 3 (in scope, with the clause quoted at each reason):
   * "a cyclic iterator advanced by n equals |n| single steps forward or backward and always stays inside its
     boundary": every way fcppt::iterator::base offers to advance by n - `it += n`, `it + n`, `n + it`,
     `it -= n`, `it - n`, `it[n]` (= *(it + n): the element reached, by address), `(it + n).operator->()` -
     and every way to take a single step - `++it`, `it++`, `--it`, `it--` with the iterators they return -
     must reach the element |n| single steps away; `a + (b - a)` (b - a is documented in base_decl.hpp as "the
     value to advance *this with in order to be equal to the argument") must reach b.
   * "make_int_range(b, e) yields ...", "enum ranges yield ...", "the grid spiral range visits ...": what a
     range yields is what its iterator pair enumerates under the input-iterator protocol; the second walk
     `*it++` / `!(it == end)` (seq2 / vis2) uses the post-increment and operator== that iterator::base derives. *)
Obs(S) == {"obs:" \o w : w \in S}

RangesReasons(r) ==
  CASE r.f = "int_range" ->
         R(r.b \in TypeVals(r.T) /\ r.e \in TypeVals(r.T), "HARNESS-PRECONDITION")
         \cup R(~r.capped, "iteration-does-not-end")
         \cup R(r.capped \/ r.seq = IntRange(r.b, r.e), "sequence")
         \cup R(SizeOk(r.T, r.b, r.e, r.size), "size")
         \cup R(~r.w2 \/ r.seq2 = IntRange(r.b, r.e), "sequence-by-post-increment")   \* "yields b, b+1, ..., e-1": *it++ / ==
         \cup Obs(R(r.rsize = -1 \/ r.rsize = Count(r.b, r.e), "range-size"))
    [] r.f = "int_range_count" ->
         R(r.n \in TypeVals(r.T), "HARNESS-PRECONDITION")
         \cup R(~r.capped, "iteration-does-not-end")
         \cup R(r.capped \/ r.seq = IntRange(0, r.n), "sequence")
         \cup R(SizeOk(r.T, 0, r.n, r.size), "size")
         \cup R(r.seq2 = IntRange(0, r.n), "sequence-by-post-increment")
    [] r.f = "int_range_rsize" ->
         R(r.seq = IntRange(r.b, r.e), "sequence")
         \cup R(r.size = Count(r.b, r.e), "size")
         \cup Obs(R(r.rsize = Count(r.b, r.e), "range-size"))
    [] r.f = "int_range_wide" ->
         R(IsLimbs(r.b) /\ IsLimbs(r.e) /\ Len(r.b) = Len(r.e) /\ \A k \in 1..Len(r.seq) : IsLimbs(r.seq[k]) /\ Len(r.seq[k]) = Len(r.b),
           "HARNESS-PRECONDITION")
         \cup R(~r.capped, "iteration-does-not-end")
         \cup R(r.capped \/ IsWideRange(r.seq, r.b, r.e), "sequence")
         \cup R(r.capped \/ ~IsWideRange(r.seq, r.b, r.e) \/ r.size = Len(r.seq), "size")
         \cup R((\A k \in 1..Len(r.seq2) : IsLimbs(r.seq2[k]) /\ Len(r.seq2[k]) = Len(r.b)) /\ IsWideRange(r.seq2, r.b, r.e),
                "sequence-by-post-increment")
    [] r.f = "enum_range" ->
         LET s == IF r.via = "all" THEN 0 ELSE r.s
             e == IF r.via = "start_end" THEN r.e ELSE r.n - 1
         IN
         R(0 <= s /\ s <= e /\ e < r.n, "HARNESS-PRECONDITION")
         \cup R(~r.capped, "iteration-does-not-end")
         \cup R(r.capped \/ r.seq = EnumRange(s, e), "sequence")
         \cup R(r.size = e - s + 1, "size")
         \cup R(r.seq2 = EnumRange(s, e), "sequence-by-post-increment")   \* "yield every enumerator ... once in order": *it++ / ==
         \cup Obs(R(r.rsize = -1 \/ r.rsize = e - s + 1, "range-size"))
    [] r.f = "cyclic_ra" ->
         (* extension: fcppt::iterator::base on a random-access cyclic_iterator; a at i, b at j *)
         LET in(x) == x \in 0..(r.len - 1)
             adv(x, d) == CycAdvance(x, d, r.len)
         IN
         R(r.len >= 1 /\ in(r.i) /\ in(r.j), "HARNESS-PRECONDITION")
         \cup R(in(r.apn) /\ in(r.back) /\ in(r.npa) /\ in(r.reach) /\ in(r.pre) /\ in(r.post) /\ in(r.dec) /\ in(r.pdec)
                /\ in(r.subi) /\ in(r.arrow) /\ in(r.preret) /\ in(r.postold) /\ in(r.decold) /\ in(r.pdecret), "leaves-boundary")
         \cup R(r.apn = adv(r.i, r.n) /\ r.npa = r.apn, "operator-plus")
         \cup R(r.back = r.i, "plus-then-minus")          \* advanced by n, then by -n: |n| steps there and back
         \cup R(r.pre = CycInc(r.i, r.len) /\ r.post = r.pre, "increment")      \* the single steps themselves
         \cup R(r.dec = CycDec(r.i, r.len) /\ r.pdec = r.dec, "decrement")
         (* round 3, in scope: "advanced by n equals |n| single steps ... stays inside its boundary" *)
         \cup R(r.preret = r.pre /\ r.postold = r.i /\ r.decold = r.i /\ r.pdecret = r.pdec, "increment-return-values")
         \cup R(r.reach = adv(r.i, r.dba) /\ r.reach = r.j, "advance-by-difference")
         \cup R(r.subi = adv(r.i, r.n), "subscript")             \* &a[n]: the element reached, by identity
         \cup R(r.arrow = adv(r.i, r.n), "arrow")                \* (a + n).operator->()
         \cup Obs(R(r.sub = r.deref /\ r.deref = r.base + adv(r.i, r.n), "subscript-value"))
         \cup Obs(R(r.lt = (r.dba > 0) /\ r.gt = (r.dab > 0) /\ r.le = ~r.gt /\ r.ge = ~r.lt, "ordering-vs-difference"))
         \cup Obs(R(r.eq = (r.i = r.j) /\ r.ne = ~r.eq, "equality"))
         \cup Obs(R(Cardinality({x \in {1, 2, 3} : (x = 1 /\ r.lt) \/ (x = 2 /\ r.eq) \/ (x = 3 /\ r.gt)}) = 1, "trichotomy"))
         \cup Obs(R(r.swa = r.j /\ r.swb = r.i, "swap"))
    [] r.f = "int_iter" ->
         R(r.v \in TypeVals(r.T) /\ r.w \in TypeVals(r.T) /\ r.v < TypeMax(r.T), "HARNESS-PRECONDITION")
         \cup Obs(R(r.deref = r.v, "dereference"))
         \cup Obs(R(r.pre = r.v + 1 /\ r.preret = r.pre /\ r.post = r.v + 1 /\ r.postold = r.v, "increment"))
         \cup Obs(R(r.eq = (r.v = r.w) /\ r.ne = ~r.eq, "equality"))
         \cup Obs(R(r.swa = r.w /\ r.swb = r.v, "swap"))
    [] r.f = "enum_iter" ->
         R(r.v \in 0..(r.n - 1) /\ r.w \in 0..(r.n - 1), "HARNESS-PRECONDITION")
         \cup Obs(R(r.deref = r.v /\ r.postold = r.v, "dereference"))
         \cup Obs(R(r.pre_is_post /\ (r.v + 1 < r.n => r.pre = r.v + 1), "increment"))
         \cup Obs(R(r.eq = (r.v = r.w) /\ r.ne = ~r.eq, "equality"))
    [] r.f = "cyclic" ->
         LET in(i) == i \in 0..(r.len - 1)
             exp == CycSteps(r.start, r.n, r.len)
         IN
         R(r.len >= 1 /\ in(r.start), "HARNESS-PRECONDITION")
         \cup R(in(r.adv) /\ in(r.plus) /\ in(r.sub) /\ in(r.npa) /\ in(r.minus) /\ in(r.subi) /\ in(r.arrow) /\ in(r.arrow0) /\ in(r.w2)
                /\ (\A k \in 1..Len(r.steps) : in(r.steps[k])) /\ (\A k \in 1..Len(r.olds) : in(r.olds[k])), "leaves-boundary")
         \cup R(r.steps = exp, "single-steps")
         \cup R(r.adv = Last(exp, r.start), "advance-vs-single-steps")
         \cup R(r.adv = CycAdvance(r.start, r.n, r.len), "advance")
         \cup R(r.plus = CycAdvance(r.start, r.n, r.len), "operator-plus")
         \cup R(r.sub = CycAdvance(r.start, -r.n, r.len) /\ r.minus = r.sub, "operator-minus")
         (* round 3, in scope: "a cyclic iterator advanced by n equals |n| single steps forward or backward and
            always stays inside its boundary" - n + it, it[n] (= *(it + n), the element by its address),
            operator-> after the advance, and the iterators returned by the single steps *)
         \cup R(r.npa = CycAdvance(r.start, r.n, r.len), "operator-plus-commuted")
         \cup R(r.subi = Last(exp, r.start), "subscript")
         \cup R(r.arrow = Last(exp, r.start) /\ r.arrow0 = r.start, "arrow")
         \cup R(r.preself /\ r.w2 = Last(exp, r.start) /\ Len(r.olds) = Len(exp)
                /\ \A k \in 1..Len(r.olds) : k <= Len(exp) => r.olds[k] = (IF k = 1 THEN r.start ELSE exp[k - 1]), "step-return-values")
         \cup Obs(R(r.advv = r.base + r.adv /\ r.s0v = r.base + r.start
                    /\ Len(r.stepv) = Len(r.steps) /\ \A k \in 1..Len(r.steps) : r.stepv[k] = r.base + r.steps[k], "dereference"))
    [] r.f = "cyclic_list" ->
         (* cyclic_iterator over a bidirectional iterator: "equals |n| single steps forward or backward and always
            stays inside its boundary" for the single steps themselves (pre and post forms) *)
         LET in(i) == i \in 0..(r.len - 1)
             exp == CycSteps(r.start, r.n, r.len)
         IN
         R(r.len >= 1 /\ in(r.start), "HARNESS-PRECONDITION")
         \cup R(in(r.w2) /\ (\A k \in 1..Len(r.steps) : in(r.steps[k])) /\ (\A k \in 1..Len(r.olds) : in(r.olds[k])), "leaves-boundary")
         \cup R(r.steps = exp, "single-steps")
         \cup R(r.w2 = Last(exp, r.start) /\ Len(r.olds) = Len(exp)
                /\ \A k \in 1..Len(r.olds) : k <= Len(exp) => r.olds[k] = (IF k = 1 THEN r.start ELSE exp[k - 1]), "step-return-values")
         \cup Obs(R(r.eq /\ ~r.ne, "equality"))
    [] r.f = "spiral" ->
         R(r.d >= 0, "HARNESS-PRECONDITION")
         \cup R(~r.capped, "iteration-does-not-end")
         \cup R(r.capped \/ Injective(r.vis), "position-visited-twice")
         \cup R(r.capped \/ SeqSet(r.vis) = Disk(r.o, r.d), "not-the-manhattan-disk")
         \cup R(\A k \in 1..(Len(r.vis) - 1) : Manhattan(r.vis[k], r.o) <= Manhattan(r.vis[k + 1], r.o), "distance-decreases")
         \cup R(r.capped \/ r.vis2 = r.vis \/ (Injective(r.vis2) /\ SeqSet(r.vis2) = Disk(r.o, r.d)
                  /\ \A k \in 1..(Len(r.vis2) - 1) : Manhattan(r.vis2[k], r.o) <= Manhattan(r.vis2[k + 1], r.o)), "walk-by-post-increment")
         \cup Obs(R(r.capped \/ r.rsize = -1 \/ r.rsize = DiskSize(r.d), "range-size"))
    [] r.f = "moore" ->
         R(SeqSet(r.r) = Moore(r.p) /\ Len(r.r) = 8, "moore-neighbours")
    [] r.f = "neumann" ->
         R(SeqSet(r.r) = Neumann(r.p) /\ Len(r.r) = 4, "neumann-neighbours")
    [] r.f = "iter_range" ->
         LET i == IF r.via \in {"adapt", "adapt_const", "adapt_list"} THEN 0 ELSE r.i
             j == IF r.via \in {"adapt", "adapt_const", "adapt_list"} THEN r.len ELSE r.j
         IN
         R(0 <= i /\ i <= j /\ j <= r.len /\ Len(r.cont) = r.len, "HARNESS-PRECONDITION")
         \cup R(r.seq = SubSeq(r.cont, i + 1, j), "sequence")
         \cup Obs(R(r.rsize = -1 \/ r.rsize = j - i, "range-size"))
    [] r.f = "static_int_range" ->
         Obs(R(r.seq = IntRange(r.s, r.e), "sequence"))
    [] OTHER -> {"unknown-record-kind"}
=============================================================================
