---------------------------- MODULE RangesJudge ----------------------------
(* Judge of the records written by harness/c18_ranges.cpp (property C18):
   RangesReasons(r) = the reasons why Ranges.tla cannot explain what the real
   code enumerated ({} = explained).  "HARNESS-PRECONDITION" marks a record
   outside the API precondition / the driver's own input space (never a
   verdict about fcppt). *)
EXTENDS Ranges, RecordLoop

R(cond, why) == IF cond THEN {} ELSE {why}

RangesReasons(r) ==
  CASE r.f = "int_range" ->
         R(r.b \in TypeVals(r.T) /\ r.e \in TypeVals(r.T), "HARNESS-PRECONDITION")
         \cup R(~r.capped, "iteration-does-not-end")
         \cup R(r.capped \/ r.seq = IntRange(r.b, r.e), "sequence")
         \cup R(SizeOk(r.T, r.b, r.e, r.size), "size")
    [] r.f = "int_range_count" ->
         R(r.n \in TypeVals(r.T), "HARNESS-PRECONDITION")
         \cup R(~r.capped, "iteration-does-not-end")
         \cup R(r.capped \/ r.seq = IntRange(0, r.n), "sequence")
         \cup R(SizeOk(r.T, 0, r.n, r.size), "size")
    [] r.f = "int_range_rsize" ->
         R(r.seq = IntRange(r.b, r.e), "sequence")
         \cup R(r.size = Count(r.b, r.e), "size")
         \cup R(r.rsize = Count(r.b, r.e), "range-size")
    [] r.f = "int_range_wide" ->
         R(IsLimbs(r.b) /\ IsLimbs(r.e) /\ Len(r.b) = Len(r.e) /\ \A k \in 1..Len(r.seq) : IsLimbs(r.seq[k]) /\ Len(r.seq[k]) = Len(r.b),
           "HARNESS-PRECONDITION")
         \cup R(~r.capped, "iteration-does-not-end")
         \cup R(r.capped \/ IsWideRange(r.seq, r.b, r.e), "sequence")
         \cup R(r.capped \/ ~IsWideRange(r.seq, r.b, r.e) \/ r.size = Len(r.seq), "size")
    [] r.f = "enum_range" ->
         LET s == IF r.via = "all" THEN 0 ELSE r.s
             e == IF r.via = "start_end" THEN r.e ELSE r.n - 1
         IN
         R(0 <= s /\ s <= e /\ e < r.n, "HARNESS-PRECONDITION")
         \cup R(~r.capped, "iteration-does-not-end")
         \cup R(r.capped \/ r.seq = EnumRange(s, e), "sequence")
         \cup R(r.size = e - s + 1, "size")
    [] r.f = "cyclic" ->
         LET in(i) == i \in 0..(r.len - 1)
             exp == CycSteps(r.start, r.n, r.len)
         IN
         R(r.len >= 1 /\ in(r.start), "HARNESS-PRECONDITION")
         \cup R(in(r.adv) /\ in(r.plus) /\ in(r.sub) /\ \A k \in 1..Len(r.steps) : in(r.steps[k]), "leaves-boundary")
         \cup R(r.steps = exp, "single-steps")
         \cup R(r.adv = Last(exp, r.start), "advance-vs-single-steps")
         \cup R(r.adv = CycAdvance(r.start, r.n, r.len), "advance")
         \cup R(r.plus = CycAdvance(r.start, r.n, r.len), "operator-plus")
         \cup R(r.sub = CycAdvance(r.start, -r.n, r.len), "operator-minus")
         \cup R(r.advv = r.base + r.adv /\ r.s0v = r.base + r.start
                /\ Len(r.stepv) = Len(r.steps) /\ \A k \in 1..Len(r.steps) : r.stepv[k] = r.base + r.steps[k], "dereference")
    [] r.f = "spiral" ->
         R(r.d >= 0, "HARNESS-PRECONDITION")
         \cup R(~r.capped, "iteration-does-not-end")
         \cup R(r.capped \/ Injective(r.vis), "position-visited-twice")
         \cup R(r.capped \/ SeqSet(r.vis) = Disk(r.o, r.d), "not-the-manhattan-disk")
         \cup R(\A k \in 1..(Len(r.vis) - 1) : Manhattan(r.vis[k], r.o) <= Manhattan(r.vis[k + 1], r.o), "distance-decreases")
    [] r.f = "moore" ->
         R(SeqSet(r.r) = Moore(r.p) /\ Len(r.r) = 8, "moore-neighbours")
    [] r.f = "neumann" ->
         R(SeqSet(r.r) = Neumann(r.p) /\ Len(r.r) = 4, "neumann-neighbours")
    [] r.f = "iter_range" ->
         LET i == IF r.via \in {"adapt", "adapt_const"} THEN 0 ELSE r.i
             j == IF r.via \in {"adapt", "adapt_const"} THEN r.len ELSE r.j
         IN
         R(0 <= i /\ i <= j /\ j <= r.len /\ Len(r.cont) = r.len, "HARNESS-PRECONDITION")
         \cup R(r.seq = SubSeq(r.cont, i + 1, j), "sequence")
         \cup R(r.rsize = j - i, "range-size")
    [] r.f = "static_int_range" ->
         R(r.seq = IntRange(r.s, r.e), "sequence")
    [] OTHER -> {"unknown-record-kind"}
=============================================================================
