SPECIFICATION Spec
CONSTANTS
  Sym = {97, 98, 32, 48}
  MaxLen = 3
  Bug = "not"
INVARIANTS Laws EntryLaw FamilyOK
CHECK_DEADLOCK FALSE
