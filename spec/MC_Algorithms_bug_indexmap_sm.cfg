SPECIFICATION SpecIM
CONSTANTS
  MaxLen = 2
  SetMax = 3
  IndexMapGrow <- IndexMapGrowRefill
PROPERTY IMMonotone
