SPECIFICATION CSpec
CONSTANTS
  Names <- CNames
  MaxDepth = 2
  SetLevels = {1}
  RootLevels = {3}
  Objs = {1}
  MaxSets = 1
  MaxOps = 1
  GenObservers = FALSE
  SetNodeOnlyBug = FALSE
  InheritRootBug = FALSE
  Threads <- TwoThreads
  Budget <- Budget2
  Kinds <- KindsAll
  CSetLocs <- SetLocs3
  CSetLevels = {1}
  CGetLocs <- GetLocs2
  CCreateArgs <- CreateArgs2
  InitOrder <- Order3
  InitObjs <- ObjsAB
  CRoot = 3
  DropLockBug = FALSE
  CachedLevelBug = TRUE
  StaleParentReadBug = FALSE
INVARIANTS LockFreeReadOK
CHECK_DEADLOCK FALSE
