------------------------------ MODULE Ring ------------------------------
(* Pointer-level model of fcppt::intrusive::base / fcppt::intrusive::list (property C11),
   transcribed from libs/core/include/fcppt/intrusive/base_impl.hpp and list_impl.hpp and
   run in LOCK-STEP with the abstract specification Membership.tla.

   Nodes are the heads of the list slots and the element slots; every live node has a
   prev_ and a next_ pointer.  A list owns its head node (list::head_); an empty list's
   head points to itself; an unlinked / moved-from element points to itself.  Each action
   is the sequence of pointer assignments of the corresponding C++ function, in the
   order of the source.  A write through a pointer to a destroyed node sets `uaf` (what
   AddressSanitizer reports for the real code); no transcribed function reads a field of
   a node other than `this`, `_other` or a list operand, which are alive by precondition.

   The transcription is that of the REPAIRED code (fixes/C11_*.diff).  The constants
   re-introduce defects and serve as vacuity guards (TLC must find the counterexample):
     BugAssignEmpty   list::operator=(list&&) with an empty source only resets the head's
                      pointers (fcppt before the fix) instead of unlinking the head;
     BugMoveUnlinked  base(base&&) / base::operator=(base&&) take over the pointers of a
                      source that is NOT linked (self-linked: moved from or unlink()ed) and
                      end up pointing at the source (fcppt before the fix);
     BugDtorOneSided  ~base() patches only next_->prev_ (planned mutant);
     BugMoveNoReset   base(base&&) does not reset _other (planned mutant);
     BugListMoveCtor  list(list&&) ignores empty() (planned mutant).

   Invariants: RingOK, NoDeadRef, NoUAF, NoStaleHead, IterRefines (a held iterator stays valid
   across operations on other elements), WalkAgree (forward walk = reverse of
   backward walk for every live list) and Refines (the forward walk of every live list is
   member[L] of the abstract specification; live flags agree).  Verdicts about the real
   code are NOT taken from this module (it is a hand transcription) but from traces of
   the real code judged by Membership.tla / RingTrace.tla. *)
EXTENDS Membership

CONSTANTS BugAssignEmpty, BugMoveUnlinked, BugDtorOneSided, BugMoveNoReset, BugListMoveCtor,
          WithIter   \* TRUE: the model also holds one iterator (iterator_impl.hpp) and steps it

Nodes == 1..(NL + NE)
HeadN(L) == L
ElemN(e) == NL + e
IsHead(n) == n \in 1..NL

(* ring state: nx/pv = next_/prev_ (0 for a destroyed node: its memory is gone),
   alive, uaf = some write went through a pointer to a destroyed node *)
EmptyR == [nx |-> [n \in Nodes |-> 0], pv |-> [n \in Nodes |-> 0],
           alive |-> [n \in Nodes |-> FALSE], uaf |-> FALSE]

(* n->next_ = v and n->prev_ = v *)
WN(r, n, v) == IF n \in Nodes /\ r.alive[n] THEN [r EXCEPT !.nx[n] = v] ELSE [r EXCEPT !.uaf = TRUE]
WP(r, n, v) == IF n \in Nodes /\ r.alive[n] THEN [r EXCEPT !.pv[n] = v] ELSE [r EXCEPT !.uaf = TRUE]

(* base::base(): prev_{this}, next_{this} *)
NewSelf(r, n) == [r EXCEPT !.alive[n] = TRUE, !.nx[n] = n, !.pv[n] = n]
Kill(r, n) == [r EXCEPT !.alive[n] = FALSE, !.nx[n] = 0, !.pv[n] = 0]

(* void base::unlink(): next_->prev_ = prev_; prev_->next_ = next_; next_ = this; prev_ = this *)
Unlink(r, n) ==
  LET r1 == WP(r, r.nx[n], r.pv[n])
      r2 == WN(r1, r1.pv[n], r1.nx[n])
  IN [r2 EXCEPT !.nx[n] = n, !.pv[n] = n]

(* base::~base(): next_->prev_ = prev_; prev_->next_ = next_ *)
Dtor(r, n) ==
  LET r1 == WP(r, r.nx[n], r.pv[n])
      r2 == IF BugDtorOneSided THEN r1 ELSE WN(r1, r1.pv[n], r1.nx[n])
  IN Kill(r2, n)

(* base::base(list_type &_list): prev_{_list.head_.prev_}, next_{&_list.head_}
     { _list.head_.prev_->next_ = this; _list.head_.prev_ = this; } *)
CtorBack(r, n, h) ==
  LET r0 == [r EXCEPT !.alive[n] = TRUE, !.pv[n] = r.pv[h], !.nx[n] = h]
      r1 == WN(r0, r0.pv[h], n)
  IN WP(r1, h, n)

(* base::base(base &&_other): prev_{_other.prev_}, next_{_other.next_}
     { [repaired: if _other is not linked, stay unlinked]
       prev_->next_ = this; next_->prev_ = this; _other.prev_ = &_other; _other.next_ = &_other; } *)
MoveCtor(r, n, o) ==
  IF ~BugMoveUnlinked /\ r.nx[o] = o
  THEN NewSelf(r, n)
  ELSE LET r0 == [r EXCEPT !.alive[n] = TRUE, !.pv[n] = r.pv[o], !.nx[n] = r.nx[o]]
           r1 == WN(r0, r0.pv[n], n)
           r2 == WP(r1, r1.nx[n], n)
       IN IF BugMoveNoReset THEN r2 ELSE [r2 EXCEPT !.pv[o] = o, !.nx[o] = o]

(* base &base::operator=(base &&_other):
     next_->prev_ = prev_; prev_->next_ = next_;
     [repaired: if _other is not linked: prev_ = this; next_ = this; return]
     prev_ = _other.prev_; next_ = _other.next_; prev_->next_ = this; next_->prev_ = this;
     _other.prev_ = &_other; _other.next_ = &_other; *)
MoveAssign(r, n, o) ==
  LET r1 == WP(r, r.nx[n], r.pv[n])
      r2 == WN(r1, r1.pv[n], r1.nx[n])
  IN IF ~BugMoveUnlinked /\ r2.nx[o] = o
     THEN [r2 EXCEPT !.nx[n] = n, !.pv[n] = n]
     ELSE LET r3 == [r2 EXCEPT !.pv[n] = r2.pv[o], !.nx[n] = r2.nx[o]]
              r4 == WN(r3, r3.pv[n], n)
              r5 == WP(r4, r4.nx[n], n)
          IN [r5 EXCEPT !.pv[o] = o, !.nx[o] = o]

(* bool list::empty() const: begin() == end(), i.e. head_.next_ == &head_ *)
EmptyL(r, h) == r.nx[h] = h

(* list::list(list &&_other): head_{} { if (!_other.empty()) head_ = std::move(_other.head_); } *)
ListMoveCtor(r, h, o) ==
  LET r0 == NewSelf(r, h)
  IN IF BugListMoveCtor \/ ~EmptyL(r0, o) THEN MoveAssign(r0, h, o) ELSE r0

(* list &list::operator=(list &&_other):
     if (_other.empty()) { [repaired: head_.unlink()]  [before: head_.next_ = &head_; head_.prev_ = &head_] }
     else head_ = std::move(_other.head_); *)
ListMoveAssign(r, h, o) ==
  IF EmptyL(r, o)
  THEN IF BugAssignEmpty THEN [r EXCEPT !.nx[h] = h, !.pv[h] = h] ELSE Unlink(r, h)
  ELSE MoveAssign(r, h, o)

REff(r, a) ==
  CASE a.op = "list_ctor" -> NewSelf(r, HeadN(a.l))
    [] a.op = "list_move_ctor" -> ListMoveCtor(r, HeadN(a.l), HeadN(a.l2))
    [] a.op = "list_move_assign" -> ListMoveAssign(r, HeadN(a.l), HeadN(a.l2))
    [] a.op = "list_dtor" -> Dtor(r, HeadN(a.l))          \* ~list() = default destroys head_
    [] a.op = "elem_ctor" -> CtorBack(r, ElemN(a.x), HeadN(a.l))
    [] a.op = "elem_move_ctor" -> MoveCtor(r, ElemN(a.x), ElemN(a.x2))
    [] a.op = "elem_move_assign" -> MoveAssign(r, ElemN(a.x), ElemN(a.x2))
    [] a.op = "elem_dtor" -> Dtor(r, ElemN(a.x))
    [] a.op = "unlink" -> Unlink(r, ElemN(a.x))
    [] OTHER -> r

-----------------------------------------------------------------------------
(* Walks, as the iterators do them: from head_.next_ (head_.prev_) until the head is
   reached again.  A walk ends with ok = FALSE if it reaches a destroyed node, another
   head, or does not return within |Nodes| steps. *)
RECURSIVE WalkFrom(_, _, _, _, _, _)
WalkFrom(r, h, n, fwd, acc, fuel) ==
  IF n = h THEN [ok |-> TRUE, ids |-> acc]
  ELSE IF fuel = 0 \/ n \notin Nodes \/ ~r.alive[n] \/ IsHead(n) THEN [ok |-> FALSE, ids |-> acc]
  ELSE WalkFrom(r, h, IF fwd THEN r.nx[n] ELSE r.pv[n], fwd, Append(acc, n - NL), fuel - 1)

FwdWalk(r, L) == WalkFrom(r, HeadN(L), r.nx[HeadN(L)], TRUE, <<>>, NL + NE)
BwdWalk(r, L) == WalkFrom(r, HeadN(L), r.pv[HeadN(L)], FALSE, <<>>, NL + NE)

-----------------------------------------------------------------------------
(* One held iterator: itv.a = what it denotes abstractly (Membership.tla), itv.r = the node its
   cur_ points to (0 = none held, -1 = it dangles: what it denoted has been destroyed).
   iterator_impl.hpp: begin() = iterator{head_.next_}, end() = iterator{&head_},
   increment: cur_ = cur_->next_, decrement: cur_ = cur_->prev_, equal: cur_ == other.cur_. *)
VARIABLES ring, itv
rvars == <<st, hist, ring, itv>>

NodeOf(it) == IF it.x # 0 THEN ElemN(it.x) ELSE HeadN(it.end)

IterAll ==
  {[BaseOp EXCEPT !.op = o, !.l = L] : o \in {"iter_begin", "iter_end"}, L \in Lists}
  \cup {[BaseOp EXCEPT !.op = o, !.mode = m] : o \in {"iter_inc", "iter_dec"}, m \in {0, 1}}
  \cup {[BaseOp EXCEPT !.op = "iter_drop"]}

RIter(r, n, a) ==
  CASE a.op = "iter_begin" -> r.nx[HeadN(a.l)]
    [] a.op = "iter_end" -> HeadN(a.l)
    [] a.op = "iter_inc" -> r.nx[n]
    [] a.op = "iter_dec" -> r.pv[n]
    [] OTHER -> 0

RInit == Init /\ ring = EmptyR /\ itv = [a |-> NoIter, r |-> 0]

RNext ==
  \/ \E a \in AllOps :
       /\ ~ring.uaf            \* the real program has been stopped by the sanitizer
       /\ Pre(st, a)
       /\ st' = Eff(st, a)
       /\ ring' = REff(ring, a)
       /\ itv' = LET it == IterAfter(itv.a, a)
                 IN [a |-> it, r |-> IF it = Dangling /\ itv.a # Dangling THEN -1 ELSE itv.r]
       /\ hist' = Append(hist, a)
  \/ /\ WithIter
     /\ \E a \in IterAll :
          /\ ~ring.uaf
          /\ IterPre(st, itv.a, a)
          /\ itv' = [a |-> IterEff(st, itv.a, a), r |-> RIter(ring, itv.r, a)]
          /\ hist' = Append(hist, a)
          /\ UNCHANGED <<st, ring>>

RSpec == RInit /\ [][RNext]_rvars

RView == <<st, ring, itv>>

(* representation invariants *)
RingOK ==
  \A n \in Nodes : ring.alive[n] =>
    /\ ring.nx[n] \in Nodes /\ ring.pv[n] \in Nodes
    /\ ring.pv[ring.nx[n]] = n
    /\ ring.nx[ring.pv[n]] = n
NoDeadRef ==
  \A n \in Nodes : ring.alive[n] =>
    /\ ring.nx[n] \in Nodes /\ ring.alive[ring.nx[n]]
    /\ ring.pv[n] \in Nodes /\ ring.alive[ring.pv[n]]
NoUAF == ~ring.uaf
WalkAgree ==
  \A L \in Lists : ring.alive[HeadN(L)] =>
    LET f == FwdWalk(ring, L)
        b == BwdWalk(ring, L)
    IN f.ok /\ b.ok /\ f.ids = Reverse(b.ids)

(* refinement Ring => Membership (lock-step) *)
Refines ==
  /\ \A L \in Lists : ring.alive[HeadN(L)] = st.llive[L]
  /\ \A e \in Elems : ring.alive[ElemN(e)] = st.elive[e]
  /\ \A L \in Lists : st.llive[L] =>
       LET f == FwdWalk(ring, L) IN
         /\ f.ok
         /\ f.ids = Forward(st, L)
         /\ EmptyL(ring, HeadN(L)) = IsEmpty(st, L)
(* an element that is in no list keeps no pointer into a list: the ring it is on consists of
   live elements only (it is self-linked, or on the head-less ring a destroyed / assigned-to
   list left behind) *)
RECURSIVE HeadlessFrom(_, _, _)
HeadlessFrom(start, n, fuel) ==
  IF n = start THEN TRUE
  ELSE IF fuel = 0 \/ n \notin Nodes \/ ~ring.alive[n] \/ IsHead(n) THEN FALSE
  ELSE HeadlessFrom(start, ring.nx[n], fuel - 1)
NoStaleHead ==
  \A e \in Elems : (st.elive[e] /\ \A L \in Lists : e \notin Range(st.member[L])) =>
    HeadlessFrom(ElemN(e), ring.nx[ElemN(e)], NL + NE)

(* THE ITERATOR INVARIANT: a held iterator keeps pointing at the node of what it denotes, and
   while that is a live member (or the end of a live list) the node's next_/prev_ are the nodes of
   the following / preceding member - after any operation on OTHER elements and lists. *)
IterRefines ==
  LET it == itv.a IN
  /\ (~it.held) = (itv.r = 0)
  /\ (it = Dangling) = (itv.r = -1)
  /\ (it.held /\ it # Dangling) => itv.r = NodeOf(it)
  /\ IterValid(st, it) =>
       /\ ring.alive[itv.r]
       /\ (CanInc(st, it) => ring.nx[itv.r] = NodeOf(IterInc(st, it)))
       /\ (CanDec(st, it) => ring.pv[itv.r] = NodeOf(IterDec(st, it)))
       /\ (it.x = 0 => (ring.nx[itv.r] = itv.r) = IsEmpty(st, it.end))

(* ACTION_CONSTRAINT of the script-emission configs that generate only histories of the
   operations the statement of C11 names (no unlink) *)
NoUnlink == hist' = hist \/ hist'[Len(hist')].op # "unlink"

REmit == PrintT("SCRIPT " \o ToJson(hist))
=============================================================================
