SPECIFICATION Spec
CONSTANTS
  T = "u8"
  Dom <- DomEdgeT
  ClampBug = FALSE
  SizeBug = FALSE
  DefBug = FALSE
INVARIANTS InType Prefix AtEnd SizeLaw RangeLaw
