SPECIFICATION Spec
CONSTANTS
  NB = 2
  MaxOps = 7
  Bug = "none"
INVARIANTS LawRestored LawNesting LawWrites LawRunAgrees
CHECK_DEADLOCK FALSE
