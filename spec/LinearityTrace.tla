-------------------------- MODULE LinearityTrace --------------------------
(* C05 - trace validation: replays the event log written by harness/c05_linear.cpp (events of
   the instrumented element type, bracketed per traced call by reset / begin / end) through
   the ownership machine of Linearity.tla.  One TLC state per event.  An event with a
   non-empty Why(S, ev) is recorded in `bad` (line, operation, reasons) and validation
   continues with Eff(S, ev), so that one defect does not hide the rest of the log. *)
EXTENDS Linearity, TLC, Json, IOUtils

RL == INSTANCE RecordLabels WITH LabelBug <- "none"

(* Scope (binding clarification of the extension round).  The statement of C05 names "the generic
   algorithms and containers (algorithm::map/fold/map_concat/..., container::join/pop_back/
   get_or_insert, optional/either/variant/record/tuple/array combinators, grid map/apply/resize, tree
   and options/parse constructors)".  The RESULTS of running an options / parse parser are not
   constructors and not combinators of those containers: histories of the operations below are judged
   like all others, but a disagreement is tagged OBSERVED-ONLY and reported as an observation, never
   as a violation.  The functional contract of the record operations ("labels" events: which label ends
   up where) is likewise outside the statement (it speaks about conservation, not placement). *)
ObservedOnlyOps == {"options::flag::parse", "options::option::parse", "options::many::parse",
                    "options::apply::parse", "options::sum::parse",
                    "parse::repetition", "parse::repetition_plus", "parse::sequence", "parse::sequence3",
                    "parse::sequence+repetition", "parse::optional", "parse::alternative"}

\* "labels" event: arg = per argument the list of [l, obj] captured before the call, res = the list
\* of [l, obj] of the result record.  Tokens: of the arguments as they were at begin, of the result now.
PosIn(seq, x) == CHOOSE k \in DOMAIN seq : seq[k] = x
LabelWhy(St, ev) ==
  IF ~RL!HasContract(St.op) THEN {"HARNESS-labels-for-unknown-operation"}
  ELSE IF \/ Len(ev.arg) # Len(St.args)
          \/ \E i \in DOMAIN ev.arg : \E k \in DOMAIN ev.arg[i] : ev.arg[i][k].obj \notin Range(St.args[i].objs)
          \/ \E k \in DOMAIN ev.res : ~Known(St, ev.res[k].obj)
  THEN {"untracked-object"}
  ELSE LET A == [i \in DOMAIN ev.arg |->
                   RL!AsRec([k \in DOMAIN ev.arg[i] |->
                               [l |-> ev.arg[i][k].l,
                                tok |-> St.args[i].toks[PosIn(St.args[i].objs, ev.arg[i][k].obj)]]])]
           Res == RL!AsRec([k \in DOMAIN ev.res |-> [l |-> ev.res[k].l, tok |-> St.objs[ev.res[k].obj].tok]])
       IN IF Res = RL!Contract(St.op, A) THEN {} ELSE {"label-mapping"}

VARIABLES l, S, bad, nbad
tvars == <<l, S, bad, nbad>>

T == ndJsonDeserialize(IOEnv.TRACE)

TInit == l = 1 /\ S = InitS /\ bad = <<>> /\ nbad = 0

TNext ==
  /\ l <= Len(T)
  /\ l' = l + 1
  /\ LET ev == T[l]
         opname == IF ev.e \in {"reset", "begin"} THEN ev.op ELSE S.op
         w0 == IF ev.e = "labels" THEN LabelWhy(S, ev) ELSE Why(S, ev)
         harness == \E r \in w0 : r \in {"HARNESS-id-reuse",
                                         "HARNESS-unknown-event", "HARNESS-begin-twice", "HARNESS-end-without-begin",
                                         "HARNESS-end-inside-continuation",
                                         "HARNESS-argument-count", "HARNESS-cb-exit-without-enter",
                                         "HARNESS-labels-for-unknown-operation"}
         w == IF w0 # {} /\ ~harness /\ (ev.e = "labels" \/ opname \in ObservedOnlyOps)
              THEN w0 \cup {"OBSERVED-ONLY"} ELSE w0
     IN /\ S' = IF ev.e = "labels" THEN S ELSE Eff(S, ev)
        /\ IF w = {} THEN UNCHANGED <<bad, nbad>>
           ELSE /\ nbad' = nbad + 1
                /\ bad' = IF nbad < 300
                          THEN Append(bad, [l |-> l, op |-> IF ev.e \in {"reset", "begin"} THEN ev.op ELSE S.op,
                                            why |-> w, ev |-> ev.e])
                          ELSE bad

TSpec == TInit /\ [][TNext]_tvars

Verdict == (l = Len(T) + 1) => PrintT("VERDICT " \o ToJson([n |-> Len(T), nbad |-> nbad, bad |-> bad]))
Consumed == TLCSet(1, l)
Post == IF TLCGet(1) = Len(T) + 1 THEN TRUE ELSE PrintT("STUCK " \o ToString(TLCGet(1)))
=============================================================================
