-------------------------- MODULE LinearityTrace --------------------------
(* C05 - trace validation: replays the event log written by harness/c05_linear.cpp (events of
   the instrumented element type, bracketed per traced call by reset / begin / end) through
   the ownership machine of Linearity.tla.  One TLC state per event.  An event with a
   non-empty Why(S, ev) is recorded in `bad` (line, operation, reasons) and validation
   continues with Eff(S, ev), so that one defect does not hide the rest of the log. *)
EXTENDS Linearity, TLC, Json, IOUtils

VARIABLES l, S, bad, nbad
tvars == <<l, S, bad, nbad>>

T == ndJsonDeserialize(IOEnv.TRACE)

TInit == l = 1 /\ S = InitS /\ bad = <<>> /\ nbad = 0

TNext ==
  /\ l <= Len(T)
  /\ l' = l + 1
  /\ LET ev == T[l]
         w == Why(S, ev)
     IN /\ S' = Eff(S, ev)
        /\ IF w = {} THEN UNCHANGED <<bad, nbad>>
           ELSE /\ nbad' = nbad + 1
                /\ bad' = IF nbad < 300
                          THEN Append(bad, [l |-> l, op |-> IF ev.e \in {"reset", "begin"} THEN ev.op ELSE S.op,
                                            why |-> w, ev |-> ev.e])
                          ELSE bad

TSpec == TInit /\ [][TNext]_tvars

Verdict == (l = Len(T) + 1) => PrintT("VERDICT " \o ToJson([n |-> Len(T), nbad |-> nbad, bad |-> bad]))
Consumed == TLCSet(1, l)
Post == IF TLCGet(1) = Len(T) + 1 THEN TRUE ELSE PrintT("STUCK " \o ToString(TLCGet(1)))
=============================================================================
