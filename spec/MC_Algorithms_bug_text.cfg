SPECIFICATION SpecSeq
CONSTANTS
  MaxLen = 4
  SetMax = 3
  SeqText <- SeqTextTrailingComma
INVARIANT ExtensionSeqLaws
