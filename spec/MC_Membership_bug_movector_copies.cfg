SPECIFICATION Spec
CONSTANTS
  NL = 2
  NE = 3
  AbsBug = "movector_copies"
VIEW View
INVARIANTS LawNoDup
CHECK_DEADLOCK FALSE
