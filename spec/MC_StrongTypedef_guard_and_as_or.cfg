SPECIFICATION Spec
CONSTANTS
  Base = 4
  L = 3
  Bug = "and_as_or"
  Families = {"u"}
INVARIANT UnsignedLaw
CHECK_DEADLOCK FALSE
