SPECIFICATION Spec
CONSTANTS
  SR = 2
  SL = 4
  MaxResets = 1
  MaxCopies = 1
  Bug = "copy_drops_hidden_state"
PROPERTY LawCopyKeeps
CHECK_DEADLOCK FALSE
