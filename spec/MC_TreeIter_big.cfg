SPECIFICATION ItSpec
CONSTANTS
  NS = 1
  Val = {0}
  MaxNodes = 7
  PushFirstBug = FALSE
  ParentSkipBug = FALSE
INVARIANTS PreOrderVisits StackIsPending PEndIsAfterLast PEqualIsPosition ToRootVisits REqualIsPosition
CHECK_DEADLOCK FALSE
