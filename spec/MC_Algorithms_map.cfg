SPECIFICATION SpecMap
CONSTANTS
  MaxLen = 2
  SetMax = 3
INVARIANT MapLawsAssoc
INVARIANT ExtensionMapLaws
