SPECIFICATION SpecSeq
CONSTANTS
  MaxLen = 4
  SetMax = 3
  Reverse <- ReverseButLast
INVARIANT ReverseAntiHom
