SPECIFICATION ISpec
CONSTANTS
  N <- EnvN
  W <- EnvW
  Bug <- EnvBug
VIEW IView
INVARIANT Refines
CHECK_DEADLOCK FALSE
