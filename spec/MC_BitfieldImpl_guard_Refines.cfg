SPECIFICATION ISpec
CONSTANTS
  N <- EnvN
  W <- EnvW
  Bug <- EnvBug
  FullOps <- EnvFull
VIEW IView
INVARIANT Refines
CHECK_DEADLOCK FALSE
