SPECIFICATION Spec
CONSTANTS
  N = 3
  Bug = "none"
  Group = "eitmonad"
  MaxLen = 0
INVARIANTS TypeOK LawEitLeftIdentity LawEitRightIdentity LawEitAssoc LawEitJoin LawEitChain
