SPECIFICATION Spec
CONSTANTS
  MaxObj = 4
  Allowed = {"copy-of-rvalue-element"}
  LCat = "lvalue"
INVARIANTS InvNoDuplication
CHECK_DEADLOCK FALSE
