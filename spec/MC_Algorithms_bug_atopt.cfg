SPECIFICATION SpecSeq
CONSTANTS
  MaxLen = 4
  SetMax = 3
  AtOptional <- AtOptionalOffByOne
INVARIANT AtOptionalLaws
