SPECIFICATION Spec
CONSTANTS
  MaxObj = 4
  Allowed = {}
  LCat = "lvalue"
INVARIANTS NoRevival
CHECK_DEADLOCK FALSE
