SPECIFICATION Spec
CONSTANTS
  MaxLen = 4
  MaxLenCheap = 4
  InitAll = FALSE
  BugNextArgNoSkip = FALSE
  BugUseFlagAll = FALSE
  BugOptionalOrigState = TRUE
  BugNames = "none"
VIEW View
INVARIANTS TypeOK FamilyTerminates ConsumedExactlyOnce OptionValueNotPositional FlagNeverFails HelpLaw SuccessLeavesNothing
CHECK_DEADLOCK FALSE
