SPECIFICATION Spec
CONSTANTS
  NS = 2
  Val = {0, 1}
  MaxNodes = 3
VIEW View
INVARIANTS TypeOK
CONSTRAINT EmitScripts
CHECK_DEADLOCK FALSE
