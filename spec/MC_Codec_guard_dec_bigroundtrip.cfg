SPECIFICATION Spec
CONSTANTS
  Mode = "dec"
  Step = 257
  DecRange = 200
  U8 <- Utf8
  WR <- Write
  TD <- ToDec
  NT <- NumTextBug
  NTL <- NumTextLoc
  CV <- Convert
INVARIANTS LawDecBigRoundTrip
CHECK_DEADLOCK FALSE
