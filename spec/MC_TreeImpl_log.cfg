INIT LogIInit
NEXT LogINext
CONSTANTS
  NS = 1
  Val = {1, 6, 11, 16, 21, 26}
  MaxNodes = 7
  SwapBug = FALSE
  CopyAssignBug = FALSE
  MoveAssignBug = FALSE
  InsertNoParentBug = FALSE
  CopyNoReparentBug = FALSE
  EraseKeepsBug = FALSE
  PushFrontRetBug = FALSE
  ReleaseNoClear = FALSE
  LogDupBug = FALSE
  LogSetShallowBug = FALSE
  LeakTempBug = FALSE
  MoveAssignInPlaceBug = FALSE
VIEW IView
INVARIANTS ParentConsistent RootsHaveNoParent NoDangling NoLeak Refines ReturnsAgree ITypeOK TypeOK LogNamesUniqueI LogShape
CHECK_DEADLOCK FALSE
