SPECIFICATION Spec
CONSTANTS
  N = 3
  MaxC = 3
  CarryBug = 0
  EndBug = FALSE
  SizeBug = FALSE
VIEW View
INVARIANTS TypeOK InSet Prefix AtEnd SizeLaw
