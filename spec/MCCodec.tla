------------------------------ MODULE MCCodec ------------------------------
(* Model check of the reference codecs of Codec.tla (C15).  The module is pure, so the bounded
   input space is enumerated as the set of INITIAL STATES (one state per input; TLC's distinct
   state count is the number of cases) and the laws are invariants.

   The operators under test are constants substituted in the cfg: by the reference operators
   in MC_Codec_*.cfg, by deliberately broken ones in MC_Codec_guard_*.cfg (vacuity guards: TLC
   must then report the named invariant as violated).                                         *)
EXTENDS Codec, FiniteSets, TLC

CONSTANTS Mode,       \* "bytes" | "utf8" | "dec"
          Step,       \* utf8: every Step-th scalar value besides the boundary neighbourhoods
          DecRange,   \* dec: all integers -DecRange..DecRange besides the boundary values
          U8(_),      \* <- Utf8
          WR(_, _),   \* <- Write
          TD(_),      \* <- ToDec
          NT(_),      \* <- NumText
          NTL(_, _),  \* <- NumTextLoc
          CV(_, _, _), \* <- Convert
          RV(_, _, _) \* <- ReadVec

VARIABLE inp

(* ---- broken variants for the vacuity guards *)
Utf8Bug(cp) ==   \* three-byte form starts one code point late
  IF cp < 128 THEN <<cp>>
  ELSE IF cp <= 2048 THEN <<192 + (cp \div 64), 128 + (cp % 64)>>
  ELSE Utf8(cp)
Utf8BugLen(cp) == IF cp \in 65536..65540 THEN SubSeq(Utf8(cp), 1, 3) ELSE Utf8(cp)  \* truncating encoder
Utf8BugCont(cp) == IF cp \in 2048..65535 THEN <<224 + (cp \div 4096), 64 + ((cp \div 64) % 64), 128 + (cp % 64)>> ELSE Utf8(cp)
WriteBug(d, endian) == IF Len(d) \in {2, 8} THEN d ELSE Write(d, endian)               \* 16/64-bit never swapped
NumTextBug(x) == NumText([s |-> 0, m |-> x.m])                                        \* loses the sign
ToDecBug(n) == IF n # 0 /\ n % 10 = 0 /\ n > 0 THEN ToDecNat(n \div 10) ELSE ToDec(n) \* drops a trailing zero

NumTextLocBug(x, p) ==   \* groups from the left: 123'456'7
  LET ds == IF x.m = <<>> THEN <<Zero>> ELSE BigToDecNat(x.m)
      RECURSIVE G(_)
      G(d) == IF p.grp = 0 \/ Len(d) <= p.grp THEN d ELSE SubSeq(d, 1, p.grp) \o <<p.sep>> \o G(SubSeq(d, p.grp + 1, Len(d)))
  IN (IF x.s = 1 THEN <<Minus>> ELSE <<>>) \o G(ds)

(* ---- input families *)
Near(S, k) == UNION {{x + d : d \in (-k)..k} : x \in S}
CpBoundaries == {1, 127, 128, 2047, 2048, 4095, 4096, 55295, 57344, 65533, 65535, 65536, 131071, 262143,
                 262144, 1048575, 1048576, 1114111}
PairSet == {cp \in Near(CpBoundaries, 1) : IsScalar(cp)}

Sample5 == {0, 1, 127, 128, 255}
Sample3 == {0, 128, 255}

IntBoundaries == {0, 9, 10, 99, 100, 127, 128, 255, 256, 32767, 32768, 65535, 65536, 99999, 100000,
                  16777215, 16777216, 999999999, 1000000000, 2147483646, 2147483647}

\* (disjunctions of \E rather than one big union: TLC enumerates each disjunct directly)
InitBytes ==
  \/ \E v \in 0..255 : inp = [k |-> "int", n |-> 1, v |-> v]
  \/ \E v \in 0..65535 : inp = [k |-> "int", n |-> 2, v |-> v]
  \/ \E v \in 0..65535 : inp = [k |-> "int", n |-> 3, v |-> v * 255 + 7]
  \/ \E v \in 0..65535 : inp = [k |-> "int", n |-> 4, v |-> v * 32768 + (v % 251)]
  \/ \E d \in [1..4 -> Sample5] : inp = [k |-> "digits", d |-> d]
  \/ \E d \in [1..8 -> Sample3] : inp = [k |-> "digits", d |-> d]

InitUtf8 ==
  \/ \E cp \in 1..1114111 : /\ IsScalar(cp) /\ cp % Step = 0
                             /\ inp = [k |-> "cp", cp |-> cp]
  \/ \E cp \in Near(CpBoundaries, 3) : IsScalar(cp) /\ inp = [k |-> "cp", cp |-> cp]
  \/ \E a \in PairSet, b \in PairSet : inp = [k |-> "pair", a |-> a, b |-> b]

\* sequences of one or two small vectors, every separator before every value, optionally after an int
SeqVals == {NumOfInt(-1), NumOfInt(0), NumOfInt(12)}
SeqVecs == {<<a>> : a \in SeqVals} \cup {<<a, b>> : a \in SeqVals, b \in SeqVals}
SeqSeps == {<<>>, <<32>>, <<10>>, <<9, 32>>, <<32, 10, 32>>}
InitVecSeq ==
  \/ \E v \in SeqVecs, s \in SeqSeps, lead \in {0, 1} :
        inp = [k |-> "vecseq", vecs |-> <<v>>, seps |-> <<s>>, lead |-> lead]
  \/ \E v \in SeqVecs, w \in SeqVecs, s \in SeqSeps, u \in SeqSeps, lead \in {0, 1} :
        inp = [k |-> "vecseq", vecs |-> <<v, w>>, seps |-> <<s, u>>, lead |-> lead]

InitDec ==
  \/ \E v \in (-DecRange)..DecRange : inp = [k |-> "int", v |-> v]
  \/ \E v \in IntBoundaries : inp = [k |-> "int", v |-> v] \/ inp = [k |-> "int", v |-> -v]
  \/ \E s \in {0, 1}, d \in [1..4 -> Sample5] : d # <<0, 0, 0, 0>> /\ inp = [k |-> "big", x |-> [s |-> s, m |-> Strip(d)]]
  \/ \E s \in {0, 1}, d \in [1..8 -> Sample3] : d # <<0, 0, 0, 0, 0, 0, 0, 0>> /\ inp = [k |-> "big", x |-> [s |-> s, m |-> Strip(d)]]

Init == CASE Mode = "bytes" -> InitBytes [] Mode = "utf8" -> InitUtf8 [] Mode = "dec" -> InitDec [] Mode = "vecseq" -> InitVecSeq
Next == UNCHANGED inp
Spec == Init /\ [][Next]_inp

(* ---- laws: byte order *)
PowAny(k) == Pow256(k)

LawBytesRoundTrip ==
  inp.k = "int" /\ Mode = "bytes" =>
    \A e \in Endians : ReadInt(WR(Bytes(inp.v, inp.n), e), e) = inp.v

\* big endian = most significant byte first, little endian = least significant byte first
LawBytesLayout ==
  inp.k = "int" /\ Mode = "bytes" =>
    /\ Num(Bytes(inp.v, inp.n)) = inp.v
    /\ \A i \in 1..inp.n :
         /\ WR(Bytes(inp.v, inp.n), "big")[i] = (inp.v \div Pow256(inp.n - i)) % 256
         /\ WR(Bytes(inp.v, inp.n), "little")[i] = (inp.v \div Pow256(i - 1)) % 256

LawSwap ==
  inp.k = "digits" =>
    /\ Swap(Swap(inp.d)) = inp.d
    /\ \A e \in Endians : Read(WR(inp.d, e), e) = inp.d
    /\ WR(inp.d, "little") = Swap(WR(inp.d, "big"))
    /\ Len(Swap(inp.d)) = Len(inp.d)

ConvertBug(d, format, native) == IF format = "big" THEN Swap(d) ELSE d   \* assumes a little-endian host

\* convert is an involution; io::write is "convert, then the bytes as they lie in memory"
LawConvert ==
  inp.k = "digits" =>
    \A f \in Endians, nat \in Endians :
      /\ CV(CV(inp.d, f, nat), f, nat) = inp.d
      /\ MemoryBytes(CV(inp.d, f, nat), nat) = Write(inp.d, f)
      /\ CV(inp.d, nat, nat) = inp.d

(* ---- laws: UTF-8 *)
LawUtf8RoundTrip == inp.k = "cp" => Utf8Decode(U8(inp.cp)) = inp.cp

LawUtf8Shape ==
  inp.k = "cp" =>
    LET b == U8(inp.cp) IN
    /\ Len(b) = Utf8Len(inp.cp)
    /\ IsByteSeq(b)
    /\ LeadLen(b[1]) = Len(b)
    /\ \A i \in 2..Len(b) : IsCont(b[i])
    /\ Utf8Str(<<inp.cp>>) = Utf8(inp.cp)

\* every proper prefix of an encoded character is recognised as an incomplete input
LawUtf8Truncated ==
  inp.k = "cp" =>
    \A n \in 1..(Len(U8(inp.cp)) - 1) : Utf8DecodeStr(SubSeq(U8(inp.cp), 1, n)).st = DIncomplete

RECURSIVE LexLess(_, _)
LexLess(s, t) == IF t = <<>> THEN FALSE ELSE IF s = <<>> THEN TRUE
                 ELSE IF s[1] # t[1] THEN s[1] < t[1] ELSE LexLess(Tail(s), Tail(t))

\* strings decode character by character; UTF-8 preserves the code point order
LawUtf8Pairs ==
  inp.k = "pair" =>
    /\ Utf8DecodeStr(U8(inp.a) \o U8(inp.b)) = [st |-> DOk, w |-> <<inp.a, inp.b>>]
    /\ (inp.a < inp.b <=> LexLess(U8(inp.a), U8(inp.b)))
    /\ LET t == U8(inp.a) \o U8(inp.b)
       IN Len(U8(inp.b)) > 1 => Utf8DecodeStr(SubSeq(t, 1, Len(t) - 1)) = [st |-> DIncomplete, w |-> <<inp.a>>]

\* non-characters of the decoder (checked once)
\* the fixture enum tables: every enumerator has exactly one name, from_string is the inverse
ASSUME \A E \in EnumIds :
         /\ \A i, j \in 1..Len(EnumNames[E]) : EnumNames[E][i] = EnumNames[E][j] => i = j
         /\ \A i \in 0..(Len(EnumNames[E]) - 1) : EnumFromString(E, EnumToString(E, i)) = <<i>>
ASSUME /\ MatText(<<<<NumOfInt(1), NumOfInt(2)>>, <<NumOfInt(3), NumOfInt(-4)>>>>) = <<40, 40, 49, 44, 50, 41, 44, 40, 51, 44, 45, 52, 41, 41>>
       /\ BoxText(<<NumOfInt(1)>>, <<NumOfInt(2)>>) = <<40, 40, 49, 41, 44, 40, 50, 41, 41>>
       /\ Transpose(<<<<1, 2, 3>>, <<4, 5, 6>>>>) = <<<<1, 4>>, <<2, 5>>, <<3, 6>>>>
       /\ NarrowString(<<97, 98>>) = <<<<97, 98>>>> /\ NarrowString(<<97, 8364>>) = <<>> /\ NarrowString(<<>>) = <<<<>>>>

ASSUME /\ Utf8DecodeStr(<<237, 160, 128>>).st = DInvalid        \* U+D800
       /\ Utf8DecodeStr(<<237, 191, 191>>).st = DInvalid        \* U+DFFF
       /\ Utf8DecodeStr(<<192, 128>>).st = DInvalid             \* overlong
       /\ Utf8DecodeStr(<<224, 159, 191>>).st = DInvalid        \* overlong
       /\ Utf8DecodeStr(<<244, 144, 128, 128>>).st = DInvalid   \* U+110000
       /\ Utf8DecodeStr(<<128>>).st = DInvalid
       /\ Utf8DecodeStr(<<255>>).st = DInvalid
       /\ Utf8DecodeStr(<<>>) = [st |-> DOk, w |-> <<>>]

(* ---- law: vector / dim output followed by input on ONE stream.  Whatever white space separates
   the values (and an int in front), reading them back in order yields them all *)
LawVecSeq ==
  inp.k = "vecseq" =>
    LET leadText == IF inp.lead = 1 THEN <<53>> ELSE <<>>
        t == leadText \o WriteSeq(inp.seps, inp.vecs)
        start == IF inp.lead = 1 THEN ReadNum(t, 0).p ELSE 0
    IN ReadSeqFrom(RV, t, start, [i \in 1..Len(inp.vecs) |-> Len(inp.vecs[i])], FALSE, <<>>)
         = [i \in 1..Len(inp.vecs) |-> [ok |-> TRUE, ys |-> inp.vecs[i]]]

(* ---- laws: decimal under a numpunct facet *)
LocNum == IF inp.k = "int" THEN NumOfInt(inp.v) ELSE inp.x
\* the facet laws are evaluated on a ninth of the small integers, all boundary integers and a
\* third of the wide magnitudes (they cost four conversions per state)
LocApplies ==
  /\ Mode = "dec"
  /\ IF inp.k = "int" THEN inp.v % 9 = 0 \/ inp.v > DecRange \/ inp.v < -DecRange
     ELSE (IF inp.x.m = <<>> THEN 0 ELSE inp.x.m[Len(inp.x.m)] + Len(inp.x.m)) % 3 = 0

LawDecLocRoundTrip ==
  LocApplies =>
    \A id \in PunctIds :
      LET p == Puncts[id]
          t == NTL(LocNum, p)
      IN /\ TextNumLoc(t, p) = [ok |-> TRUE, x |-> LocNum]
         /\ Ungroup(t, p) = NumText(LocNum)                      \* the separators removed: the plain text
         /\ (p.grp = 0 => t = NumText(LocNum))

\* every group but the first has exactly grp digits, the first 1..grp; no separator next to the sign
LawDecLocShape ==
  LocApplies =>
    \A id \in PunctIds :
      LET p == Puncts[id]
          t == NTL(LocNum, p)
          body == IF t[1] = Minus THEN Tail(t) ELSE t
          n == Len(body)
      IN p.grp > 0 =>
           /\ \A i \in 1..n : (body[i] = p.sep) <=> ((n - i + 1) % (p.grp + 1) = 0)
           /\ body[1] # p.sep

(* ---- laws: decimal *)
LawDecRoundTrip ==
  inp.k = "int" /\ Mode = "dec" =>
    /\ IsCanonicalDec(TD(inp.v))
    /\ FromDec(TD(inp.v)) = inp.v

\* the arbitrary-width arithmetic agrees with TLC's integers where both apply
LawDecBigAgrees ==
  inp.k = "int" /\ Mode = "dec" =>
    /\ NumText(NumOfInt(inp.v)) = TD(inp.v)
    /\ TextNum(TD(inp.v)) = NumOfInt(inp.v)
    /\ IsNumRec(NumOfInt(inp.v))
    /\ (Fits(NumOfInt(inp.v), 8, 1) <=> inp.v \in -128..127)
    /\ (Fits(NumOfInt(inp.v), 8, 0) <=> inp.v \in 0..255)
    /\ (Fits(NumOfInt(inp.v), 16, 1) <=> inp.v \in -32768..32767)
    /\ (Fits(NumOfInt(inp.v), 16, 0) <=> inp.v \in 0..65535)
    /\ Fits(NumOfInt(inp.v), 32, 1)
    /\ (Fits(NumOfInt(inp.v), 32, 0) <=> inp.v >= 0)

LawDecBigRoundTrip ==
  inp.k = "big" =>
    /\ IsNumRec(inp.x)
    /\ IsCanonicalDec(NT(inp.x))
    /\ TextNum(NT(inp.x)) = inp.x
    /\ (Fits(inp.x, 64, 0) <=> inp.x.s = 0)

=============================================================================
