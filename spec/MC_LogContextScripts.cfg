SPECIFICATION Spec
CONSTANTS
  Names <- NamesAB
  MaxDepth = 3
  SetLevels = {1, 6}
  RootLevels = {1}
  Objs = {1, 2}
  MaxSets = 2
  MaxOps = 3
  GenObservers = TRUE
  SetNodeOnlyBug = FALSE
  InheritRootBug = FALSE
VIEW View
INVARIANTS TypeOK LatestPrefixWins
CONSTRAINT EmitScripts
CHECK_DEADLOCK FALSE
