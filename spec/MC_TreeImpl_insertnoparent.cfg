SPECIFICATION ISpec
CONSTANTS
  NS = 2
  Val = {0, 1}
  MaxNodes = 4
  SwapBug = FALSE
  CopyAssignBug = FALSE
  MoveAssignBug = FALSE
  InsertNoParentBug = TRUE
  CopyNoReparentBug = FALSE
  EraseKeepsBug = FALSE
  PushFrontRetBug = FALSE
  ReleaseNoClear = FALSE
  LogDupBug = FALSE
  LogSetShallowBug = FALSE
  LeakTempBug = FALSE
  MoveAssignInPlaceBug = FALSE
VIEW IView
INVARIANTS ParentConsistent
CHECK_DEADLOCK FALSE
