SPECIFICATION Spec
CONSTANTS
  Base = 4
  L = 3
  Bug = "none"
  Families = {"u", "s"}
INVARIANTS UnsignedLaw SignedLaw
CHECK_DEADLOCK FALSE
