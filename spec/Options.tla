------------------------------- MODULE Options -------------------------------
(* C03 - executable reference semantics of fcppt::options.

   The rule set is the one of DESIGN.md Appendix B, confirmed rule by rule against
   doc/files/modules/options.doxygen, the class comments of *_decl.hpp and the
   anchors (the _impl.hpp headers, src/options/detail and impl/src/options/impl).  A parser is an AST loaded from
   JSON (gen/options_family.py writes the same shapes as C++), a parse state is the
   sequence of not yet consumed arguments, each carrying its ORIGINAL index in the
   argument vector as a ghost, and

       Run(p, st, ctx)  =  Ok(st', value, used) | Miss(st', used) | Other

   threads the state through the sub-parsers exactly as documented:
     * IsDash / NextArg     impl/is_flag.cpp, impl/next_arg.cpp, detail/pop_arg.cpp
     * argument             argument_impl.hpp
     * flag, switch, unit_switch   flag_impl.hpp, switch_impl.hpp, unit_switch_impl.hpp,
                            detail/use_flag.cpp (first occurrence only)
     * option               option_impl.hpp, detail/use_option.cpp
     * unit                 unit_impl.hpp
     * optional, many       optional_impl.hpp, many_impl.hpp (continue from the state
                            carried by a *missing* error, propagate *other* errors)
     * product, sum         product_impl.hpp, sum_impl.hpp, detail/combine_errors_impl.hpp
     * commands             commands_impl.hpp, detail/split_command.cpp
     * parse, parse_help    parse.hpp, parse_help.hpp, detail/parse_to_empty.hpp,
                            detail/leftover_error.cpp
   `used` is a ghost: the set of consumption events [n, idx, role, at, drop, ctx]
   (n = AST node that consumed, idx = original argv index, role = arg | flag |
   name | value | cmd, at = length of the state in which that node was entered,
   drop = the consuming sub-parse ended in a *missing* error that optional / many
   turned into success, ctx = option names declared by the scope of an `arg` / `cmd`
   consumer, see below).

   Token conversion Extract(T, tok) is NOT specified here: it is a constant table
   measured by the harness with a plain std::istringstream >> (fcppt documents
   extract_from_string as exactly that; its correctness belongs to C15 / C01).

   Tokens are referred to by a 1-based id into Family.tokens (code point
   sequences; TLA+ strings are not indexable).

   The Bug* constants re-introduce a defect each into the rule set; they are
   FALSE / "none" everywhere except in the vacuity-guard configurations, where TLC
   must find a violation of the named invariant.

   Parse contexts.  A context is a pair [use, ref]: `use` is the set of option
   names the parsers actually look at (option_names() of the scope's root parser:
   the parser given to parse, sum(help, parser) for parse_help, the common parser
   resp. the sub-command parser inside commands) and is subject to BugNames; `ref`
   is the same set by the documented rule (every composite contributes the union
   of its parts, commands contributes nothing) and is only recorded in the ghost
   events, so that OptionValueNotPositional speaks about the names the scope
   DECLARES, not about the names a defective option_names() happens to return. *)
EXTENDS Naturals, Sequences, FiniteSets, TLC, Json, IOUtils

CONSTANTS BugNextArgNoSkip,      \* next_arg does not skip the value of a context option
          BugUseFlagAll,         \* use_flag erases every occurrence of the flag
          BugOptionalOrigState,  \* optional continues from its own input state after a missing error
          BugMissingIsOther,     \* argument reports "nothing to parse" as an other error
          BugErrorState,         \* "none", or how a combinator hands on a missing error wrongly:
                                 \* "sum_left" (missing + missing keeps the LEFT error's state) |
                                 \* "sum_threads_left" (right alternative runs on the state of left's error) |
                                 \* "sum_other_miss" (other + missing is reported as missing) |
                                 \* "product_orig" (right component missing: the product's input state)
          BugUsage,              \* "none" | "product_drops_right" | "optional_no_brackets" |
                                 \* "flag_no_short" | "no_default"   (reference usage renderer only)
          BugNames               \* "none", or which contribution to option_names() is dropped:
                                 \* "sum_left_only" | "sum_right_only" | "product_left_only" |
                                 \* "product_right_only" | "optional_none" | "many_none"

Family == JsonDeserialize(IOEnv.PARSERS)
ExtractTable == JsonDeserialize(IOEnv.EXTRACT)
Tokens == Family.tokens
Shapes == Family.shapes
NTok == Len(Tokens)
NShapes == Len(Shapes)

Dash == 45

(* impl/is_flag.cpp: a token is flag-like iff its first character is '-'; it is a
   long name iff the second one is '-' as well; the name is the rest ("-" is a
   short flag with the empty name, "--" a long flag with the empty name). *)
DashInfo ==
  [g \in 1..NTok |->
     LET t == Tokens[g] IN
     IF Len(t) >= 1 /\ t[1] = Dash
     THEN IF Len(t) >= 2 /\ t[2] = Dash
          THEN [dash |-> TRUE, nm |-> [name |-> SubSeq(t, 3, Len(t)), short |-> FALSE]]
          ELSE [dash |-> TRUE, nm |-> [name |-> SubSeq(t, 2, Len(t)), short |-> TRUE]]
     ELSE [dash |-> FALSE, nm |-> [name |-> <<>>, short |-> FALSE]]]

(* impl/flag_name.cpp *)
FlagTok(name, short) == (IF short THEN <<Dash>> ELSE <<Dash, Dash>>) \o name

Extract(ty, g) == ExtractTable[ty][g]      \* <<>> or <<rendered value>>

(* Values.  Every value position holds a record, so that two values of different shape are
   merely unequal (TLC refuses to compare a string with a record):
     leaf [s |-> "i:5"], optional [o |-> <<>> or <<v>>], vector [v |-> <<..>>],
     sum [left |-> rec] / [right |-> rec], result record = function from labels to values. *)
Leaf(x) == [s |-> x]

-----------------------------------------------------------------------------
(* states *)
InitState(argv) == [i \in 1..Len(argv) |-> [idx |-> i, tok |-> argv[i]]]
RemoveAt(s, k) == SubSeq(s, 1, k - 1) \o SubSeq(s, k + 1, Len(s))
MinOf(S) == CHOOSE k \in S : \A j \in S : k <= j
Positions(st, t) == {k \in 1..Len(st) : Tokens[st[k].tok] = t}

(* results *)
Ok(st, val, used) == [k |-> "ok", st |-> st, val |-> val, used |-> used]
Miss(st, used) == [k |-> "miss", st |-> st, used |-> used]
Other == [k |-> "other"]
Diverge == [k |-> "diverge"]     \* many() over a parser that succeeded without consuming: API precondition

U(p, idx, role, at, ctx) == [n |-> p.n, idx |-> idx, role |-> role, at |-> at, drop |-> FALSE, ctx |-> ctx]
MarkDrop(used) == {[u EXCEPT !.drop = TRUE] : u \in used}

-----------------------------------------------------------------------------
(* static information about a parser *)
RECURSIVE OptionNames(_), OptionNamesUsed(_), RawNames(_), Labels(_), WellFormed(_), IllKinds(_), FlagLeaves(_), Nodes(_)

ShortSet(p) == {p.short[i] : i \in 1..Len(p.short)}
SubParsers(p) == {p.subs[i].p : i \in 1..Len(p.subs)}

(* option_names(): what a parse context knows (commands contributes nothing).
   OptionNames = the documented rule; OptionNamesUsed = the same with BugNames applied. *)
LeafOptionNames(p) ==
  {[name |-> p.long, short |-> FALSE]} \cup {[name |-> s, short |-> TRUE] : s \in ShortSet(p)}
OptionNames(p) ==
  CASE p.k = "option" -> LeafOptionNames(p)
    [] p.k \in {"optional", "many", "wrap"} -> OptionNames(p.sub)
    [] p.k \in {"product", "sum"} -> OptionNames(p.l) \cup OptionNames(p.r)
    [] OTHER -> {}
OptionNamesUsed(p) ==
  CASE p.k = "option" -> LeafOptionNames(p)
    [] p.k = "optional" -> IF BugNames = "optional_none" THEN {} ELSE OptionNamesUsed(p.sub)
    [] p.k = "many" -> IF BugNames = "many_none" THEN {} ELSE OptionNamesUsed(p.sub)
    [] p.k = "wrap" -> OptionNamesUsed(p.sub)
    [] p.k = "product" -> (IF BugNames = "product_right_only" THEN {} ELSE OptionNamesUsed(p.l))
                          \cup (IF BugNames = "product_left_only" THEN {} ELSE OptionNamesUsed(p.r))
    [] p.k = "sum" -> (IF BugNames = "sum_right_only" THEN {} ELSE OptionNamesUsed(p.l))
                      \cup (IF BugNames = "sum_left_only" THEN {} ELSE OptionNamesUsed(p.r))
    [] OTHER -> {}
Context(p) == [use |-> OptionNamesUsed(p), ref |-> OptionNames(p)]

(* product_impl.hpp check_disjoint: flag and option names without their dashes *)
RawNames(p) ==
  CASE p.k \in {"flag", "switch", "unit_switch", "option"} -> {p.long} \cup ShortSet(p)
    [] p.k \in {"optional", "many", "wrap"} -> RawNames(p.sub)
    [] p.k \in {"product", "sum"} -> RawNames(p.l) \cup RawNames(p.r)
    [] OTHER -> {}

Labels(p) ==
  CASE p.k \in {"argument", "flag", "switch", "unit_switch", "option", "unit", "sum"} -> {p.label}
    [] p.k \in {"optional", "many", "wrap"} -> Labels(p.sub)
    [] p.k = "product" -> Labels(p.l) \cup Labels(p.r)
    [] p.k = "commands" -> {"options_label", "sub_command_label"}

Nodes(p) ==
  {p} \cup
  CASE p.k \in {"optional", "many", "wrap"} -> Nodes(p.sub)
    [] p.k \in {"product", "sum"} -> Nodes(p.l) \cup Nodes(p.r)
    [] p.k = "commands" -> Nodes(p.common) \cup UNION {Nodes(q) : q \in SubParsers(p)}
    [] OTHER -> {}

FlagLeaves(p) == {q \in Nodes(p) : q.k \in {"flag", "switch"}}

(* Definition validation.  IllKinds(p) = the exception kinds a constructor of an ill-formed
   definition may raise ({} = well formed): short = long name -> duplicate_names
   (check_short_long_names.cpp), active = inactive value -> exception (flag_impl.hpp), common
   names in a product -> duplicate_names (check_disjoint), repeated sub-command name ->
   duplicate_names (check_sub_command_names.cpp). *)
NamesClash(p) == p.long \in ShortSet(p)
IllKinds(p) ==
  CASE p.k = "flag" -> (IF NamesClash(p) THEN {"duplicate_names"} ELSE {})
                       \cup (IF p.active = p.inactive THEN {"exception", "duplicate_names"} ELSE {})
    [] p.k \in {"switch", "unit_switch", "option"} -> IF NamesClash(p) THEN {"duplicate_names"} ELSE {}
    [] p.k \in {"optional", "many", "wrap"} -> IllKinds(p.sub)
    [] p.k = "sum" -> IllKinds(p.l) \cup IllKinds(p.r)
    [] p.k = "product" -> IllKinds(p.l) \cup IllKinds(p.r)
                          \cup (IF RawNames(p.l) \cap RawNames(p.r) # {} THEN {"duplicate_names"} ELSE {})
    [] p.k = "commands" -> IllKinds(p.common) \cup UNION {IllKinds(q) : q \in SubParsers(p)}
                           \cup (IF \E i, j \in 1..Len(p.subs) : i # j /\ p.subs[i].name = p.subs[j].name
                                 THEN {"duplicate_names"} ELSE {})
    [] OTHER -> {}
WellFormed(p) == IllKinds(p) = {}

-----------------------------------------------------------------------------
(* impl/next_arg.cpp: the first positional argument.  Every flag-like token is skipped; if it
   names an option of the context and is not the last token, the token after it is skipped too,
   whatever it looks like.  0 = none. *)
RECURSIVE NextArgFrom(_, _, _)
NextArgFrom(st, ctx, k) ==
  IF k > Len(st) THEN 0
  ELSE LET d == DashInfo[st[k].tok] IN
       IF d.dash
       THEN IF k + 1 <= Len(st) /\ d.nm \in ctx.use /\ ~BugNextArgNoSkip
            THEN NextArgFrom(st, ctx, k + 2)
            ELSE NextArgFrom(st, ctx, k + 1)
       ELSE k
NextArg(st, ctx) == NextArgFrom(st, ctx, 1)

(* detail/use_flag.cpp: erase the FIRST argument equal to the flag *)
UseFlag(p, st, t) ==
  LET ps == Positions(st, t) IN
  IF ps = {} THEN [found |-> FALSE, st |-> st, used |-> {}]
  ELSE IF BugUseFlagAll
       THEN [found |-> TRUE, st |-> SelectSeq(st, LAMBDA e : Tokens[e.tok] # t),
             used |-> {U(p, st[k].idx, "flag", Len(st), {}) : k \in ps}]
       ELSE LET k == MinOf(ps) IN
            [found |-> TRUE, st |-> RemoveAt(st, k), used |-> {U(p, st[k].idx, "flag", Len(st), {})}]

(* flag_impl.hpp parse: the long name, then (if there is one) the short name; both -> other error.
   `at` of the used events is the length of the state the leaf was entered with. *)
FlagCore(p, st) ==
  LET l == UseFlag(p, st, FlagTok(p.long, FALSE))
      s == IF p.short = <<>> THEN [found |-> FALSE, st |-> l.st, used |-> {}]
           ELSE UseFlag(p, l.st, FlagTok(p.short[1], TRUE))
  IN [both |-> l.found /\ s.found, found |-> l.found \/ s.found, st |-> s.st,
      used |-> {[u EXCEPT !.at = Len(st)] : u \in l.used \cup s.used}]

RunFlag(p, st, active, inactive) ==
  LET c == FlagCore(p, st) IN
  IF c.both THEN Other ELSE Ok(c.st, (p.label :> Leaf(IF c.found THEN active ELSE inactive)), c.used)

(* unit_switch_impl.hpp: a switch that has to be there; otherwise a missing error carrying the state *)
RunUnitSwitch(p, st) ==
  LET c == FlagCore(p, st) IN
  IF c.both THEN Other
  ELSE IF c.found THEN Ok(c.st, (p.label :> Leaf("unit")), c.used) ELSE Miss(c.st, {})

(* detail/use_option.cpp: first occurrence of the name; last token -> missing option argument;
   otherwise the name and its successor are removed *)
UseOption(p, st, t, at) ==
  LET ps == Positions(st, t) IN
  IF ps = {} THEN [r |-> "none", st |-> st]
  ELSE LET k == MinOf(ps) IN
       IF k = Len(st) THEN [r |-> "noarg", st |-> st]
       ELSE [r |-> "found", st |-> RemoveAt(RemoveAt(st, k + 1), k), val |-> st[k + 1].tok,
             used |-> {U(p, st[k].idx, "name", at, {}), U(p, st[k + 1].idx, "value", at, {})}]

(* option_impl.hpp *)
RunOption(p, st) ==
  LET l == UseOption(p, st, FlagTok(p.long, FALSE), Len(st))
      s == IF p.short = <<>> THEN [r |-> "none", st |-> l.st]
           ELSE UseOption(p, l.st, FlagTok(p.short[1], TRUE), Len(st))
      conv(f) == LET e == Extract(p.ty, f.val) IN
                 IF e = <<>> THEN Other ELSE Ok(s.st, (p.label :> Leaf(e[1])), f.used)
  IN CASE l.r = "noarg" \/ s.r = "noarg" -> Other
       [] l.r = "found" /\ s.r = "found" -> Other
       [] l.r = "found" -> conv(l)
       [] s.r = "found" -> conv(s)
       [] OTHER -> IF p.default = <<>> THEN Miss(st, {}) ELSE Ok(st, (p.label :> Leaf(p.default[1])), {})

(* argument_impl.hpp, detail/pop_arg.cpp *)
RunArgument(p, st, ctx) ==
  LET k == NextArg(st, ctx) IN
  IF k = 0 THEN (IF BugMissingIsOther THEN Other ELSE Miss(st, {}))
  ELSE LET e == Extract(p.ty, st[k].tok) IN
       IF e = <<>> THEN Other
       ELSE Ok(RemoveAt(st, k), (p.label :> Leaf(e[1])), {U(p, st[k].idx, "arg", Len(st), ctx.ref)})

RECURSIVE Run(_, _, _), ManyLoop(_, _, _, _, _)

(* many_impl.hpp: apply the parser until it reports a missing error; continue from the state of
   that error; any other error is propagated *)
ManyLoop(p, st, ctx, acc, used) ==
  LET r == Run(p, st, ctx) IN
  CASE r.k = "ok" -> IF Len(r.st) = Len(st) THEN Diverge
                     ELSE ManyLoop(p, r.st, ctx, [l \in DOMAIN acc |-> Append(acc[l], r.val[l])], used \cup r.used)
    [] r.k = "miss" -> Ok(r.st, [l \in DOMAIN acc |-> [v |-> acc[l]]], used \cup MarkDrop(r.used))
    [] OTHER -> r

RunCommands(p, st) ==
  LET cn == Context(p.common)
      k == NextArg(st, cn)
  IN IF k = 0 THEN Miss(st, {})
     ELSE LET name == Tokens[st[k].tok]
              cands == {i \in 1..Len(p.subs) : p.subs[i].name = name}
          IN IF cands = {} THEN Other
             ELSE LET sub == p.subs[MinOf(cands)]
                      c == Run(p.common, SubSeq(st, 1, k - 1), cn)
                  IN IF ~(c.k = "ok" /\ c.st = <<>>) THEN (IF c.k = "diverge" THEN c ELSE Other)
                     ELSE LET s == Run(sub.p, SubSeq(st, k + 1, Len(st)), Context(sub.p))
                              mine == c.used \cup {U(p, st[k].idx, "cmd", Len(st), cn.ref)}
                          IN CASE s.k = "ok" ->
                                    Ok(s.st, ("options_label" :> c.val) @@ ("sub_command_label" :> (sub.tag :> s.val)),
                                       mine \cup s.used)
                               [] s.k = "miss" -> Miss(s.st, mine \cup s.used)
                               [] OTHER -> s

Run(p, st, ctx) ==
  CASE p.k = "argument" -> RunArgument(p, st, ctx)
    [] p.k = "flag" -> RunFlag(p, st, p.active, p.inactive)
    [] p.k = "switch" -> RunFlag(p, st, "b:1", "b:0")
    [] p.k = "unit_switch" -> RunUnitSwitch(p, st)
    [] p.k = "option" -> RunOption(p, st)
    [] p.k = "unit" -> IF st = <<>> THEN Ok(st, (p.label :> Leaf("unit")), {}) ELSE Other
    [] p.k = "optional" ->
         (* optional_impl.hpp: a missing error becomes "all labels nothing" and parsing continues
            from the state CARRIED BY THE ERROR (what a sub-parser consumed before the missing
            one stays consumed); any other error is propagated *)
         LET r == Run(p.sub, st, ctx) IN
         CASE r.k = "ok" -> Ok(r.st, [l \in DOMAIN r.val |-> [o |-> <<r.val[l]>>]], r.used)
           [] r.k = "miss" -> Ok(IF BugOptionalOrigState THEN st ELSE r.st,
                                 [l \in Labels(p.sub) |-> [o |-> <<>>]], MarkDrop(r.used))
           [] OTHER -> r
    [] p.k = "many" -> ManyLoop(p.sub, st, ctx, [l \in Labels(p.sub) |-> <<>>], {})
    [] p.k = "wrap" ->
         (* Ways of passing / hiding a parser do not change what it parses: make_base ("Hiding a
            concrete parser implementation ... hides the concrete (permuted) result type",
            base_decl.hpp; records are compared as functions from labels, so a permuted result
            type is the same value), fcppt::make_cref ("By reference", options.doxygen). *)
         Run(p.sub, st, ctx)
    [] p.k = "product" ->
         (* product_impl.hpp: left, then right on the state left behind by left; the first error wins *)
         LET l == Run(p.l, st, ctx) IN
         IF l.k # "ok" THEN l
         ELSE LET r == Run(p.r, l.st, ctx) IN
              CASE r.k = "ok" -> Ok(r.st, l.val @@ r.val, l.used \cup r.used)
                [] r.k = "miss" -> Miss(IF BugErrorState = "product_orig" THEN st ELSE r.st, l.used \cup r.used)
                [] OTHER -> r
    [] p.k = "sum" ->
         (* sum_impl.hpp: left on a copy of the state; on any error right on the ORIGINAL state;
            combine_errors: missing only if both are missing, with the state of right's error *)
         LET l == Run(p.l, st, ctx) IN
         IF l.k = "ok" THEN Ok(l.st, (p.label :> [left |-> l.val]), l.used)
         ELSE IF l.k = "diverge" THEN l
         ELSE LET r == Run(p.r, IF BugErrorState = "sum_threads_left" /\ l.k = "miss" THEN l.st ELSE st, ctx) IN
              CASE r.k = "ok" -> Ok(r.st, (p.label :> [right |-> r.val]), r.used)
                [] r.k = "miss" /\ (l.k = "miss" \/ BugErrorState = "sum_other_miss") ->
                     Miss(IF BugErrorState = "sum_left" /\ l.k = "miss" THEN l.st ELSE r.st, r.used)
                [] r.k = "diverge" -> r
                [] OTHER -> Other
    [] p.k = "commands" -> RunCommands(p, st)

-----------------------------------------------------------------------------
(* parse.hpp / detail/parse_to_empty.hpp: the context is the parser's own option names; success
   iff the parser succeeds and nothing is left over *)
Top(r) ==
  CASE r.k = "ok" /\ r.st = <<>> -> [ok |-> TRUE, help |-> FALSE, val |-> r.val, used |-> r.used]
    [] r.k = "diverge" -> [ok |-> FALSE, help |-> FALSE, diverge |-> TRUE]
    [] OTHER -> [ok |-> FALSE, help |-> FALSE, diverge |-> FALSE]

Parse(p, argv) == Top(Run(p, InitState(argv), Context(p)))

(* The parser interface itself (options.doxygen, "Implementation": parse(state, context) returns
   "either an error or a result together with the remaining state"; parse_error: "either caused
   by a missing argument or option, or by something else like a failed conversion").  Observable
   of a direct call: the kind, the remaining arguments (success and missing error), the value. *)
RunTop(p, argv) == Run(p, InitState(argv), Context(p))
Remaining(r) == [i \in 1..Len(r.st) |-> r.st[i].tok]

(* parse_help.hpp: parse of sum(unit_switch("--help"), p) in the
   context of that SUM (combined_parser.option_names()); a left result is the usage text (its
   wording is not specified here) *)
HelpName == <<104, 101, 108, 112>>
DefaultHelp == [short |-> <<>>, long |-> HelpName]       \* default_help_switch()
HelpSum(p, hs) == [k |-> "sum", n |-> 0, label |-> "help_sum",
                   l |-> [k |-> "unit_switch", n |-> 0, label |-> "help_label", short |-> hs.short, long |-> hs.long],
                   r |-> p]
(* hs = the names of the help switch (help_switch.hpp: a unit_switch; any short / long name) *)
ParseHelp(p, hs, argv) ==
  LET t == Top(Run(HelpSum(p, hs), InitState(argv), Context(HelpSum(p, hs)))) IN
  IF ~t.ok THEN t
  ELSE IF "left" \in DOMAIN t.val["help_sum"]
       THEN [ok |-> TRUE, help |-> TRUE, used |-> t.used]
       ELSE [ok |-> TRUE, help |-> FALSE, val |-> t.val["help_sum"].right, used |-> t.used]

-----------------------------------------------------------------------------
(* Error kinds (missing_error.hpp: "A missing error is an error that occurs if a required
   argument or option has not been specified.  Such an error makes optional parsers return an
   empty optional."; other_error_fwd.hpp: "Errors that are not missing_error, for example failed
   conversion.  Such errors make even optional parsers fail.").  Law over every node q of p, run
   on the whole argument vector in p's context: an argument is missing exactly when the scope has
   no positional argument left, an option without default / a unit_switch exactly when none of its
   names occurs, an option with a default, a flag, optional and many never are; optional fails
   with an other error exactly when its parser does. *)
HasTok(argv, t) == \E i \in 1..Len(argv) : Tokens[argv[i]] = t
NamesAbsent(q, argv) ==
  /\ ~HasTok(argv, FlagTok(q.long, FALSE))
  /\ \A sh \in ShortSet(q) : ~HasTok(argv, FlagTok(sh, TRUE))
ErrorKindLawIn(p, argv) ==
  LET ctx == Context(p)
      st0 == InitState(argv)
  IN \A q \in Nodes(p) :
       LET r == Run(q, st0, ctx) IN
       CASE q.k = "argument" -> (r.k = "miss") <=> (NextArg(st0, [use |-> ctx.ref, ref |-> ctx.ref]) = 0)
         [] q.k = "option" -> (r.k = "miss") <=> (q.default = <<>> /\ NamesAbsent(q, argv))
         [] q.k = "unit_switch" -> (r.k = "miss") <=> NamesAbsent(q, argv)
         [] q.k \in {"flag", "switch", "many", "unit"} -> r.k # "miss"
         [] q.k = "optional" -> r.k # "miss" /\ ((r.k = "other") <=> (Run(q.sub, st0, ctx).k = "other"))
         [] OTHER -> TRUE

(* The state a result or a missing error carries (state.hpp: "the list of not yet consumed
   arguments threaded through all sub-parsers"; missing_error.hpp: the state with which optional /
   many / sum continue).  Law over every node q of p, run on the whole argument vector:
     * accounted: the tokens ABSENT from the carried state are exactly the tokens with a
       consumption event of the path taken, one event each, and the carried state keeps the
       original order - a token consumed by an alternative of a sum that then failed can neither
       disappear from the state nor be consumed a second time;
     * sum (sum_decl.hpp "tries the left parser and, if that fails, the right parser";
       detail/combine_errors_impl.hpp): missing exactly when both alternatives are missing on the
       sum's own input state, and then with the state of the RIGHT alternative's error;
     * product: missing exactly when the left component is missing, or it succeeds and the right
       component is missing on the state left by it - and then with that error's state. *)
StateIdx(st) == {st[i].idx : i \in 1..Len(st)}
AccountedIn(r, n) ==
  r.k \in {"ok", "miss"} =>
    LET S == StateIdx(r.st)
        UI == {u.idx : u \in r.used}
    IN /\ S \cap UI = {}
       /\ S \cup UI = 1..n
       /\ Cardinality(UI) = Cardinality(r.used)
       /\ \A i, j \in 1..Len(r.st) : i < j => r.st[i].idx < r.st[j].idx
ErrorStateLawIn(p, argv) ==
  LET ctx == Context(p)
      st0 == InitState(argv)
  IN \A q \in Nodes(p) :
       LET r == Run(q, st0, ctx) IN
       /\ AccountedIn(r, Len(argv))
       /\ CASE q.k = "sum" ->
                 LET a == Run(q.l, st0, ctx)
                     b == Run(q.r, st0, ctx)
                 IN /\ (r.k = "miss") <=> (a.k = "miss" /\ b.k = "miss")
                    /\ r.k = "miss" => r.st = b.st
            [] q.k = "product" ->
                 LET a == Run(q.l, st0, ctx) IN
                 IF a.k # "ok" THEN (r.k = "miss") <=> (a.k = "miss")
                 ELSE LET b == Run(q.r, a.st, ctx) IN
                      /\ (r.k = "miss") <=> (b.k = "miss")
                      /\ r.k = "miss" => r.st = b.st
            [] OTHER -> TRUE

-----------------------------------------------------------------------------
(* usage() and the help text - STRUCTURE only, as far as options.doxygen shows it:
     argument                 "age : int - Your age"
     optional(argument)       "[ Output filename : string - The name of the output file. ... ]"
     switch / flag            "[ --execute|-e ] - Whether to actually execute the actions",  "[ --trunc ] - ..."
     option with default      "[ --loglevel|-l : [verbose,debug,...] / warning ] - The log level to use"
     option in optional       "[ --git-dir : string - The path to the repository ]"
     product                  one parameter per line
     commands                 the common parser, then per sub-command an indented "clone:" line
                              followed by the deeper indented usage of its parser
   A usage text is a sequence of lines [ind, w] (indentation, words as code point sequences).
   UsageReq(p) is the sequence of words the documentation fixes, in order: parameter names in the
   documented form (--long|-short, argument name, "name:" of a sub-command), the ":" before a type,
   "[" "]" around flags, options with a default and optional parsers, "/" default, "-" help text.
   Not fixed by the documentation and therefore not required: how a type is spelled, the markers
   of many ("]*") and sum ("(", "|", ")"), amounts of indentation, a sub-command's help text, and
   what unit prints.  (unit_switch: the documentation shows no usage line; listing its name is
   taken as the minimal meaning of "A description on how to use this parser".) *)
LBr == <<91>>
RBr == <<93>>
Colon == <<58>>
Slash == <<47>>
DashW == <<45>>
NamesWord(p) == FlagTok(p.long, FALSE) \o (IF p.short = <<>> THEN <<>> ELSE <<124>> \o FlagTok(p.short[1], TRUE))
HelpWords(p) == IF p.help = <<>> THEN <<>> ELSE <<DashW>> \o p.help
SubHeader(sub) == sub.name \o Colon

RECURSIVE UsageReq(_), SubsReq(_, _)
SubsReq(subs, i) == IF i > Len(subs) THEN <<>> ELSE <<SubHeader(subs[i])>> \o UsageReq(subs[i].p) \o SubsReq(subs, i + 1)
UsageReq(p) ==
  CASE p.k = "argument" -> <<p.name, Colon>> \o HelpWords(p)
    [] p.k \in {"flag", "switch"} -> <<LBr, NamesWord(p), RBr>> \o HelpWords(p)
    [] p.k = "option" -> (IF p.default = <<>> THEN <<NamesWord(p), Colon>>
                          ELSE <<LBr, NamesWord(p), Colon, Slash, p.default_text[1], RBr>>) \o HelpWords(p)
    [] p.k = "unit_switch" -> <<NamesWord(p)>>
    [] p.k = "unit" -> <<>>
    [] p.k = "optional" -> <<LBr>> \o UsageReq(p.sub) \o <<RBr>>
    [] p.k \in {"many", "wrap"} -> UsageReq(p.sub)
    [] p.k \in {"product", "sum"} -> UsageReq(p.l) \o UsageReq(p.r)
    [] p.k = "commands" -> UsageReq(p.common) \o SubsReq(p.subs, 1)

(* words that name a parameter: anything starting with '-' (and longer than the "-" that
   introduces a help text), argument names and sub-command headers of the parser *)
NameSet(p) ==
  {q.name : q \in {x \in Nodes(p) : x.k = "argument"}}
  \cup UNION {{SubHeader(q.subs[i]) : i \in 1..Len(q.subs)} : q \in {x \in Nodes(p) : x.k = "commands"}}
NameLike(w, NS) == (Len(w) >= 2 /\ w[1] = Dash) \/ w \in NS
NamesOf(ws, NS) == SelectSeq(ws, LAMBDA w : NameLike(w, NS))

RECURSIVE IsSubseqFrom(_, _, _, _)
IsSubseqFrom(a, i, b, j) ==
  IF i > Len(a) THEN TRUE
  ELSE IF j > Len(b) THEN FALSE
  ELSE IF a[i] = b[j] THEN IsSubseqFrom(a, i + 1, b, j + 1) ELSE IsSubseqFrom(a, i, b, j + 1)
IsSubseq(a, b) == IsSubseqFrom(a, 1, b, 1)

(* commands: pairs <<i, j>> of positions in the sequence of parameter names whose lines must be
   indented i less than j: common parser < sub-command header < the sub-command's parser *)
NLCount(p, NS) == Len(NamesOf(UsageReq(p), NS))
RECURSIVE IndentPairs(_, _, _), SubsPairs(_, _, _, _, _)
SubsPairs(c, i, off, commonIdx, NS) ==
  IF i > Len(c.subs) THEN {}
  ELSE LET n == NLCount(c.subs[i].p, NS) IN
       {<<x, off>> : x \in commonIdx} \cup {<<off, y>> : y \in (off + 1)..(off + n)}
       \cup IndentPairs(c.subs[i].p, off + 1, NS)
       \cup SubsPairs(c, i + 1, off + 1 + n, commonIdx, NS)
IndentPairs(p, off, NS) ==
  CASE p.k \in {"optional", "many", "wrap"} -> IndentPairs(p.sub, off, NS)
    [] p.k \in {"product", "sum"} -> IndentPairs(p.l, off, NS) \cup IndentPairs(p.r, off + NLCount(p.l, NS), NS)
    [] p.k = "commands" ->
         LET nc == NLCount(p.common, NS) IN
         IndentPairs(p.common, off, NS) \cup SubsPairs(p, 1, off + nc, off..(off + nc - 1), NS)
    [] OTHER -> {}

RECURSIVE FlatWords(_, _), FlatLines(_, _)
FlatWords(lines, i) == IF i > Len(lines) THEN <<>> ELSE lines[i].w \o FlatWords(lines, i + 1)
FlatLines(lines, i) == IF i > Len(lines) THEN <<>> ELSE [k \in 1..Len(lines[i].w) |-> i] \o FlatLines(lines, i + 1)

UsageReasons(lines, p) ==
  LET NS == NameSet(p)
      W == FlatWords(lines, 1)
      L == FlatLines(lines, 1)
      req == UsageReq(p)
      nlPos == SelectSeq([i \in 1..Len(W) |-> i], LAMBDA i : NameLike(W[i], NS))   \* positions of names in W
      sameNames == [k \in 1..Len(nlPos) |-> W[nlPos[k]]] = NamesOf(req, NS)
  IN  (IF IsSubseq(req, W) THEN {} ELSE {"usage-misses-a-documented-element"})
      \cup (IF sameNames THEN {} ELSE {"usage-lists-wrong-parameters"})
      \cup (IF Len(SelectSeq(W, LAMBDA w : w = LBr)) = Len(SelectSeq(W, LAMBDA w : Len(w) >= 1 /\ w[1] = 93))
            THEN {} ELSE {"usage-brackets-unbalanced"})
      \cup (IF \A a, b \in 1..Len(nlPos) : a # b => L[nlPos[a]] # L[nlPos[b]]
            THEN {} ELSE {"usage-two-parameters-on-one-line"})
      \cup (IF sameNames => \A pr \in IndentPairs(p, 1, NS) :
                               lines[L[nlPos[pr[1]]]].ind < lines[L[nlPos[pr[2]]]].ind
            THEN {} ELSE {"usage-commands-indentation"})

(* Reference renderer: a transcription of the usage() functions (undocumented markers included),
   used only to model-check that the structural requirements above are satisfiable by the design
   and can fail (BugUsage); verdicts about the code are taken from recorded texts only. *)
TypeWord == <<84>>
Line(ind, w) == [ind |-> ind, w |-> w]
Indent(ls) == [i \in 1..Len(ls) |-> Line(ls[i].ind + 2, ls[i].w)]
Around(open, ls, close) ==
  IF Len(ls) = 1 THEN <<Line(ls[1].ind, open \o ls[1].w \o close)>>
  ELSE <<Line(ls[1].ind, open \o ls[1].w)>> \o SubSeq(ls, 2, Len(ls) - 1)
       \o <<Line(ls[Len(ls)].ind, ls[Len(ls)].w \o close)>>
RNames(p) == IF BugUsage = "flag_no_short" THEN FlagTok(p.long, FALSE) ELSE NamesWord(p)
RECURSIVE UsageLines(_), SubsLines(_, _)
SubsLines(subs, i) ==
  IF i > Len(subs) THEN <<>>
  ELSE <<Line(2, <<SubHeader(subs[i])>>)>> \o Indent(Indent(UsageLines(subs[i].p))) \o SubsLines(subs, i + 1)
UsageLines(p) ==
  CASE p.k = "argument" -> <<Line(0, <<p.name, Colon, TypeWord>> \o HelpWords(p))>>
    [] p.k \in {"flag", "switch"} -> <<Line(0, <<LBr, RNames(p), RBr>> \o HelpWords(p))>>
    [] p.k = "option" ->
         <<Line(0, (IF p.default = <<>> THEN <<RNames(p), Colon, TypeWord>>
                    ELSE IF BugUsage = "no_default" THEN <<LBr, RNames(p), Colon, TypeWord, RBr>>
                    ELSE <<LBr, RNames(p), Colon, TypeWord, Slash, p.default_text[1], RBr>>) \o HelpWords(p))>>
    [] p.k = "unit_switch" -> <<Line(0, <<RNames(p)>>)>>
    [] p.k = "unit" -> <<Line(0, <<>>)>>
    [] p.k = "optional" -> IF BugUsage = "optional_no_brackets" THEN UsageLines(p.sub)
                           ELSE Around(<<LBr>>, UsageLines(p.sub), <<RBr>>)
    [] p.k = "many" -> Around(<<LBr>>, UsageLines(p.sub), <<<<93, 42>>>>)
    [] p.k = "wrap" -> UsageLines(p.sub)
    [] p.k = "product" -> IF BugUsage = "product_drops_right" THEN UsageLines(p.l)
                          ELSE UsageLines(p.l) \o UsageLines(p.r)
    [] p.k = "sum" -> <<Line(0, <<<<40>>>>)>> \o Indent(UsageLines(p.l)) \o <<Line(0, <<<<124>>>>)>>
                      \o Indent(UsageLines(p.r)) \o <<Line(0, <<<<41>>>>)>>
    [] p.k = "commands" -> UsageLines(p.common) \o SubsLines(p.subs, 1)

-----------------------------------------------------------------------------
(* Design-level properties of a successful top-level result t for argument vector argv. *)

(* Every element of argv is consumed exactly once: the consumption events cover 1..Len(argv)
   with exactly one event per index, and one application of a leaf parser consumes exactly what
   it stands for: an argument one token, a flag at most one token per name, an option its name
   and one value, a commands parser the command name. *)
Groups(used) == {<<u.n, u.at>> : u \in used}
GroupRoles(used, g) == {u \in used : u.n = g[1] /\ u.at = g[2]}
ArityOK(us) ==
  LET roles == {u.role : u \in us} IN
  \/ roles = {"arg"} /\ Cardinality(us) = 1
  \/ roles = {"cmd"} /\ Cardinality(us) = 1
  \/ roles = {"flag"} /\ Cardinality(us) = 1
  \/ roles = {"name", "value"} /\ Cardinality(us) = 2
ConsumedExactlyOnceIn(t, argv) ==
  t.ok =>
    /\ {u.idx : u \in t.used} = 1..Len(argv)
    /\ Cardinality(t.used) = Len(argv)
    /\ \A g \in Groups(t.used) : ArityOK(GroupRoles(t.used, g))

(* An option's value is never taken as a positional argument: no argument (or command name)
   consumer took the token that directly follows, in argv, a token consumed as the NAME of an
   option that the consumer's scope declares (ctx.ref above). *)
NameOfTok(argv, i) == DashInfo[argv[i]].nm
(* Left-to-right reading (impl/next_arg.cpp): token i is in VALUE POSITION of the scope if token
   i-1 names an option of the scope and is not itself in value position.  A token in value
   position that an option parser later consumes as its NAME (argv "--zed --opt v --zz - 7" for
   product(many(argument), option --opt, option --zed): the arguments are v and 7, --opt = --zz,
   --zed = -) makes the command line ambiguous; by the left-to-right reading "--opt" is the value
   of "--zed" there and "v" is no option's value, so the clause is not applied to such a name
   (round 3 audit, design observation D3 in docs/notes_C03.md; the stricter reading without this
   exemption fails on the unchanged design for argument vectors of length >= 5). *)
RECURSIVE ValuePos(_, _, _)
ValuePos(argv, names, i) ==
  i > 1 /\ DashInfo[argv[i - 1]].dash /\ NameOfTok(argv, i - 1) \in names /\ ~ValuePos(argv, names, i - 1)
OptionValueNotPositionalIn(t, argv) ==
  t.ok =>
    \A a \in t.used : a.role \in {"arg", "cmd"} =>
      ~\E o \in t.used : /\ o.role = "name" /\ o.idx + 1 = a.idx /\ NameOfTok(argv, o.idx) \in a.ctx
                          /\ ~ValuePos(argv, a.ctx, o.idx)

(* "Flags never produce an error" (options.doxygen), weaker reading: a flag or switch never
   fails for being absent or present once; the only error is the one flag_impl.hpp raises on
   purpose when both its short and its long name are given. *)
FlagNeverFailsIn(p, argv) ==
  \A f \in FlagLeaves(p) :
    LET r == Run(f, InitState(argv), [use |-> {}, ref |-> {}])
        toks == {Tokens[argv[i]] : i \in 1..Len(argv)}
    IN r.k = "ok" \/ (f.short # <<>> /\ FlagTok(f.long, FALSE) \in toks /\ FlagTok(f.short[1], TRUE) \in toks)

(* Stronger readings, evaluated for information only (see docs/notes_C03.md). *)
FlagNeverFailsStrictIn(p, argv) == \A f \in FlagLeaves(p) : Run(f, InitState(argv), [use |-> {}, ref |-> {}]).k = "ok"
NothingDroppedIn(t) == t.ok => \A u \in t.used : ~u.drop
OptionValueNotPositionalAnyContextIn(t, argv) ==
  t.ok => \A a \in t.used : a.role \in {"arg", "cmd"} =>
            ~\E o \in t.used : o.role = "name" /\ o.idx + 1 = a.idx
SuccessorOfOptionNameNotPositionalIn(t, argv) ==
  t.ok => \A a \in t.used : a.role \in {"arg", "cmd"} =>
            ~(a.idx > 1 /\ DashInfo[argv[a.idx - 1]].dash /\ NameOfTok(argv, a.idx - 1) \in a.ctx)
=============================================================================
