----------------------------- MODULE IntMathLaws -----------------------------
(* Laws of IntMath.tla / FixedWidth.tla checked by TLC on a bounded domain
   (MC_IntMath.cfg): every closed form equals its defining property and the
   defining property has exactly one solution, so that the judge may use either.
   State = one (a, b, q) triple; the distinct-state count is the number of cases. *)
EXTENDS IntMath, TLC

CONSTANTS N, BreakCeil   \* BreakCeil = TRUE replaces CeilQ by truncation (vacuity guard)

VARIABLES a, b, q
vars == <<a, b, q>>
Lo == -N
Hi == N
Dom == Lo..Hi
Init == a \in Dom /\ b \in Dom /\ q \in Dom
Next == UNCHANGED vars
Spec == Init /\ [][Next]_vars

CeilClosed(x, y) == IF BreakCeil THEN TruncQ(x, y) ELSE CeilQ(x, y)

CeilLaw == b # 0 => (IsCeil(a, b, q) <=> q = CeilClosed(a, b))
TruncLaw == b # 0 => (IsTrunc(a, b, q) <=> q = TruncQ(a, b))
ModLaw == (a >= 0 /\ b > 0) => (IsMod(a, b, q) <=> q = a % b)
ClampLaw == \A v \in {Lo, -1, 0, 1, Hi, q} :
              /\ (a <= b => (IsClamp(v, a, b, q) <=> Clamp(v, a, b) = Some(q)))
              /\ (a > b => Clamp(v, a, b) = None)
NextPow2Law == a >= 0 => (IsNextPow2(a, q) <=> q = NextPow2(a))
Log2Law == a >= 1 => (IsLog2(a, q) <=> q = Log2(a))
IsPow2Law == IsPow2(a) <=> (a >= 1 /\ NextPow2(a) = a)
(* unsigned N-bit: the documented modular formula is the absolute distance up to 2^(N-1) and its
   complement above *)
DiffLaw == \A n \in {3, 8} :
  (a \in 0..(P2[n] - 1) /\ b \in 0..(P2[n] - 1)) =>
     DiffModular(P2[n], a, b) = (IF Diff(a, b) <= P2[n - 1] THEN Diff(a, b) ELSE P2[n] - Diff(a, b))
(* the only non-representable quotients of representable operands *)
QuotientRepresentable == \A n \in {3, 5, 6} :
  LET lo == -P2[n - 1]
      hi == P2[n - 1] - 1
  IN (a \in lo..hi /\ b \in lo..hi /\ b # 0) =>
       /\ (CeilQ(a, b) \in lo..hi <=> ~(a = lo /\ b = -1))
       /\ (TruncQ(a, b) \in lo..hi <=> ~(a = lo /\ b = -1))
       /\ (a >= 0 /\ b > 0 => CeilQ(a, b) \in 0..a /\ TruncQ(a, b) \in 0..a)
BitLaw == (a >= 0 /\ b >= 0) =>
  /\ (BitTest(a, b) <=> \E k \in 0..MaxExp : Bit(a, k) = 1 /\ Bit(b, k) = 1)
  /\ (b <= 12 => (BitTest(a, ShiftedMask(b)) <=> (a \div Pow2(b)) % 2 = 1))
(* on negative operands floor division yields the sign-extended two's complement bits, so BitTest
   agrees with the test on the N-bit patterns *)
SignedBitLaw == (a \in -128..127 /\ b \in -128..127) =>
  (BitTest(a, b) <=> BitTest(Wrap("u8", a), Wrap("u8", b)))
WrapLaw == \A T \in {"i8", "u8", "i16", "u16"} :
  /\ Representable(T, Wrap(T, a * 1000 + b))
  /\ (Wrap(T, a * 1000 + b) - (a * 1000 + b)) % ModTab[T] = 0
  /\ (Representable(T, a) => Wrap(T, a) = a)
ASSUME TableLaw ==
  /\ Min("i8") = -128 /\ Max("i8") = 127 /\ Min("u8") = 0 /\ Max("u8") = 255
  /\ Min("i16") = -32768 /\ Max("i16") = 32767 /\ Min("u16") = 0 /\ Max("u16") = 65535
  /\ \A T \in Types : Promoted(T) = (IF T \in {"i8", "u8", "i16", "u16"} THEN "i32" ELSE T)
(* interval_distance: symmetric; positive exactly for disjoint intervals; zero exactly when they touch
   (from outside or from inside); never below minus the length of the longer interval.  (The documented
   distance is not continuous: [-24,-21] / [-24,-20] is 0 but [-24,-21] / [-23,-20] is -2.) *)
IntervalLaw == \A a2 \in {Lo, -2, 0, 1, 3, Hi} :
  (a <= b /\ a2 <= q) =>
    LET d == IntervalDistance(a, b, a2, q) IN
    /\ d = IntervalDistance(a2, q, a, b)
    /\ (d > 0 <=> (b < a2 \/ q < a))
    /\ (d = 0 <=> (b = a2 \/ q = a \/ TouchesInside(a, b, a2, q)))
    /\ d >= -Max2(b - a, q - a2)
=============================================================================
