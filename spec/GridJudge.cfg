SPECIFICATION RLSpec
CONSTANT Reasons <- GridReasons
INVARIANT RLVerdict
CONSTRAINT RLConsumed
POSTCONDITION RLPost
CHECK_DEADLOCK FALSE
