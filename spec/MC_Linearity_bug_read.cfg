SPECIFICATION Spec
CONSTANTS
  MaxObj = 4
  Allowed = {"read-after-move"}
  LCat = "lvalue"
INVARIANTS InvReadsLive
CHECK_DEADLOCK FALSE
