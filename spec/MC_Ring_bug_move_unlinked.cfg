SPECIFICATION RSpec
CONSTANTS
  NL = 1
  NE = 3
  AbsBug = "none"
  BugAssignEmpty = FALSE
  BugMoveUnlinked = TRUE
  BugDtorOneSided = FALSE
  BugMoveNoReset = FALSE
  BugListMoveCtor = FALSE
  WithIter = FALSE
VIEW RView
INVARIANTS NoDeadRef
CHECK_DEADLOCK FALSE
