-------------------------- MODULE MC_StrongTypedef --------------------------
(* Model check of StrongTypedef.tla (C17): the limb arithmetic that stands for
   32-bit unsigned arithmetic is compared with plain arithmetic modulo Base^L on
   word sizes small enough for TLC's integers (every pair of values is an initial
   state), and the two's complement treatment of the int operands is compared
   with a bit-by-bit definition for every pair in [-128,127]^2.

   Bug perturbs one definition under test (vacuity guards; the law must fail):
   "drop_carry" (addition without carries), "mul_no_carry", "and_as_or",
   "signed_and_unsigned" (bitwise and of the magnitudes instead of two's complement). *)
EXTENDS StrongTypedef, TLC

CONSTANTS Bug, Families

VARIABLES kind, a, b
vars == <<kind, a, b>>

Init ==
  \/ "u" \in Families /\ kind = "u" /\ a \in 0..(Modulus - 1) /\ b \in 0..(Modulus - 1)
  \/ "s" \in Families /\ kind = "s" /\ a \in -128..127 /\ b \in -128..127
Next == UNCHANGED vars
Spec == Init /\ [][Next]_vars

(* definitions under test *)
TAdd(x, y) == IF Bug = "drop_carry" THEN [i \in Limbs |-> (x[i] + y[i]) % Base] ELSE UAdd(x, y)
TMul(x, y) == IF Bug = "mul_no_carry" THEN [i \in Limbs |-> Col(x, y, i) % Base] ELSE UMul(x, y)
TAnd(x, y) == IF Bug = "and_as_or" THEN UOr(x, y) ELSE UAnd(x, y)
TSAnd(x, y) == IF Bug = "signed_and_unsigned"
               THEN (IF x < 0 THEN 0 - x ELSE x) & (IF y < 0 THEN 0 - y ELSE y)
               ELSE SAnd(x, y)

M == Modulus
UnsignedLaw ==
  kind = "u" =>
    LET x == Word(a)
        y == Word(b)
    IN /\ IsWord(x) /\ Val(x) = a
       /\ IsWord(TAdd(x, y)) /\ Val(TAdd(x, y)) = (a + b) % M
       /\ IsWord(USub(x, y)) /\ Val(USub(x, y)) = (a + M - b) % M
       /\ IsWord(TMul(x, y)) /\ Val(TMul(x, y)) = (a * b) % M
       /\ Val(UNeg(x)) = (M - a) % M
       /\ Val(UNot(x)) = (M - 1) - a
       /\ Val(TAnd(x, y)) = (a & b) /\ Val(UOr(x, y)) = (a | b) /\ Val(UXor(x, y)) = (a ^^ b)
       /\ ULess(x, y) = (a < b)
       /\ Val(UAdd(x, One)) = (a + 1) % M /\ Val(USub(x, One)) = (a + M - 1) % M

Bit(u, k) == (u \div (2 ^ k)) % 2
SignedLaw ==
  kind = "s" =>
    /\ ToS8(ToU8(a)) = a /\ ToU8(a) \in 0..255
    /\ InSmall(TSAnd(a, b)) /\ InSmall(SOr(a, b)) /\ InSmall(SXor(a, b)) /\ InSmall(SNot(a))
    /\ \A k \in 0..7 :
         /\ Bit(ToU8(TSAnd(a, b)), k) = Bit(ToU8(a), k) * Bit(ToU8(b), k)
         /\ Bit(ToU8(SOr(a, b)), k) = (IF Bit(ToU8(a), k) + Bit(ToU8(b), k) > 0 THEN 1 ELSE 0)
         /\ Bit(ToU8(SXor(a, b)), k) = (Bit(ToU8(a), k) + Bit(ToU8(b), k)) % 2
         /\ Bit(ToU8(SNot(a)), k) = 1 - Bit(ToU8(a), k)
    (* the identities that tie the bitwise operators to the arithmetic ones in two's complement *)
    /\ SAdd(TSAnd(a, b), SOr(a, b)) = SAdd(a, b)
    /\ SXor(a, b) = SSub(SOr(a, b), TSAnd(a, b))
    /\ SNeg(a) = SAdd(SNot(a), 1)
=============================================================================
