SPECIFICATION SSpec
CONSTANTS
  NL = 2
  NE = 2
  AbsBug = "none"
  SigBug = "skip_first"
  NB = 1
VIEW SView
INVARIANTS LawCallExplained
CHECK_DEADLOCK FALSE
