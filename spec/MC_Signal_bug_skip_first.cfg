SPECIFICATION SSpec
CONSTANTS
  NL = 2
  NE = 2
  AbsBug = "none"
  SigBug = "skip_first"
VIEW SView
INVARIANTS LawCallExplained
CHECK_DEADLOCK FALSE
