SPECIFICATION Spec
CONSTANTS
  MaxLen = 4
  MaxLenCheap = 4
  InitAll = FALSE
  BugNextArgNoSkip = FALSE
  BugUseFlagAll = FALSE
  BugOptionalOrigState = FALSE
  BugNames = "product_right_only"
VIEW View
INVARIANTS OptionValueNotPositional
CHECK_DEADLOCK FALSE
