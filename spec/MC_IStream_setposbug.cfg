SPECIFICATION ISpec
CONSTANTS
  Sym = {97, 10, 32, 9}
  MaxLen = 3
  MaxOps = 8
  ColBug = FALSE
  SetPosBug = TRUE
  EofBug = FALSE
VIEW IViewDepth
INVARIANTS Refines
CHECK_DEADLOCK FALSE
