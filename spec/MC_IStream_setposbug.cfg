SPECIFICATION ISpec
CONSTANTS
  Sym = {97, 10, 32, 9}
  MaxLen = 3
  WithFailAt = FALSE
  MaxOps = 8
  ColBug = FALSE
  SetPosBug = TRUE
  FailBug = FALSE
  EofBug = FALSE
VIEW IViewDepth
INVARIANTS Refines
CHECK_DEADLOCK FALSE
