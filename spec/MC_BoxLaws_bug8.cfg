SPECIFICATION Spec
CONSTANTS
  N = 2
  Rad = 1
  Bug = 8
  OldDistance = FALSE
CHECK_DEADLOCK FALSE
INVARIANTS ExtendPointLaw
