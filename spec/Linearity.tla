----------------------------- MODULE Linearity -----------------------------
(* C05 - ownership state machine of ONE traced call of a generic fcppt operation, over the
   events emitted by the instrumented element type (harness/common/tracked.hpp).

   Objects are identified by a never reused id.  Each object has
     tok   value identity: given by the harness when it creates an element, preserved by copy
           and move construction / assignment
     st    "live" | "moved" (moved-from, not reassigned since) | "dead" (destroyed)
     arg   index of the argument the object is an element of when the call begins (0 = none:
           a temporary, a result element, or made by a continuation)
     cb    TRUE iff the object's current value was produced by the harness: constructed or
           copy-assigned inside one of its continuations (moves carry the flag along)
   S.args[i] = [cat, objs, toks]: value category under which argument i was passed
     "rvalue" | "lvalue" | "clvalue" (const lvalue) | "inout" (an lvalue the operation is
     documented to modify, e.g. the container of pop_back) and its element objects/tokens in
     iteration order at the beginning of the call.
   S.phase = "setup" (the harness builds the arguments) | "run" (between begin and end: the
   library is executing) | "done";  S.depth > 0 inside a continuation of the harness.

   Why(S, ev) is the set of reasons for which event ev violates the property in state S,
   Eff(S, ev) the next state.  The property (C05):
     * the library never copies an element of an argument passed as an rvalue
       (token based: also not through a temporary)                  copy-of-rvalue-element
     * it never moves from / assigns to / destroys an element of an argument passed as an
       lvalue or const lvalue, and never hands one to a continuation as an rvalue
                              move-from-lvalue-argument, lvalue-argument-modified,
                              lvalue-element-passed-as-rvalue
     * nothing reads (copy/move source, value()) an object that is moved-from or destroyed
                              read-after-move, use-after-destroy
     * at the end every element of an rvalue argument occurs at most once in the result,
       exactly once (for every argument) if the operation keeps all elements, the result
       holds no moved-from object, lvalue arguments hold the same live objects with the same
       tokens in the same order
                              rvalue-element-duplicated, element-duplicated, element-lost,
                              result-holds-moved-from-object, lvalue-argument-modified
   Not constrained (deliberately): copies made inside the harness's own continuations, an
   element of an rvalue argument being handed to a continuation as an lvalue, any number of
   moves of a value through library-owned temporaries (each object is moved from at most once
   while live; this is the reading taken of "moved at most once").
   Round 3 (robustness): an object that was never constructed through a logged constructor
   (a bitwise duplicate, garbage memory) is "untracked-object", a result whose recorded token
   differs from the token the machine derived is "token-corrupt", arguments that are not live
   when the call begins (they were built with library constructors) are
   "argument-setup-corrupt", an exception escaping the traced call is
   "undocumented-exception" (none of the driven calls is documented to throw for the inputs
   used): all of these are caused by the code under test and are verdicts.
   An argument may carry `xtoks`: tokens of tracked values held INSIDE an opaque rvalue
   argument (a parser object) whose members cannot be walked; they count as rvalue tokens
   for the copy rule only.
   Reasons starting with HARNESS are defects of the harness / log, never verdicts. *)
EXTENDS Naturals, Sequences, FiniteSets

NoObjs == [o \in {} |-> 0]
InitS == [objs |-> NoObjs, args |-> <<>>, phase |-> "setup", depth |-> 0, keeps |-> FALSE, op |-> "?"]

Known(S, o) == o \in DOMAIN S.objs
Range(s) == {s[i] : i \in DOMAIN s}

ArgCat(S, o) == IF Known(S, o) /\ S.objs[o].arg # 0 THEN S.args[S.objs[o].arg].cat ELSE "none"
IsLvalueElem(S, o) == ArgCat(S, o) \in {"lvalue", "clvalue"}
RvalueToks(S) == UNION {Range(S.args[i].toks) \cup Range(S.args[i].xtoks) :
                           i \in {j \in DOMAIN S.args : S.args[j].cat = "rvalue"}}
XToks(a) == IF "xtoks" \in DOMAIN a THEN a.xtoks ELSE <<>>
AllArgToks(S) == UNION {Range(S.args[i].toks) : i \in DOMAIN S.args}
Running(S) == S.phase = "run"
InLib(S) == Running(S) /\ S.depth = 0

NewObj(S, o, tok, cb) == [tok |-> tok, st |-> "live", arg |-> 0, cb |-> cb]
Put(f, k, v) == [x \in DOMAIN f \cup {k} |-> IF x = k THEN v ELSE f[x]]
SetObjs(S, f) == [S EXCEPT !.objs = f]

SrcWhy(S, o) ==  \* reading the value of o (source of a copy / move, value())
  IF ~Known(S, o) THEN {"untracked-object"}
  ELSE IF ~Running(S) THEN {}
  ELSE IF S.objs[o].st = "moved" THEN {"read-after-move"}
  ELSE IF S.objs[o].st = "dead" THEN {"use-after-destroy"}
  ELSE {}

DstWhy(S, o) ==  \* assigning to o
  IF ~Known(S, o) THEN {"untracked-object"}
  ELSE IF ~Running(S) THEN {}
  ELSE (IF S.objs[o].st = "dead" THEN {"use-after-destroy"} ELSE {})
       \cup (IF IsLvalueElem(S, o) THEN {"lvalue-argument-modified"} ELSE {})

CopyWhy(S, src) ==
  SrcWhy(S, src)
  \cup (IF InLib(S) /\ Known(S, src) /\ S.objs[src].tok \in RvalueToks(S)
        THEN {"copy-of-rvalue-element"} ELSE {})

MoveWhy(S, src) ==
  SrcWhy(S, src)
  \cup (IF Running(S) /\ IsLvalueElem(S, src) THEN {"move-from-lvalue-argument"} ELSE {})

Count(t, toks) == Cardinality({i \in DOMAIN toks : toks[i] = t})

EndWhy(S, ev) ==
  LET res == ev.result
      unknown == {i \in DOMAIN res : ~Known(S, res[i].obj)}
      toks == [i \in DOMAIN res |-> res[i].tok]
  IN
  IF ~Running(S) THEN {"HARNESS-end-without-begin"}
  ELSE IF S.depth # 0 THEN {"HARNESS-end-inside-continuation"}
  ELSE IF unknown # {} THEN {"untracked-object"}
  ELSE IF \E i \in DOMAIN res : S.objs[res[i].obj].tok # res[i].tok THEN {"token-corrupt"}
  ELSE IF Len(ev.args) # Len(S.args) THEN {"HARNESS-argument-count"}
  ELSE
    (IF \E i \in DOMAIN res : S.objs[res[i].obj].st # "live"
     THEN {"result-holds-moved-from-object"} ELSE {})
    \cup (IF \E t \in RvalueToks(S) : Count(t, toks) > 1 THEN {"rvalue-element-duplicated"} ELSE {})
    \cup (IF S.keeps /\ \E t \in AllArgToks(S) : Count(t, toks) > 1 THEN {"element-duplicated"} ELSE {})
    \* a value sitting in a moved-from result object has not arrived: only live holders count
    \cup (IF S.keeps /\ \E t \in AllArgToks(S) :
               Cardinality({i \in DOMAIN res : res[i].tok = t /\ S.objs[res[i].obj].st = "live"}) = 0
          THEN {"element-lost"} ELSE {})
    \cup (IF \E i \in DOMAIN S.args :
               /\ S.args[i].cat \in {"lvalue", "clvalue"}
               /\ \/ ev.args[i].objs # S.args[i].objs
                  \/ \E k \in DOMAIN S.args[i].objs :
                       LET o == S.args[i].objs[k] IN
                       ~Known(S, o) \/ S.objs[o].st # "live" \/ S.objs[o].tok # S.args[i].toks[k]
          THEN {"lvalue-argument-modified"} ELSE {})

Why(S, ev) ==
  CASE ev.e = "new" ->
         IF Known(S, ev.obj) THEN {"HARNESS-id-reuse"} ELSE {}
    [] ev.e = "begin" ->
         IF S.phase # "setup" THEN {"HARNESS-begin-twice"}
         ELSE IF \E i \in DOMAIN ev.args : \E k \in DOMAIN ev.args[i].objs :
                   LET o == ev.args[i].objs[k] IN ~Known(S, o) \/ S.objs[o].st # "live"
         THEN {"argument-setup-corrupt"}
         ELSE {}
    [] ev.e = "copy" ->
         CopyWhy(S, ev.src) \cup (IF Known(S, ev.dst) THEN {"HARNESS-id-reuse"} ELSE {})
    [] ev.e = "move" ->
         MoveWhy(S, ev.src) \cup (IF Known(S, ev.dst) THEN {"HARNESS-id-reuse"} ELSE {})
    [] ev.e = "copy_assign" -> CopyWhy(S, ev.src) \cup DstWhy(S, ev.dst)
    [] ev.e = "move_assign" -> MoveWhy(S, ev.src) \cup DstWhy(S, ev.dst)
    [] ev.e = "read" -> SrcWhy(S, ev.obj)
    [] ev.e = "destroy" ->
         IF ~Known(S, ev.obj) THEN {"untracked-object"}
         ELSE (IF S.objs[ev.obj].st = "dead" THEN {"double-destroy"} ELSE {})
              \cup (IF Running(S) /\ IsLvalueElem(S, ev.obj) THEN {"lvalue-argument-modified"} ELSE {})
    [] ev.e = "cb_enter" ->
         IF \E i \in DOMAIN ev.recv : ~Known(S, ev.recv[i].obj) THEN {"untracked-object"}
         ELSE IF Running(S) /\ \E i \in DOMAIN ev.recv :
                   ev.recv[i].cat = "rvalue" /\ IsLvalueElem(S, ev.recv[i].obj)
         THEN {"lvalue-element-passed-as-rvalue"} ELSE {}
    [] ev.e = "cb_exit" -> IF S.depth = 0 THEN {"HARNESS-cb-exit-without-enter"} ELSE {}
    [] ev.e = "end" -> EndWhy(S, ev)
    [] ev.e = "throw" -> IF S.phase = "done" THEN {} ELSE {"undocumented-exception"}
    [] ev.e = "reset" -> {}
    [] OTHER -> {"HARNESS-unknown-event"}

\* the next state; total (events that are HARNESS defects leave the state as sensible as possible)
Eff(S, ev) ==
  CASE ev.e = "new" -> SetObjs(S, Put(S.objs, ev.obj, NewObj(S, ev.obj, ev.tok, S.depth > 0)))
    [] ev.e = "begin" ->
         \* arguments that are not live / not tracked are a verdict (argument-setup-corrupt); the call
         \* is judged all the same (unknown objects have token 0)
         IF S.phase # "setup" THEN S
         ELSE LET argOf(o) == IF \E i \in DOMAIN ev.args : o \in Range(ev.args[i].objs)
                              THEN CHOOSE i \in DOMAIN ev.args : o \in Range(ev.args[i].objs) ELSE 0
              IN [S EXCEPT
                    !.objs = [o \in DOMAIN S.objs |-> [S.objs[o] EXCEPT !.arg = argOf(o)]],
                    !.args = [i \in DOMAIN ev.args |->
                                [cat |-> ev.args[i].cat, objs |-> ev.args[i].objs,
                                 toks |-> [k \in DOMAIN ev.args[i].objs |->
                                             IF Known(S, ev.args[i].objs[k]) THEN S.objs[ev.args[i].objs[k]].tok ELSE 0],
                                 xtoks |-> XToks(ev.args[i])]],
                    !.phase = "run", !.keeps = ev.keeps, !.op = ev.op, !.depth = 0]
    [] ev.e = "copy" ->
         IF ~Known(S, ev.src) THEN S
         ELSE SetObjs(S, Put(S.objs, ev.dst,
                             NewObj(S, ev.dst, S.objs[ev.src].tok, S.depth > 0 \/ S.objs[ev.src].cb)))
    [] ev.e = "move" ->
         IF ~Known(S, ev.src) THEN S
         ELSE SetObjs(S, Put([S.objs EXCEPT ![ev.src].st = IF @ = "dead" THEN "dead" ELSE "moved"],
                             ev.dst, NewObj(S, ev.dst, S.objs[ev.src].tok, S.objs[ev.src].cb)))
    [] ev.e = "copy_assign" ->
         IF ~Known(S, ev.src) \/ ~Known(S, ev.dst) THEN S
         ELSE SetObjs(S, [S.objs EXCEPT ![ev.dst].tok = S.objs[ev.src].tok, ![ev.dst].st = "live",
                                        ![ev.dst].cb = S.depth > 0 \/ S.objs[ev.src].cb])
    [] ev.e = "move_assign" ->
         IF ~Known(S, ev.src) \/ ~Known(S, ev.dst) \/ ev.src = ev.dst THEN S
         ELSE SetObjs(S, [S.objs EXCEPT ![ev.dst].tok = S.objs[ev.src].tok, ![ev.dst].st = "live",
                                        ![ev.dst].cb = S.objs[ev.src].cb,
                                        ![ev.src].st = IF @ = "dead" THEN "dead" ELSE "moved"])
    [] ev.e = "read" -> S
    [] ev.e = "destroy" ->
         IF ~Known(S, ev.obj) THEN S ELSE SetObjs(S, [S.objs EXCEPT ![ev.obj].st = "dead"])
    [] ev.e = "cb_enter" -> [S EXCEPT !.depth = @ + 1]
    [] ev.e = "cb_exit" -> [S EXCEPT !.depth = IF @ > 0 THEN @ - 1 ELSE 0]
    [] ev.e = "end" -> [S EXCEPT !.phase = "done", !.depth = 0]
    [] ev.e = "throw" -> [S EXCEPT !.phase = "done", !.depth = 0]
    [] ev.e = "reset" -> [InitS EXCEPT !.op = ev.op]
    [] OTHER -> S
=============================================================================
