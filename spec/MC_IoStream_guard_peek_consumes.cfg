SPECIFICATION Spec
CONSTANTS
  MaxLen = 3
  MaxOps = 3
  Bug = "peek_consumes"
INVARIANTS LawPeekPure
CHECK_DEADLOCK FALSE
