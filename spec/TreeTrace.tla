--------------------------- MODULE TreeTrace ---------------------------
(* Trace validation for C09: replays an ndjson log recorded from the real
   fcppt::container::tree::object<int> (harness/c09_tree.cpp) through the operators
   of Tree.tla.  One TLC state per consumed log line.

   After every operation the harness dumps every slot in DFS order.  Per node:
     v, nk        label and number of children (read through children())
     sz, em       size(), empty()
     par          the node parent() refers to, as a REFERENCE looked up by address among
                  all live nodes:  slot * 1000 + DFS index;  -1 = no parent;  -2 = the
                  address is not a live node
     fr, bk       front() / back() as references (-1 = none)
     d, l         depth(node), level(node)     (l = -3: not called, see below)
     cp           child_position(listing parent, node) as an offset (-1: root / none)
                  (per event also cpn / cpall: child_position for EVERY ordered pair of live nodes)
     tr           to_root traversal from the node, as references
   per slot: pre (pre_order traversal as references), prev (its labels, const variant),
   map (the DFS dump [v, nk, par] of tree::map(root, x -> 2x+1)), cpself
   (child_position(root, root) has a value); per event: the matrices of == and != between
   the slot roots, the returned reference / optional / bool.

   Extension round - further observables (all judged below):
     parc, cpc, trn, prec   the const / non-const twin of parent(), child_position, to_root,
                  pre_order  ("Construct a ... traversal from a tree (which can be const or nonconst)")
     pit, pitc, trit   the pre_order (non-const, const) and to_root iterators observed as state
                  machines over the positions 0..n (n = end): post (nodes seen through it++ and the
                  dereference operator), eqend / neend / eqbeg (it == end(), it != end(), it == begin()),
                  mat (it_i == it_j for all pairs; non-const pre_order, n <= 6).  Both iterators declare
                  std::forward_iterator_tag: two iterators of one traversal are equal iff they
                  are at the same position; end() is "a dummy iterator to stop the traversal".
     mapu         tree::map into a tree with a move-only label (std::unique_ptr<long>)
     txt, out, wout   operator<< ("Outputs a tree."; the form is fixed by the library's own
                  test/container/tree/output.cpp: one line per node in pre-order, one tab per
                  level, the label as streamed by its own operator<<, a newline); txt is the
                  label streamed alone, out / wout the whole tree to a narrow / wide stream
     lt           the label type of the history: int, str (std::string), uptr (move-only
                  std::unique_ptr<int>; == compares addresses, so == / != are not judged),
                  tree (a nested tree<int> label), log (the log context's node, see below)
   and the event kind "logop" of harness/c09_logtree.cpp (the log context's use of the tree).

   The judge
     1. parses the dump into the recursive value and compares the forest with Eff's
        (modulo the moved-from nodes the contract leaves open, and modulo ties for sort),
     2. evaluates the link invariants ON THE RECORDED POINTERS: every child's parent() is
        the node that lists it (parent-link), a root has none (root-has-parent), nothing
        refers to a dead node (dangling-link),
     3. compares every traversal / function output with the reference functions of
        Tree.tla applied to the parsed value.
   The harness does not follow a parent pointer it cannot resolve to a live node and
   stops a to_root walk after 64 steps; level() is then not called (l = -3).  Such an
   event is rejected here anyway (the to_root output is not the reference's).

   Stale links persist in the objects, so after the first rejected event of a history
   the remaining events of that history are not judged (poisoned), up to the next reset. *)
EXTENDS Tree, IOUtils

VARIABLES l, bad, poisoned, obs, nobs
tvars == <<st, hist, l, bad, poisoned, obs, nobs>>

T == ndJsonDeserialize(IOEnv.TRACE)

MapF == [x \in -100000..100000 |-> 2 * x + 1]

(* DFS dump (labels and child counts) -> recursive value *)
RECURSIVE ParseAt(_, _)
RECURSIVE ParseKids(_, _, _, _)
ParseAt(N, i) ==
  LET r == ParseKids(N, i + 1, N[i].nk, <<>>) IN [t |-> [v |-> N[i].v, k |-> r.ks], n |-> r.n]
ParseKids(N, i, c, acc) ==
  IF c = 0 THEN [ks |-> acc, n |-> i]
  ELSE LET r == ParseAt(N, i) IN ParseKids(N, r.n, c - 1, Append(acc, r.t))

Logged(ev) ==
  [s \in 1..NS |-> IF ev.slots[s].live THEN Live(ParseAt(ev.slots[s].nodes, 1).t) ELSE Dead]
WellFormedDump(ev) ==
  \A s \in 1..NS : ev.slots[s].live =>
    /\ Len(ev.slots[s].nodes) >= 1
    /\ ParseAt(ev.slots[s].nodes, 1).n = Len(ev.slots[s].nodes) + 1

Ref(s, i) == s * 1000 + i       \* i = 0-based DFS index
Flag(c, why) == IF c THEN {} ELSE {why}

(* decimal digits of a natural number / text of operator<< *)
RECURSIVE Digits(_)
Digits(n) == IF n < 0 THEN <<45>> \o Digits(0 - n) ELSE IF n < 10 THEN <<48 + n>> ELSE Digits(n \div 10) \o <<48 + (n % 10)>>
RECURSIVE OutText(_, _, _)
OutText(N, ps, i) ==
  IF i > Len(ps) THEN <<>>
  ELSE [j \in 1..Level(ps[i]) |-> 9] \o N[i].txt \o <<10>> \o OutText(N, ps, i + 1)

(* an iterator range observed over its positions 1..m+1 (m+1 = end) must visit `expect` *)
IterVisitOK(o, expect) == o.cut = FALSE /\ o.post = expect
IterEqOK(o, expect) ==
  LET m == Len(expect) IN
  /\ Len(o.post) = m
  /\ o.eqend = [i \in 1..(m + 1) |-> IF i = m + 1 THEN 1 ELSE 0]
  /\ o.neend = [i \in 1..(m + 1) |-> IF i = m + 1 THEN 0 ELSE 1]
  /\ o.eqbeg = [i \in 1..(m + 1) |-> IF i = 1 THEN 1 ELSE 0]
  \* the matrix of all pairs is logged for the non-const pre_order iterator of small trees only
  /\ o.mat = <<>> \/ o.mat = [i \in 1..(m + 1) |-> [j \in 1..(m + 1) |-> IF i = j THEN 1 ELSE 0]]

(* reasons concerning one live slot of the dump *)
SlotReasons(s, sl, t, lt) ==
  LET N == sl.nodes
      ps == PathsOf(t)
      n == Len(ps)
      RefOfPath(p) == Ref(s, IndexOfPath(t, p))
      KidRef(p, j) == RefOfPath(Append(p, j))
      mp == ParseAt(sl.map, 1)
      mt == Map(t, MapF)
  IN  Flag(\A i \in 1..n : N[i].par # -2 /\ N[i].fr # -2 /\ N[i].bk # -2, "dangling-link")
      \cup Flag(N[1].par = -1 \/ N[1].par = -2, "root-has-parent")
      \cup Flag(\A i \in 2..n : N[i].par = -2 \/ N[i].par = RefOfPath(Front(ps[i])), "parent-link")
      \cup Flag(\A i \in 1..n : N[i].parc = N[i].par /\ N[i].cpc = N[i].cp /\ N[i].trn = N[i].tr
                /\ sl.prec = sl.pre, "const-overload")
      \cup Flag(IterVisitOK(sl.pit, [i \in 1..n |-> Ref(s, i - 1)]) /\ IterVisitOK(sl.pitc, [i \in 1..n |-> Ref(s, i - 1)])
                /\ (DOMAIN sl.trit # {} =>
                      /\ Len(sl.trit.post) >= 1
                      /\ \E i \in 1..n : Ref(s, i - 1) = sl.trit.post[1] /\ IterVisitOK(sl.trit, N[i].tr)), "iterator-visit")
      \cup Flag(IterEqOK(sl.pit, [i \in 1..n |-> Ref(s, i - 1)]) /\ IterEqOK(sl.pitc, [i \in 1..n |-> Ref(s, i - 1)])
                /\ (DOMAIN sl.trit # {} => IterEqOK(sl.trit, sl.trit.post)), "iterator-equality")
      \cup Flag(\A i \in 1..n : N[i].sz = N[i].nk /\ N[i].em = (N[i].nk = 0), "size")
      \cup Flag(\A i \in 1..n :
                  LET nk == N[i].nk IN
                  /\ N[i].fr = (IF nk = 0 THEN -1 ELSE KidRef(ps[i], 0)) \/ N[i].fr = -2
                  /\ N[i].bk = (IF nk = 0 THEN -1 ELSE KidRef(ps[i], nk - 1)) \/ N[i].bk = -2,
                "front-back")
      \cup Flag(sl.pre = [i \in 1..n |-> Ref(s, i - 1)] /\ sl.prev = PreOrder(t), "pre_order")
      \cup Flag(\A i \in 1..n : N[i].tr = [j \in 1..(Level(ps[i]) + 1) |-> RefOfPath(ToRoot(ps[i])[j])], "to_root")
      \cup Flag(\A i \in 1..n : N[i].d = Depth(Sub(t, ps[i])), "depth")
      \cup Flag(\A i \in 1..n : N[i].l = Level(ps[i]), "level")
      \cup Flag(/\ \A i \in 1..n : N[i].cp = (IF ps[i] = <<>> THEN -1 ELSE ChildPosition(ps[i]))
                /\ sl.cpself = 0, "child_position")
      \cup Flag(/\ Len(sl.map) = n
                /\ mp.n = n + 1
                /\ mp.t = mt
                \* the mapped tree is a fresh object: its own links must be consistent too
                /\ \A i \in 1..n : sl.map[i].par = (IF ps[i] = <<>> THEN -1 ELSE IndexOfPath(mt, Front(ps[i]))),
              "map")
      \cup Flag(/\ Len(sl.mapu) = n
                /\ ParseAt(sl.mapu, 1).n = n + 1
                /\ ParseAt(sl.mapu, 1).t = mt
                /\ \A i \in 1..n : sl.mapu[i].par = (IF ps[i] = <<>> THEN -1 ELSE IndexOfPath(mt, Front(ps[i]))),
              "map-move-only")
      \cup Flag(lt \notin {"int", "str"} \/
                  /\ sl.out = OutText(N, ps, 1)
                  /\ lt = "int" => sl.wout = sl.out /\ \A i \in 1..n : N[i].txt = Digits(N[i].v),
              "output")

RECURSIVE PrefixTextRec(_)     \* "a: b: m" as code points for the names <<1, 2>>
PrefixTextRec(names) == IF names = <<>> THEN <<109>> ELSE <<96 + Head(names), 58, 32>> \o PrefixTextRec(Tail(names))

(* reasons for one operation event ev applied to forest f *)
Reasons(f, ev) ==
  LET e == Eff(f, ev)
      L == Logged(ev)
      Mask(g) == IF e.free = {} THEN g
                 ELSE LET q == CHOOSE q \in e.free : TRUE
                      IN IF Valid(g, q.s, q.p) THEN PutAt(g, q.s, q.p, Leaf(0)) ELSE g
      freeOK == \A q \in e.free : Valid(L, q.s, q.p)
      structOK ==
        IF ev.op = "sort"
        THEN \* any permutation of the children that is sorted by the predicate
             /\ Valid(L, ev.as, ev.ap)
             /\ PutAt(L, ev.as, ev.ap, Leaf(0)) = PutAt(f, ev.as, ev.ap, Leaf(0))
             /\ At(L, ev.as, ev.ap).v = At(f, ev.as, ev.ap).v
             /\ IsSorted(At(L, ev.as, ev.ap).k, ev.x = 1)
             /\ SameBag(At(L, ev.as, ev.ap).k, At(f, ev.as, ev.ap).k)
        ELSE freeOK /\ Mask(L) = Mask(e.f)
      retOK ==
        IF e.ret = NoRet THEN ev.ret = -1
        ELSE Valid(L, e.ret.s, e.ret.p) /\ ev.ret = Ref(e.ret.s, IndexOfPath(L[e.ret.s].t, e.ret.p))
      cmpOK ==
        ev.lt \in {"uptr", "log"} \/
        \A s \in 1..NS : \A u \in 1..NS :
          IF L[s].live /\ L[u].live
          THEN LET b == Equal(L[s].t, L[u].t) IN
               /\ ev.eq[s][u] = (IF b THEN 1 ELSE 0)
               /\ ev.ne[s][u] = (IF b THEN 0 ELSE 1)
          ELSE ev.eq[s][u] = -1 /\ ev.ne[s][u] = -1
      \* the log context (harness/c09_logtree.cpp): what the public API of the REAL context shows of
      \* its hidden tree must agree with the tree driven by the same operations.  context::get is
      \* judged for existing locations only ("Gets the current log level for a location"; the
      \* documentation is silent about locations that do not exist).  A log object's level() is its
      \* node's level, and its formatter prefixes the names from the root down to its node
      \* (log.doxygen: "root: child: warning: Print from child.").
      logT == L[1].t
      logGetOK ==
        ev.lt # "log" \/
        (L[1].live /\ \A i \in 1..Len(ev.get) :
           LET pth == LogPath(logT, <<>>, ev.get[i].ns)
           IN pth = <<-1>> \/ ev.get[i].l = LogLevel(Sub(logT, pth).v))
      logObjOK ==
        ev.lt # "log" \/ ev.op # "log_create" \/
        (/\ L[1].live /\ HasPath(logT, e.ret.p)
         /\ ev.olvl = LogLevel(Sub(logT, e.ret.p).v)
         /\ ev.ofmt = PrefixTextRec(LogNamesOf(logT, e.ret.p)))
      \* child_position(P, C) for every ordered pair of live nodes (cpn: their references in the
      \* order of the matrix cpall): the offset of C among P's children iff C's path is P's path
      \* plus one index - identity by position, never by label - and nothing (-1) for the node
      \* itself, grandchildren, siblings and nodes of other slots
      paths == [s \in 1..NS |-> IF L[s].live THEN PathsOf(L[s].t) ELSE <<>>]
      allRefs == LET RECURSIVE cat(_)
                     cat(s) == IF s > NS THEN <<>> ELSE [i \in 1..Len(paths[s]) |-> Ref(s, i - 1)] \o cat(s + 1)
                 IN cat(1)
      cpAllOK ==
        /\ ev.cpn = allRefs
        /\ Len(ev.cpall) = Len(allRefs)
        /\ \A i \in 1..Len(allRefs) : \A j \in 1..Len(allRefs) :
             LET a == allRefs[i]
                 b == allRefs[j]
                 pa == paths[a \div 1000][(a % 1000) + 1]
                 pb == paths[b \div 1000][(b % 1000) + 1]
             IN ev.cpall[i][j] = (IF a \div 1000 = b \div 1000 /\ Len(pb) = Len(pa) + 1 /\ IsPrefix(pa, pb)
                                  THEN ChildPosition(pb) ELSE -1)
  IN  Flag(structOK, "structure")
      \cup Flag(cpAllOK, "child_position")
      \cup Flag(logGetOK, "log-get")
      \cup Flag(logObjOK, "log-object")
      \cup Flag(retOK, "returned-reference")
      \cup Flag(ev.some = e.some, "returned-optional")
      \cup Flag(ev.rb = e.rb, "returned-bool")
      \cup Flag(cmpOK, "comparison")
      \cup UNION {SlotReasons(s, ev.slots[s], L[s].t, ev.lt) : s \in {s \in 1..NS : L[s].live}}

(* ---- scope (binding): a reason makes an event REJECTED only if the statement of property C09
   covers it; every other reason is an OBSERVATION (reported, never a rejected event).
     "every child's parent() refers to the node that lists it as a child" .... parent-link
     "a root has no parent" ................................................... root-has-parent
     "no link refers to a destroyed node" ..................................... dangling-link
     "The traversals pre_order and to_root ... agree with the same computations on a plain
      recursive reference model" ............ pre_order, to_root, iterator-visit (the nodes the
      iterators visit), const-overload (the const / non-const twins of parent(), pre_order,
      to_root, child_position are those same functions)
     "the functions depth, level, child_position, map and comparison agree ..." ... depth, level,
      child_position, map, map-move-only (tree::map with another Result), comparison,
      returned-bool (the result of == / != between two nodes)
     "After any sequence of tree operations (...)", "copies are deep and independent", and the
      reference model itself .......... structure (the forest value after each listed operation)
   Outside the statement - observed only: operator<< (output), size()/empty() (size),
   front()/back() (front-back), the reference returned by push_back/push_front
   (returned-reference), has_value of pop_back/pop_front (returned-optional), iterator equality
   (iterator-equality), everything about the log context (log-get, log-object, and for the
   operations log_ctor / log_create / log_set also structure and returned-reference: what a
   log operation does to the tree is the log context's contract, not the tree's). *)
InScopeReasons ==
  {"parent-link", "root-has-parent", "dangling-link", "pre_order", "to_root", "iterator-visit",
   "const-overload", "depth", "level", "child_position", "map", "map-move-only", "comparison",
   "returned-bool", "structure"}
InScope(ev, r) == r \in InScopeReasons /\ ~(ev.lt = "log" /\ r = "structure")

TInit ==
  /\ st = EmptyForest
  /\ hist = <<>>
  /\ l = 1
  /\ bad = <<>>
  /\ poisoned = FALSE
  /\ obs = <<>>
  /\ nobs = 0

TReset ==
  /\ T[l].e = "reset"
  /\ st' = EmptyForest
  /\ poisoned' = FALSE
  /\ bad' = bad
  /\ UNCHANGED <<obs, nobs>>

TEnd ==
  /\ T[l].e = "end"
  /\ st' = EmptyForest
  /\ UNCHANGED <<poisoned, bad, obs, nobs>>

TOp ==
  /\ T[l].e = "op"
  /\ LET ev == T[l] IN
     IF poisoned
     THEN /\ st' = st /\ UNCHANGED <<poisoned, bad, obs, nobs>>
     ELSE IF ~WellFormedDump(ev)
     THEN /\ bad' = Append(bad, [l |-> l, op |-> ev.op, why |-> {"MALFORMED-DUMP"}])
          /\ st' = st /\ poisoned' = TRUE /\ UNCHANGED <<obs, nobs>>
     ELSE IF ~Pre(st, ev)
     THEN \* a harness bug, not a verdict about the code: reported as such
          /\ bad' = Append(bad, [l |-> l, op |-> ev.op, why |-> {"HARNESS-PRECONDITION"}])
          /\ st' = st /\ poisoned' = TRUE /\ UNCHANGED <<obs, nobs>>
     ELSE LET all == Reasons(st, ev)
              why == {r \in all : InScope(ev, r)}
              out == all \ why
          IN
          /\ bad' = IF why = {} THEN bad ELSE Append(bad, [l |-> l, op |-> ev.op, why |-> why])
          \* observations: outside the statement of C09 - never a rejected event; the first 200 are
          \* kept verbatim, all are counted.  (A forest value that differs from the model's is
          \* adopted as the new state either way, so an observation does not cascade.)
          /\ nobs' = IF out = {} THEN nobs ELSE nobs + 1
          /\ obs' = IF out = {} \/ nobs >= 200 THEN obs ELSE Append(obs, [l |-> l, op |-> ev.op, why |-> out])
          /\ poisoned' = (why # {})
          /\ st' = Logged(ev)

TNext ==
  /\ l <= Len(T)
  /\ l' = l + 1
  /\ hist' = hist
  /\ (TReset \/ TOp \/ TEnd)

TSpec == TInit /\ [][TNext]_tvars

(* verdict: printed once when the whole trace has been consumed *)
Done == l = Len(T) + 1
Verdict == Done => PrintT("VERDICT " \o ToJson([n |-> Len(T), bad |-> bad, obs |-> obs, nobs |-> nobs]))
(* an unknown event kind (a crash record) is explained by no action: TLC stops with
   l <= Len(T) and the postcondition reports the line *)
Consumed == TLCSet(1, l)
Post == IF TLCGet(1) = Len(T) + 1 THEN TRUE ELSE PrintT("STUCK " \o ToString(TLCGet(1)))
=============================================================================
