--------------------------- MODULE TreeTrace ---------------------------
(* Trace validation for C09: replays an ndjson log recorded from the real
   fcppt::container::tree::object<int> (harness/c09_tree.cpp) through the operators
   of Tree.tla.  One TLC state per consumed log line.

   After every operation the harness dumps every slot in DFS order.  Per node:
     v, nk        label and number of children (read through children())
     sz, em       size(), empty()
     par          the node parent() refers to, as a REFERENCE looked up by address among
                  all live nodes:  slot * 1000 + DFS index;  -1 = no parent;  -2 = the
                  address is not a live node
     fr, bk       front() / back() as references (-1 = none)
     d, l         depth(node), level(node)     (l = -3: not called, see below)
     cp           child_position(listing parent, node) as an offset (-1: root / none)
     tr           to_root traversal from the node, as references
   per slot: pre (pre_order traversal as references), prev (its labels, const variant),
   map (the DFS dump [v, nk, par] of tree::map(root, x -> 2x+1)), cpself
   (child_position(root, root) has a value); per event: the matrices of == and != between
   the slot roots, the returned reference / optional / bool.

   The judge
     1. parses the dump into the recursive value and compares the forest with Eff's
        (modulo the moved-from nodes the contract leaves open, and modulo ties for sort),
     2. evaluates the link invariants ON THE RECORDED POINTERS: every child's parent() is
        the node that lists it (parent-link), a root has none (root-has-parent), nothing
        refers to a dead node (dangling-link),
     3. compares every traversal / function output with the reference functions of
        Tree.tla applied to the parsed value.
   The harness does not follow a parent pointer it cannot resolve to a live node and
   stops a to_root walk after 64 steps; level() is then not called (l = -3).  Such an
   event is rejected here anyway (the to_root output is not the reference's).

   Stale links persist in the objects, so after the first rejected event of a history
   the remaining events of that history are not judged (poisoned), up to the next reset. *)
EXTENDS Tree, IOUtils

VARIABLES l, bad, poisoned
tvars == <<st, hist, l, bad, poisoned>>

T == ndJsonDeserialize(IOEnv.TRACE)

MapF == [x \in -100000..100000 |-> 2 * x + 1]

(* DFS dump (labels and child counts) -> recursive value *)
RECURSIVE ParseAt(_, _)
RECURSIVE ParseKids(_, _, _, _)
ParseAt(N, i) ==
  LET r == ParseKids(N, i + 1, N[i].nk, <<>>) IN [t |-> [v |-> N[i].v, k |-> r.ks], n |-> r.n]
ParseKids(N, i, c, acc) ==
  IF c = 0 THEN [ks |-> acc, n |-> i]
  ELSE LET r == ParseAt(N, i) IN ParseKids(N, r.n, c - 1, Append(acc, r.t))

Logged(ev) ==
  [s \in 1..NS |-> IF ev.slots[s].live THEN Live(ParseAt(ev.slots[s].nodes, 1).t) ELSE Dead]
WellFormedDump(ev) ==
  \A s \in 1..NS : ev.slots[s].live =>
    /\ Len(ev.slots[s].nodes) >= 1
    /\ ParseAt(ev.slots[s].nodes, 1).n = Len(ev.slots[s].nodes) + 1

Ref(s, i) == s * 1000 + i       \* i = 0-based DFS index
Flag(c, why) == IF c THEN {} ELSE {why}

(* reasons concerning one live slot of the dump *)
SlotReasons(s, sl, t) ==
  LET N == sl.nodes
      ps == PathsOf(t)
      n == Len(ps)
      RefOfPath(p) == Ref(s, IndexOfPath(t, p))
      KidRef(p, j) == RefOfPath(Append(p, j))
      mp == ParseAt(sl.map, 1)
      mt == Map(t, MapF)
  IN  Flag(\A i \in 1..n : N[i].par # -2 /\ N[i].fr # -2 /\ N[i].bk # -2, "dangling-link")
      \cup Flag(N[1].par = -1 \/ N[1].par = -2, "root-has-parent")
      \cup Flag(\A i \in 2..n : N[i].par = -2 \/ N[i].par = RefOfPath(Front(ps[i])), "parent-link")
      \cup Flag(\A i \in 1..n : N[i].sz = N[i].nk /\ N[i].em = (N[i].nk = 0), "size")
      \cup Flag(\A i \in 1..n :
                  LET nk == N[i].nk IN
                  /\ N[i].fr = (IF nk = 0 THEN -1 ELSE KidRef(ps[i], 0)) \/ N[i].fr = -2
                  /\ N[i].bk = (IF nk = 0 THEN -1 ELSE KidRef(ps[i], nk - 1)) \/ N[i].bk = -2,
                "front-back")
      \cup Flag(sl.pre = [i \in 1..n |-> Ref(s, i - 1)] /\ sl.prev = PreOrder(t), "pre_order")
      \cup Flag(\A i \in 1..n : N[i].tr = [j \in 1..(Level(ps[i]) + 1) |-> RefOfPath(ToRoot(ps[i])[j])], "to_root")
      \cup Flag(\A i \in 1..n : N[i].d = Depth(Sub(t, ps[i])), "depth")
      \cup Flag(\A i \in 1..n : N[i].l = Level(ps[i]), "level")
      \cup Flag(/\ \A i \in 1..n : N[i].cp = (IF ps[i] = <<>> THEN -1 ELSE ChildPosition(ps[i]))
                /\ sl.cpself = 0, "child_position")
      \cup Flag(/\ Len(sl.map) = n
                /\ mp.n = n + 1
                /\ mp.t = mt
                \* the mapped tree is a fresh object: its own links must be consistent too
                /\ \A i \in 1..n : sl.map[i].par = (IF ps[i] = <<>> THEN -1 ELSE IndexOfPath(mt, Front(ps[i]))),
              "map")

(* reasons for one operation event ev applied to forest f *)
Reasons(f, ev) ==
  LET e == Eff(f, ev)
      L == Logged(ev)
      Mask(g) == IF e.free = {} THEN g
                 ELSE LET q == CHOOSE q \in e.free : TRUE
                      IN IF Valid(g, q.s, q.p) THEN PutAt(g, q.s, q.p, Leaf(0)) ELSE g
      freeOK == \A q \in e.free : Valid(L, q.s, q.p)
      structOK ==
        IF ev.op = "sort"
        THEN \* any permutation of the children that is sorted by the predicate
             /\ Valid(L, ev.as, ev.ap)
             /\ PutAt(L, ev.as, ev.ap, Leaf(0)) = PutAt(f, ev.as, ev.ap, Leaf(0))
             /\ At(L, ev.as, ev.ap).v = At(f, ev.as, ev.ap).v
             /\ IsSorted(At(L, ev.as, ev.ap).k, ev.x = 1)
             /\ SameBag(At(L, ev.as, ev.ap).k, At(f, ev.as, ev.ap).k)
        ELSE freeOK /\ Mask(L) = Mask(e.f)
      retOK ==
        IF e.ret = NoRet THEN ev.ret = -1
        ELSE Valid(L, e.ret.s, e.ret.p) /\ ev.ret = Ref(e.ret.s, IndexOfPath(L[e.ret.s].t, e.ret.p))
      cmpOK ==
        \A s \in 1..NS : \A u \in 1..NS :
          IF L[s].live /\ L[u].live
          THEN LET b == Equal(L[s].t, L[u].t) IN
               /\ ev.eq[s][u] = (IF b THEN 1 ELSE 0)
               /\ ev.ne[s][u] = (IF b THEN 0 ELSE 1)
          ELSE ev.eq[s][u] = -1 /\ ev.ne[s][u] = -1
  IN  Flag(structOK, "structure")
      \cup Flag(retOK, "returned-reference")
      \cup Flag(ev.some = e.some, "returned-optional")
      \cup Flag(ev.rb = e.rb, "returned-bool")
      \cup Flag(cmpOK, "comparison")
      \cup UNION {SlotReasons(s, ev.slots[s], L[s].t) : s \in {s \in 1..NS : L[s].live}}

TInit ==
  /\ st = EmptyForest
  /\ hist = <<>>
  /\ l = 1
  /\ bad = <<>>
  /\ poisoned = FALSE

TReset ==
  /\ T[l].e = "reset"
  /\ st' = EmptyForest
  /\ poisoned' = FALSE
  /\ bad' = bad

TEnd ==
  /\ T[l].e = "end"
  /\ st' = EmptyForest
  /\ UNCHANGED <<poisoned, bad>>

TOp ==
  /\ T[l].e = "op"
  /\ LET ev == T[l] IN
     IF poisoned
     THEN /\ st' = st /\ UNCHANGED <<poisoned, bad>>
     ELSE IF ~WellFormedDump(ev)
     THEN /\ bad' = Append(bad, [l |-> l, op |-> ev.op, why |-> {"MALFORMED-DUMP"}])
          /\ st' = st /\ poisoned' = TRUE
     ELSE IF ~Pre(st, ev)
     THEN \* a harness bug, not a verdict about the code: reported as such
          /\ bad' = Append(bad, [l |-> l, op |-> ev.op, why |-> {"HARNESS-PRECONDITION"}])
          /\ st' = st /\ poisoned' = TRUE
     ELSE LET why == Reasons(st, ev) IN
          /\ bad' = IF why = {} THEN bad ELSE Append(bad, [l |-> l, op |-> ev.op, why |-> why])
          /\ poisoned' = (why # {})
          /\ st' = Logged(ev)

TNext ==
  /\ l <= Len(T)
  /\ l' = l + 1
  /\ hist' = hist
  /\ (TReset \/ TOp \/ TEnd)

TSpec == TInit /\ [][TNext]_tvars

(* verdict: printed once when the whole trace has been consumed *)
Done == l = Len(T) + 1
Verdict == Done => PrintT("VERDICT " \o ToJson([n |-> Len(T), bad |-> bad]))
(* an unknown event kind (a crash record) is explained by no action: TLC stops with
   l <= Len(T) and the postcondition reports the line *)
Consumed == TLCSet(1, l)
Post == IF TLCGet(1) = Len(T) + 1 THEN TRUE ELSE PrintT("STUCK " \o ToString(TLCGet(1)))
=============================================================================
