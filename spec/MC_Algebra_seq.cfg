SPECIFICATION Spec
CONSTANTS
  N = 3
  Bug = "none"
  Group = "seq"
  MaxLen = 4
INVARIANTS TypeOK LawSequenceTraverse LawSequenceShortCircuit LawCat LawFirstSuccess LawLoop
