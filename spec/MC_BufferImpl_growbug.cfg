SPECIFICATION BSpec
CONSTANTS
  NV = 1
  NB = 2
  Val = {0, 1}
  MaxLen = 2
  MaxW = 2
  MaxCap = 12
  AliasBug = FALSE
  EraseRetBug = FALSE
  GrowBug = TRUE
VIEW BView
INVARIANTS BRepInv
CHECK_DEADLOCK FALSE
