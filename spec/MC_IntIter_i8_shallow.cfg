SPECIFICATION Spec
CONSTANTS
  T = "i8"
  Dom <- DomFull
  ClampBug = FALSE
  SizeBug = FALSE
  DefBug = FALSE
CONSTRAINT Shallow
INVARIANTS InType Prefix AtEnd SizeLaw RangeLaw
