------------------------------- MODULE IntMath -------------------------------
(* Mathematical definitions of fcppt's checked conversions and integer helpers
   (property C06).  Everything here is about mathematical integers; a type only
   enters through Representable(T, x).  Nothing in this module is derived from
   the code: the sources are the property statement and the Doxygen comments.

     cast::truncation_check   "returns the converted value iff the conversion
                               results in no truncation"
     enum_::from_int          "returns an empty optional if the cast fails":
                               an enumerator exactly when value < size
     math::ceil_div(_signed)  "dividend / divisor rounded towards infinity",
                               nothing for divisor 0
     math::div / mod          dividend / divisor resp. dividend % divisor
                               (the C++ operators: truncation towards zero; mod
                               is only offered for unsigned types), nothing for
                               divisor 0
     math::clamp              nothing for an empty interval (min > max)
     math::diff               absolute distance |a - b|
     math::is_power_of_2, next_power_of_2 ("the least power of two >= value"),
     log2 (floor of the binary logarithm, 0 excluded), power_of_2 (2^e),
     bit::shifted_mask (2^k), bit::test ((value & mask) /= 0),
     math::interval_distance  (as its Doxygen text defines it)

   For every function there is (a) a definition by its *defining property*
   (an inequality / a least element), used by the judge directly on recorded
   results, and where convenient (b) a closed form; TLC checks (a) = (b) and
   uniqueness on a bounded domain (MC_IntMath.cfg).                           *)
EXTENDS FixedWidth

\* ---------------------------------------------------------------- conversions
TruncationCheck(D, v) == IF Representable(D, v) THEN Some(v) ELSE None
FromInt(size, v) == IF v < size THEN Some(v) ELSE None

\* ---------------------------------------------------------------- division
(* q = ceil(a / b) by the defining inequality  q - 1 < a/b <= q  multiplied by b *)
IsCeil(a, b, q) ==
  IF b > 0 THEN (q - 1) * b < a /\ a <= q * b
           ELSE (q - 1) * b > a /\ a >= q * b
(* closed form through floor division by a positive number *)
CeilQ(a, b) == IF b > 0 THEN -((-a) \div b) ELSE -(a \div (-b))
CeilDiv(a, b) == IF b = 0 THEN None ELSE Some(CeilQ(a, b))

(* C++ integer division: the quotient with the fractional part discarded *)
IsTrunc(a, b, q) ==
  /\ Abs(q) * Abs(b) <= Abs(a) /\ Abs(a) < (Abs(q) + 1) * Abs(b)
  /\ (q > 0 => (a > 0) = (b > 0))
  /\ (q < 0 => (a > 0) # (b > 0))
TruncQ(a, b) == LET m == Abs(a) \div Abs(b) IN IF (a < 0) = (b < 0) THEN m ELSE -m
Div(a, b) == IF b = 0 THEN None ELSE Some(TruncQ(a, b))

(* remainder of non-negative operands *)
IsMod(a, b, r) == 0 <= r /\ r < b /\ \E k \in 0..a : k * b + r = a
Mod(a, b) == IF b = 0 THEN None ELSE Some(a % b)

\* ---------------------------------------------------------------- order
Clamp(v, lo, hi) == IF lo <= hi THEN Some(IF v < lo THEN lo ELSE IF v > hi THEN hi ELSE v) ELSE None
IsClamp(v, lo, hi, r) == lo <= r /\ r <= hi /\ (lo <= v /\ v <= hi => r = v) /\ (v < lo => r = lo) /\ (v > hi => r = hi)

Diff(a, b) == Abs(a - b)
(* the formula the documentation gives for unsigned types, min(a - b, b - a),
   read in the arithmetic modulo 2^N of the type; equal to Diff(a, b) whenever
   |a - b| <= 2^(N-1) *)
DiffModular(modulus, a, b) == Min2((a - b) % modulus, (b - a) % modulus)

\* ---------------------------------------------------------------- powers of two
MaxExp == 30
IsPow2(x) == \E k \in 0..MaxExp : x = P2[k]
(* least power of two >= x (x <= 2^30) *)
IsNextPow2(x, r) == IsPow2(r) /\ r >= x /\ \A k \in 0..MaxExp : (P2[k] >= x => P2[k] >= r)
NextPow2(x) == P2[CHOOSE k \in 0..MaxExp : P2[k] >= x /\ (k = 0 \/ P2[k - 1] < x)]
(* floor(log2 x), x >= 1:  2^r <= x < 2^(r+1) *)
IsLog2(x, r) == r \in 0..MaxExp /\ P2[r] <= x /\ (r < MaxExp => x < P2[r + 1])
Log2(x) == CHOOSE r \in 0..MaxExp : IsLog2(x, r)
Pow2(e) == P2[e]
ShiftedMask(k) == P2[k]

(* bit i of a non-negative integer; (v & m) /= 0 iff some bit is set in both *)
Bit(v, i) == (v \div P2[i]) % 2
BitTest(v, m) == \E i \in 0..MaxExp : Bit(v, i) = 1 /\ Bit(m, i) = 1

\* ---------------------------------------------------------------- intervals
(* math::interval_distance of [a1,b1] and [a2,b2] (a1 <= b1, a2 <= b2).  What interval_distance.hpp
   promises, sentence by sentence:
     "Distance can be zero if the intervals touch, or negative if they overlap."   (and the positive
        gap when they are disjoint - the distance of two intervals)
     "If they only partially overlap, the distance is negative the common length where they overlap."
     "If one completely contains the other, the "outer" interval is split in two parts by the
        "inner" one.  In this case, the (again negative) length of the shorter part is returned.
        Therefore the distance is zero if the inner interval touches the outer one."
   Nothing else is promised (in particular nothing for first > second). *)
Contains(a1, b1, a2, b2) == a1 <= a2 /\ b2 <= b1        \* [a1,b1] contains [a2,b2]
IntervalDistance(a1, b1, a2, b2) ==
  IF b1 < a2 THEN a2 - b1                                 \* disjoint: the gap
  ELSE IF b2 < a1 THEN a1 - b2
  ELSE IF Contains(a1, b1, a2, b2) THEN -Min2(a2 - a1, b1 - b2)     \* minus the shorter part of the outer one
  ELSE IF Contains(a2, b2, a1, b1) THEN -Min2(a1 - a2, b2 - b1)
  ELSE -(Min2(b1, b2) - Max2(a1, a2))                    \* partial overlap: minus the common length
(* the inner interval touches the outer one from inside (shares an end point) *)
TouchesInside(a1, b1, a2, b2) ==
  (Contains(a1, b1, a2, b2) \/ Contains(a2, b2, a1, b1)) /\ (a1 = a2 \/ b1 = b2)

\* ---------------------------------------------------------------- value preserving conversions
(* cast::size, cast::to_signed ("should only be used if _value fits into the result"),
   cast::to_unsigned ("should only be used if _value is positive"), cast::promote_int,
   cast::safe_numeric ("forbids lossy conversions"), cast::enum_to_int ("should only be used if the
   enum value can be converted to the destination type"), cast::enum_to_underlying ("This cast is
   safe"), cast::int_to_enum ("should only be used if the enum can actually hold the integer
   value"), fcppt::literal ("Creates a literal of type Type from the value _integral"):
   whenever the value is representable in the destination type the result is that value; the
   documentation promises nothing otherwise. *)
Convert(D, v) == v       \* demanded only if Representable(D, v)
=============================================================================
