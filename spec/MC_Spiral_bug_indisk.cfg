SPECIFICATION Spec
CONSTANTS
  MaxD = 6
  Origins <- OriginSet
  SpiralBug = 1
VIEW View
CONSTRAINT Bounded
INVARIANTS InDisk
