SPECIFICATION ISpec
CONSTANTS
  Sym = {97, 10, 32, 9}
  MaxLen = 3
  MaxOps = 7
  ColBug = FALSE
  SetPosBug = FALSE
  EofBug = FALSE
VIEW IView
INVARIANTS Refines ReturnsAgree
CONSTRAINT EmitIScripts
CHECK_DEADLOCK FALSE
