SPECIFICATION ISpec
CONSTANTS
  Sym = {97, 10, 32, 9}
  MaxLen = 3
  WithFailAt = TRUE
  MaxOps = 5
  ColBug = FALSE
  SetPosBug = FALSE
  FailBug = FALSE
  EofBug = FALSE
VIEW IView
INVARIANTS Refines ReturnsAgree
CONSTRAINT EmitIScripts
CHECK_DEADLOCK FALSE
