SPECIFICATION Spec
CONSTANTS
  N = 2
  Rad = 1
  Bug = 5
CHECK_DEADLOCK FALSE
INVARIANTS IntersectionLaw
