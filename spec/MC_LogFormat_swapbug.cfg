SPECIFICATION LawSpec
CONSTANTS
  ChainSwapBug = TRUE
  SinkIgnoredBug = FALSE
  MaxSteps = 0
INVARIANTS ChainOrder
CHECK_DEADLOCK FALSE
