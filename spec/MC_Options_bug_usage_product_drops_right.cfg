SPECIFICATION Spec
CONSTANTS
  MaxLen = 0
  MaxLenCheap = 0
  KindLen = 3
  InitAll = FALSE
  BugNextArgNoSkip = FALSE
  BugUseFlagAll = FALSE
  BugOptionalOrigState = FALSE
  BugNames = "none"
  BugErrorState = "none"
  BugMissingIsOther = FALSE
  BugUsage = "product_drops_right"
VIEW View
INVARIANTS UsageModelOK
CHECK_DEADLOCK FALSE
