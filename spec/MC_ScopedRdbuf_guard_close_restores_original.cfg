SPECIFICATION Spec
CONSTANTS
  NB = 2
  MaxOps = 5
  Bug = "close_restores_original"
INVARIANTS LawNesting
CHECK_DEADLOCK FALSE
