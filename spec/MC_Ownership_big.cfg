SPECIFICATION Spec
CONSTANTS
  NO = 3
  NS = 3
  NW = 2
  NU = 2
  Bug = "none"
VIEW View
INVARIANTS AliveIffOwned DeleterExactlyOnce CountAgrees SingleOwnerKind WeakNeverOwns LockIffAlive ObserversCoherent
CHECK_DEADLOCK FALSE
