SPECIFICATION SpecSet
CONSTANTS
  MaxLen = 2
  SetMax = 3
INVARIANT SetAlgebra
INVARIANT ExtensionSetLaws
