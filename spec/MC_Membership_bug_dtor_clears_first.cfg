SPECIFICATION Spec
CONSTANTS
  NL = 2
  NE = 3
  AbsBug = "dtor_clears_first"
VIEW View
INVARIANTS LawFrame
CHECK_DEADLOCK FALSE
