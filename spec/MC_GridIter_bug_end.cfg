SPECIFICATION Spec
CONSTANTS
  N = 2
  MaxC = 5
  CarryBug = 0
  EndBug = TRUE
  SizeBug = FALSE
VIEW View
INVARIANTS InSet
