SPECIFICATION Spec
CONSTANTS
  Sym = {97, 98, 32, 48}
  MaxLen = 4
  Bug = "none"
INVARIANTS Laws EntryLaw FamilyOK
CHECK_DEADLOCK FALSE
