SPECIFICATION Spec
CONSTANTS
  N = 3
  Bug = "none"
  Group = "once"
  MaxLen = 0
INVARIANTS TypeOK LawExactlyOnce LawNeverForAbsent LawBranchSelected LawFilterIsBind
