SPECIFICATION SpecPairs
CONSTANTS
  PairVals <- Vm1to2
  TripleVals <- V0to1
  TripleValsC <- V0to1
  CubeVals <- V0to1
  CubeVals23 <- V0to1
  IvOverlapRule <- IvOverlapRuleMinMax
INVARIANT IntervalLaws
CHECK_DEADLOCK FALSE
