----------------------------- MODULE Ownership -----------------------------
(* Ownership and lifetime of objects held by fcppt::shared_ptr / weak_ptr /
   unique_ptr (C17 extension round; OUTSIDE the statement of C17, which only says
   that these wrappers "expose exactly the wrapped object" - recorded histories are
   judged against this module as observations only, never as violations).

   Documentation modelled:
     shared_ptr_decl.hpp   "A shared pointer shares ownership of a single pointer with
                           other shared pointers. How many shared pointers actually own a
                           pointer is kept track of as a reference count. Copying shared
                           pointers increases the count by one, while destroying shared
                           pointers decrases the count by one. If the count reaches zero,
                           the object that is pointed to will be destroyed."
                           use_count(): "the number of shared_ptrs sharing ownership"
     weak_ptr_decl.hpp     lock(): "If the shared object is still alive (which means that
                           the reference count is still greater than zero), then a new
                           shared_ptr also owning that object will be returned. If all
                           shared_ptrs have been destroyed, then an empty optional will be
                           returned."  use_count(): "If this weak_ptr is empty, zero will be
                           returned. Otherwise the shared count of the shared object".
     *_pointer_cast.hpp    "the resulting shared_ptr will share ownership with the source"
     unique_ptr            sole owner; moving transfers ownership; shared_ptr(unique_ptr&&)
                           takes the object over; unique_ptr_to_base / to_const re-wrap it
     enable_shared_from_this  "Allows an object to obtain a shared ptr to itself."
   expired(): the sentence in weak_ptr_decl.hpp ("If this weak_ptr is empty, false will be
   returned. Otherwise if the shared count is still greater than zero, true will be
   returned") describes the opposite of the function's name and of std::weak_ptr::expired,
   which the implementation forwards to.  The model takes the name's meaning
   (expired <=> lock() would fail); the sentence is recorded as a documentation
   observation in docs/notes_C17.md.

   State (a record st):
     obj   [1..NO -> [made, alive, cnt, dtors, esft]]   cnt = the reference count kept in the
           control block (the transcription's own variable, NOT derived from the slots);
           dtors = how often the pointee's destructor ran; esft = the object was created
           through make_shared_ptr<pointee> (so shared_from_this is usable on it)
     sh    [1..NS -> 0..NO]    strong slots: 0 = no shared_ptr lives in the slot
     wk    [1..NW -> -1..NO]   weak slots: -1 = no weak_ptr object, 0 = empty weak_ptr
     un    [1..NU -> 0..NO]    unique slots
   Objects are numbered in the order of their creation and never reused. *)
EXTENDS Integers, Sequences, FiniteSets

CONSTANTS NO, NS, NW, NU,
          Bug   \* "none", or a defect re-introduced into the transcription (vacuity guards)

Objs == 1..NO
NoObj == [made |-> FALSE, alive |-> FALSE, cnt |-> 0, dtors |-> 0, esft |-> FALSE]
InitState == [obj |-> [o \in Objs |-> NoObj], sh |-> [s \in 1..NS |-> 0],
              wk |-> [w \in 1..NW |-> -1], un |-> [u \in 1..NU |-> 0]]

BaseOp == [op |-> "none", a |-> 0, b |-> 0]
Op1(name, a) == [BaseOp EXCEPT !.op = name, !.a = a]
Op2(name, a, b) == [BaseOp EXCEPT !.op = name, !.a = a, !.b = b]

Fresh(st) == IF \E o \in Objs : ~st.obj[o].made THEN CHOOSE o \in Objs : ~st.obj[o].made /\ \A p \in Objs : p < o => st.obj[p].made ELSE 0

(* control block operations *)
Incr(st, o) == [st EXCEPT !.obj[o].cnt = @ + 1]
Decr(st, o) ==
  LET c == st.obj[o].cnt - 1 IN
  IF c = 0 THEN [st EXCEPT !.obj[o].cnt = 0, !.obj[o].alive = FALSE, !.obj[o].dtors = @ + 1]
  ELSE [st EXCEPT !.obj[o].cnt = c]
Create(st, o) == [st EXCEPT !.obj[o] = [made |-> TRUE, alive |-> TRUE, cnt |-> 1, dtors |-> 0, esft |-> TRUE]]
Destroy(st, o) == [st EXCEPT !.obj[o].alive = FALSE, !.obj[o].dtors = @ + 1, !.obj[o].cnt = 0]

SharingOps == {"copy_shared", "static_cast", "dynamic_cast", "const_cast", "shared_from_this"}

(* preconditions of the C++ API / of the driver (slots are std::optional variables) *)
Pre(st, a) ==
  CASE a.op = "make_shared" -> a.a \in 1..NS /\ st.sh[a.a] = 0 /\ Fresh(st) # 0
    [] a.op \in SharingOps -> /\ a.a \in 1..NS /\ a.b \in 1..NS /\ st.sh[a.a] # 0 /\ st.sh[a.b] = 0
                               (* C++: shared_from_this needs a shared_ptr that was created from a
                                  pointer whose static type derives from enable_shared_from_this *)
                               /\ (a.op = "shared_from_this" => st.obj[st.sh[a.a]].esft)
    [] a.op = "dynamic_cast_fail" -> a.a \in 1..NS /\ st.sh[a.a] # 0
    [] a.op \in {"assign_shared", "swap_shared"} -> a.a \in 1..NS /\ a.b \in 1..NS /\ st.sh[a.a] # 0 /\ st.sh[a.b] # 0
    [] a.op = "move_shared" -> a.a \in 1..NS /\ a.b \in 1..NS /\ st.sh[a.a] # 0 /\ st.sh[a.b] = 0
    [] a.op = "destroy_shared" -> a.a \in 1..NS /\ st.sh[a.a] # 0
    [] a.op = "weak_default" -> a.a \in 1..NW /\ st.wk[a.a] = -1
    [] a.op = "weak_from_shared" -> a.a \in 1..NW /\ a.b \in 1..NS /\ st.wk[a.a] = -1 /\ st.sh[a.b] # 0
    [] a.op = "weak_copy" -> a.a \in 1..NW /\ a.b \in 1..NW /\ st.wk[a.a] >= 0 /\ st.wk[a.b] = -1
    [] a.op = "weak_destroy" -> a.a \in 1..NW /\ st.wk[a.a] >= 0
    [] a.op = "lock" -> a.a \in 1..NW /\ a.b \in 1..NS /\ st.wk[a.a] >= 0 /\ st.sh[a.b] = 0
    [] a.op \in {"make_unique", "make_unique_to_base", "unique_from_std"} -> a.a \in 1..NU /\ st.un[a.a] = 0 /\ Fresh(st) # 0
    [] a.op = "move_unique" -> a.a \in 1..NU /\ a.b \in 1..NU /\ st.un[a.a] # 0 /\ st.un[a.b] = 0
    [] a.op = "destroy_unique" -> a.a \in 1..NU /\ st.un[a.a] # 0
    [] a.op = "shared_from_unique" -> a.a \in 1..NU /\ a.b \in 1..NS /\ st.un[a.a] # 0 /\ st.sh[a.b] = 0
    [] OTHER -> FALSE

(* effect: new state and what the operation returned (1 = a pointer / some, 0 = none, -1 = nothing to return) *)
R(st, ret) == [st |-> st, ret |-> ret]
Eff(st, a) ==
  CASE a.op = "make_shared" -> LET o == Fresh(st) IN R([Create(st, o) EXCEPT !.sh[a.a] = o], -1)
    [] a.op \in SharingOps -> LET o == st.sh[a.a] IN R([Incr(st, o) EXCEPT !.sh[a.b] = o], 1)
    [] a.op = "dynamic_cast_fail" -> R(st, 0)
    [] a.op = "assign_shared" ->            \* b = a : b gives up its object, then shares a's
         LET o == st.sh[a.a]
             old == st.sh[a.b]
             s1 == Incr(st, o)
             s2 == IF Bug = "assign_no_release" THEN s1 ELSE Decr(s1, old)
         IN R([s2 EXCEPT !.sh[a.b] = o], -1)
    [] a.op = "swap_shared" -> R([st EXCEPT !.sh[a.a] = st.sh[a.b], !.sh[a.b] = st.sh[a.a]], -1)
    [] a.op = "move_shared" ->              \* the count does not change; the source slot is vacated
         LET o == st.sh[a.a] IN
         R(IF Bug = "move_copies" THEN [st EXCEPT !.sh[a.b] = o] ELSE [st EXCEPT !.sh[a.b] = o, !.sh[a.a] = 0], -1)
    [] a.op = "destroy_shared" -> R([Decr(st, st.sh[a.a]) EXCEPT !.sh[a.a] = 0], -1)
    [] a.op = "weak_default" -> R([st EXCEPT !.wk[a.a] = 0], -1)
    [] a.op = "weak_from_shared" -> R([st EXCEPT !.wk[a.a] = st.sh[a.b]], -1)
    [] a.op = "weak_copy" -> R([st EXCEPT !.wk[a.b] = st.wk[a.a]], -1)
    [] a.op = "weak_destroy" -> R([st EXCEPT !.wk[a.a] = -1], -1)
    [] a.op = "lock" ->
         LET o == st.wk[a.a] IN
         IF o # 0 /\ (st.obj[o].cnt > 0 \/ Bug = "lock_no_check")
         THEN R([Incr(st, o) EXCEPT !.sh[a.b] = o], 1)
         ELSE R(st, 0)
    [] a.op \in {"make_unique", "make_unique_to_base", "unique_from_std"} ->
         LET o == Fresh(st) IN R([Create([st EXCEPT !.un[a.a] = o], o) EXCEPT !.obj[o].cnt = 0, !.obj[o].esft = FALSE],
                                    IF a.op = "unique_from_std" THEN 1 ELSE -1)
    [] a.op = "move_unique" -> R([st EXCEPT !.un[a.b] = st.un[a.a], !.un[a.a] = 0], -1)
    [] a.op = "destroy_unique" -> R([Destroy(st, st.un[a.a]) EXCEPT !.un[a.a] = 0], -1)
    [] a.op = "shared_from_unique" ->
         LET o == st.un[a.a] IN
         R(IF Bug = "from_unique_keeps" THEN [st EXCEPT !.sh[a.b] = o, !.obj[o].cnt = 1]
           ELSE [st EXCEPT !.sh[a.b] = o, !.un[a.a] = 0, !.obj[o].cnt = 1], -1)

(* ---- observers ---- *)
StrongOwners(st, o) == {s \in 1..NS : st.sh[s] = o}
UniqueOwners(st, o) == {u \in 1..NU : st.un[u] = o}
UseCount(st, s) == Cardinality(StrongOwners(st, st.sh[s]))              \* shared_ptr::use_count
WeakUseCount(st, w) == IF st.wk[w] = 0 THEN 0 ELSE Cardinality(StrongOwners(st, st.wk[w]))
Expired(st, w) == WeakUseCount(st, w) = 0
Alive(st, o) == StrongOwners(st, o) # {} \/ UniqueOwners(st, o) # {}

(* ---- invariants of the transcription (checked by TLC on every reachable state) ---- *)
AliveIffOwnedIn(st) == \A o \in Objs : st.obj[o].made => (st.obj[o].alive = Alive(st, o))
DeleterExactlyOnceIn(st) ==
  \A o \in Objs : /\ st.obj[o].dtors <= 1
                  /\ (st.obj[o].made /\ ~st.obj[o].alive) = (st.obj[o].dtors = 1)
                  /\ (~st.obj[o].made => st.obj[o].dtors = 0 /\ StrongOwners(st, o) = {} /\ UniqueOwners(st, o) = {})
CountAgreesIn(st) == \A o \in Objs : st.obj[o].cnt = Cardinality(StrongOwners(st, o))
SingleOwnerKindIn(st) == \A o \in Objs : Cardinality(UniqueOwners(st, o)) <= 1 /\ (UniqueOwners(st, o) # {} => StrongOwners(st, o) = {})
WeakNeverOwnsIn(st) == \A w \in 1..NW : st.wk[w] > 0 => st.obj[st.wk[w]].made
=============================================================================
