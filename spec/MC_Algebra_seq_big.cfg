SPECIFICATION Spec
CONSTANTS
  N = 3
  Bug = "none"
  Group = "seq"
  MaxLen = 5
INVARIANTS TypeOK LawSequenceTraverse LawSequenceShortCircuit LawCat LawFirstSuccess LawLoop
