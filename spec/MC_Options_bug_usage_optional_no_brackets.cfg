SPECIFICATION Spec
CONSTANTS
  MaxLen = 0
  MaxLenCheap = 0
  KindLen = 3
  InitAll = FALSE
  BugNextArgNoSkip = FALSE
  BugUseFlagAll = FALSE
  BugOptionalOrigState = FALSE
  BugNames = "none"
  BugErrorState = "none"
  BugMissingIsOther = FALSE
  BugUsage = "optional_no_brackets"
VIEW View
INVARIANTS UsageModelOK
CHECK_DEADLOCK FALSE
