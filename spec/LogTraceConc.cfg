SPECIFICATION CSpec
CONSTANTS
  Names <- NamesABC
  MaxDepth = 3
  SetLevels = {0}
  RootLevels = {0}
  Objs = {1}
  MaxSets = 0
  MaxOps = 0
  GenObservers = FALSE
  SetNodeOnlyBug = FALSE
  InheritRootBug = FALSE
INVARIANT CVerdict
CONSTRAINT CConsumed
POSTCONDITION Post
CHECK_DEADLOCK FALSE
