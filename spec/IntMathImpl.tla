----------------------------- MODULE IntMathImpl -----------------------------
(* Fixed-width transcription of the case analysis in the code (property C06):

     libs/core/include/fcppt/cast/detail/truncation_check.hpp   (five overloads)
     libs/core/include/fcppt/enum/from_int.hpp
     libs/core/include/fcppt/math/{ceil_div,ceil_div_signed,div,mod,clamp,
        is_power_of_2,next_power_of_2,log2,power_of_2}.hpp, math/detail/diff.hpp
     libs/core/include/fcppt/bit/{shifted_mask,test}.hpp

   in C++ integer semantics: integer promotion of types narrower than int,
   arithmetic modulo 2^N for unsigned types, static_cast = Wrap, and a flag `ub`
   for what the language leaves undefined (signed overflow, shift count >= width
   of the promoted left operand, division overflow).

   This module is for model checking only (Impl = definition of IntMath.tla for
   every case of a bounded family; the distinct-state count is the number of
   cases).  Verdicts about fcppt are never taken from it: they come from
   records of the real code judged by IntMath.tla (IntMathJudge.tla).

   The constants *Bug select the code as found in fcppt 0d9cb5d (TRUE) or as
   repaired by /verif/fixes/C06_*.diff (FALSE); the Mut* constants re-introduce
   the seeded mutants of DESIGN.md section 7.  Every *Bug / Mut* = TRUE
   configuration must be rejected by TLC (vacuity guards of checks/c06.py).   *)
EXTENDS IntMath, TLC

CONSTANTS
  MCTypes,          \* the type names that are instantiated in this configuration
  FromIntNarrowBug, \* from_int compares after narrowing to the enum's size type
  Log2ShiftBug,     \* log2 shifts by a counter that reaches the bit width
  CeilDivSignedBug, \* ceil_div_signed goes through to_unsigned / truncating division
  DiffPromoBug,     \* unsigned diff takes min() of the promoted (int) differences
  TCToSignedBug,    \* truncation_check unsigned -> signed converts the *source* with to_signed
  MutTCLessEq,      \* mutant: truncation_check compares max < source as max <= source
  MutCeilDivAdd,    \* mutant: ceil_div computed as (a + b - 1) / b
  MutClampLess,     \* mutant: clamp tests vmin < vmax
  IntervalTouchBug, \* interval_distance as found: containment with a shared end point is treated as partial overlap
  MutConvZeroExtend \* mutant: a conversion zero-extends a negative source value

VARIABLES f, S, D, a, b, c, d4
vars == <<f, S, D, a, b, c, d4>>

Ok(v) == [ub |-> FALSE, r |-> v]
UB == [ub |-> TRUE, r |-> 0]

\* ----------------------------------------------------------------- C++ arithmetic
(* the value x of an arithmetic expression whose operands have (unpromoted) type T *)
Arith(T, x) ==
  LET P == Promoted(T) IN
  IF Signed(P) THEN (IF Small(P) /\ ~Representable(P, x) THEN UB ELSE Ok(x))
  ELSE Ok(Wrap(P, x))

RECURSIVE BitAnd(_, _)   \* non-negative operands
BitAnd(x, y) == IF x = 0 \/ y = 0 THEN 0 ELSE (x % 2) * (y % 2) + 2 * BitAnd(x \div 2, y \div 2)

\* ----------------------------------------------------------------- truncation_check
(* std::numeric_limits<Dest>::max() < _source with the limit converted to Source *)
MaxLess(x, y) == IF MutTCLessEq THEN x <= y ELSE x < y

RECURSIVE TC(_, _, _)
TC(Src, Dst, v) ==
  IF Signed(Dst) = Signed(Src) /\ Bits(Dst) >= Bits(Src)
  THEN Some(v)                                       \* overload 1: widening, same signedness
  ELSE IF ~Signed(Dst) /\ ~Signed(Src)
  THEN IF MaxLess(Wrap(Src, Max(Dst)), v) THEN None ELSE Some(Wrap(Dst, v))       \* overload 2
  ELSE IF Signed(Dst) /\ Signed(Src)
  THEN IF MaxLess(Wrap(Src, Max(Dst)), v) \/ Wrap(Src, Min(Dst)) > v THEN None   \* overload 3
       ELSE Some(Wrap(Dst, v))
  ELSE IF ~Signed(Dst)                                \* overload 4: signed -> unsigned
  THEN IF v < 0 THEN None ELSE TC(UnsignedOf(Src), Dst, Wrap(UnsignedOf(Src), v))
  ELSE LET I == UnsignedOf(Dst)                       \* overload 5: unsigned -> signed
           dest == TC(Src, I, v)
       IN IF dest = None THEN None
          ELSE IF Wrap(I, Max(Dst)) < dest[1] THEN None
          ELSE IF TCToSignedBug
          THEN Some(Wrap(Dst, Wrap(SignedOf(Src), v)))   \* cast::size<Dest>(cast::to_signed(_source))
          ELSE Some(Wrap(Dst, dest[1]))                  \* cast::to_signed(_dest)

\* ----------------------------------------------------------------- enum_::from_int
(* V: argument type (unsigned), U: underlying type of the enum, n: number of enumerators *)
FromIntImpl(V, U, n, v) ==
  LET ST == UnsignedOf(U)
      inRange == IF FromIntNarrowBug THEN Wrap(ST, v) < n    \* cast::size<size_type>(_value) < size
                 ELSE v < n                                     \* _value < size (value preserving conversions)
  IN IF inRange THEN Some(Wrap(U, v)) ELSE None               \* int_to_enum = static_cast

\* ----------------------------------------------------------------- math::log2
RECURSIVE Log2Shift(_, _, _)
Log2Shift(T, x, r) ==         \* T r(1); while ((x >> r) != 0) ++r; return --r;
  IF r >= Bits(Promoted(T)) THEN UB
  ELSE IF x \div P2[r] # 0 THEN Log2Shift(T, x, Wrap(T, r + 1))
  ELSE Ok(Wrap(T, r - 1))
RECURSIVE Log2Halve(_, _, _)
Log2Halve(T, rest, r) ==      \* T r(0); T rest(x); while ((rest >>= 1U) != 0) ++r; return r;
  LET h == Wrap(T, rest \div 2) IN
  IF h # 0 THEN Log2Halve(T, h, Wrap(T, r + 1)) ELSE Ok(r)
Log2Impl(T, x) == IF Log2ShiftBug THEN Log2Shift(T, x, 1) ELSE Log2Halve(T, x, 0)

\* ----------------------------------------------------------------- is_power_of_2 / next_power_of_2
IsPow2Impl(T, x) ==           \* x && !(x & (x - 1))
  IF x = 0 THEN FALSE
  ELSE LET d == Arith(T, x - 1) IN BitAnd(x, d.r) = 0
RECURSIVE NP2Loop(_, _, _)
NP2Loop(T, counter, ret) ==   \* while ((counter /= two) != 0) ret *= two;
  LET cn == Wrap(T, counter \div 2) IN
  IF cn # 0 THEN NP2Loop(T, cn, Wrap(T, ret * 2)) ELSE ret
NextPow2Impl(T, x) ==
  IF x = 0 THEN Ok(1)
  ELSE IF IsPow2Impl(T, x) THEN Ok(x)
  ELSE Ok(Wrap(T, NP2Loop(T, x, 1) * 2))

\* ----------------------------------------------------------------- ceil_div / ceil_div_signed
CeilDivImpl(T, x, y) ==       \* unsigned T of rank >= int
  IF y = 0 THEN Ok(None)
  ELSE IF MutCeilDivAdd THEN Ok(Some(Wrap(T, Wrap(T, x + y - 1) \div y)))
  ELSE Ok(Some(Wrap(T, (x \div y) + (IF x % y # 0 THEN 1 ELSE 0))))
SignedQuot(T, x, y) ==        \* x / y for a signed type of rank >= int, y # 0
  IF x = Min(T) /\ y = -1 THEN UB ELSE Ok(TruncQ(x, y))
CeilDivSignedImpl(T, x, y) ==
  IF CeilDivSignedBug
  THEN IF x < 0
       THEN (IF y = 0 THEN Ok(None) ELSE LET q == SignedQuot(T, x, y) IN IF q.ub THEN UB ELSE Ok(Some(q.r)))
       ELSE LET U == UnsignedOf(T)
                u == CeilDivImpl(U, Wrap(U, x), Wrap(U, y))
            IN IF u.r = None THEN Ok(None) ELSE Ok(Some(Wrap(T, u.r[1])))
  ELSE (* make_if(divisor != 0, q = a / b; (a % b != 0 && (a < 0) == (b < 0)) ? q + 1 : q) *)
       IF y = 0 THEN Ok(None)
       ELSE LET q == SignedQuot(T, x, y) IN
            IF q.ub THEN UB
            ELSE LET rem == x - q.r * y IN
                 Ok(Some(IF rem # 0 /\ ((x < 0) = (y < 0)) THEN q.r + 1 ELSE q.r))

\* ----------------------------------------------------------------- div / mod / clamp / diff
DivImpl(T, x, y) ==           \* result type is the promoted type
  IF y = 0 THEN Ok(None)
  ELSE LET P == Promoted(T) IN
       IF Signed(P) /\ Small(P) /\ x = Min(P) /\ y = -1 THEN UB ELSE Ok(Some(TruncQ(x, y)))
ModImpl(T, x, y) == IF y = 0 THEN Ok(None) ELSE Ok(Some(Wrap(T, x % y)))
StdMin(x, y) == IF y < x THEN y ELSE x      \* std::min(a, b) = (b < a) ? b : a
StdMax(x, y) == IF x < y THEN y ELSE x      \* std::max(a, b) = (a < b) ? b : a
ClampImpl(v, lo, hi) ==
  IF (IF MutClampLess THEN lo < hi ELSE lo <= hi) THEN Some(StdMax(StdMin(v, hi), lo)) ELSE None
DiffImpl(T, x, y) ==
  IF Signed(T)
  THEN LET d == Arith(T, x - y) IN          \* std::abs(a - b), converted to T
       IF d.ub THEN UB
       ELSE IF Small(Promoted(T)) /\ d.r = Min(Promoted(T)) THEN UB
       ELSE Ok(Wrap(T, Abs(d.r)))
  ELSE LET d1 == Arith(T, x - y)            \* std::min(a - b, b - a), converted to T
           d2 == Arith(T, y - x)
       IN IF d1.ub \/ d2.ub THEN UB
          ELSE IF DiffPromoBug THEN Ok(Wrap(T, StdMin(d1.r, d2.r)))
          ELSE Ok(StdMin(Wrap(T, d1.r), Wrap(T, d2.r)))   \* static_cast<T> of both differences

\* ----------------------------------------------------------------- power_of_2 / shifted_mask / bit::test
Pow2Impl(R, e) ==             \* static_cast<Result>(literal<Result>(1) << e)
  LET P == Promoted(R) IN
  IF e >= Bits(P) THEN UB ELSE Ok(Wrap(R, IF Small(P) THEN Wrap(P, P2[e]) ELSE P2[e]))
BitTestImpl(T, v, m) == BitAnd(v, m) # 0    \* unsigned T

\* ----------------------------------------------------------------- conversions (cast::size, to_signed, to_unsigned,
\*                                                                    promote_int, safe_numeric, enum casts, literal)
ConvImpl(Src, Dst, v) ==       \* static_cast<Dest>(_source)
  IF MutConvZeroExtend /\ v < 0 THEN Wrap(Dst, Wrap(UnsignedOf(Src), v)) ELSE Wrap(Dst, v)

\* ----------------------------------------------------------------- bit::test on signed types
(* (_value & _mask.get()) != 0 on the promoted (sign-extended) operands: two negative operands share
   the sign bit; otherwise the low Bits(T) bits of the negative operand decide *)
BitTestSignedImpl(T, v, m) ==
  IF v < 0 /\ m < 0 THEN TRUE
  ELSE BitAnd(Wrap(UnsignedOf(T), v), Wrap(UnsignedOf(T), m)) # 0
(* the definition on bit patterns: some bit of the Bits(T)-bit two's complement patterns is set in both *)
BitTestPattern(T, v, m) == BitTest(Wrap(UnsignedOf(T), v), Wrap(UnsignedOf(T), m))

\* ----------------------------------------------------------------- math::interval_distance
IntervalImpl(f1, s1, f2, s2) ==
  IF IntervalTouchBug
  THEN (* if (i1_second <= i2_second) swap; i2_first <= i1_first ? i1_first - i2_second : max(..) *)
       LET sw == s1 <= s2
           af == IF sw THEN f2 ELSE f1
           as == IF sw THEN s2 ELSE s1
           bf == IF sw THEN f1 ELSE f2
           bs == IF sw THEN s1 ELSE s2
       IN IF bf <= af THEN af - bs ELSE StdMax(bs - as, af - bf)
  ELSE (* if (i1_second < i2_second || (i1_second <= i2_second && i2_first < i1_first)) swap;
          i2_first < i1_first ? i1_first - i2_second : max(..) *)
       LET sw == s1 < s2 \/ (s1 <= s2 /\ f2 < f1)
           af == IF sw THEN f2 ELSE f1
           as == IF sw THEN s2 ELSE s1
           bf == IF sw THEN f1 ELSE f2
           bs == IF sw THEN s1 ELSE s2
       IN IF bf < af THEN af - bs ELSE StdMax(bs - as, af - bf)

\* ----------------------------------------------------------------- the cases
RankGEInt(T) == Bits(T) >= Bits("i32")
MCU == MCTypes \cap UnsignedTypes
MCS == MCTypes \cap SignedTypes
(* binary functions are enumerated over all pairs of types of at most 8 bits; wider types
   (real 16-bit) over all left operands x a boundary set of right operands *)
(* constant tables (evaluated once) *)
EdgeTab == Tabulated([t \in Types |->
  IF ~Small(t) THEN {}
  ELSE {x \in Values(t) : \/ Abs(x) <= 2 \/ x >= Max(t) - 2 \/ x <= Min(t) + 2
                           \/ \E k \in 1..15 : Abs(Abs(x) - P2[k]) <= 1}])
RightTab == Tabulated([t \in Types |-> IF ~Small(t) THEN {} ELSE IF Bits(t) <= 8 THEN Values(t) ELSE EdgeTab[t]])
ClampTab == Tabulated([t \in Types |->
  IF ~Small(t) THEN {}
  ELSE IF Bits(t) <= 4 THEN Values(t)
  ELSE {x \in Values(t) : Abs(x) <= 9 \/ x >= Max(t) - 3 \/ x <= Min(t) + 3}])
Right(T) == RightTab[T]
Left(T) == RightTab[T]
ClampDom(T) == ClampTab[T]
EnumSizes == {1, 3, 9}
MaxE(T) == IF Bits(Promoted(T)) - 1 <= MaxExp THEN Bits(Promoted(T)) - 1 ELSE MaxExp

Init ==
  \/ /\ f = "truncation_check" /\ S \in MCTypes /\ D \in MCTypes /\ a \in Values(S) /\ b = 0 /\ c = 0 /\ d4 = 0
  \/ /\ f = "from_int" /\ S \in MCU /\ D \in MCTypes /\ b \in {n \in EnumSizes : n - 1 <= Max(D)}
     /\ a \in Values(S) /\ c = 0 /\ d4 = 0
  \/ /\ f \in {"log2", "is_power_of_2", "next_power_of_2"} /\ S \in MCU /\ D = S /\ a \in Values(S) /\ b = 0 /\ c = 0 /\ d4 = 0
  \/ /\ f = "ceil_div" /\ S \in {t \in MCU : RankGEInt(t)} /\ D = S /\ a \in Left(S) /\ b \in Right(S) /\ c = 0 /\ d4 = 0
  \/ /\ f = "ceil_div_signed" /\ S \in {t \in MCS : RankGEInt(t)} /\ D = S /\ a \in Left(S) /\ b \in Right(S) /\ c = 0 /\ d4 = 0
  \/ /\ f \in {"div", "diff"} /\ S \in MCTypes /\ D = S /\ a \in Left(S) /\ b \in Right(S) /\ c = 0 /\ d4 = 0
  \/ /\ f = "bit_test" /\ S \in MCS /\ D = S /\ a \in Left(S) /\ b \in Right(S) /\ c = 0 /\ d4 = 0
  \/ /\ f = "convert" /\ S \in MCTypes /\ D \in MCTypes /\ a \in Values(S) /\ b = 0 /\ c = 0 /\ d4 = 0
  \/ /\ f = "interval_distance" /\ S = "i32" /\ D = S /\ S \in MCTypes
     /\ a \in -4..4 /\ b \in a..4 /\ c \in -4..4 /\ d4 \in c..4
  \/ /\ f \in {"mod", "bit_test"} /\ S \in MCU /\ D = S /\ a \in Left(S) /\ b \in Right(S) /\ c = 0 /\ d4 = 0
  \/ /\ f = "clamp" /\ S \in MCTypes /\ D = S /\ a \in ClampDom(S) /\ b \in ClampDom(S) /\ c \in ClampDom(S) /\ d4 = 0
  \/ /\ f \in {"power_of_2", "shifted_mask"} /\ S \in MCTypes /\ D = S /\ a \in 0..MaxE(S) /\ b = 0 /\ c = 0 /\ d4 = 0
Next == UNCHANGED vars
Spec == Init /\ [][Next]_vars

\* ----------------------------------------------------------------- Impl = definition
(* Inputs on which the property demands nothing: the exact result is not representable in the
   result type, or the documentation excludes the argument (log2(0)). *)
Demanded ==
  CASE f = "ceil_div_signed" -> b = 0 \/ Representable(S, CeilQ(a, b))
    [] f = "div" -> b = 0 \/ Fits(Promoted(S), TruncQ(a, b))
    [] f = "diff" -> Representable(S, Diff(a, b))
    [] f = "next_power_of_2" -> Representable(S, NextPow2(a))
    [] f = "log2" -> a # 0
    [] f \in {"power_of_2", "shifted_mask"} -> Representable(S, Pow2(a))
    [] f = "convert" -> Representable(D, a)
    [] OTHER -> TRUE

ImplResult ==
  CASE f = "truncation_check" -> Ok(TC(S, D, a))
    [] f = "from_int" -> Ok(FromIntImpl(S, D, b, a))
    [] f = "log2" -> Log2Impl(S, a)
    [] f = "is_power_of_2" -> Ok(IsPow2Impl(S, a))
    [] f = "next_power_of_2" -> NextPow2Impl(S, a)
    [] f = "ceil_div" -> CeilDivImpl(S, a, b)
    [] f = "ceil_div_signed" -> CeilDivSignedImpl(S, a, b)
    [] f = "div" -> DivImpl(S, a, b)
    [] f = "mod" -> ModImpl(S, a, b)
    [] f = "diff" -> DiffImpl(S, a, b)
    [] f = "clamp" -> Ok(ClampImpl(a, b, c))
    [] f \in {"power_of_2", "shifted_mask"} -> Pow2Impl(S, a)
    [] f = "bit_test" -> Ok(IF Signed(S) THEN BitTestSignedImpl(S, a, b) ELSE BitTestImpl(S, a, b))
    [] f = "convert" -> Ok(ConvImpl(S, D, a))
    [] f = "interval_distance" -> Ok(IntervalImpl(a, b, c, d4))

Definition ==
  CASE f = "truncation_check" -> TruncationCheck(D, a)
    [] f = "from_int" -> FromInt(b, a)
    [] f = "log2" -> Log2(a)
    [] f = "is_power_of_2" -> IsPow2(a)
    [] f = "next_power_of_2" -> NextPow2(a)
    [] f \in {"ceil_div", "ceil_div_signed"} -> CeilDiv(a, b)
    [] f = "div" -> Div(a, b)
    [] f = "mod" -> Mod(a, b)
    [] f = "diff" -> Diff(a, b)       \* see Accepted
    [] f = "clamp" -> Clamp(a, b, c)
    [] f = "power_of_2" -> Pow2(a)
    [] f = "shifted_mask" -> ShiftedMask(a)
    [] f = "bit_test" -> IF Signed(S) THEN BitTestPattern(S, a, b) ELSE BitTest(a, b)
    [] f = "convert" -> Convert(D, a)
    [] f = "interval_distance" -> IntervalDistance(a, b, c, d4)

(* the invariant: on every demanded input the transcription is free of undefined behaviour and
   returns the mathematical definition *)
(* the results the judge accepts: the definition, and for diff on unsigned types also the documented
   formula min(a - b, b - a) modulo 2^N (see IntMath.DiffModular and docs/notes_C06.md) *)
Accepted ==
  IF f = "diff" /\ ~Signed(S) THEN {Diff(a, b), DiffModular(ModTab[S], a, b)} ELSE {Definition}
ImplEqualsDefinition ==
  Demanded => LET i == ImplResult IN ~i.ub /\ i.r \in Accepted

(* second invariant, kept separate so that a counterexample names the clause: no undefined
   behaviour on demanded inputs *)
NoUB == Demanded => ~ImplResult.ub
=============================================================================
