SPECIFICATION Spec
CONSTANTS
  NS = 3
  Val = {0, 1}
  MaxNodes = 6
VIEW View
INVARIANTS TypeOK GeneratorSound Laws
CHECK_DEADLOCK FALSE
