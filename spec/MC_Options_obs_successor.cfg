SPECIFICATION Spec
CONSTANTS
  MaxLen = 4
  MaxLenCheap = 4
  InitAll = FALSE
  BugNextArgNoSkip = FALSE
  BugUseFlagAll = FALSE
  BugOptionalOrigState = FALSE
  BugNames = "none"
VIEW View
INVARIANTS ObsSuccessorOfOptionNameNotPositional
CHECK_DEADLOCK FALSE
