SPECIFICATION Spec
CONSTANTS
  Base = 4
  L = 3
  Bug = "signed_and_unsigned"
  Families = {"s"}
INVARIANT SignedLaw
CHECK_DEADLOCK FALSE
