SPECIFICATION SpecSeq
CONSTANTS
  MaxLen = 4
  SetMax = 3
  Unique <- UniqueOnePass
INVARIANT UniqueLaws
