INIT LogInit
NEXT LogNext
CONSTANTS
  NS = 1
  Val = {1, 6, 11, 16, 21, 26}
  MaxNodes = 7
VIEW View
INVARIANTS TypeOK LogShape LogOpLaws
CONSTRAINT EmitScripts
CHECK_DEADLOCK FALSE
