SPECIFICATION Spec
CONSTANTS
  N = 3
  Bug = "none"
  Group = "optmonad"
  MaxLen = 0
INVARIANTS TypeOK LawOptLeftIdentity LawOptRightIdentity LawOptAssoc LawOptJoin LawOptChain
