SPECIFICATION ISpec
CONSTANTS
  Sym = {97, 10, 32, 9}
  MaxLen = 3
  WithFailAt = FALSE
  MaxOps = 8
  ColBug = TRUE
  SetPosBug = FALSE
  FailBug = FALSE
  EofBug = FALSE
VIEW IViewDepth
INVARIANTS FutureRefines
CHECK_DEADLOCK FALSE
