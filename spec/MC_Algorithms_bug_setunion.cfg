SPECIFICATION SpecSet
CONSTANTS
  MaxLen = 4
  SetMax = 3
  SetUnion <- SetUnionConcat
INVARIANT SetAlgebra
