------------------------ MODULE RawVectorTrace ------------------------
(* Trace validation for C07: replays an ndjson log recorded from the real
   raw_vector / buffer (harness/c07_rawvec.cpp) through the operators of
   RawVector.tla.  One TLC state per consumed log line.  Every event carries the
   full projected abstract state, so the check is linear; an event the
   specification cannot explain is recorded in `bad` (with its line and reasons)
   and validation continues from the logged state, so one defect does not hide
   the rest of the trace.

   Besides the functional contract the trace spec runs the heap discipline as a
   small state machine over the allocator events: a block is allocated with a
   fresh id, freed exactly once with the size it was allocated with, every live
   object owns exactly one live block whose size is its capacity (or none if its
   capacity is 0), no two objects share a block, no block is orphaned (leak), and
   after the end of a history the heap is empty. *)
EXTENDS RawVector, Json, IOUtils

VARIABLES l, heap, bad
tvars == <<st, hist, l, heap, bad>>

T == ndJsonDeserialize(IOEnv.TRACE)

ProjV(r) == IF r.live THEN LiveV(r.elems) ELSE DeadV
ProjB(r) == IF r.live THEN LiveB(r.read, r.wsize) ELSE DeadB
(* a dynamic_array's cells are uninitialised until the harness fills them: contents are only
   compared once filled (the ghost flag follows the specification, not the log) *)
ProjD(r, exp) == IF r.live THEN [live |-> TRUE, size |-> r.size, cells |-> IF exp.filled THEN r.cells ELSE <<>>, filled |-> exp.filled]
                 ELSE DeadD
Logged(ev) == [vs |-> [i \in 1..NV |-> ProjV(ev.vs[i])], bs |-> [i \in 1..NB |-> ProjB(ev.bs[i])],
               da |-> ProjD(ev.da, Eff(st, ev).da)]

(* heap: function from live block id to its allocation size *)
RECURSIVE HeapFold(_, _, _)
HeapFold(h, evs, errs) ==
  IF evs = <<>> THEN [h |-> h, errs |-> errs]
  ELSE LET e == Head(evs) IN
       IF e.a = "alloc"
       THEN IF e.id \in DOMAIN h
            THEN HeapFold(h, Tail(evs), errs \cup {"heap:alloc-of-live-id"})
            ELSE HeapFold(h @@ (e.id :> e.n), Tail(evs), errs)
       ELSE IF e.id \notin DOMAIN h
            THEN HeapFold(h, Tail(evs), errs \cup {"heap:free-of-unknown-block"})
            ELSE HeapFold([i \in DOMAIN h \ {e.id} |-> h[i]], Tail(evs),
                          errs \cup (IF e.n = h[e.id] THEN {} ELSE {"heap:free-with-wrong-size"}))

(* observers of one logged vector must agree with each other *)
VecObsOK(r) ==
  r.live =>
    /\ r.size = Len(r.elems)
    /\ r.idx = r.elems
    /\ r.dist = r.size
    /\ r.empty = (r.size = 0)
    /\ (r.size > 0 => r.front = r.elems[1] /\ r.back = r.elems[r.size])
BufObsOK(r) ==
  r.live =>
    /\ r.rsize = Len(r.read) /\ r.idx = r.read /\ r.rdist = r.rsize /\ r.wdist = r.wsize /\ r.wgap = 0

HeapReasons(h, ev) ==
  LET lv == {i \in 1..NV : ev.vs[i].live}
      lb == {i \in 1..NB : ev.bs[i].live}
      dblk == IF ev.da.live THEN {ev.da.blk} ELSE {}
      owners == {ev.vs[i].blk : i \in lv} \cup {ev.bs[i].blk : i \in lb} \cup dblk
      nOwn == Cardinality({i \in lv : ev.vs[i].blk # 0}) + Cardinality({i \in lb : ev.bs[i].blk # 0})
              + Cardinality(dblk \ {0})
  IN  (IF \A i \in lv : ev.vs[i].cap >= ev.vs[i].size THEN {} ELSE {"capacity-below-size"})
      \cup (IF \A i \in lv : LET r == ev.vs[i] IN
                 IF r.blk = 0 THEN r.cap = 0
                 ELSE r.blk \in DOMAIN h /\ r.off = 0 /\ h[r.blk] = r.cap
            THEN {} ELSE {"heap:vector-block-mismatch"})
      \cup (IF \A i \in lb : LET r == ev.bs[i] IN
                 IF r.blk = 0 THEN r.rsize = 0 /\ r.wsize = 0
                 ELSE r.blk \in DOMAIN h /\ r.off = 0 /\ r.rsize + r.wsize <= h[r.blk]
            THEN {} ELSE {"heap:buffer-block-mismatch"})
      \cup (IF ev.da.live => (ev.da.blk \in DOMAIN h /\ ev.da.off = 0 /\ h[ev.da.blk] = ev.da.size /\ ev.da.dist = ev.da.size)
            THEN {} ELSE {"heap:dynamic-array-block-mismatch"})
      \cup (IF Cardinality(owners \ {0}) = nOwn THEN {} ELSE {"heap:block-shared"})
      \cup (IF DOMAIN h \subseteq owners THEN {} ELSE {"heap:orphaned-block"})

Reasons(s, h, ev) ==
  LET e == Eff(s, ev)
      lg == Logged(ev)
      hf == HeapFold(h, ev.heap, {})
  IN  (IF \A i \in 1..NV : <<"v", i>> \in e.free \/ lg.vs[i] = e.vs[i] THEN {} ELSE {"contents"})
      \cup (IF \A i \in 1..NB : <<"b", i>> \in e.free \/ lg.bs[i] = e.bs[i] THEN {} ELSE {"buffer-contents"})
      \cup (IF lg.da = e.da THEN {} ELSE {"dynamic-array"})
      \cup (IF \A i \in 1..NV : <<"v", i>> \in e.free => lg.vs[i].live THEN {} ELSE {"moved-from-not-live"})
      \cup (IF ev.ret = e.ret THEN {} ELSE {"returned-iterator"})
      \cup (IF ev.rb = e.rb THEN {} ELSE {"returned-bool"})
      \cup (IF \A i \in 1..NV : VecObsOK(ev.vs[i]) THEN {} ELSE {"observers"})
      \cup (IF \A i \in 1..NB : BufObsOK(ev.bs[i]) THEN {} ELSE {"buffer-observers"})
      \cup hf.errs
      \cup HeapReasons(hf.h, ev)

EmptyHeap == [i \in {} |-> 0]
EmptySt == [vs |-> [i \in 1..NV |-> DeadV], bs |-> [i \in 1..NB |-> DeadB], da |-> DeadD]

TInit ==
  /\ st = EmptySt
  /\ hist = <<>>
  /\ l = 1
  /\ heap = EmptyHeap
  /\ bad = <<>>

TReset ==
  /\ T[l].e = "reset"
  /\ st' = EmptySt
  /\ heap' = EmptyHeap
  /\ bad' = IF heap = EmptyHeap /\ st = EmptySt THEN bad
            ELSE Append(bad, [l |-> l, op |-> "reset", why |-> {"state-not-empty-at-reset"}])

TOp ==
  /\ T[l].e = "op"
  /\ LET ev == T[l] IN
     IF ~Pre(st, ev)
     THEN \* a harness bug, not a verdict about the code: reported as such
          /\ bad' = Append(bad, [l |-> l, op |-> ev.op, why |-> {"HARNESS-PRECONDITION"}])
          /\ st' = Logged(ev)
          /\ heap' = HeapFold(heap, ev.heap, {}).h
     ELSE LET why == Reasons(st, heap, ev) IN
          /\ bad' = IF why = {} THEN bad ELSE Append(bad, [l |-> l, op |-> ev.op, why |-> why])
          /\ st' = Logged(ev)
          /\ heap' = HeapFold(heap, ev.heap, {}).h

TEnd ==
  /\ T[l].e = "end"
  /\ LET ev == T[l]
         hf == HeapFold(heap, ev.heap, {})
         why == hf.errs \cup (IF hf.h = EmptyHeap /\ ev.live_blocks = 0 THEN {} ELSE {"heap:leak-at-end"})
     IN /\ bad' = IF why = {} THEN bad ELSE Append(bad, [l |-> l, op |-> "end", why |-> why])
        /\ heap' = EmptyHeap
        /\ st' = EmptySt

TReadChars ==
  /\ T[l].e = "read_chars"
  /\ LET ev == T[l]
         e == ReadChars(ev.text, ev.skip, ev.count)
     IN bad' = IF e.some = ev.some /\ e.data = ev.data THEN bad
               ELSE Append(bad, [l |-> l, op |-> "read_chars", why |-> {"read_chars"}])
  /\ UNCHANGED <<st, heap>>

\* io::read_chars with counts beyond 2^31 on a virtual stream: wide numbers are limbs (q, r) meaning
\* q times 2^20 plus r, since TLC integers are 32-bit; the character at stream position p is WCharAt(p).
WNorm(q, r) == [q |-> q + r \div 1048576, r |-> r % 1048576]
WLe(a, b) == a.q < b.q \/ (a.q = b.q /\ a.r <= b.r)
WAddSmall(a, k) == WNorm(a.q, a.r + k)              \* k >= 0 small
WSubSmall(a, k) == IF a.r >= k THEN [q |-> a.q, r |-> a.r - k] ELSE [q |-> a.q - 1, r |-> a.r + 1048576 - k]
WMod(a, m) == a - m * (a \div m)
WCharAt(p) ==
  LET pm == WMod(WMod(p.q, 251) * WMod(1048576, 251) + p.r, 251)
  IN WMod(WMod(pm * 7 + 3, 251), 120) + 1
TReadCharsBig ==
  /\ T[l].e = "read_chars_big"
  /\ LET ev == T[l]
         count == [q |-> ev.count_q, r |-> ev.count_r]
         avail == [q |-> ev.avail_q, r |-> ev.avail_r]
         endp == WNorm(count.q, count.r + ev.skip)
         fits == WLe(endp, avail)
         good == /\ ev.size_q = count.q
                 /\ ev.size_r = count.r
                 /\ ev.pos_q = endp.q
                 /\ ev.pos_r = endp.r
                 /\ ev.head = [i \in 1..4 |-> WCharAt(WAddSmall([q |-> 0, r |-> ev.skip], i - 1))]
                 /\ ev.tail = [i \in 1..4 |-> WCharAt(WAddSmall(WSubSmall(endp, 4), i - 1))]
         ok == ev.oom \/ (ev.some = fits /\ (fits => good))
     IN bad' = IF ok THEN bad
               ELSE Append(bad, [l |-> l, op |-> "read_chars", why |-> {"read_chars:big-count"}])
  /\ UNCHANGED <<st, heap>>

TNext ==
  /\ l <= Len(T)
  /\ l' = l + 1
  /\ hist' = hist
  /\ (TReset \/ TOp \/ TEnd \/ TReadChars \/ TReadCharsBig)

TSpec == TInit /\ [][TNext]_tvars

(* verdict: printed once when the whole trace has been consumed *)
Done == l = Len(T) + 1
Verdict == Done => PrintT("VERDICT " \o ToJson([n |-> Len(T), bad |-> bad]))
(* an unknown event kind (or a crash/sanitizer event) is explained by no action: TLC stops
   with l <= Len(T) and the postcondition reports the line *)
Consumed == TLCSet(1, l)
Post == IF TLCGet(1) = Len(T) + 1 THEN TRUE ELSE PrintT("STUCK " \o ToString(TLCGet(1)))
=============================================================================
