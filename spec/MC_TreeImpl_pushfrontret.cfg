SPECIFICATION ISpec
CONSTANTS
  NS = 2
  Val = {0, 1}
  MaxNodes = 4
  SwapBug = FALSE
  CopyAssignBug = FALSE
  MoveAssignBug = FALSE
  InsertNoParentBug = FALSE
  CopyNoReparentBug = FALSE
  EraseKeepsBug = FALSE
  PushFrontRetBug = TRUE
  ReleaseNoClear = FALSE
  LogDupBug = FALSE
  LogSetShallowBug = FALSE
  LeakTempBug = FALSE
  MoveAssignInPlaceBug = FALSE
VIEW IView
INVARIANTS ReturnsAgree
CHECK_DEADLOCK FALSE
