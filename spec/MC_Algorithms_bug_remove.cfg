SPECIFICATION SpecSeq
CONSTANTS
  MaxLen = 4
  SetMax = 3
  Remove <- RemoveFirstOnly
INVARIANT RemoveLaws
