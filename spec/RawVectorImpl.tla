------------------------- MODULE RawVectorImpl -------------------------
(* Implementation-shaped model of raw_vector: what the C++ object stores
   (a block of `cap` cells of which the first `size` are initialised) and the code
   paths of libs/core/include/fcppt/container/raw_vector/object_impl.hpp,
   transcribed operation by operation (reallocating and in-place paths of the three
   insert overloads, erase by forward copy, reallocate, new_capacity = max(n, 2*cap),
   move assignment = swap).

   It runs in lock-step with the abstract specification RawVector (variable st):
   TLC checks the refinement  Abs(impl) = st  and the representation invariants
   (no uninitialised cell below size, size <= cap) in every reachable state, and
   emits operation scripts that reach pointer-level corner states (spare capacity,
   stale cells) which the abstract model cannot distinguish.

   AliasBug = TRUE re-introduces the defect that was repaired in /repo (commit
   "fix: raw_vector::insert copies an aliased value before shifting elements"): the
   in-place path reads the value argument after copy_backward.  TLC then reports a
   refinement violation within a few states - the binding demonstration of
   DESIGN.md. *)
EXTENDS RawVector

CONSTANTS MaxCap, AliasBug, EraseRetBug

VARIABLES impl,    \* [1..NV -> [live, size, cap, cells]]
          retok    \* the last returned iterator agreed with the abstract contract
ivars == <<st, hist, impl, retok>>

U == -1   \* an uninitialised cell (a value outside Val)

Max(a, b) == IF a >= b THEN a ELSE b
NullV == [live |-> TRUE, size |-> 0, cap |-> 0, cells |-> <<>>]
DeadI == [live |-> FALSE, size |-> 0, cap |-> 0, cells |-> <<>>]

NewCap(v, ns) == Max(ns, 2 * v.cap)

(* reallocate(new_cap): allocate, uninitialized_copy of [begin, end), deallocate *)
Realloc(v, ncap) ==
  [v EXCEPT !.cap = ncap, !.cells = [k \in 1..ncap |-> IF k <= v.size THEN v.cells[k] ELSE U]]

(* insert(position, size n, value) - value given as a cell reference or a constant *)
ReadArg(cells, a) == IF a.alias >= 0 THEN cells[a.alias + 1] ELSE a.x

InsertN(v, pos, n, a) ==
  LET ns == v.size + n IN
  IF ns > v.cap
  THEN \* reallocating path: the value is read from the OLD block before it is freed
       LET nc == NewCap(v, ns)
           val == ReadArg(v.cells, a)
       IN [v EXCEPT !.size = ns, !.cap = nc,
                    !.cells = [k \in 1..nc |-> IF k <= pos THEN v.cells[k]
                                               ELSE IF k <= pos + n THEN val
                                               ELSE IF k <= ns THEN v.cells[k - n]
                                               ELSE U]]
  ELSE \* in-place path: copy_backward, then fill
       LET shifted == [k \in 1..v.cap |-> IF k > pos + n /\ k <= ns THEN v.cells[k - n] ELSE v.cells[k]]
           val == IF AliasBug THEN ReadArg(shifted, a) ELSE ReadArg(v.cells, a)
       IN [v EXCEPT !.size = ns,
                    !.cells = [k \in 1..v.cap |-> IF k > pos /\ k <= pos + n THEN val ELSE shifted[k]]]

(* insert(position, forward range) *)
InsertFwd(v, pos, xs) ==
  LET n == Len(xs)
      ns == v.size + n
  IN IF n = 0 THEN v
     ELSE IF ns > v.cap
     THEN LET nc == NewCap(v, ns) IN
          [v EXCEPT !.size = ns, !.cap = nc,
                    !.cells = [k \in 1..nc |-> IF k <= pos THEN v.cells[k]
                                               ELSE IF k <= pos + n THEN xs[k - pos]
                                               ELSE IF k <= ns THEN v.cells[k - n]
                                               ELSE U]]
     ELSE [v EXCEPT !.size = ns,
                    !.cells = [k \in 1..v.cap |-> IF k > pos /\ k <= pos + n THEN xs[k - pos]
                                                  ELSE IF k > pos + n /\ k <= ns THEN v.cells[k - n]
                                                  ELSE v.cells[k]]]

(* insert(position, input range): one insert(position, value) per element *)
RECURSIVE InsertInput(_, _, _)
InsertInput(v, pos, xs) ==
  IF xs = <<>> THEN v
  ELSE InsertInput(InsertN(v, pos, 1, [BaseOp EXCEPT !.x = Head(xs)]), pos + 1, Tail(xs))

(* erase(first, last): forward copy of the tail, last_ -= count *)
EraseR(v, a, b) ==
  IF a = b THEN v
  ELSE [v EXCEPT !.size = v.size - (b - a),
                 !.cells = [k \in 1..v.cap |-> IF k > a /\ k <= a + (v.size - b) THEN v.cells[k + (b - a)]
                                               ELSE v.cells[k]]]

AbsV(v) == IF v.live THEN LiveV(SubSeq(v.cells, 1, v.size)) ELSE DeadV

(* one implementation step for operation a; returns the new impl function and the
   returned iterator offset *)
ImplEff(im, a) ==
  LET v == IF a.o \in 1..NV THEN im[a.o] ELSE DeadI
      w == IF a.o2 \in 1..NV THEN im[a.o2] ELSE DeadI
      R(f, ret) == [im |-> f, ret |-> ret]
      Set(nv) == R([im EXCEPT ![a.o] = nv], -1)
  IN CASE a.op = "ctor_default" -> Set(NullV)
       [] a.op = "ctor_fill" -> Set(InsertN(NullV, 0, a.n, a))
       [] a.op \in {"ctor_range", "ctor_init"} ->
            Set(IF a.kind = "input" /\ a.op = "ctor_range" THEN InsertInput(NullV, 0, a.xs) ELSE InsertFwd(NullV, 0, a.xs))
       [] a.op = "move_ctor" -> R([im EXCEPT ![a.o] = w, ![a.o2] = NullV], -1)
       [] a.op = "destroy" -> Set(DeadI)
       [] a.op = "push_back" -> Set(InsertN(v, v.size, 1, a))
       [] a.op = "pop_back" -> Set(EraseR(v, v.size - 1, v.size))
       [] a.op = "insert1" -> R([im EXCEPT ![a.o] = InsertN(v, a.pos, 1, a)], a.pos)
       [] a.op = "insertn" -> Set(InsertN(v, a.pos, a.n, a))
       [] a.op = "insert_range" -> Set(IF a.kind = "input" THEN InsertInput(v, a.pos, a.xs) ELSE InsertFwd(v, a.pos, a.xs))
       [] a.op = "erase1" -> R([im EXCEPT ![a.o] = EraseR(v, a.pos, a.pos + 1)], a.pos)
       [] a.op = "erase_range" -> R([im EXCEPT ![a.o] = EraseR(v, a.pos, a.pos2)], IF EraseRetBug THEN a.pos2 ELSE a.pos)
       [] a.op = "resize" ->
            Set(IF a.n > v.size THEN InsertN(v, v.size, a.n - v.size, [a EXCEPT !.alias = -1])
                ELSE IF a.n < v.size THEN EraseR(v, a.n, v.size) ELSE v)
       [] a.op = "reserve" -> Set(IF a.n <= v.cap THEN v ELSE Realloc(v, NewCap(v, a.n)))
       [] a.op = "shrink_to_fit" -> Set(Realloc(v, v.size))
       [] a.op = "clear" -> Set(EraseR(v, 0, v.size))
       [] a.op = "set" -> Set([v EXCEPT !.cells[a.pos + 1] = a.x])
       [] a.op \in {"swap", "swap_free", "move_assign"} -> R([im EXCEPT ![a.o] = w, ![a.o2] = v], -1)
       [] OTHER -> R(im, -1)   \* comparisons do not change the representation

(* lock-step abstract state: objects whose value the contract leaves open follow the implementation *)
Sync(e, im) ==
  [vs |-> [i \in 1..NV |-> IF <<"v", i>> \in e.free THEN AbsV(im[i]) ELSE e.vs[i]], bs |-> e.bs, da |-> e.da]

IInit ==
  /\ Init
  /\ impl = [i \in 1..NV |-> DeadI]
  /\ retok = TRUE

IStep(a) ==
  /\ Pre(st, a)
  /\ LET ie == ImplEff(impl, a)
         ae == Eff(st, a)
     IN /\ impl' = ie.im
        /\ st' = Sync(ae, ie.im)
        /\ hist' = Append(hist, a)
        /\ retok' = (ie.ret = ae.ret)

INext == \E a \in OpsOf(st) : IStep(a)

ISpec == IInit /\ [][INext]_ivars

IView == <<st, impl, retok>>

(* ---- what TLC checks ---- *)
Refines == \A i \in 1..NV : AbsV(impl[i]) = st.vs[i]
ReturnsAgree == retok
RepInv ==
  \A i \in 1..NV : impl[i].live =>
    /\ impl[i].size <= impl[i].cap
    /\ Len(impl[i].cells) = impl[i].cap
    /\ \A k \in 1..impl[i].size : impl[i].cells[k] # U
Bounded == \A i \in 1..NV : impl[i].cap <= MaxCap

EmitIScripts == PrintT("SCRIPT " \o ToJson(hist))
=============================================================================
