SPECIFICATION Spec
CONSTANTS
  Base = 4
  L = 3
  Bug = "mul_no_carry"
  Families = {"u"}
INVARIANT UnsignedLaw
CHECK_DEADLOCK FALSE
