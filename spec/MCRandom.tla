------------------------------ MODULE MCRandom ------------------------------
(* Model check of Random.tla (C20).  The wrapped standard distribution is not specified by
   Random.tla; to give the model a state space this module supplies ONE admissible stand-in
   (ModelStd: rejection sampling over base-(R+1) digits, the scheme of libstdc++'s
   uniform_int_distribution).  It is used only here; recorded runs of the real code are judged
   against the logged results of the real std:: distribution (RandomJudge.tla).

   All scripts of length <= L over 0..R, all intervals over -NegLo..Hi and all result kinds are the
   INITIAL STATES; each behaviour draws until the script is exhausted.  Two runs advance in
   lock-step: the wrapper (Random!WrapperDraw over the decorated parameters, possibly with a
   seeded defect) and the wrapped distribution on the base parameters.                        *)
EXTENDS Random, FiniteSets, TLC

CONSTANTS R,        \* raw values are 0..R
          L,        \* scripts of length 0..L
          NegLo, Hi, \* intervals -NegLo <= a <= b <= Hi
          Wide,     \* additionally the interval [-Wide, Wide] (needs two raw values per draw)
          MaxSize,  \* containers of size 0..MaxSize
          Bug       \* "none" or a seeded defect of the wrapper (vacuity guards)

VARIABLES mode,     \* "interval" | "container"
          kind, par, \* result kind and DECORATED parameters   (mode = "interval")
          elems,    \* container                                (mode = "container")
          script,
          wc, wv, wex,   \* wrapper: cursor, values drawn so far, exhausted
          sc, sv, sex    \* wrapped distribution on the same script
vars == <<mode, kind, par, elems, script, wc, wv, wex, sc, sv, sex>>

R1 == R + 1

(* ---- the stand-in for the standard distribution *)
RECURSIVE ModelStdFrom(_, _, _, _)
\* n = size of the interval, k = raw values per attempt, lim = accepted prefix of the k-digit range
ModelStdFrom(p, scr, cur, k) ==
  LET n == p.b - p.a + 1
      span == IF k = 1 THEN R1 ELSE R1 * R1
      scaling == span \div n
      past == n * scaling
  IN IF cur + k > Len(scr) THEN [val |-> 0, cursor |-> Len(scr), ex |-> TRUE]
     ELSE LET x == IF k = 1 THEN scr[cur + 1] ELSE scr[cur + 1] * R1 + scr[cur + 2]
          IN IF x < past THEN [val |-> p.a + (x \div scaling), cursor |-> cur + k, ex |-> FALSE]
             ELSE ModelStdFrom(p, scr, cur + k, k)

ModelStd(p, scr, cur) == ModelStdFrom(p, scr, cur, IF p.b - p.a + 1 <= R1 THEN 1 ELSE 2)

\* the parameters a wrapper reports (param()), with the seeded defect
RB(k, p) == IF Bug = "convert_to_max_from_a" THEN [a |-> p.a, b |-> Decorate(k, Base(k, p.a))] ELSE ReadBack(k, p)

(* ---- the wrapper under test, with seeded defects for the vacuity guards *)
Wrapper(k, p, scr, cur) ==
  CASE Bug = "none" -> WrapperDraw(ModelStd, k, p, scr, cur)
    [] Bug = "max_minus_1" ->      \* parameter translation drops the upper end
         IF Base(k, p.b) > Base(k, p.a)
         THEN WrapperDraw(ModelStd, k, [a |-> p.a, b |-> Decorate(k, Base(k, p.b) - 1)], scr, cur)
         ELSE WrapperDraw(ModelStd, k, p, scr, cur)
    [] Bug = "extra_raw" ->        \* the wrapper consumes one raw value more than the wrapped draw
         LET r == WrapperDraw(ModelStd, k, p, scr, cur)
         IN IF r.ex \/ r.cursor >= Len(scr) THEN r ELSE [r EXCEPT !.cursor = @ + 1]
    [] Bug = "wrong_decorate" ->   \* re-wraps the value in the wrong type
         LET r == WrapperDraw(ModelStd, k, p, scr, cur)
         IN IF r.ex THEN r ELSE [r EXCEPT !.val = Decorate("other", Base(k, r.val))]
    [] Bug = "clamp" ->            \* yields b + 1 for the largest raw value
         LET r == WrapperDraw(ModelStd, k, p, scr, cur)
         IN IF ~r.ex /\ scr[r.cursor] = R THEN [r EXCEPT !.val = Decorate(k, Base(k, p.b) + 1)] ELSE r
    [] Bug = "convert_to_max_from_a" ->   \* the distribution is built from read-back parameters whose maximum is the minimum
         WrapperDraw(ModelStd, k, RB(k, p), scr, cur)
    [] Bug = "rewind" ->           \* gives a raw value back to the engine
         LET r == WrapperDraw(ModelStd, k, p, scr, cur)
         IN IF ~r.ex /\ cur > 0 THEN [r EXCEPT !.cursor = cur - 1] ELSE r
    [] OTHER -> WrapperDraw(ModelStd, k, p, scr, cur)

Indices(size) ==
  CASE Bug = "size_not_minus_1" -> IF size = 0 THEN None ELSE Some([a |-> Decorate("plain", 0), b |-> Decorate("plain", size)])
    [] Bug = "no_empty_guard" -> Some([a |-> Decorate("plain", 0), b |-> Decorate("plain", size - 1)])
    [] OTHER -> IndexParams(size)

Scripts == UNION {[1..n -> 0..R] : n \in 0..L}
Intervals == {[a |-> a, b |-> b] : a \in (-NegLo)..Hi, b \in (-NegLo)..Hi} \cup {[a |-> -Wide, b |-> Wide]}

Init ==
  /\ script \in Scripts
  /\ wc = 0 /\ wv = <<>> /\ wex = FALSE
  /\ sc = 0 /\ sv = <<>> /\ sex = FALSE
  /\ \/ /\ mode = "interval"
        /\ elems = <<>>
        /\ kind \in Kinds
        /\ \E iv \in Intervals :
             /\ iv.a <= iv.b
             /\ kind = "enum" => iv.a >= 0
             /\ par = [a |-> Decorate(kind, iv.a), b |-> Decorate(kind, iv.b)]
     \/ /\ mode = "container"
        /\ kind = "plain"
        /\ \E n \in 0..MaxSize : elems = [i \in 1..n |-> 100 + i]
        /\ par = [a |-> 0, b |-> 0]

\* one draw of both runs
DrawInterval ==
  /\ mode = "interval"
  /\ ~wex /\ ~sex
  /\ LET w == Wrapper(kind, par, script, wc)
         s == ModelStd(BaseParams(kind, par), script, sc)
     IN /\ wc' = w.cursor /\ wex' = w.ex /\ wv' = IF w.ex THEN wv ELSE Append(wv, w.val)
        /\ sc' = s.cursor /\ sex' = s.ex /\ sv' = IF s.ex THEN sv ELSE Append(sv, s.val)
  /\ UNCHANGED <<mode, kind, par, elems, script>>

DrawContainer ==
  /\ mode = "container"
  /\ ~wex /\ ~sex
  /\ Indices(Len(elems)) # None
  /\ LET ip == Indices(Len(elems))[1]
         w == WrapperDraw(ModelStd, "plain", ip, script, wc)
         s == ModelStd([a |-> 0, b |-> Len(elems) - 1], script, sc)
     IN /\ wc' = w.cursor /\ wex' = w.ex
        /\ wv' = IF w.ex THEN wv
                 ELSE Append(wv, IF Base("plain", w.val) + 1 \in DOMAIN elems
                                 THEN ContainerElement(elems, Base("plain", w.val)) ELSE -1)
        /\ sc' = s.cursor /\ sex' = s.ex /\ sv' = IF s.ex THEN sv ELSE Append(sv, s.val)
  /\ UNCHANGED <<mode, kind, par, elems, script>>

Next == DrawInterval \/ DrawContainer
Spec == Init /\ [][Next]_vars

(* ---- laws *)
\* every value the wrapper yields lies in the closed interval it was given
LawBounds ==
  mode = "interval" =>
    \A i \in 1..Len(wv) : Base(kind, par.a) <= Base(kind, wv[i]) /\ Base(kind, wv[i]) <= Base(kind, par.b)

\* ... and carries the requested decoration
LawDecorated == mode = "interval" => \A i \in 1..Len(wv) : IsDecorated(kind, wv[i])

\* transparency: same values, same consumption, same point of exhaustion as the wrapped draw
LawTransparent ==
  /\ wc = sc /\ wex = sex
  /\ mode = "interval" => [i \in 1..Len(wv) |-> Base(kind, wv[i])] = sv
  /\ mode = "container" => Len(wv) = Len(sv)

\* parameters read back are the parameters given; a distribution built from them draws alike
LawReadBack ==
  mode = "interval" =>
    /\ RB(kind, par) = par
    /\ ~wex => WrapperDraw(ModelStd, kind, RB(kind, par), script, wc) = WrapperDraw(ModelStd, kind, par, script, wc)

\* the cursor never moves backwards and never passes the end of the script
LawCursor == wc \in 0..Len(script) /\ sc \in 0..Len(script)
LawCursorMonotone == [][wc' >= wc /\ sc' >= sc]_vars

\* uniform_container yields the element at the wrapped index draw - an element of the container
LawContainer ==
  mode = "container" =>
    /\ \A i \in 1..Len(wv) : \E j \in 1..Len(elems) : wv[i] = elems[j]
    /\ Len(wv) = Len(sv) => \A i \in 1..Len(wv) : wv[i] = ContainerElement(elems, sv[i])

\* the factories: nothing for an empty container, [0, size-1] otherwise
LawFactories ==
  mode = "container" =>
    /\ (elems = <<>> <=> Indices(Len(elems)) = None)
    /\ elems # <<>> => BaseParams("plain", Indices(Len(elems))[1]) = [a |-> 0, b |-> Len(elems) - 1]

\* both ends of the interval are reached by some script (evaluated in the initial states)
LawEndsReached ==
  mode = "interval" /\ wc = 0 /\ script = <<>> =>
    /\ \E scr \in [1..2 -> 0..R] : LET w == Wrapper(kind, par, scr, 0) IN ~w.ex /\ w.val = par.a
    /\ \E scr \in [1..2 -> 0..R] : LET w == Wrapper(kind, par, scr, 0) IN ~w.ex /\ w.val = par.b

\* enum distribution = all enumerators
ASSUME \A mx \in 0..8 : BaseParams("enum", EnumParams(mx)) = [a |-> 0, b |-> mx]
ASSUME \A x \in -3..3 : \A k \in Kinds : Base(k, Decorate(k, x)) = x
ASSUME /\ NumLess(NumOfInt(-5), NumOfInt(3)) /\ NumLess(NumOfInt(-5), NumOfInt(-4)) /\ ~NumLess(NumOfInt(7), NumOfInt(7))
       /\ NumLess(NumOfInt(255), NumOfInt(256)) /\ NumLess(NumOfInt(-70000), NumOfInt(-255)) /\ IsNum(NumOfInt(0))
       /\ \A x \in -300..300 : \A y \in {-257, -256, -1, 0, 1, 255, 256, 65536} : (NumLess(NumOfInt(x), NumOfInt(y)) <=> x < y)

View == <<mode, kind, par, elems, script, wc, wv, wex, sc, sv, sex>>
=============================================================================
