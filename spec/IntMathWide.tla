----------------------------- MODULE IntMathWide -----------------------------
(* The definitions of IntMath.tla over BigNat integers, for operands of the
   32- and 64-bit types, which do not fit TLC's integers.  Numbers are records
   [s, m] (BigNat.tla).  Every operator mirrors the one of the same name in
   IntMath.tla; TLC checks W<Name>(Z(x), ..) = Z(<Name>(x, ..)) on a bounded
   domain with a tiny limb base (MC_IntMathWide.cfg), so the two cannot drift.
   Division-like results are characterised multiplicatively (defining
   inequality); DivModN is only used for the remainder and for the decision
   whether an exact result is representable.                                   *)
EXTENDS IntMath, BigNat

(* bounds of a type as BigNat integers (any width up to 64) *)
MinZ(T) == IF T \in SignedTypes THEN [s |-> -1, m |-> Pow2N[Bits(T) - 1]] ELSE Zero
MaxZ(T) == SubZ(ZOfN(Pow2N[IF T \in SignedTypes THEN Bits(T) - 1 ELSE Bits(T)]), One)
(* Min <= z <= Max without computing Max:  z < 2^k *)
RepZ(T, z) == IF T \in SignedTypes
              THEN IF z.s < 0 THEN LeN(z.m, Pow2N[Bits(T) - 1]) ELSE LtN(z.m, Pow2N[Bits(T) - 1])
              ELSE z.s >= 0 /\ LtN(z.m, Pow2N[Bits(T)])

WTruncationCheck(D, v) == IF RepZ(D, v) THEN Some(v) ELSE None
WFromInt(size, v) == IF LtZ(v, ZOfInt(size)) THEN Some(v) ELSE None

WIsCeil(x, y, q) ==
  LET q1y == MulZ(SubZ(q, One), y)
      qy == MulZ(q, y)
  IN IF y.s > 0 THEN LtZ(q1y, x) /\ LeZ(x, qy) ELSE LtZ(x, q1y) /\ LeZ(qy, x)
WIsTrunc(x, y, q) ==
  /\ LeZ(MulZ(AbsZ(q), AbsZ(y)), AbsZ(x)) /\ LtZ(AbsZ(x), MulZ(AddZ(AbsZ(q), One), AbsZ(y)))
  /\ (q.s > 0 => (x.s > 0) = (y.s > 0))
  /\ (q.s < 0 => (x.s > 0) # (y.s > 0))
(* exact quotients (y # 0), only to decide representability *)
WTruncQ(x, y) == LET d == DivModN(x.m, y.m).q IN
                 IF d = <<>> THEN Zero ELSE [s |-> x.s * y.s, m |-> d]
WCeilQ(x, y) == LET dm == DivModN(x.m, y.m) IN
                IF x.s * y.s >= 0
                THEN ZOfN(IF dm.r = <<>> THEN dm.q ELSE AddN(dm.q, <<1>>))   \* positive: round up
                ELSE IF dm.q = <<>> THEN Zero ELSE [s |-> -1, m |-> dm.q]      \* negative: towards zero
WMod(x, y) == IF y.s = 0 THEN None ELSE Some(ZOfN(DivModN(x.m, y.m).r))       \* x, y >= 0

WClamp(v, lo, hi) == IF LeZ(lo, hi) THEN Some(IF LtZ(v, lo) THEN lo ELSE IF LtZ(hi, v) THEN hi ELSE v) ELSE None
WDiff(x, y) == AbsZ(SubZ(x, y))
WDiffModular(bits, x, y) ==
  LET d == WDiff(x, y)
      comp == SubZ(ZOfN(Pow2N[bits]), d)
  IN IF d.s = 0 THEN Zero ELSE IF LeZ(d, comp) THEN d ELSE comp

WIsPow2(x) == x.s = 1 /\ \E k \in 0..64 : x.m = Pow2N[k]
WNextPow2(x) == ZOfN(Pow2N[CHOOSE k \in 0..64 : LeN(x.m, Pow2N[k]) /\ (k = 0 \/ LtN(Pow2N[k - 1], x.m))])   \* 0 <= x <= 2^64
WIsLog2(x, r) == r \in 0..63 /\ LeN(Pow2N[r], x.m) /\ LtN(x.m, Pow2N[r + 1])   \* x >= 1; r an ordinary integer
WPow2(e) == ZOfN(Pow2N[e])
WBitTest(v, m) == AndNonZeroN(v.m, m.m)     \* v, m >= 0
=============================================================================
