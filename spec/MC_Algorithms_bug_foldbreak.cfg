SPECIFICATION SpecSeq
CONSTANTS
  MaxLen = 4
  SetMax = 3
  FoldBreakCalls <- FoldBreakCallsLate
INVARIANT FoldBreakPrefix
