--------------------------- MODULE RecordLabelsMC ---------------------------
(* laws of the record model over all records with labels from {a, b, c} and values 1..3 *)
EXTENDS RecordLabels
VARIABLE s
Labels == {"a", "b", "c"}
Recs == UNION {[L -> 1..3] : L \in SUBSET Labels}
Init == s \in [r : Recs, q : Recs, l : Labels, m : Labels, v : 1..3, w : 1..3]
Next == UNCHANGED s
Spec == Init /\ [][Next]_s
LawSetGet ==
  (s.l \in DOMAIN s.r) =>
    /\ RecGet(RecSet(s.r, s.l, s.v), s.l) = s.v
    /\ (s.m \in DOMAIN s.r /\ s.m # s.l => RecGet(RecSet(s.r, s.l, s.v), s.m) = s.r[s.m])
    /\ RecSet(RecSet(s.r, s.l, s.v), s.l, s.w) = RecSet(s.r, s.l, s.w)
    /\ RecSet(s.r, s.l, s.r[s.l]) = s.r
    /\ DOMAIN RecSet(s.r, s.l, s.v) = DOMAIN s.r
LawProduct ==
  (DOMAIN s.r \cap DOMAIN s.q = {}) =>
    /\ DOMAIN RecMultiplyDisjoint(s.r, s.q) = DOMAIN s.r \cup DOMAIN s.q
    /\ RecMultiplyDisjoint(s.r, s.q) = RecMultiplyDisjoint(s.q, s.r)
    /\ \A k \in DOMAIN s.r : RecMultiplyDisjoint(s.r, s.q)[k] = s.r[k]
    /\ RecPermute(RecPermute(s.r)) = s.r
    /\ RecInit(DOMAIN s.r, LAMBDA k : s.r[k]) = s.r
=============================================================================
