-------------------------- MODULE AlgorithmsJudge --------------------------
(* Judge of the call records written by harness/c16_algo.cpp: one record per call of a real
   fcppt function; AlgReasons(r) = {} iff Algorithms.tla explains the record. *)
EXTENDS Algorithms, RecordLoop

(* compare the observed fields with the predicted ones *)
Diff(r, exp) ==
  IF ~(DOMAIN exp \subseteq DOMAIN r) THEN {"HARNESS-PRECONDITION"}
  ELSE {"wrong-" \o k : k \in {k2 \in DOMAIN exp : r[k2] # exp[k2]}}

Pre(c) == IF c THEN {} ELSE {"HARNESS-PRECONDITION"}
(* lazy form: the prediction is not even evaluated when the precondition fails (an input that comes out
   of an fcppt object - enum names, an enum array - may be corrupted by the code under test; evaluating
   the reference on it could raise a TLC error instead of a verdict) *)
PreThen(c, ws) == IF c THEN ws ELSE {"HARNESS-PRECONDITION"}
Res(r, x) == Diff(r, [r |-> x])

SrcOk(r) == ("src" \in DOMAIN r /\ "xs" \in DOMAIN r /\ r.src = "set") => IsStrictlySorted(r.xs)

AlgReasons(r) ==
  LET f == r.f IN
  CASE f = "map" -> Diff(r, MapR(r.tgt, r.ft, r.ek, r.xs))
    [] f = "map_optional" -> Diff(r, MapOptionalR(r.tgt, r.ft, r.ek, r.xs))
    [] f = "map_concat" -> Diff(r, MapConcatR(r.tgt, r.ft, r.ek, r.xs))
    [] f = "fold" -> Diff(r, FoldR(LAMBDA e, st : r.ft2[Code(r.ek, e) + 1][st + 1], r.init, r.xs))
    [] f = "fold_break" -> Diff(r, FoldBreakR(LAMBDA e, st : r.ft2[Code(r.ek, e) + 1][st + 1], r.init, r.xs))
    [] f = "loop" -> Diff(r, LoopR(r.xs))
    [] f = "loop_break" -> Diff(r, LoopBreakR(r.ft, r.ek, r.xs))
    [] f = "all_of" -> Diff(r, AllOfR(r.ft, r.ek, r.xs))
    [] f = "contains_if" -> Diff(r, ContainsIfR(r.ft, r.ek, r.xs))
    [] f = "contains" -> Diff(r, ContainsR(r.xs, r.v))
    [] f = "find_opt" -> Diff(r, FindOptR(r.xs, r.v))
    [] f = "index_of" -> Diff(r, [r |-> IndexOf(r.xs, r.v)])
    [] f = "find_if_opt" -> Diff(r, FindIfOptR(r.ft, r.ek, r.xs))
    [] f = "find_by_opt" -> Diff(r, FindByOptR(r.ft, r.ek, r.xs))
    [] f = "binary_search" -> Pre(IsSorted(r.xs)) \cup Diff(r, BinarySearchR(r.xs, r.v))
    [] f = "equal_range" -> Pre(IsSorted(r.xs)) \cup Diff(r, EqualRangeR(r.xs, r.v))
    [] f = "remove_if" -> Diff(r, RemoveIfR(r.ft, r.xs))
    [] f = "remove" -> Diff(r, RemoveR(r.xs, r.v))
    [] f = "unique" -> Diff(r, [st |-> Unique(r.xs)])
    [] f = "unique_if" ->
         LET eq(a, b) == r.bt[a + 1][b + 1] IN
         Pre(IsEquivalence(r.bt)) \cup Diff(r, [st |-> UniqueIf(eq, r.xs)])
           \cup (IF IsEquivalence(r.bt) /\ ~UniqueLogOk(eq, r.xs, r.log) THEN {"wrong-log"} ELSE {})
    [] f = "reverse" -> Diff(r, [r |-> Reverse(r.xs), after |-> r.xs])
    [] f = "repeat" -> Pre(r.n >= 0) \cup Diff(r, RepeatR(r.n))
    [] f = "repeat_negative" -> Pre(r.n < 0) \cup Diff(r, RepeatR(0))   \* observed only: no call
    [] f = "generate_n" -> Pre(r.n >= 0) \cup Diff(r, GenerateNR(r.tgt, r.n, r.ft))
    [] f = "split_string" -> Diff(r, SplitStringR(r.s, r.d))
    [] f = "join_strings" -> Diff(r, JoinStringsR(r.ss, r.d))
    [] f = "split_join" -> Diff(r, SplitJoinR(r.s, r.d))
    [] f = "map_iteration" -> Pre(r.ek = 1 => IsMapSeq(r.xs)) \cup Diff(r, IterationR(r.ft, r.ek, r.xs))
    [] f = "map_iteration_second" -> Pre(IsMapSeq(r.xs)) \cup Diff(r, IterationSecondR(r.ft, r.xs))
    [] f = "sequence_iteration" -> Diff(r, IterationR(r.ft, 0, r.xs))
    [] f = "join" -> Diff(r, ContainerJoinR(r.kind, r.cs))
    [] f = "at_optional" -> Diff(r, AtOptionalR(r.xs, r.i))
    [] f = "at_optional_mut" -> Diff(r, AtOptionalMutR(r.xs, r.i, r.bump))
    [] f = "find_opt_mapped" -> Pre(IsMapSeq(r.m)) \cup Diff(r, FindOptMappedR(r.m, r.k))
    [] f = "find_opt_mapped_mut" -> Pre(IsMapSeq(r.m)) \cup Diff(r, FindOptMappedMutR(r.m, r.k, r.bump))
    [] f = "map_values_ref_mut" -> Pre(IsMapSeq(r.m)) \cup Diff(r, MapValuesRefMutR(r.m))
    [] f = "get_or_insert_with_result" -> Pre(IsMapSeq(r.m)) \cup Diff(r, GetOrInsertR(r.m, r.k, r.ft, r.bump))
    [] f = "get_or_insert" ->
         LET e == GetOrInsertR(r.m, r.k, r.ft, r.bump) IN
         Pre(IsMapSeq(r.m)) \cup Diff(r, [elem |-> e.elem, log |-> e.log, present |-> e.present, st |-> e.st])
    [] f = "key_set" -> Pre(IsMapSeq(r.m)) \cup Diff(r, KeySetR(r.m))
    [] f \in {"map_values_copy", "map_values_ref"} -> Pre(IsMapSeq(r.m)) \cup Diff(r, MapValuesR(r.m))
    [] f \in {"set_union", "set_intersection", "set_difference"} ->
         Pre(IsStrictlySorted(r.a) /\ IsStrictlySorted(r.b)) \cup Diff(r, SetOpR(f, r.a, r.b))
    [] f = "array_map" -> Diff(r, ArrayMapR(r.ft, r.xs))
    [] f = "array_append" -> Diff(r, [r |-> ArrayAppend(r.a, r.b)])
    [] f = "array_join" -> Diff(r, [r |-> ArrayJoin(r.as)])
    [] f = "array_push_back" -> Diff(r, [r |-> ArrayPushBack(r.a, r.x)])
    [] f = "array_init" -> Diff(r, ArrayInitR(r.n, r.ft))
    [] f = "array_from_range" -> Diff(r, [r |-> ArrayFromRange(r.n, r.xs)])
    [] f = "tuple_map" -> Diff(r, TupleMapR(r.ft, r.xs))
    [] f = "tuple_concat" -> Diff(r, [r |-> TupleConcat(r.ts)])
    [] f = "tuple_push_back" -> Diff(r, [r |-> TuplePushBack(r.a, r.x)])
  (* extension round *)
    [] f = "equal" -> Res(r, Equal(r.xs, r.ys))
    [] f = "contains_key" -> Res(r, FindElemR(r.ek, r.xs, r.k).pos # None)
    [] f = "container_find_opt" -> Res(r, FindElemR(r.ek, r.xs, r.k).elem)
    [] f = "container_find_opt_iterator" -> Res(r, FindElemR(r.ek, r.xs, r.k).pos)
    [] f = "insert_set" -> Pre(IsStrictlySorted(r.a)) \cup Diff(r, InsertSetR(r.a, r.x))
    [] f = "insert_map" -> Pre(IsMapSeq(r.m)) \cup Diff(r, InsertMapR(r.m, r.k, r.x))
    [] f = "container_make" -> Res(r, ContainerMake(r.tgt, r.xs))
    [] f = "maybe_front" -> Res(r, MaybeFront(r.xs))
    [] f = "maybe_back" -> Res(r, MaybeBack(r.xs))
    [] f = "maybe_front_mut" -> Diff(r, MaybeFrontMutR(r.xs, r.bump))
    [] f = "maybe_back_mut" -> Diff(r, MaybeBackMutR(r.xs, r.bump))
    [] f = "pop_front" -> Diff(r, PopFrontR(r.xs))
    [] f = "pop_back" -> Diff(r, PopBackR(r.xs))
    [] f = "container_size" -> Res(r, SizeOf(r.xs))
    [] f \in {"data", "range_begin_end"} -> Diff(r, DataR(r.xs))
    [] f \in {"container_output", "array_output"} -> Res(r, SeqText(r.xs))
    [] f = "tuple_output" -> Res(r, TupleText(r.xs))
    [] f = "enum_array_output" -> PreThen(Len(r.names) = Len(r.xs), Res(r, EnumArrayText(r.names, r.xs)))
    [] f = "index_map_get" -> Diff(r, IndexMapGetR(r.xs, r.i, LAMBDA j : Ap(r.ft, j % 3), r.bump))
    [] f = "index_map_subscript" -> Diff(r, IndexMapSubscriptR(r.xs, r.i, r.bump))
    [] f = "range_empty" -> Res(r, RangeEmpty(r.xs))
    [] f = "range_size" -> Res(r, RangeSize(r.xs))
    [] f = "range_singular" -> Res(r, RangeSingular(r.xs))
    [] f = "range_from_pair" -> PreThen(0 <= r.i /\ r.i <= r.j /\ r.j <= Len(r.xs), Res(r, RangeFromPair(r.xs, r.i, r.j)))
    [] f \in {"array_apply", "tuple_apply"} -> PreThen(Len(r.a) = Len(r.b), Diff(r, ArrayApplyR(r.ft2, r.a, r.b)))
    [] f \in {"array_make", "tuple_make", "tuple_from_array"} -> Res(r, r.xs)
    [] f = "array_members" -> Diff(r, ArrayMembersR(r.xs))
    [] f = "tuple_get" -> Diff(r, [get |-> r.xs])
    [] f \in {"array_eq", "tuple_eq", "enum_array_eq"} -> Res(r, r.a = r.b)
    [] f = "array_ne" -> Res(r, r.a # r.b)
    [] f = "tuple_invoke" -> Diff(r, TupleInvokeR(r.ft, r.xs))
    [] f = "tuple_init" -> Diff(r, TupleInitR(r.n, r.ft))
    [] f = "enum_array_init" -> Diff(r, EnumArrayInitR(r.n, r.ft))
    [] f = "enum_array_at" -> PreThen(0 <= r.e /\ r.e < Len(r.xs), Diff(r, EnumArrayAtR(r.xs, r.e, r.bump)))
    [] f = "enum_index_of_array" -> Res(r, EnumIndexOfArray(r.xs, r.v))
    [] f = "enum_to_static" -> Pre(0 <= r.e /\ r.e < r.n) \cup Diff(r, EnumToStaticR(r.ft, r.e))
    [] f = "enum_names" -> Res(r, r.names)
    [] f = "enum_from_string" -> Res(r, EnumFromString(r.names, r.s))
    [] f = "enum_consts" -> Diff(r, EnumConstsR(r.n - 1))
    [] OTHER -> {"unknown-function"}

(* SCOPE.  A record kind is IN SCOPE iff the statement of C16 (properties.jsonl) names the function:
   "the fcppt.algorithm functions (map, map_optional, map_concat, fold, fold_break, loop, loop_break,
   all_of, contains(_if), find_opt/find_if_opt/find_by_opt, index_of, binary_search, equal_range,
   remove(_if), unique(_if), reverse, repeat, generate_n, split_string/join_strings, map_iteration,
   sequence_iteration) and the container/array/tuple helpers (join, at_optional, find_opt_mapped,
   get_or_insert, key_set, map_values, set_union/intersection/difference,
   array::map/join/append/push_back/init/from_range, tuple::map/concat/push_back) return exactly what
   the obvious loop-based specification returns, visit elements in order, stop where documented, and
   split_string is inverted by join_strings."
   Only these kinds can produce a VIOLATION.  Every other kind (map_iteration_second,
   get_or_insert_with_result and everything added in the extension round) is OBSERVED ONLY: judged
   and counted, disagreements reported as observations.  Inside an in-scope kind the fields in
   ObservedFields are observed only as well ("present": that create() runs before the insertion is
   stated by get_or_insert's documentation, not by the property). *)
InScope ==
  {"map", "map_optional", "map_concat", "fold", "fold_break", "loop", "loop_break", "all_of",
   "contains", "contains_if", "find_opt", "find_if_opt", "find_by_opt", "index_of", "binary_search",
   "equal_range", "remove", "remove_if", "unique", "unique_if", "reverse", "repeat", "generate_n",
   "split_string", "join_strings", "split_join",            \* "split_string is inverted by join_strings"
   "map_iteration", "sequence_iteration",
   "join", "at_optional", "at_optional_mut",                \* at_optional's result is a reference to that element
   "find_opt_mapped", "find_opt_mapped_mut", "get_or_insert", "key_set",
   "map_values_copy", "map_values_ref", "map_values_ref_mut", \* "map_values"
   "set_union", "set_intersection", "set_difference",
   "array_map", "array_join", "array_append", "array_push_back", "array_init", "array_from_range",
   "tuple_map", "tuple_concat", "tuple_push_back"}
ObservedFields == {"wrong-present"}
Infra == {"HARNESS-PRECONDITION", "unknown-function"}
Scoped(r, ws) ==
  {IF w \in Infra THEN w
   ELSE IF r.f \in InScope /\ w \notin ObservedFields THEN w
   ELSE "observed-" \o w : w \in ws}

AlgReasonsChecked(r) == Scoped(r, AlgReasons(r)) \cup (IF SrcOk(r) THEN {} ELSE {"HARNESS-PRECONDITION"})
=============================================================================
