-------------------------- MODULE AlgorithmsJudge --------------------------
(* Judge of the call records written by harness/c16_algo.cpp: one record per call of a real
   fcppt function; AlgReasons(r) = {} iff Algorithms.tla explains the record. *)
EXTENDS Algorithms, RecordLoop

(* compare the observed fields with the predicted ones *)
Diff(r, exp) ==
  IF ~(DOMAIN exp \subseteq DOMAIN r) THEN {"HARNESS-PRECONDITION"}
  ELSE {"wrong-" \o k : k \in {k2 \in DOMAIN exp : r[k2] # exp[k2]}}

Pre(c) == IF c THEN {} ELSE {"HARNESS-PRECONDITION"}

SrcOk(r) == ("src" \in DOMAIN r /\ "xs" \in DOMAIN r /\ r.src = "set") => IsStrictlySorted(r.xs)

AlgReasons(r) ==
  LET f == r.f IN
  CASE f = "map" -> Diff(r, MapR(r.tgt, r.ft, r.ek, r.xs))
    [] f = "map_optional" -> Diff(r, MapOptionalR(r.tgt, r.ft, r.ek, r.xs))
    [] f = "map_concat" -> Diff(r, MapConcatR(r.tgt, r.ft, r.ek, r.xs))
    [] f = "fold" -> Diff(r, FoldR(LAMBDA e, st : r.ft2[Code(r.ek, e) + 1][st + 1], r.init, r.xs))
    [] f = "fold_break" -> Diff(r, FoldBreakR(LAMBDA e, st : r.ft2[Code(r.ek, e) + 1][st + 1], r.init, r.xs))
    [] f = "loop" -> Diff(r, LoopR(r.xs))
    [] f = "loop_break" -> Diff(r, LoopBreakR(r.ft, r.ek, r.xs))
    [] f = "all_of" -> Diff(r, AllOfR(r.ft, r.ek, r.xs))
    [] f = "contains_if" -> Diff(r, ContainsIfR(r.ft, r.ek, r.xs))
    [] f = "contains" -> Diff(r, ContainsR(r.xs, r.v))
    [] f = "find_opt" -> Diff(r, FindOptR(r.xs, r.v))
    [] f = "index_of" -> Diff(r, [r |-> IndexOf(r.xs, r.v)])
    [] f = "find_if_opt" -> Diff(r, FindIfOptR(r.ft, r.ek, r.xs))
    [] f = "find_by_opt" -> Diff(r, FindByOptR(r.ft, r.ek, r.xs))
    [] f = "binary_search" -> Pre(IsSorted(r.xs)) \cup Diff(r, BinarySearchR(r.xs, r.v))
    [] f = "equal_range" -> Pre(IsSorted(r.xs)) \cup Diff(r, EqualRangeR(r.xs, r.v))
    [] f = "remove_if" -> Diff(r, RemoveIfR(r.ft, r.xs))
    [] f = "remove" -> Diff(r, RemoveR(r.xs, r.v))
    [] f = "unique" -> Diff(r, [st |-> Unique(r.xs)])
    [] f = "unique_if" ->
         LET eq(a, b) == r.bt[a + 1][b + 1] IN
         Pre(IsEquivalence(r.bt)) \cup Diff(r, [st |-> UniqueIf(eq, r.xs)])
           \cup (IF IsEquivalence(r.bt) /\ ~UniqueLogOk(eq, r.xs, r.log) THEN {"wrong-log"} ELSE {})
    [] f = "reverse" -> Diff(r, [r |-> Reverse(r.xs), after |-> r.xs])
    [] f = "repeat" -> Pre(r.n >= 0) \cup Diff(r, RepeatR(r.n))
    [] f = "generate_n" -> Pre(r.n >= 0) \cup Diff(r, GenerateNR(r.tgt, r.n, r.ft))
    [] f = "split_string" -> Diff(r, SplitStringR(r.s, r.d))
    [] f = "join_strings" -> Diff(r, JoinStringsR(r.ss, r.d))
    [] f = "split_join" -> Diff(r, SplitJoinR(r.s, r.d))
    [] f = "map_iteration" -> Pre(r.ek = 1 => IsMapSeq(r.xs)) \cup Diff(r, IterationR(r.ft, r.ek, r.xs))
    [] f = "map_iteration_second" -> Pre(IsMapSeq(r.xs)) \cup Diff(r, IterationSecondR(r.ft, r.xs))
    [] f = "sequence_iteration" -> Diff(r, IterationR(r.ft, 0, r.xs))
    [] f = "join" -> Diff(r, ContainerJoinR(r.kind, r.cs))
    [] f = "at_optional" -> Diff(r, AtOptionalR(r.xs, r.i))
    [] f = "at_optional_mut" -> Diff(r, AtOptionalMutR(r.xs, r.i, r.bump))
    [] f = "find_opt_mapped" -> Pre(IsMapSeq(r.m)) \cup Diff(r, FindOptMappedR(r.m, r.k))
    [] f = "find_opt_mapped_mut" -> Pre(IsMapSeq(r.m)) \cup Diff(r, FindOptMappedMutR(r.m, r.k, r.bump))
    [] f = "map_values_ref_mut" -> Pre(IsMapSeq(r.m)) \cup Diff(r, MapValuesRefMutR(r.m))
    [] f = "get_or_insert_with_result" -> Pre(IsMapSeq(r.m)) \cup Diff(r, GetOrInsertR(r.m, r.k, r.ft, r.bump))
    [] f = "get_or_insert" ->
         LET e == GetOrInsertR(r.m, r.k, r.ft, r.bump) IN
         Pre(IsMapSeq(r.m)) \cup Diff(r, [elem |-> e.elem, log |-> e.log, present |-> e.present, st |-> e.st])
    [] f = "key_set" -> Pre(IsMapSeq(r.m)) \cup Diff(r, KeySetR(r.m))
    [] f \in {"map_values_copy", "map_values_ref"} -> Pre(IsMapSeq(r.m)) \cup Diff(r, MapValuesR(r.m))
    [] f \in {"set_union", "set_intersection", "set_difference"} ->
         Pre(IsStrictlySorted(r.a) /\ IsStrictlySorted(r.b)) \cup Diff(r, SetOpR(f, r.a, r.b))
    [] f = "array_map" -> Diff(r, ArrayMapR(r.ft, r.xs))
    [] f = "array_append" -> Diff(r, [r |-> ArrayAppend(r.a, r.b)])
    [] f = "array_join" -> Diff(r, [r |-> ArrayJoin(r.as)])
    [] f = "array_push_back" -> Diff(r, [r |-> ArrayPushBack(r.a, r.x)])
    [] f = "array_init" -> Diff(r, ArrayInitR(r.n, r.ft))
    [] f = "array_from_range" -> Diff(r, [r |-> ArrayFromRange(r.n, r.xs)])
    [] f = "tuple_map" -> Diff(r, TupleMapR(r.ft, r.xs))
    [] f = "tuple_concat" -> Diff(r, [r |-> TupleConcat(r.ts)])
    [] f = "tuple_push_back" -> Diff(r, [r |-> TuplePushBack(r.a, r.x)])
    [] OTHER -> {"unknown-function"}

AlgReasonsChecked(r) == AlgReasons(r) \cup (IF SrcOk(r) THEN {} ELSE {"HARNESS-PRECONDITION"})
=============================================================================
