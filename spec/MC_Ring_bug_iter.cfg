SPECIFICATION RSpec
CONSTANTS
  NL = 1
  NE = 3
  AbsBug = "none"
  BugAssignEmpty = FALSE
  BugMoveUnlinked = FALSE
  BugDtorOneSided = TRUE
  BugMoveNoReset = FALSE
  BugListMoveCtor = FALSE
  WithIter = TRUE
VIEW RView
INVARIANTS IterRefines
CHECK_DEADLOCK FALSE
