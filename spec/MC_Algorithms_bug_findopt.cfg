SPECIFICATION SpecSeq
CONSTANTS
  MaxLen = 4
  SetMax = 3
  FindOpt <- FindOptLast
INVARIANT SearchLaws
