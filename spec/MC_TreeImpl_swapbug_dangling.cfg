SPECIFICATION ISpec
CONSTANTS
  NS = 2
  Val = {0, 1}
  MaxNodes = 4
  SwapBug = TRUE
  CopyAssignBug = FALSE
  MoveAssignBug = FALSE
  InsertNoParentBug = FALSE
  CopyNoReparentBug = FALSE
  EraseKeepsBug = FALSE
  PushFrontRetBug = FALSE
  ReleaseNoClear = FALSE
  LogDupBug = FALSE
  LogSetShallowBug = FALSE
  LeakTempBug = FALSE
  MoveAssignInPlaceBug = FALSE
VIEW IView
INVARIANTS NoDangling
CHECK_DEADLOCK FALSE
