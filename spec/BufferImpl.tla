--------------------------- MODULE BufferImpl ---------------------------
(* Implementation-shaped model of fcppt::container::buffer::object on top of
   RawVectorImpl: a block of `cap` cells, the first `rsize` of which are the read
   area (initialised), followed by a write area of `wsize` cells (uninitialised
   until written).  Transcribed from
   libs/core/include/fcppt/container/buffer/object_impl.hpp:
     - object(n): allocate n cells, read area empty, write area = whole block
     - resize_write_area(n): in place if cap - rsize >= n, else reallocate to
       max(2 * cap, n + rsize), copy the read area
     - written(k): the first k cells of the write area join the read area
     - release()/to_raw_vector: the block changes owner; the vector gets
       first = block, last = read end, cap = block end
     - move construction / move assignment (swap) / swap
   Runs in lock-step with the abstract RawVector specification (st): TLC checks
   Refines / BRefines and the representation invariants.  GrowBug = TRUE computes
   the new block size as max(2*cap, n), forgetting the read area - TLC must then
   report BRepInv violated (vacuity guard; this is also the shape of seeded change
   C07b). *)
EXTENDS RawVectorImpl

CONSTANT GrowBug

VARIABLE bimpl   \* [1..NB -> [live, rsize, wsize, cap, cells]]
bvars == <<st, hist, impl, retok, bimpl>>

DeadBI == [live |-> FALSE, rsize |-> 0, wsize |-> 0, cap |-> 0, cells |-> <<>>]
NullBI == [live |-> TRUE, rsize |-> 0, wsize |-> 0, cap |-> 0, cells |-> <<>>]

BCtor(n) == [live |-> TRUE, rsize |-> 0, wsize |-> n, cap |-> n, cells |-> [k \in 1..n |-> U]]

BResize(b, n) ==
  IF b.cap - b.rsize >= n THEN [b EXCEPT !.wsize = n]
  ELSE LET ns == IF GrowBug THEN Max(2 * b.cap, n) ELSE Max(2 * b.cap, n + b.rsize) IN
       [b EXCEPT !.cap = ns, !.wsize = n,
                 !.cells = [k \in 1..ns |-> IF k <= b.rsize THEN b.cells[k] ELSE U]]

(* the caller fills the first Len(xs) cells of the write area, then written(Len(xs)) *)
BWrite(b, xs) ==
  [b EXCEPT !.rsize = b.rsize + Len(xs), !.wsize = b.wsize - Len(xs),
            !.cells = [k \in 1..Len(b.cells) |-> IF k > b.rsize /\ k <= b.rsize + Len(xs) THEN xs[k - b.rsize] ELSE b.cells[k]]]

AbsB(b) == IF b.live THEN LiveB(SubSeq(b.cells, 1, b.rsize), b.wsize) ELSE DeadB

BImplEff(im, bi, a) ==
  LET b == IF a.o \in 1..NB THEN bi[a.o] ELSE DeadBI
      b2 == IF a.o2 \in 1..NB THEN bi[a.o2] ELSE DeadBI
      R(i, f) == [im |-> i, bi |-> f]
      SetB(nb) == R(im, [bi EXCEPT ![a.o] = nb])
  IN CASE a.op = "bctor" -> SetB(BCtor(a.n))
       [] a.op = "bdestroy" -> SetB(DeadBI)
       [] a.op = "bresize_write" -> SetB(BResize(b, a.n))
       [] a.op = "bwrite" -> SetB(BWrite(b, a.xs))
       [] a.op = "bappend_from" -> SetB(BWrite(BResize(b, a.n), a.xs))
       [] a.op = "bappend_from_opt" -> SetB(IF a.some THEN BWrite(BResize(b, a.n), a.xs) ELSE BResize(b, a.n))
       [] a.op = "bread_from" -> SetB(BWrite(BResize(BCtor(0), a.n), a.xs))
       [] a.op = "bmove_ctor" -> R(im, [bi EXCEPT ![a.o] = b2, ![a.o2] = NullBI])
       [] a.op \in {"bmove_assign", "bswap"} -> R(im, [bi EXCEPT ![a.o] = b2, ![a.o2] = b])
       [] a.op = "to_raw_vector" ->
            R([im EXCEPT ![a.o2] = [live |-> TRUE, size |-> b.rsize, cap |-> b.cap, cells |-> b.cells]],
              [bi EXCEPT ![a.o] = NullBI])
       [] OTHER -> R(im, bi)

BSync(e, im, bi) ==
  [vs |-> [i \in 1..NV |-> IF <<"v", i>> \in e.free THEN AbsV(im[i]) ELSE e.vs[i]],
   bs |-> [i \in 1..NB |-> IF <<"b", i>> \in e.free THEN AbsB(bi[i]) ELSE e.bs[i]], da |-> e.da]

BInit == IInit /\ bimpl = [i \in 1..NB |-> DeadBI]

BStep(a) ==
  /\ Pre(st, a)
  /\ LET ie == ImplEff(impl, a)
         be == BImplEff(ie.im, bimpl, a)
         ae == Eff(st, a)
     IN /\ impl' = be.im
        /\ bimpl' = be.bi
        /\ st' = BSync(ae, be.im, be.bi)
        /\ hist' = Append(hist, a)
        /\ retok' = (a.op \in BufferOps \/ ie.ret = ae.ret)

BNext == \E a \in OpsOf(st) : BStep(a)
BSpec == BInit /\ [][BNext]_bvars
BView == <<st, impl, retok, bimpl>>

BRefines == \A i \in 1..NB : AbsB(bimpl[i]) = st.bs[i]
BRepInv ==
  \A i \in 1..NB : bimpl[i].live =>
    /\ bimpl[i].rsize + bimpl[i].wsize <= bimpl[i].cap
    /\ Len(bimpl[i].cells) = bimpl[i].cap
    /\ \A k \in 1..bimpl[i].rsize : bimpl[i].cells[k] # U
BBounded == \A i \in 1..NB : bimpl[i].cap <= MaxCap

EmitBScripts == PrintT("SCRIPT " \o ToJson(hist))
=============================================================================
