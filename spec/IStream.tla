----------------------------- MODULE IStream -----------------------------
(* Implementation-shaped model of fcppt::parse::detail::stream<Ch>
   (libs/parse/include/fcppt/parse/detail/stream_impl.hpp) on top of a model of the
   std::basic_istream it wraps, run in lock-step with the abstract ParseStream.

   std::basic_istream over a string buffer (what the wrapper depends on; transcribed
   from the standard's / libstdc++'s unformatted input functions):
     state   gpos (get position 0..n), eofbit, failbit, badbit
     sentry  if !good(): setstate(failbit), the operation does nothing
     get()   sentry; at the end: setstate(eofbit|failbit), returns eof; else a_{gpos+1}, gpos++
     clear() all three bits off
     tellg() sentry; fail() ? -1 : gpos           (so: -1 whenever eofbit is set!)
     seekg(p) clears eofbit; sentry; !fail(): seek, failbit if p is outside [0, n]

   detail::stream<Ch>:
     location_ (line, column), starts at 1:1
     get_char      check_bad; c = get(); if a character: '\n' -> ++line, column = 1; else ++column
     get_position  check_bad; if eof() clear(); p = tellg(); p = -1 -> exception; (p, location_)
     set_position  check_bad; clear(); seekg(p.pos); fail() -> exception; location_ = p.location
     check_bad     bad() -> exception

   literal(c) / char_set(cs) (basic_literal_impl.hpp, basic_char_set_impl.hpp): get_char; nothing
   -> failure "EOF"; accepted -> success; otherwise failure built by detail::expected from
   get_position(state) - i.e. the location AFTER the consumed character.

   Bug constants re-introduce one defect each; TLC must then report a violation (vacuity
   guards, DESIGN.md section 7):
     ColBug     column set to 0 (not 1) after a newline
     SetPosBug  set_position does not restore location_
     EofBug     get_position does not clear eofbit before tellg
     FailBug    (extension) a failure of the stream buffer is not noticed: a character is delivered

   Extension round: the stream buffer may throw when the character at offset `failat` is requested
   (harness kind 3).  libstdc++'s get() catches the exception, sets badbit (and failbit, nothing was
   read) and returns eof; from then on check_bad throws.  get_char_error = get_char with the failure
   turned into the error "EOF". *)
EXTENDS ParseStream

CONSTANTS ColBug, SetPosBug, EofBug, FailBug

VARIABLES is,      \* [gpos, eof, fail, bad, line, col]
          isaved,  \* positions handed out by the implementation: set of [off, line, col]
          retok    \* the last call returned what the abstract spec returned
ivars == <<text, st, hist, is, isaved, retok>>

Good(i) == ~i.eof /\ ~i.fail /\ ~i.bad
Sentry(i) == IF Good(i) THEN i ELSE [i EXCEPT !.fail = TRUE]

(* std::basic_istream::get() -> [i, c]   (c = -1: traits::eof()) *)
StdGet(t, i) ==
  IF ~Good(i) THEN [i |-> [i EXCEPT !.fail = TRUE], c |-> -1]
  ELSE IF i.gpos = i.failat /\ ~FailBug THEN [i |-> [i EXCEPT !.bad = TRUE, !.fail = TRUE], c |-> -1]
  ELSE IF i.gpos = Len(t) THEN [i |-> [i EXCEPT !.eof = TRUE, !.fail = TRUE], c |-> -1]
  ELSE [i |-> [i EXCEPT !.gpos = @ + 1], c |-> t[i.gpos + 1]]
StdClear(i) == [i EXCEPT !.eof = FALSE, !.fail = FALSE, !.bad = FALSE]
StdTellg(i) ==
  LET j == Sentry(i) IN [i |-> j, p |-> IF j.fail \/ j.bad THEN -1 ELSE j.gpos]
StdSeekg(t, i, p) ==
  LET j == Sentry([i EXCEPT !.eof = FALSE]) IN
  IF j.fail \/ j.bad THEN j
  ELSE IF p \in 0..Len(t) THEN [j EXCEPT !.gpos = p] ELSE [j EXCEPT !.fail = TRUE]

(* detail::stream<Ch> members -> [i, r] ; r = -2: exception *)
ImplGetChar(t, i) ==
  IF i.bad THEN [i |-> i, r |-> -2]
  ELSE LET g == StdGet(t, i) IN
       IF g.c = -1 THEN [i |-> g.i, r |-> -1]
       ELSE IF g.c = NL
            THEN [i |-> [g.i EXCEPT !.line = @ + 1, !.col = IF ColBug THEN 0 ELSE 1], r |-> g.c]
            ELSE [i |-> [g.i EXCEPT !.col = @ + 1], r |-> g.c]

(* -> [i, ok, p] *)
ImplGetPosition(i) ==
  IF i.bad THEN [i |-> i, ok |-> FALSE, p |-> [off |-> 0, line |-> 0, col |-> 0]]
  ELSE LET j == IF i.eof /\ ~EofBug THEN StdClear(i) ELSE i
           tg == StdTellg(j)
       IN IF tg.p = -1 THEN [i |-> tg.i, ok |-> FALSE, p |-> [off |-> 0, line |-> 0, col |-> 0]]
          ELSE [i |-> tg.i, ok |-> TRUE, p |-> [off |-> tg.p, line |-> tg.i.line, col |-> tg.i.col]]

(* -> [i, ok] *)
ImplSetPosition(t, i, p) ==
  IF i.bad THEN [i |-> i, ok |-> FALSE]
  ELSE LET j == StdSeekg(t, StdClear(i), p.off) IN
       IF j.fail THEN [i |-> j, ok |-> FALSE]
       ELSE [i |-> IF SetPosBug THEN j ELSE [j EXCEPT !.line = p.line, !.col = p.col], ok |-> TRUE]

(* literal / char_set -> [i, res, line, col, ch] *)
ImplCharParser(t, i, accepts(_)) ==
  LET g == ImplGetChar(t, i) IN
  IF g.r = -2 THEN [i |-> g.i, res |-> -2, line |-> 0, col |-> 0, ch |-> 0]
  ELSE IF g.r = -1 THEN [i |-> g.i, res |-> -1, line |-> 0, col |-> 0, ch |-> 0]
  ELSE IF accepts(g.r) THEN [i |-> g.i, res |-> 1, line |-> 0, col |-> 0, ch |-> g.r]
  ELSE LET gp == ImplGetPosition(g.i) IN
       IF ~gp.ok THEN [i |-> gp.i, res |-> -2, line |-> 0, col |-> 0, ch |-> 0]
       ELSE [i |-> gp.i, res |-> 0, line |-> gp.p.line, col |-> gp.p.col, ch |-> 0]

(* one implementation step for call c (same calls as the abstract machine; set_position takes
   the implementation's own saved position with that offset) -> [i, ev, saved] *)
IEff(t, i, sv, c) ==
  CASE c[1] \in {1, 9} -> LET g == ImplGetChar(t, i) IN [i |-> g.i, ev |-> <<c[1], g.r>>, saved |-> sv]
    [] c[1] = 2 -> LET g == ImplGetPosition(i) IN
                   IF g.ok THEN [i |-> g.i, ev |-> <<2, 0, g.p.off, g.p.line, g.p.col>>, saved |-> sv \cup {g.p}]
                   ELSE [i |-> g.i, ev |-> <<2, -2>>, saved |-> sv]
    [] c[1] = 3 -> LET p == CHOOSE q \in sv : q.off = c[2]
                       g == ImplSetPosition(t, i, p)
                   IN [i |-> g.i, ev |-> <<3, c[2], IF g.ok THEN 0 ELSE -2>>, saved |-> sv]
    [] c[1] = 4 -> [i |-> [i EXCEPT !.bad = TRUE], ev |-> <<4>>, saved |-> sv]
    [] c[1] = 5 -> LET m == ImplCharParser(t, i, LAMBDA x : x = c[2]) IN
                   [i |-> m.i, ev |-> <<5, c[2], m.res, m.line, m.col>>, saved |-> sv]
    [] c[1] = 6 -> LET m == ImplCharParser(t, i, LAMBDA x : InSeq(x, c[2])) IN
                   [i |-> m.i, ev |-> <<6, c[2], m.res, m.line, m.col, m.ch>>, saved |-> sv]

IInit ==
  /\ AInit
  /\ is = [gpos |-> 0, eof |-> FALSE, fail |-> FALSE, bad |-> FALSE, line |-> 1, col |-> 1, failat |-> st.failat]
  /\ isaved = {}
  /\ retok = TRUE

(* set_position is only enabled for offsets the implementation has handed out, too (if the two
   sets differ ReturnsAgree has already failed) *)
IStep(c) ==
  /\ Len(hist) < MaxOps
  /\ (c[1] = 3 => \E q \in isaved : q.off = c[2])
  /\ LET a == AEff(text, st, c)
         e == IEff(text, is, isaved, c)
     IN /\ st' = a.st
        /\ is' = e.i
        /\ isaved' = e.saved
        /\ hist' = Append(hist, e.ev)
        /\ retok' = (e.ev = a.ev)
  /\ UNCHANGED text

(* one named action per call, so that TLC's coverage report shows that each of them is taken *)
IGetChar == Len(hist) >= 0 /\ IStep(<<1>>)
IGetPosition == Len(hist) >= 0 /\ IStep(<<2>>)
IGetCharError == WithFailAt /\ IStep(<<9>>)   \* only in the extension configurations
ISetPosition == \E o \in st.saved : IStep(<<3, o>>)
ISetBad == ~st.bad /\ IStep(<<4>>)
ILiteral == Len(hist) >= 0 /\ \E c \in LitChars : IStep(<<5, c>>)
ICharSet == Len(hist) >= 0 /\ \E cs \in CSets : IStep(<<6, cs>>)
INext == IGetChar \/ IGetCharError \/ IGetPosition \/ ISetPosition \/ ISetBad \/ ILiteral \/ ICharSet
ISpec == IInit /\ [][INext]_ivars
IView == <<text, st, is, isaved, retok>>
IViewDepth == <<text, st, is, isaved, retok, Len(hist)>>

-----------------------------------------------------------------------------
(* ---- what TLC checks ---- *)
ReturnsAgree == retok

Refines ==
  /\ is.bad = st.bad
  /\ ~st.bad =>
       /\ is.gpos = st.off
       /\ is.line = Line(text, st.off)
       /\ is.col = Col(text, st.off)
  /\ {p.off : p \in isaved} = st.saved

(* every handed-out position is the documented position of its offset *)
SavedExact == \A p \in isaved : p = Position(text, p.off)

(* flags of the std stream: eof and fail only ever occur together, at the end of the text *)
FlagInv == ~is.bad => (is.eof <=> is.fail) /\ (is.eof => is.gpos = Len(text))

(* the whole observable future of the implementation (position, character, position, ... up to
   "nothing" and the position after it) equals the future the abstract spec assigns to the
   offset.  Since set_position(p) establishes offset p.off, this is the rewinding clause:
   the reads and positions after restoring p are those observed when p was saved. *)
RECURSIVE ImplFuture(_, _, _)
ImplFuture(t, i, fuel) ==
  LET gp == ImplGetPosition(i)
      gc == ImplGetChar(t, gp.i)
  IN IF ~gp.ok \/ fuel = 0 THEN <<[pos |-> [off |-> -1, line |-> 0, col |-> 0], ch |-> -2]>>
     ELSE IF gc.r < 0 THEN <<[pos |-> gp.p, ch |-> gc.r]>>
     ELSE <<[pos |-> gp.p, ch |-> gc.r]>> \o ImplFuture(t, gc.i, fuel - 1)
AbsFutureSeq(t, o) == [k \in 1..(Len(t) - o + 1) |-> Future(t, o)[k - 1]]
FutureRefines == (~st.bad /\ st.failat < 0) => ImplFuture(text, is, Len(text) + 1) = AbsFutureSeq(text, st.off)

ITypeOK ==
  /\ ATypeOK
  /\ is.gpos \in 0..Len(text)
  /\ FlagInv

EmitIScripts == PrintT("SCRIPT " \o ToJson([text |-> text, failat |-> st.failat, hist |-> hist]))
=============================================================================
