SPECIFICATION SpecSeq
CONSTANTS
  MaxLen = 4
  SetMax = 3
  Reverse <- ReverseRotate
INVARIANT ReverseInvolution
