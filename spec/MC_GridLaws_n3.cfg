SPECIFICATION Spec
CONSTANTS
  N = 3
  MaxE = 4
  MaxC = 5
  StrideBug = FALSE
  LawBug = 0
INVARIANTS OffsetLaw StorageLaw RangeLaw AtLaw ClampLaw ResizeLaw
