------------------------------ MODULE GridObj ------------------------------
(* fcppt::container::grid::object<int, 2> as a small state machine (extension of
   C08): a fixed number of object slots and the public operations on them.
   Pure operators only; GridObjMC.tla explores them, GridJudge.tla judges the
   recorded transitions of the real objects with Eff.

   Abstract value of a live object: a grid record [size, cell] (Grid.tla).
   A slot is  [k |-> "dead"]   (no object),
              [k |-> "moved"]  (moved-from: valid but unspecified, only
                                assignment to it and destruction are driven),
              [k |-> "live", g |-> grid].

   What the documentation states (object_decl.hpp, grid.doxygen):
     object(dim, value)     "Initialize the grid to a size and fill every cell
                             with the same value"
     object(dim, function)  "Calls function for every position in the grid."
     object(rows...)        "calling this constructor with static_row(1,2,3),
                             static_row(4,5,6) will yield a grid of size 3x2"
     get_unsafe(pos)        "Returns a reference to the grid element at a
                             specified position."
     at_optional            "If _pos is in the range of _grid, the element at
                             _pos is returned. Otherwise ... empty optional."
     begin()/end()          "iterators over that internal storage array"
                             (row-major, section Layout)
     swap                   "Exchanges the elements of two grids."
     resize                 g[p] = old[p] if p is also a position in old,
                             init(p) otherwise
     operator<<             "Every level of the grid will be wrapped in
                             parenthesis."
   copy/move construction and assignment have value semantics (the new object
   equals the old value of the source; a copied-from source is unchanged).

   The second half (Impl...) is a transcription of object_impl.hpp at the level
   of its two members (container_ : std::vector, size_ : dim); GridObjMC checks
   that it refines the abstract operations. *)
EXTENDS Grid

Dead == [k |-> "dead"]
Moved == [k |-> "moved"]
Live(g) == [k |-> "live", g |-> g]
IsLive(s) == s.k = "live"

(* the rows of the static_row constructor driven by the harness: shape <<w, h>>,
   row y = static_row(1 + w*y, .., w + w*y) *)
RowsGrid(shape) == GridOf(shape, LAMBDA p : 1 + p[1] + shape[1] * p[2])

(* an action: [op, d, s, size, v, gen, p, k]  (unused fields are 0 / <<0,0>> / <<0,0,0>>) *)
Pre(st, a) ==
  CASE a.op \in {"ctor_value", "ctor_fn", "ctor_rows"} -> st[a.d].k = "dead"
    [] a.op \in {"copy_ctor", "move_ctor"} -> st[a.d].k = "dead" /\ IsLive(st[a.s]) /\ a.d # a.s
    [] a.op \in {"copy_assign", "move_assign"} -> st[a.d].k # "dead" /\ IsLive(st[a.s]) /\ (a.d = a.s => IsLive(st[a.d]))
    [] a.op = "swap" -> IsLive(st[a.d]) /\ IsLive(st[a.s])
    [] a.op = "write_unsafe" -> IsLive(st[a.d]) /\ InRange(a.p, st[a.d].g.size)
    [] a.op = "write_at" -> IsLive(st[a.d]) /\ \A i \in 1..2 : a.p[i] >= 0
    [] a.op = "write_iter" -> IsLive(st[a.d]) /\ a.k \in 0..(Content(st[a.d].g.size) - 1)
    [] a.op \in {"resize_assign", "output", "fill"} -> IsLive(st[a.d])
    [] a.op = "destroy" -> st[a.d].k # "dead"
    [] OTHER -> FALSE

SetCell(g, p, v) == [g EXCEPT !.cell[p] = v]
(* the position whose storage index (0-based) is k *)
PosAt(size, k) == RowMajor(Positions(size))[k + 1]

(* new slots and returned value (ret: 1/0 for write_at = "an element was returned", else 0) *)
Eff(st, a) ==
  LET put(x) == [st EXCEPT ![a.d] = x] IN
  CASE a.op = "ctor_value" -> [st |-> put(Live(GridOf(a.size, LAMBDA p : a.v))), ret |-> 0]
    [] a.op = "ctor_fn" -> [st |-> put(Live(GridOf(a.size, LAMBDA p : Lin(a.gen, p)))), ret |-> 0]
    [] a.op = "ctor_rows" -> [st |-> put(Live(RowsGrid(a.size))), ret |-> 0]
    [] a.op \in {"copy_ctor", "copy_assign"} -> [st |-> put(st[a.s]), ret |-> 0]
    [] a.op \in {"move_ctor", "move_assign"} ->
         [st |-> IF a.d = a.s THEN st ELSE [st EXCEPT ![a.d] = st[a.s], ![a.s] = Moved], ret |-> 0]
    [] a.op = "swap" -> [st |-> [st EXCEPT ![a.d] = st[a.s], ![a.s] = st[a.d]], ret |-> 0]
    [] a.op = "write_unsafe" -> [st |-> put(Live(SetCell(st[a.d].g, a.p, a.v))), ret |-> 0]
    [] a.op = "write_at" ->
         IF InRange(a.p, st[a.d].g.size)
         THEN [st |-> put(Live(SetCell(st[a.d].g, a.p, a.v))), ret |-> 1]
         ELSE [st |-> st, ret |-> 0]
    [] a.op = "write_iter" -> [st |-> put(Live(SetCell(st[a.d].g, PosAt(st[a.d].g.size, a.k), a.v))), ret |-> 0]
    [] a.op = "resize_assign" -> [st |-> put(Live(Resize(st[a.d].g, a.size, LAMBDA p : Lin(a.gen, p)))), ret |-> 0]
    [] a.op = "fill" -> [st |-> put(Live(FillGrid(st[a.d].g, LAMBDA p : Lin(a.gen, p)))), ret |-> 0]
    [] a.op = "output" -> [st |-> st, ret |-> 0]
    [] a.op = "destroy" -> [st |-> put(Dead), ret |-> 0]

(* ---- text form of operator<< ------------------------------------------------ *)
(* decimal digits of an integer as code points *)
RECURSIVE NatDigits(_)
NatDigits(n) == IF n < 10 THEN <<48 + n>> ELSE NatDigits(n \div 10) \o <<48 + (n % 10)>>
IntText(v) == IF v < 0 THEN <<45>> \o NatDigits(-v) ELSE NatDigits(v)
RECURSIVE JoinComma(_)
JoinComma(ss) == IF ss = <<>> THEN <<>> ELSE IF Len(ss) = 1 THEN ss[1] ELSE ss[1] \o <<44>> \o JoinComma(Tail(ss))
(* every level wrapped in parentheses; 2-D: the rows y = 0.., each row the elements x = 0.. *)
OutputText2(g) ==
  <<40>> \o JoinComma([y \in 1..g.size[2] |->
                         <<40>> \o JoinComma([x \in 1..g.size[1] |-> IntText(g.cell[<<x - 1, y - 1>>])]) \o <<41>>]) \o <<41>>
NoSpaces(s) == SelectSeq(s, LAMBDA c : c # 32)

(* ---- implementation level: container_ and size_ -------------------------------- *)
IDead == [k |-> "dead"]
ILive(size, cont) == [k |-> "live", size |-> size, cont |-> cont]
(* std::vector moved-from: empty; the dim is copied *)
IMovedFrom(s) == [k |-> "moved", size |-> s.size, cont |-> <<>>]

ICtorFn(size, F(_)) == LET rm == RowMajor(Positions(size)) IN ILive(size, [i \in 1..Len(rm) |-> F(rm[i])])
IIndex(s, p, OffBug) == (IF OffBug THEN OffsetWrongStride(p, s.size) ELSE Offset(p, s.size)) + 1
(* an index outside the container models an out-of-bounds access: reads garbage, writes are lost *)
IGet(s, p, OffBug) == IF IIndex(s, p, OffBug) \in DOMAIN s.cont THEN s.cont[IIndex(s, p, OffBug)] ELSE -999
ISet(s, p, v, OffBug) == IF IIndex(s, p, OffBug) \in DOMAIN s.cont THEN [s EXCEPT !.cont[IIndex(s, p, OffBug)] = v] ELSE s

(* bugs: "swap" = swap exchanges only the containers, "move" = move assignment keeps the old
   size_, "offset" = get_unsafe with the stride of the current extent, "" = none *)
ImplEff(im, a, bug) ==
  LET put(x) == [im EXCEPT ![a.d] = x]
      ob == bug = "offset"
  IN
  CASE a.op = "ctor_value" -> put(ILive(a.size, [i \in 1..Content(a.size) |-> a.v]))
    [] a.op = "ctor_fn" -> put(ICtorFn(a.size, LAMBDA p : Lin(a.gen, p)))
    [] a.op = "ctor_rows" -> put(ILive(a.size, [i \in 1..Content(a.size) |-> i]))      \* array::join of the rows
    [] a.op \in {"copy_ctor", "copy_assign"} -> put(im[a.s])
    [] a.op = "move_ctor" -> [im EXCEPT ![a.d] = ILive(im[a.s].size, im[a.s].cont), ![a.s] = IMovedFrom(im[a.s])]
    [] a.op = "move_assign" ->
         IF a.d = a.s THEN im
         ELSE [im EXCEPT ![a.d] = ILive(IF bug = "move" THEN im[a.d].size ELSE im[a.s].size, im[a.s].cont),
                         ![a.s] = IMovedFrom(im[a.s])]
    [] a.op = "swap" ->
         [im EXCEPT ![a.d] = ILive(IF bug = "swap" THEN im[a.d].size ELSE im[a.s].size, im[a.s].cont),
                    ![a.s] = ILive(IF bug = "swap" THEN im[a.s].size ELSE im[a.d].size, im[a.d].cont)]
    [] a.op = "write_unsafe" -> put(ISet(im[a.d], a.p, a.v, ob))
    [] a.op = "write_at" -> IF InRange(a.p, im[a.d].size) THEN put(ISet(im[a.d], a.p, a.v, ob)) ELSE im
    [] a.op = "write_iter" -> put([im[a.d] EXCEPT !.cont[a.k + 1] = a.v])
    [] a.op = "resize_assign" ->
         put(ICtorFn(a.size, LAMBDA p : IF InRange(p, im[a.d].size) THEN IGet(im[a.d], p, ob) ELSE Lin(a.gen, p)))
    [] a.op = "fill" ->
         \* for every element of make_pos_ref_range: element.value() = f(element.pos())
         put([im[a.d] EXCEPT !.cont = LET rm == RowMajor(Positions(im[a.d].size))
                                      IN [i \in 1..Len(im[a.d].cont) |-> Lin(a.gen, rm[i])]])
    [] a.op = "output" -> im
    [] a.op = "destroy" -> put(IDead)

(* representation invariant and abstraction of a live implementation slot *)
IRepOk(s) == Len(s.cont) = Content(s.size)
IAbs(s) == GridOf(s.size, LAMBDA p : s.cont[Offset(p, s.size) + 1])
=============================================================================
