SPECIFICATION SpecSet
CONSTANTS
  MaxLen = 2
  SetMax = 4
INVARIANT SetAlgebra
INVARIANT ExtensionSetLaws
