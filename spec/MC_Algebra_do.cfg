SPECIFICATION Spec
CONSTANTS
  N = 2
  Bug = "none"
  Group = "do"
  MaxLen = 0
INVARIANTS TypeOK LawDo
