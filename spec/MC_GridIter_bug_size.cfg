SPECIFICATION Spec
CONSTANTS
  N = 2
  MaxC = 5
  CarryBug = 0
  EndBug = FALSE
  SizeBug = TRUE
VIEW View
INVARIANTS SizeLaw
