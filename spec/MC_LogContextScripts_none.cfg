\* Script emission around the OPTIONAL level "none" (logging disabled): the context is constructed
\* without a root level, set uses {fatal, none}; every generated transition is replayed on the real code
\* (get / level / enabled at verbose, warning, FATAL / log at error and FATAL after each history).
SPECIFICATION Spec
CONSTANTS
  Names <- NamesAB
  MaxDepth = 2
  SetLevels = {5, 6}
  RootLevels = {6}
  Objs = {1, 2}
  MaxSets = 2
  MaxOps = 3
  GenObservers = TRUE
  SetNodeOnlyBug = FALSE
  InheritRootBug = FALSE
VIEW View
INVARIANTS TypeOK LatestPrefixWins
CONSTRAINT EmitScripts
CHECK_DEADLOCK FALSE
