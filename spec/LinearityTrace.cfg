SPECIFICATION TSpec
INVARIANT Verdict
CONSTRAINT Consumed
POSTCONDITION Post
CHECK_DEADLOCK FALSE
