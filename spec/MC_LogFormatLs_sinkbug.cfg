SPECIFICATION LsSpec
CONSTANTS
  ChainSwapBug = FALSE
  SinkIgnoredBug = TRUE
  MaxSteps = 5
INVARIANTS LsRunAgrees SinkLatestWins AdditionalFirst
CHECK_DEADLOCK FALSE
