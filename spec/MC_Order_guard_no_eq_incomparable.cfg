SPECIFICATION Spec
CONSTANTS
  NN = 3
  Dom = {0, 1, 2}
  MaxLen = 2
  Weaken = "no_eq_incomparable"
  Families = {"rel"}
INVARIANT RankLaw
CHECK_DEADLOCK FALSE
