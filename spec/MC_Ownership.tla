---------------------------- MODULE MC_Ownership ----------------------------
(* Model check of Ownership.tla: every history of the smart-pointer operations over
   a few slots.  Invariants: an object is alive iff some strong or unique owner holds
   it, its destructor runs exactly once (when the last owner goes) and never before,
   the control block's count equals the number of strong owners, an object is never
   held by a unique_ptr and a shared_ptr at once, and lock() returns a pointer
   exactly when the object is alive.  With Bug set, TLC must find a counterexample
   (vacuity guards): "move_copies" (moving a shared_ptr leaves the source owning
   without a count), "lock_no_check" (lock hands out expired objects),
   "from_unique_keeps" (shared_ptr(unique_ptr&&) leaves the unique_ptr owning),
   "assign_no_release" (assignment does not give up the old object). *)
EXTENDS Ownership, TLC, Json

VARIABLES st, hist, lastlock
vars == <<st, hist, lastlock>>

OpNames1 == {"make_shared", "destroy_shared", "dynamic_cast_fail", "weak_default", "weak_destroy",
             "make_unique", "make_unique_to_base", "unique_from_std", "destroy_unique"}
OpNames2 == SharingOps \cup {"assign_shared", "swap_shared", "move_shared", "weak_from_shared", "weak_copy",
                              "lock", "move_unique", "shared_from_unique"}
M == IF NS > NW THEN (IF NS > NU THEN NS ELSE NU) ELSE (IF NW > NU THEN NW ELSE NU)
AllOps == {Op1(o, a) : o \in OpNames1, a \in 1..M} \cup {Op2(o, a, b) : o \in OpNames2, a \in 1..M, b \in 1..M}

Init == st = InitState /\ hist = <<>> /\ lastlock = <<-1, FALSE>>
Step(a) ==
  /\ Pre(st, a)
  /\ LET e == Eff(st, a) IN
     /\ st' = e.st
     /\ lastlock' = IF a.op = "lock" THEN <<e.ret, st.wk[a.a] # 0 /\ Alive(st, st.wk[a.a])>> ELSE <<-1, FALSE>>
  /\ hist' = Append(hist, a)
Next == \E a \in AllOps : Step(a)
Spec == Init /\ [][Next]_vars
View == <<st, lastlock>>

AliveIffOwned == AliveIffOwnedIn(st)
DeleterExactlyOnce == DeleterExactlyOnceIn(st)
CountAgrees == CountAgreesIn(st)
SingleOwnerKind == SingleOwnerKindIn(st)
WeakNeverOwns == WeakNeverOwnsIn(st)
LockIffAlive == lastlock[1] # -1 => ((lastlock[1] = 1) = lastlock[2])
(* observers are coherent with each other *)
ObserversCoherent ==
  /\ \A s \in 1..NS : st.sh[s] # 0 => (UseCount(st, s) >= 1 /\ UseCount(st, s) = st.obj[st.sh[s]].cnt)
  /\ \A w \in 1..NW : st.wk[w] >= 0 => (Expired(st, w) = (st.wk[w] = 0 \/ ~Alive(st, st.wk[w]) \/ UniqueOwners(st, st.wk[w]) # {}))

EmitScripts == PrintT("SCRIPT " \o ToJson(hist))
ShortHist == Len(hist) <= 6
=============================================================================
