SPECIFICATION Spec
CONSTANTS
  NN = 3
  Dom = {0, 1, 2}
  MaxLen = 2
  Weaken = "none"
  Families = {"lex", "rel"}
INVARIANTS LexLaw RankLaw SubstLaw DerivedLaw
CHECK_DEADLOCK FALSE
