---------------------------- MODULE TextPos ----------------------------
(* Line and column of an offset into a text (sequence of code points), by the definition in
   the documentation of fcppt::parse::basic_stream, computed from scratch:
     line   = 1 + number of newline characters among text[1..off]
     column = off - j + 1, j = index of the last newline <= off (0 if there is none)        *)
EXTENDS Naturals, Sequences, FiniteSets

NL == 10
MaxOf(S) == CHOOSE x \in S : \A y \in S : y <= x
Line(text, off) == 1 + Cardinality({i \in 1..off : text[i] = NL})
LastNL(text, off) == MaxOf({0} \cup {i \in 1..off : text[i] = NL})
Col(text, off) == off - LastNL(text, off) + 1
=============================================================================
