SPECIFICATION RLSpec
CONSTANTS
  N = 3
  Bug = "none"
  Reasons <- AlgReasons
INVARIANT RLVerdict
CONSTRAINT RLConsumed
POSTCONDITION RLPost
CHECK_DEADLOCK FALSE
