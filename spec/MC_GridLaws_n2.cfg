SPECIFICATION Spec
CONSTANTS
  N = 2
  MaxE = 4
  MaxC = 5
  StrideBug = FALSE
  LawBug = 0
INVARIANTS OffsetLaw StorageLaw RangeLaw AtLaw ClampLaw ResizeLaw
