------------------------------ MODULE MC_Order ------------------------------
(* Model check of the axioms of Order.tla themselves (C17).  Every initial state is
   one case; there are no transitions.

   family "lex"  comp \in [1..NN -> sequences over Dom of length <= MaxLen]: the
                 relations induced by component equality and the lexicographic order
                 (LexEQ, LexLT and the derived ones) satisfy EVERY axiom, the
                 documented-order clauses included - the axioms are consistent and
                 are what a component-wise ==/< gives (LexLaw)
   family "rel"  comp \in [1..NN -> {<<0>>, <<1>>}], LT an ARBITRARY 0/1 matrix on NN
                 values: LT passes "strict weak order compatible with ==" exactly
                 when it is induced by a ranking that gives equal values equal ranks
                 (RankLaw) - the axioms accept nothing but genuine strict weak orders
                 and reject none; and the interchangeability clause follows from the
                 others (SubstLaw)

   Weaken drops one axiom; RankLaw must then fail (vacuity guards):
   "no_lt_transitive", "no_inc_transitive", "no_eq_incomparable".  (Dropping
   irreflexivity alone changes nothing: it follows from "equal values are
   incomparable" and a == a; TLC confirms this when run with "no_irreflexive".) *)
EXTENDS Order, TLC

CONSTANTS NN, Dom, MaxLen, Weaken, Families

VARIABLES kind, comp, LT
vars == <<kind, comp, LT>>

SeqsUpTo(k) == UNION {[1..m -> Dom] : m \in 0..k}
AllRel == [1..NN -> [1..NN -> {0, 1}]]

Init ==
  \/ /\ "lex" \in Families /\ kind = "lex" /\ comp \in [1..NN -> SeqsUpTo(MaxLen)] /\ LT = <<>>
  \/ /\ "rel" \in Families /\ kind = "rel" /\ comp \in [1..NN -> {<<0>>, <<1>>}] /\ LT \in AllRel
Next == UNCHANGED vars
Spec == Init /\ [][Next]_vars

LexLaw ==
  kind = "lex" =>
    LET eq == LexEQ(NN, comp)
        lt == LexLT(NN, comp)
    IN /\ AllAxioms(NN, comp, eq, Neg(NN, eq), lt, Neg(NN, Transpose(NN, lt)), Transpose(NN, lt), Neg(NN, lt), eq)
       /\ DocumentedLex(NN, comp, lt)
       /\ DocumentedTotal(NN, eq, lt)

(* the axioms on < as the judge applies them, minus the weakened one *)
Accepts(eq, lt) ==
  /\ (Weaken # "no_irreflexive" => LtIrreflexive(NN, lt))
  /\ (Weaken # "no_lt_transitive" => LtTransitive(NN, lt))
  /\ (Weaken # "no_inc_transitive" => IncTransitive(NN, lt))
  /\ (Weaken # "no_eq_incomparable" => \A a, b \in 1..NN : eq[a][b] = 1 => Inc(lt, a, b))

InducedByRank(eq, lt) ==
  \E rank \in [1..NN -> 1..NN] :
    /\ \A a, b \in 1..NN : (lt[a][b] = 1) = (rank[a] < rank[b])
    /\ \A a, b \in 1..NN : eq[a][b] = 1 => rank[a] = rank[b]

RankLaw == kind = "rel" => (Accepts(LexEQ(NN, comp), LT) = InducedByRank(LexEQ(NN, comp), LT))

SubstLaw ==
  kind = "rel" =>
    LET eq == LexEQ(NN, comp) IN
    (StrictWeakOrder(NN, LT) /\ \A a, b \in 1..NN : eq[a][b] = 1 => Inc(LT, a, b)) => LtCompatibleWithEq(NN, eq, LT)

(* derived relations are determined by LT: the only matrices passing LeDerived etc. are the derived ones *)
DerivedLaw ==
  kind = "rel" =>
    /\ LeDerived(NN, LT, Neg(NN, Transpose(NN, LT))) /\ GtDerived(NN, LT, Transpose(NN, LT)) /\ GeDerived(NN, LT, Neg(NN, LT))
    /\ (LT # Transpose(NN, LT) => ~GtDerived(NN, LT, LT))
=============================================================================
