---------------------------- MODULE MC_PegJson ----------------------------
(* Peg.tla's interpretation of the JSON grammar (grammars.json, recursive grammar 9004, the one the
   harness builds from the real combinators) agrees with the independent reference JsonRef.tla on
   every input up to MaxLen over the JSON alphabet and on a list of longer texts. *)
EXTENDS JsonRef, Json, IOUtils

CONSTANTS Sym, MaxLen

G == JsonDeserialize(IOEnv.GRAMMARS)
J == CHOOSE x \in {G.recursive[i] : i \in 1..Len(G.recursive)} : x.id = 9004
Extra == ndJsonDeserialize(IOEnv.JSONEXTRA)

VARIABLES s, ph
vars == <<s, ph>>
Inputs == UNION {[1..k -> Sym] : k \in 0..MaxLen}

(* two levels so that TLC's workers share the work: first symbol, then the rest *)
Init == ph = 0 /\ s \in {<<>>} \cup {<<c>> : c \in Sym} \cup {<<-1, i>> : i \in 1..Len(Extra)}
Next ==
  /\ ph = 0 /\ ph' = 1
  /\ IF s # <<>> /\ s[1] = -1 THEN s' = Extra[s[2]].s
     ELSE \E t \in UNION {[1..k -> Sym] : k \in 0..(IF s = <<>> THEN 0 ELSE MaxLen - 1)} : s' = s \o t
Spec == Init /\ [][Next]_vars

JsonAgree ==
  ph = 1 =>
    LET e == Run("string", J.g, G.skippers[J.sks[1]], s, J.ps)
        r == JsonText(s)
    IN e.ok = r.ok /\ (e.ok => e.val = r.val)
(* the reference is not vacuous: some explored text is accepted (checked by the bug configuration) *)
=============================================================================
