SPECIFICATION SpecSet
CONSTANTS
  MaxLen = 4
  SetMax = 3
  InsertSetR <- InsertSetAlwaysTrue
INVARIANT ExtensionSetLaws
