SPECIFICATION Spec
CONSTANTS
  SR = 2
  SL = 4
  MaxResets = 2
  Bug = "reset_keeps_cache"
INVARIANTS LawTransparentH
CHECK_DEADLOCK FALSE
