----------------------------- MODULE OrderJudge -----------------------------
(* Judge of the records written by harness/c17_*.cpp (C17).

   order    one record per C++ type: n values, comp[i] (observable components),
            how[i] (how the value was produced), has (the relations the type
            offers, as detected by the compiler), and the n x n 0/1 matrices EQ, NE,
            LT, LE, GT, GE, HEQ (<<>> when not offered).  The axioms of Order.tla are
            evaluated on the matrices; only what the type offers is demanded.
   st_int   one record per pair (a, b) of int operands in [-128,127]: the results of
            every strong_typedef operator (assigning forms: [left after, value of the
            returned reference, right after]; selfa: x op= x for + - * & | ^),
            to be compared with StrongTypedef.tla
   st_u32   the same for unsigned (values as four base-256 limbs, least significant
            first), operands = wrap-around boundary values
   wrap     reference / recursive / unique_ptr / shared_ptr / type_iso expose exactly
            the wrapped object

   A reason is "<clause>@<type or operator>"; Reasons(r) = {} means explained. *)
EXTENDS Order, Integers, TLC, RecordLoop

ST == INSTANCE StrongTypedef WITH Base <- 256, L <- 4

If(c, reason) == IF c THEN {reason} ELSE {}
SetOf(xs) == {xs[i] : i \in 1..Len(xs)}

(* what the headers document about the order itself (Order.tla, "documented orders") *)
LexTypes == {"optional<int>", "optional<optional<int>>", "variant<int,long>", "strong_typedef<int>",
             "strong_typedef<int>/std::hash", "strong_typedef<unsigned>", "vector<int,2>", "vector<int,3>",
             "dim<int,2>", "box<int,2>", "box<int,1>", "grid<int,2>", "raw_vector<int>"}
TotalTypes == {"reference<int>", "reference<int>/std::hash", "shared_ptr<int>", "shared_ptr<int>/std::hash"}

IsMatrix(n, M) == Len(M) = n /\ \A a \in 1..n : Len(M[a]) = n /\ \A b \in 1..n : M[a][b] \in {0, 1}

OrderReasons(r) ==
  LET n == r.n
      has == SetOf(r.has)
      t == r.type
      Off(name) == name \in has
      wellformed == /\ Len(r.comp) = n /\ Len(r.how) = n
                    /\ has \subseteq {"EQ", "NE", "LT", "LE", "GT", "GE", "HEQ"}
                    /\ (Off("EQ") => IsMatrix(n, r.EQ)) /\ (Off("NE") => IsMatrix(n, r.NE))
                    /\ (Off("LT") => IsMatrix(n, r.LT)) /\ (Off("LE") => IsMatrix(n, r.LE))
                    /\ (Off("GT") => IsMatrix(n, r.GT)) /\ (Off("GE") => IsMatrix(n, r.GE))
                    /\ (Off("HEQ") => IsMatrix(n, r.HEQ))
                    /\ ((Off("NE") \/ Off("LT") \/ Off("HEQ")) => Off("EQ"))
                    /\ ((Off("LE") \/ Off("GT") \/ Off("GE")) => Off("LT"))
  IN IF ~wellformed THEN {"HARNESS-PRECONDITION"}
     ELSE
       (IF Off("EQ") THEN If(~EqIsComponentEquality(n, r.comp, r.EQ), "eq-not-component-equality@" \o t)
                          \cup If(~EqIsEquivalence(n, r.EQ), "eq-not-an-equivalence@" \o t) ELSE {})
       \cup (IF Off("NE") THEN If(~NeIsNegation(n, r.EQ, r.NE), "ne-not-the-negation-of-eq@" \o t) ELSE {})
       \cup (IF Off("LT")
             THEN If(~LtIrreflexive(n, r.LT), "lt-not-irreflexive@" \o t)
                  \cup If(~LtTransitive(n, r.LT), "lt-not-transitive@" \o t)
                  \cup If(~IncTransitive(n, r.LT), "lt-incomparability-not-transitive@" \o t)
                  \cup If(~LtCompatibleWithEq(n, r.EQ, r.LT), "lt-incompatible-with-eq@" \o t)
                  \cup (IF t \in LexTypes THEN If(~DocumentedLex(n, r.comp, r.LT), "lt-not-the-documented-order@" \o t) ELSE {})
                  \cup (IF t \in TotalTypes THEN If(~DocumentedTotal(n, r.EQ, r.LT), "lt-not-total-on-distinct-objects@" \o t) ELSE {})
             ELSE {})
       \cup (IF Off("LE") THEN If(~LeDerived(n, r.LT, r.LE), "le-not-derived-from-lt@" \o t) ELSE {})
       \cup (IF Off("GT") THEN If(~GtDerived(n, r.LT, r.GT), "gt-not-derived-from-lt@" \o t) ELSE {})
       \cup (IF Off("GE") THEN If(~GeDerived(n, r.LT, r.GE), "ge-not-derived-from-lt@" \o t) ELSE {})
       \cup (IF Off("HEQ") THEN If(~HashCoherent(n, r.EQ, r.HEQ), "hash-differs-for-equal-values@" \o t) ELSE {})

(* ---- strong_typedef<int> ---- *)
B01(c) == IF c THEN 1 ELSE 0
Ty == "strong_typedef<int>"
StIntReasons(r) ==
  LET a == r.a
      b == r.b
      Bin(name, got, want) == If(got # want, name \o ":differs-from-the-underlying-operator@" \o Ty)
      (* assigning form: [left after, value of the returned reference, right after] *)
      Asg(name, got, want) == If(got # <<want, want, b>>, name \o ":differs-from-the-underlying-operator@" \o Ty)
  IN IF ~(ST!InSmall(a) /\ ST!InSmall(b)) THEN {"HARNESS-PRECONDITION"}
     ELSE Bin("operator+", r.add, ST!SAdd(a, b)) \cup Bin("operator-", r.sub, ST!SSub(a, b))
          \cup Bin("operator*", r.mul, ST!SMul(a, b)) \cup Bin("unary-minus", r.neg, ST!SNeg(a))
          \cup Bin("operator&", r.and, ST!SAnd(a, b)) \cup Bin("operator|", r.or, ST!SOr(a, b))
          \cup Bin("operator^", r.xor, ST!SXor(a, b)) \cup Bin("operator~", r.not, ST!SNot(a))
          \cup Bin("pre-increment", r.preinc, <<a + 1, a + 1>>) \cup Bin("pre-decrement", r.predec, <<a - 1, a - 1>>)
          \cup Bin("post-increment", r.postinc, <<a + 1, a>>) \cup Bin("post-decrement", r.postdec, <<a - 1, a>>)
          \cup Asg("operator+=", r.adda, ST!SAdd(a, b)) \cup Asg("operator-=", r.suba, ST!SSub(a, b))
          \cup Asg("operator*=", r.mula, ST!SMul(a, b)) \cup Asg("operator&=", r.anda, ST!SAnd(a, b))
          \cup Asg("operator|=", r.ora, ST!SOr(a, b)) \cup Asg("operator^=", r.xora, ST!SXor(a, b))
          \cup Bin("self-assignment", r.selfa, <<ST!SAdd(a, a), ST!SSub(a, a), ST!SMul(a, a), ST!SAnd(a, a), ST!SOr(a, a), ST!SXor(a, a)>>)
          \cup Bin("comparison", r.cmp, <<B01(a < b), B01(a <= b), B01(a > b), B01(a >= b), B01(a = b), B01(a # b)>>)
          \cup Bin("get", r.get, <<a, b>>)

(* ---- strong_typedef<unsigned> ---- *)
TyU == "strong_typedef<unsigned>"
StU32Reasons(r) ==
  LET a == r.a
      b == r.b
      Bin(name, got, want) == If(got # want, name \o ":differs-from-the-underlying-operator@" \o TyU)
      Asg(name, got, want) == If(got # <<want, want, b>>, name \o ":differs-from-the-underlying-operator@" \o TyU)
      inc == ST!UAdd(a, ST!One)
      dec == ST!USub(a, ST!One)
      eq == a = b
      lt == ST!ULess(a, b)
      gt == ST!ULess(b, a)
  IN IF ~(ST!IsWord(a) /\ ST!IsWord(b)) THEN {"HARNESS-PRECONDITION"}
     ELSE Bin("operator+", r.add, ST!UAdd(a, b)) \cup Bin("operator-", r.sub, ST!USub(a, b))
          \cup Bin("operator*", r.mul, ST!UMul(a, b)) \cup Bin("unary-minus", r.neg, ST!UNeg(a))
          \cup Bin("operator&", r.and, ST!UAnd(a, b)) \cup Bin("operator|", r.or, ST!UOr(a, b))
          \cup Bin("operator^", r.xor, ST!UXor(a, b)) \cup Bin("operator~", r.not, ST!UNot(a))
          \cup Bin("pre-increment", r.preinc, <<inc, inc>>) \cup Bin("pre-decrement", r.predec, <<dec, dec>>)
          \cup Bin("post-increment", r.postinc, <<inc, a>>) \cup Bin("post-decrement", r.postdec, <<dec, a>>)
          \cup Asg("operator+=", r.adda, ST!UAdd(a, b)) \cup Asg("operator-=", r.suba, ST!USub(a, b))
          \cup Asg("operator*=", r.mula, ST!UMul(a, b)) \cup Asg("operator&=", r.anda, ST!UAnd(a, b))
          \cup Asg("operator|=", r.ora, ST!UOr(a, b)) \cup Asg("operator^=", r.xora, ST!UXor(a, b))
          \cup Bin("self-assignment", r.selfa, <<ST!UAdd(a, a), ST!USub(a, a), ST!UMul(a, a), ST!UAnd(a, a), ST!UOr(a, a), ST!UXor(a, a)>>)
          \cup Bin("comparison", r.cmp, <<B01(lt), B01(~gt), B01(gt), B01(~lt), B01(eq), B01(~eq)>>)
          \cup Bin("get", r.get, <<a, b>>)

(* ---- transparent wrappers: the wrapper exposes exactly the wrapped object ----
   in      the value put into the wrapper        out    the value read through it
   same    1 iff the accessor returned the very object that was wrapped (where the
           wrapper refers to / owns one object: reference, unique_ptr, shared_ptr
           and its copies); -1 where identity is not part of the contract
   written a value stored through the accessor   after  the value then read from the
           wrapped object itself (reference) / through the accessor again *)
WrapReasons(r) ==
  If(r.out # r.in, "exposes-a-different-value@" \o r.kind)
  \cup If(r.same = 0, "exposes-a-different-object@" \o r.kind)
  \cup If(r.after # r.written, "write-through-lost@" \o r.kind)

C17Reasons(r) ==
  CASE r.f = "order" -> OrderReasons(r)
    [] r.f = "st_int" -> StIntReasons(r)
    [] r.f = "st_u32" -> StU32Reasons(r)
    [] r.f = "wrap" -> WrapReasons(r)
    [] OTHER -> {"unknown-record-kind"}
=============================================================================
