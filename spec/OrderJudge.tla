----------------------------- MODULE OrderJudge -----------------------------
(* Judge of the records written by harness/c17_*.cpp (C17).

   order    one record per C++ type (or pair of types that the library compares with each
            other): family (the fcppt template), type, n values, comp[i] (observable components),
            how[i] (how the value was produced), has (the relations the type
            offers, as detected by the compiler), and the n x n 0/1 matrices EQ, NE,
            LT, LE, GT, GE, HEQ (<<>> when not offered).  The axioms of Order.tla are
            evaluated on the matrices; only what the type offers is demanded.
   st_int   one record per pair (a, b) of int operands in [-128,127]: the results of
            every strong_typedef operator (assigning forms: [left after, value of the
            returned reference, right after]; selfa: x op= x for + - * & | ^),
            to be compared with StrongTypedef.tla
   st_u32   the same for unsigned (values as four base-256 limbs, least significant
            first), operands = wrap-around boundary values
   wrap     reference / recursive / unique_ptr / shared_ptr / type_iso expose exactly
            the wrapped object

   A reason is "<clause>@<type or operator>"; Reasons(r) = {} means explained. *)
EXTENDS Order, Integers, TLC, RecordLoop

ST == INSTANCE StrongTypedef WITH Base <- 256, L <- 4

If(c, reason) == IF c THEN {reason} ELSE {}
SetOf(xs) == {xs[i] : i \in 1..Len(xs)}

(* what the headers document about the order itself (Order.tla, "documented orders"), per FAMILY of
   types (the field "family" of an order record names the fcppt template, "type" the instantiation):
     optional        "has_value first", then the values (optional<int>, optional<optional<int>>,
                     optional<reference<int>>: the references are ordered by the address of their
                     objects, which are elements of one array - the component is the array index)
     variant         "(type_index, value)"
     strong_typedef  the order of the wrapped values
     vector, dim     std::lexicographical_compare of the coordinates
     box             "(pos, size)" pair
     grid            "size, then lexicographical_compare"
     raw_vector      std::lexicographical_compare
     reference, shared_ptr   std::less on the pointers: total on distinct objects *)
LexFamilies == {"optional", "variant", "strong_typedef", "vector", "dim", "box", "grid", "raw_vector"}
TotalFamilies == {"reference", "shared_ptr"}

IsMatrix(n, M) == Len(M) = n /\ \A a \in 1..n : Len(M[a]) = n /\ \A b \in 1..n : M[a][b] \in {0, 1}

OrderReasons(r) ==
  LET n == r.n
      has == SetOf(r.has)
      t == r.type
      fam == r.family
      Off(name) == name \in has
      wellformed == /\ Len(r.comp) = n /\ Len(r.how) = n
                    /\ has \subseteq {"EQ", "NE", "LT", "LE", "GT", "GE", "HEQ"}
                    /\ (Off("EQ") => IsMatrix(n, r.EQ)) /\ (Off("NE") => IsMatrix(n, r.NE))
                    /\ (Off("LT") => IsMatrix(n, r.LT)) /\ (Off("LE") => IsMatrix(n, r.LE))
                    /\ (Off("GT") => IsMatrix(n, r.GT)) /\ (Off("GE") => IsMatrix(n, r.GE))
                    /\ (Off("HEQ") => IsMatrix(n, r.HEQ))
                    /\ ((Off("NE") \/ Off("LT") \/ Off("HEQ")) => Off("EQ"))
                    /\ ((Off("LE") \/ Off("GT") \/ Off("GE")) => Off("LT"))
  IN IF ~wellformed THEN {"HARNESS-PRECONDITION"}
     ELSE
       (IF Off("EQ") THEN If(~EqIsComponentEquality(n, r.comp, r.EQ), "eq-not-component-equality@" \o t)
                          \cup If(~EqIsEquivalence(n, r.EQ), "eq-not-an-equivalence@" \o t) ELSE {})
       \cup (IF Off("NE") THEN If(~NeIsNegation(n, r.EQ, r.NE), "ne-not-the-negation-of-eq@" \o t) ELSE {})
       \cup (IF Off("LT")
             THEN If(~LtIrreflexive(n, r.LT), "lt-not-irreflexive@" \o t)
                  \cup If(~LtTransitive(n, r.LT), "lt-not-transitive@" \o t)
                  \cup If(~IncTransitive(n, r.LT), "lt-incomparability-not-transitive@" \o t)
                  \cup If(~LtCompatibleWithEq(n, r.EQ, r.LT), "lt-incompatible-with-eq@" \o t)
                  \cup (IF fam \in LexFamilies THEN If(~DocumentedLex(n, r.comp, r.LT), "lt-not-the-documented-order@" \o t) ELSE {})
                  \cup (IF fam \in TotalFamilies THEN If(~DocumentedTotal(n, r.EQ, r.LT), "lt-not-total-on-distinct-objects@" \o t) ELSE {})
             ELSE {})
       \cup (IF Off("LE") THEN If(~LeDerived(n, r.LT, r.LE), "le-not-derived-from-lt@" \o t) ELSE {})
       \cup (IF Off("GT") THEN If(~GtDerived(n, r.LT, r.GT), "gt-not-derived-from-lt@" \o t) ELSE {})
       \cup (IF Off("GE") THEN If(~GeDerived(n, r.LT, r.GE), "ge-not-derived-from-lt@" \o t) ELSE {})
       \cup (IF Off("HEQ") THEN If(~HashCoherent(n, r.EQ, r.HEQ), "hash-differs-for-equal-values@" \o t) ELSE {})

(* ---- strong_typedef<int> ---- *)
B01(c) == IF c THEN 1 ELSE 0
Ty == "strong_typedef<int>"
StIntReasons(r) ==
  LET a == r.a
      b == r.b
      Bin(name, got, want) == If(got # want, name \o ":differs-from-the-underlying-operator@" \o Ty)
      (* assigning form: [left after, value of the returned reference, right after] *)
      Asg(name, got, want) == If(got # <<want, want, b>>, name \o ":differs-from-the-underlying-operator@" \o Ty)
  IN IF ~(ST!InSmall(a) /\ ST!InSmall(b)) THEN {"HARNESS-PRECONDITION"}
     ELSE Bin("operator+", r.add, ST!SAdd(a, b)) \cup Bin("operator-", r.sub, ST!SSub(a, b))
          \cup Bin("operator*", r.mul, ST!SMul(a, b)) \cup Bin("unary-minus", r.neg, ST!SNeg(a))
          \cup Bin("operator&", r.and, ST!SAnd(a, b)) \cup Bin("operator|", r.or, ST!SOr(a, b))
          \cup Bin("operator^", r.xor, ST!SXor(a, b)) \cup Bin("operator~", r.not, ST!SNot(a))
          \cup Bin("pre-increment", r.preinc, <<a + 1, a + 1>>) \cup Bin("pre-decrement", r.predec, <<a - 1, a - 1>>)
          \cup Bin("post-increment", r.postinc, <<a + 1, a>>) \cup Bin("post-decrement", r.postdec, <<a - 1, a>>)
          \cup Asg("operator+=", r.adda, ST!SAdd(a, b)) \cup Asg("operator-=", r.suba, ST!SSub(a, b))
          \cup Asg("operator*=", r.mula, ST!SMul(a, b)) \cup Asg("operator&=", r.anda, ST!SAnd(a, b))
          \cup Asg("operator|=", r.ora, ST!SOr(a, b)) \cup Asg("operator^=", r.xora, ST!SXor(a, b))
          \cup Bin("self-assignment", r.selfa, <<ST!SAdd(a, a), ST!SSub(a, a), ST!SMul(a, a), ST!SAnd(a, a), ST!SOr(a, a), ST!SXor(a, a)>>)
          \cup Bin("comparison", r.cmp, <<B01(a < b), B01(a <= b), B01(a > b), B01(a >= b), B01(a = b), B01(a # b)>>)
          \cup Bin("get", r.get, <<a, b>>)

(* ---- strong_typedef<unsigned> ---- *)
TyU == "strong_typedef<unsigned>"
StU32Reasons(r) ==
  LET a == r.a
      b == r.b
      Bin(name, got, want) == If(got # want, name \o ":differs-from-the-underlying-operator@" \o TyU)
      Asg(name, got, want) == If(got # <<want, want, b>>, name \o ":differs-from-the-underlying-operator@" \o TyU)
      inc == ST!UAdd(a, ST!One)
      dec == ST!USub(a, ST!One)
      eq == a = b
      lt == ST!ULess(a, b)
      gt == ST!ULess(b, a)
  IN IF ~(ST!IsWord(a) /\ ST!IsWord(b)) THEN {"HARNESS-PRECONDITION"}
     ELSE Bin("operator+", r.add, ST!UAdd(a, b)) \cup Bin("operator-", r.sub, ST!USub(a, b))
          \cup Bin("operator*", r.mul, ST!UMul(a, b)) \cup Bin("unary-minus", r.neg, ST!UNeg(a))
          \cup Bin("operator&", r.and, ST!UAnd(a, b)) \cup Bin("operator|", r.or, ST!UOr(a, b))
          \cup Bin("operator^", r.xor, ST!UXor(a, b)) \cup Bin("operator~", r.not, ST!UNot(a))
          \cup Bin("pre-increment", r.preinc, <<inc, inc>>) \cup Bin("pre-decrement", r.predec, <<dec, dec>>)
          \cup Bin("post-increment", r.postinc, <<inc, a>>) \cup Bin("post-decrement", r.postdec, <<dec, a>>)
          \cup Asg("operator+=", r.adda, ST!UAdd(a, b)) \cup Asg("operator-=", r.suba, ST!USub(a, b))
          \cup Asg("operator*=", r.mula, ST!UMul(a, b)) \cup Asg("operator&=", r.anda, ST!UAnd(a, b))
          \cup Asg("operator|=", r.ora, ST!UOr(a, b)) \cup Asg("operator^=", r.xora, ST!UXor(a, b))
          \cup Bin("self-assignment", r.selfa, <<ST!UAdd(a, a), ST!USub(a, a), ST!UMul(a, a), ST!UAnd(a, a), ST!UOr(a, a), ST!UXor(a, a)>>)
          \cup Bin("comparison", r.cmp, <<B01(lt), B01(~gt), B01(gt), B01(~lt), B01(eq), B01(~eq)>>)
          \cup Bin("get", r.get, <<a, b>>)

(* ---- transparent wrappers: the wrapper exposes exactly the wrapped object ----
   in      the value put into the wrapper        out    the value read through it
   same    1 iff the accessor returned the very object that was wrapped (where the
           wrapper refers to / owns one object: reference, unique_ptr, shared_ptr
           and its copies); -1 where identity is not part of the contract
   written a value stored through the accessor   after  the value then read from the
           wrapped object itself (reference) / through the accessor again *)
WrapReasons(r) ==
  If(r.out # r.in, "exposes-a-different-value@" \o r.kind)
  \cup If(r.same = 0, "exposes-a-different-object@" \o r.kind)
  \cup If(r.after # r.written, "write-through-lost@" \o r.kind)

(* ---- OBSERVED ONLY (outside the statement of C17) --------------------------------

   wrapx: small wrapper observations, each kind with the result its documentation
   states as a function of the logged inputs:
     reference_to_base / reference_to_const   "Converts a reference to a base class" /
        "to a const reference": the same object, [same-object flag, value read]
     recursive_copy(_assign)   recursive(recursive const &) makes a new Type from
        other.get(): writing through the copy does not reach the original
        [original's value, copy's value after the write, distinct objects]
     recursive_move            the moved-to holds the value; the moved-from can be assigned
     st_map_*, st_apply_*      strong_typedef_map: "value _function(_input.get())";
                               strong_typedef_apply: "value _function(_strong_typedef.get(), ...)"
     st_construct_cast         "Applies a cast from fcppt.cast and then construct[s]"
     st_output / st_input / st_io_roundtrip   "Output/Input operator for strong typedefs"
                               = that of the wrapped int (decimal text; a failed extraction
                               leaves the strong typedef unchanged)
     function_*                fcppt::function / make_function call the wrapped callable
                               (the driver wraps x |-> 3x+1 and (x,y) |-> x-2y)
     unique_ptr_to_const, unique_ptr_dynamic_cast_*, unique_ptr_from_std_null *)
RECURSIVE DecDigits(_)
DecDigits(v) == IF v < 10 THEN <<48 + v>> ELSE DecDigits(v \div 10) \o <<48 + (v % 10)>>
Decimal(v) == IF v < 0 THEN <<45>> \o DecDigits(0 - v) ELSE DecDigits(v)
RECURSIVE SkipSpaces(_)
SkipSpaces(t) == IF t # <<>> /\ Head(t) = 32 THEN SkipSpaces(Tail(t)) ELSE t
RECURSIVE ReadDigits(_, _, _)
ReadDigits(t, acc, n) == IF t # <<>> /\ Head(t) \in 48..57 THEN ReadDigits(Tail(t), acc * 10 + (Head(t) - 48), n + 1) ELSE <<acc, n>>
ParseInt(text, unchanged) ==
  LET t == SkipSpaces(text)
      neg == t # <<>> /\ Head(t) = 45
      d == ReadDigits(IF neg THEN Tail(t) ELSE t, 0, 0)
  IN IF d[2] = 0 THEN <<0, unchanged>> ELSE <<1, IF neg THEN 0 - d[1] ELSE d[1]>>

WrapXExpected(k, in) ==
  CASE k \in {"reference_to_base", "reference_to_const"} -> <<1, in[1]>>
    [] k \in {"recursive_copy", "recursive_copy_assign"} -> <<in[1], in[2], 1>>
    [] k = "recursive_move" -> <<in[1], in[2]>>
    [] k = "st_map_neg" -> <<0 - in[1]>>
    [] k = "st_map_double_long" -> <<2 * in[1]>>
    [] k = "st_apply_sub" -> <<in[1] - in[2]>>
    [] k = "st_apply_muladd" -> <<in[1] * in[2] + in[3]>>
    [] k = "st_construct_cast" -> <<in[1]>>
    [] k = "st_output" -> Decimal(in[1])
    [] k = "st_io_roundtrip" -> <<in[1], 1>>
    [] k = "st_input" -> ParseInt(in, 99)
    [] k \in {"function_call", "function_copy_call", "make_function_call"} -> <<3 * in[1] + 1>>
    [] k = "make_function2_call" -> <<in[1] - 2 * in[2]>>
    [] k = "unique_ptr_to_const" -> <<1, in[1], 0>>
    [] k \in {"unique_ptr_dynamic_cast_ok", "unique_ptr_dynamic_cast_fail"} -> <<1, 0>>
    [] k = "unique_ptr_from_std_null" -> <<0>>
    [] OTHER -> <<"unknown wrapx kind">>
WrapXReasons(r) == If(r.out # WrapXExpected(r.kind, r.in), "result-differs-from-the-documented-one@" \o r.kind)

(* own: a history of smart-pointer operations, folded through Ownership.tla.  After
   each operation the harness logs, per strong slot [pointee id, use_count, unique,
   get_pointer() = &*p], per weak slot [present, use_count, expired], per unique slot the
   pointee id, per object [constructor runs, destructor runs], and what the operation
   returned.  The fold stops at the first operation that is not explained. *)
OW(ns, nw, nu) == INSTANCE Ownership WITH NO <- 8, NS <- ns, NW <- nw, NU <- nu, Bug <- "none"

ObsReasons(ns, nw, nu, st, ret, o, tag) ==
  If(o.ret # ret, tag \o "/returned")
  \cup If(\E s \in 1..ns : o.sh[s][1] # st.sh[s], tag \o "/strong-slot-holds-another-object")
  \cup If(\E s \in 1..ns : st.sh[s] # 0 /\ o.sh[s][2] # OW(ns, nw, nu)!UseCount(st, s), tag \o "/use_count")
  \cup If(\E s \in 1..ns : st.sh[s] # 0 /\ (o.sh[s][3] = 1) # (OW(ns, nw, nu)!UseCount(st, s) = 1), tag \o "/unique")
  \cup If(\E s \in 1..ns : o.sh[s][4] # 1, tag \o "/get_pointer-differs-from-dereference")
  \cup If(\E w \in 1..nw : (o.wk[w][1] = 1) # (st.wk[w] >= 0), tag \o "/weak-slot")
  \cup If(\E w \in 1..nw : st.wk[w] >= 0 /\ o.wk[w][2] # OW(ns, nw, nu)!WeakUseCount(st, w), tag \o "/weak-use_count")
  \cup If(\E w \in 1..nw : st.wk[w] >= 0 /\ (o.wk[w][3] = 1) # OW(ns, nw, nu)!Expired(st, w), tag \o "/expired")
  \cup If(\E u \in 1..nu : o.un[u] # st.un[u], tag \o "/unique-slot-holds-another-object")
  \cup If(Len(o.obj) # Cardinality({p \in 1..8 : st.obj[p].made}), tag \o "/number-of-objects-constructed")
  \cup If(\E p \in 1..Len(o.obj) : o.obj[p][1] # 1, tag \o "/constructor-runs")
  \cup If(\E p \in 1..Len(o.obj) : o.obj[p][2] # st.obj[p].dtors, tag \o "/destructor-runs")

RECURSIVE OwnFold(_, _, _)
OwnFold(r, j, st) ==
  IF j > Len(r.ops)
  THEN (* every slot has been destroyed: every constructed object was destroyed exactly once *)
       If(Len(r.end) # Cardinality({p \in 1..8 : st.obj[p].made}) \/ \E p \in 1..Len(r.end) : r.end[p] # <<1, 1>>,
          "end/not-every-object-destroyed-exactly-once")
  ELSE LET a == r.ops[j] IN
       IF ~OW(r.ns, r.nw, r.nu)!Pre(st, a) THEN {"HARNESS-PRECONDITION"}
       ELSE LET e == OW(r.ns, r.nw, r.nu)!Eff(st, a)
                why == ObsReasons(r.ns, r.nw, r.nu, e.st, e.ret, r.obs[j], a.op)
            IN IF why # {} THEN why ELSE OwnFold(r, j + 1, e.st)

OwnReasons(r) ==
  IF Len(r.obs) # Len(r.ops) THEN {"HARNESS-PRECONDITION"}
  ELSE OwnFold(r, 1, OW(r.ns, r.nw, r.nu)!InitState)

C17Reasons(r) ==
  CASE r.f \in {"order", "orderx"} -> OrderReasons(r)
    [] r.f = "st_int" -> StIntReasons(r)
    [] r.f = "st_u32" -> StU32Reasons(r)
    [] r.f = "wrap" -> WrapReasons(r)
    [] r.f = "wrapx" -> WrapXReasons(r)
    [] r.f = "own" -> OwnReasons(r)
    [] OTHER -> {"unknown-record-kind"}

(* Scope (docs/EXTENSION_BRIEF.md): rejected records of these kinds may become a
   VIOLATION of C17, the other kinds are judged and counted as observations only.
     st_int, st_u32  "strong_typedef arithmetic, bitwise, assignment and comparison operators
                     give exactly the wrapped result of the same operator on the underlying values"
     wrap            "reference, recursive, unique_ptr/shared_ptr and type_iso wrappers expose
                     exactly the wrapped object"
     order           "== is an equivalence that holds exactly when all observable components are
                     equal, != is its negation, < is a strict weak order compatible with ==, and
                     equal values have equal hashes" for the listed types
   Observed only: orderx (an order record, judged like "order", that the harness may mark as
   outside the statement - none at present; the mixed-pointee shared_ptr set was one until the
   fix 0894e76 of operator< was committed),
   wrapx (conversions between wrappers, copy depth of recursive, strong_typedef
   map/apply/IO, fcppt::function), own (ownership, use counts, lifetime, lock/expired). *)
InScope == {"order", "st_int", "st_u32", "wrap"}
=============================================================================
