SPECIFICATION JSpec
CONSTANT Reasons <- C06Reasons
INVARIANT RLVerdict
CONSTRAINT RLConsumed
POSTCONDITION RLPost
CHECK_DEADLOCK FALSE
