SPECIFICATION Spec
CONSTANTS
  N = 34
  BreakCeil = FALSE
INVARIANTS CeilLaw TruncLaw ModLaw ClampLaw NextPow2Law Log2Law IsPow2Law DiffLaw QuotientRepresentable BitLaw SignedBitLaw WrapLaw IntervalLaw
CHECK_DEADLOCK FALSE
