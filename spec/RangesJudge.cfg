SPECIFICATION RLSpec
CONSTANT Reasons <- RangesReasons
INVARIANT RLVerdict
CONSTRAINT RLConsumed
POSTCONDITION RLPost
CHECK_DEADLOCK FALSE
