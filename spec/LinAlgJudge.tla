----------------------------- MODULE LinAlgJudge -----------------------------
(* Judge of the call records written by harness/c14_linalg.cpp: one record per call of a real
   fcppt::math vector / dim / matrix function; LinAlgReasons(r) = {} iff LinAlg.tla explains it.
   Operands and results are nested arrays (vectors: [x,...]; matrices: [[row],...]). *)
EXTENDS LinAlg, RecordLoop

Diff(r, exp) ==
  IF ~(DOMAIN exp \subseteq DOMAIN r) THEN {"HARNESS-PRECONDITION"}
  ELSE {"wrong-" \o k : k \in {k2 \in DOMAIN exp : r[k2] # exp[k2]}}
Pre(c) == IF c THEN {} ELSE {"HARNESS-PRECONDITION"}
Res(r, x) == Diff(r, [r |-> x])

IsVec(v) == Len(v) >= 1
IsMat(A) == Len(A) >= 1 /\ Len(A[1]) >= 1 /\ \A i \in 1..Len(A) : Len(A[i]) = Len(A[1])
SameDim(v, w) == Len(v) = Len(w)
SameShape(A, B) == Rows(A) = Rows(B) /\ Cols(A) = Cols(B)

LinAlgReasons(r) ==
  LET f == r.f IN
  (* vectors and dims (same component-wise semantics) *)
  CASE f = "add" -> Pre(SameDim(r.a, r.b)) \cup Res(r, VAdd(r.a, r.b))
    [] f = "sub" -> Pre(SameDim(r.a, r.b)) \cup Res(r, VSub(r.a, r.b))
    [] f = "mul" -> Pre(SameDim(r.a, r.b)) \cup Res(r, VMul(r.a, r.b))
    [] f = "neg" -> Res(r, VNeg(r.a))
    [] f \in {"scale", "scale_left"} -> Res(r, VScale(r.k, r.a))
    [] f = "add_assign" -> Pre(SameDim(r.a, r.b)) \cup Res(r, VAdd(r.a, r.b))
    [] f = "sub_assign" -> Pre(SameDim(r.a, r.b)) \cup Res(r, VSub(r.a, r.b))
    [] f = "mul_assign" -> Pre(SameDim(r.a, r.b)) \cup Res(r, VMul(r.a, r.b))
    [] f = "scale_assign" -> Res(r, VScale(r.k, r.a))
    [] f = "dot" -> Pre(SameDim(r.a, r.b)) \cup Res(r, Dot(r.a, r.b))
    [] f = "cross" -> Pre(Len(r.a) = 3 /\ Len(r.b) = 3) \cup Res(r, Cross(r.a, r.b))
    [] f = "length_square" -> Res(r, LengthSquare(r.a))
    [] f = "narrow_cast" -> Pre(r.n >= 1 /\ r.n < Len(r.a)) \cup Res(r, NarrowCast(r.a, r.n))
    [] f = "push_back" -> Res(r, PushBack(r.a, r.x))
    [] f \in {"structure_cast", "sign_cast", "to_dim", "to_vector", "copy"} -> Res(r, StructureCast(r.a))
    [] f = "null" -> Res(r, Null(r.n))
    [] f = "fill" -> Res(r, Fill(r.n, r.x))
    [] f = "init" -> Res(r, Init(r.n, LAMBDA i : r.c0 + r.c1 * i))
    [] f = "at" -> Pre(r.i >= 0 /\ r.i < Len(r.a)) \cup Res(r, r.a[r.i + 1])
    [] f = "contents" -> Res(r, Contents(r.a))
    [] f = "eq" -> Pre(SameDim(r.a, r.b)) \cup Res(r, r.a = r.b)
    [] f = "ne" -> Pre(SameDim(r.a, r.b)) \cup Res(r, r.a # r.b)
    [] f = "at_set" -> Pre(r.i >= 0 /\ r.i < Len(r.a)) \cup Res(r, SetAt(r.a, r.i + 1, r.x))
    [] f = "lt" -> Pre(SameDim(r.a, r.b)) \cup Res(r, Less(r.a, r.b))
    [] f = "gt" -> Pre(SameDim(r.a, r.b)) \cup Res(r, Gt(r.a, r.b))
    [] f = "le" -> Pre(SameDim(r.a, r.b)) \cup Res(r, Le(r.a, r.b))
    [] f = "ge" -> Pre(SameDim(r.a, r.b)) \cup Res(r, Ge(r.a, r.b))
    [] f = "bit_strings" -> Res(r, BitStrings(r.n))
  (* matrices *)
    [] f = "madd" -> Pre(IsMat(r.a) /\ IsMat(r.b) /\ SameShape(r.a, r.b)) \cup Res(r, MAdd(r.a, r.b))
    [] f = "msub" -> Pre(IsMat(r.a) /\ IsMat(r.b) /\ SameShape(r.a, r.b)) \cup Res(r, MSub(r.a, r.b))
    [] f = "madd_assign" -> Pre(IsMat(r.a) /\ IsMat(r.b) /\ SameShape(r.a, r.b)) \cup Res(r, MAdd(r.a, r.b))
    [] f = "msub_assign" -> Pre(IsMat(r.a) /\ IsMat(r.b) /\ SameShape(r.a, r.b)) \cup Res(r, MSub(r.a, r.b))
    [] f = "mmul" -> Pre(IsMat(r.a) /\ IsMat(r.b) /\ Cols(r.a) = Rows(r.b)) \cup Res(r, MMul(r.a, r.b))
    [] f \in {"mscale", "mscale_left", "mscale_assign"} -> Pre(IsMat(r.a)) \cup Res(r, MScale(r.k, r.a))
    [] f = "mvec" -> Pre(IsMat(r.a) /\ Cols(r.a) = Len(r.v)) \cup Res(r, MVec(r.a, r.v))
    [] f = "transpose" -> Pre(IsMat(r.a)) \cup Res(r, Transpose(r.a))
    [] f = "determinant" -> Pre(IsMat(r.a) /\ Rows(r.a) = Cols(r.a)) \cup Res(r, Det(r.a))
    [] f = "adjugate" -> Pre(IsMat(r.a) /\ Rows(r.a) = Cols(r.a) /\ Rows(r.a) >= 2) \cup Res(r, Adj(r.a))
    [] f = "identity" -> Res(r, Identity(r.n))
    [] f = "minit" -> Pre(r.rows >= 1 /\ r.cols >= 1) \cup
                      Res(r, MInit(r.rows, r.cols, LAMBDA i, j : r.c0 + r.c1 * (i - 1) + r.c2 * (j - 1)))   \* 0-based row / column
    [] f = "translation" -> Res(r, Translation(r.x, r.y, r.z))
    [] f = "scaling" -> Res(r, Scaling(r.x, r.y, r.z))
    [] f = "transform_point" -> Res(r, TransformPoint(r.a, r.v))
    [] f = "transform_direction" -> Res(r, TransformDirection(r.a, r.v))
    [] f = "row" -> Pre(IsMat(r.a) /\ r.i >= 0 /\ r.i < Rows(r.a)) \cup Res(r, Row(r.a, r.i + 1))
    [] f = "mat_at" -> Pre(IsMat(r.a) /\ r.i >= 0 /\ r.i < Rows(r.a) /\ r.j >= 0 /\ r.j < Cols(r.a))
                        \cup Res(r, At(r.a, r.i + 1, r.j + 1))
    [] f = "mat_at_set" -> Pre(IsMat(r.a) /\ r.i >= 0 /\ r.i < Rows(r.a) /\ r.j >= 0 /\ r.j < Cols(r.a))
                            \cup Res(r, MSetAt(r.a, r.i + 1, r.j + 1, r.x))
    [] f = "delete_row_and_column" ->
         Pre(IsMat(r.a) /\ Rows(r.a) >= 2 /\ Cols(r.a) >= 2 /\ r.i >= 0 /\ r.i < Rows(r.a) /\ r.j >= 0 /\ r.j < Cols(r.a))
           \cup Res(r, DeleteRowAndColumn(r.a, r.i + 1, r.j + 1))
    [] f \in {"mstructure_cast", "mcopy"} -> Res(r, r.a)
    [] f = "meq" -> Res(r, r.a = r.b)
    [] f = "mne" -> Res(r, r.a # r.b)
  (* extension round *)
    [] f = "div" -> Pre(SameDim(r.a, r.b)) \cup Res(r, VDiv(r.a, r.b))
    [] f = "div_scalar" -> Res(r, VDivScalar(r.a, r.k))
    [] f = "mod" -> Pre(SameDim(r.a, r.b)) \cup Res(r, VMod(r.a, r.b))
    [] f = "mod_scalar" -> Res(r, VModScalar(r.a, r.k))
    [] f = "ceil_div_signed" -> Res(r, VCeilDivSigned(r.a, r.k))
    [] f = "unit" -> Pre(r.axis >= 0 /\ r.axis < r.n) \cup Res(r, Unit(r.n, r.axis))
    [] f = "is_quadratic" -> Res(r, IsQuadratic(r.a))
    [] f = "infinity_norm" -> Pre(IsMat(r.a)) \cup Res(r, InfinityNorm(r.a))
    [] f \in {"assign", "massign"} -> Res(r, r.b)             \* a = b: afterwards a holds b's values
    [] f = "row_assign" ->                                     \* row i of the matrix := v, other rows untouched
         Pre(IsMat(r.a) /\ r.i >= 0 /\ r.i < Rows(r.a) /\ Len(r.v) = Cols(r.a)) \cup Res(r, SetRow(r.a, r.i + 1, r.v))
    [] f = "row_op" ->                                         \* row i (op)= b (a vector, possibly a row of the same matrix)
         Pre(IsMat(r.a) /\ r.i >= 0 /\ r.i < Rows(r.a) /\ Len(r.b) = Cols(r.a)) \cup
         Res(r, SetRow(r.a, r.i + 1,
                   IF r.op = "+=" THEN VAdd(r.a[r.i + 1], r.b)
                   ELSE IF r.op = "-=" THEN VSub(r.a[r.i + 1], r.b)
                   ELSE VMul(r.a[r.i + 1], r.b)))
    [] f = "row_copy" ->                                       \* row i = row j of the same matrix (through a const view)
         Pre(IsMat(r.a) /\ r.i >= 0 /\ r.i < Rows(r.a) /\ r.j >= 0 /\ r.j < Rows(r.a)) \cup
         Res(r, SetRow(r.a, r.i + 1, r.a[r.j + 1]))
    [] f \in {"inverse", "inverse_1x1"} ->                     \* singular argument: outside the domain, nothing is required
         Pre(IsMat(r.a) /\ Rows(r.a) = Cols(r.a)) \cup
         (IF Det(r.a) = 0 \/ r.r \in InverseAllowed(r.a) THEN {} ELSE {"wrong-r"})
    [] f = "adjugate_1x1" -> Pre(IsMat(r.a) /\ Rows(r.a) = 1 /\ Cols(r.a) = 1) \cup (IF r.r \in AdjAllowed(r.a) THEN {} ELSE {"wrong-r"})
    [] f = "sphere_eq" -> Res(r, r.a = r.b /\ r.ra = r.rb)
    [] f = "sphere_ne" -> Res(r, ~(r.a = r.b /\ r.ra = r.rb))
    [] f = "sphere_members" -> Diff(r, [origin |-> r.a, radius |-> r.ra])
    [] f = "interval_distance" ->
         Pre(r.a[1] <= r.a[2] /\ r.b[1] <= r.b[2]) \cup
         (IF r.r \in IntervalDistanceAllowed(r.a, r.b) THEN {} ELSE {"wrong-r"})
    [] OTHER -> {"unknown-function"}

(* SCOPE.  A record kind is IN SCOPE iff the statement of C14 (properties.jsonl) covers it:
   "Over exact (integer) scalars, vector/dim/matrix operators are the component-wise and
   linear-algebraic operations: +, -, scalar and component-wise * are computed per component; matrix
   product is associative and distributes over +; transpose is an involution with (AB)^T = B^T A^T;
   determinant is multiplicative and A * adjugate(A) = det(A) * identity; matrix-vector product, dot,
   cross, length_square, identity, translation/scaling builders, row/at access, structure_cast,
   narrow_cast/push_back, null, fill, init and comparison agree with the same operations on plain
   arrays." -- quantified over "static and view storage types".
   Only these kinds can produce a VIOLATION; all other kinds are OBSERVED ONLY (judged and counted,
   disagreements reported as observations). *)
InScope ==
  {"add", "sub", "mul", "neg", "scale", "scale_left",                 \* "+, -, scalar and component-wise *"
   "add_assign", "sub_assign", "mul_assign", "scale_assign", "row_op", \* the same operators in compound form, static and view storage
   "madd", "msub", "madd_assign", "msub_assign", "mscale", "mscale_left", "mscale_assign",
   "mmul", "transpose", "determinant", "adjugate", "mvec", "dot", "cross", "length_square",
   "identity", "translation", "scaling", "row", "mat_at", "at",        \* "row/at access"
   "at_set", "mat_at_set",                                             \* "row/at access", non-const: the element written is the element read
   "structure_cast", "mstructure_cast", "narrow_cast", "push_back", "null", "fill", "init", "minit",
   "eq", "ne", "lt", "gt", "le", "ge", "meq", "mne",                   \* "comparison"
   \* "static and view storage types ... agree with the same operations on plain arrays": an object of
   \* one storage type assigned / constructed from an object of the other one (the template operator=
   \* and converting constructor of fcppt, math/detail/assign.hpp and copy.hpp) holds the same array;
   \* this is how operands of view type are read and written (round 3: coordinator's reading)
   "assign", "massign", "copy", "mcopy", "row_assign", "row_copy"}
Infra == {"HARNESS-PRECONDITION", "unknown-function"}
LinAlgReasonsScoped(r) ==
  {IF w \in Infra THEN w ELSE IF r.f \in InScope THEN w ELSE "observed-" \o w : w \in LinAlgReasons(r)}
=============================================================================
