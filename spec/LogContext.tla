--------------------------- MODULE LogContext ---------------------------
(* Abstract sequential specification of fcppt::log::context / fcppt::log::object
   (property C19: log levels follow "latest setting on a prefix wins").

   Sources: doc/files/modules/log.doxygen (sections "Log hierarchy", "Formatting"),
   the header comments of context.hpp / object.hpp / level.hpp / format/chain.hpp /
   level_stream.hpp, and examples/log/{context,formatting}.cpp.

   State of a context:
     lvl   : [existing paths -> 0..6]   a path is a sequence of names, <<>> is the root node;
                                        0..5 = verbose..fatal, 6 = "disabled" (empty optional_level)
     root  : the level the context was constructed with
     obj   : [bound object ids -> [path, fmt]]   the node a log object refers to and the
                                        prefix its own formatter prepends (<<>> = no formatter)
     lf    : level-stream formatter of each of the six levels
   A name is a sequence of code points (TLA+ strings are not indexable, and the emitted
   text is compared code point by code point).

   Operations (one operator each, defining the new state AND the returned value):
     set(loc,l)     creates the missing nodes along loc, each inheriting its parent's CURRENT
                    level, then assigns l to every existing path that has loc as a prefix
                    ("Note that every location below is also updated")
     get(loc)       level of the deepest existing prefix of loc (context.cpp: fold_break stops
                    at the first missing child and returns the level of the node reached)
     create(o,...)  find-or-create the node  loc \o <<name>>  (object.cpp: find_location,
                    then find_child), new nodes inherit their parent's current level
     level(o)       level of o's node;   enabled(o,l) = level is not "disabled" and l >= level
     log(o,l,msg)   writes to the sink of level l iff enabled(o,l); the text is
                    objFormatter( "n1: n2: ... nk: " \o levelFormatter_l(msg) )   (documented
                    order: "This is a formatting test: fcppt: debug: test")

   The same operators are used by
     - the model below (MC_LogContext*.cfg): all histories over a small tree, ghost variable
       `sets`, invariant LatestPrefixWins and companions; script emission;
     - LogContextConc.tla (abstract state advanced at linearisation points);
     - LogTrace.tla, the judge of every recorded event of the real code. *)
EXTENDS LogFormat, TLC, Json

CONSTANTS Names,          \* names used by the model checker (sequences of code points)
          MaxDepth,       \* depth bound of the model checker's tree
          SetLevels,      \* levels used by generated set operations
          RootLevels,     \* root levels of generated contexts
          Objs,           \* object ids of the model checker
          MaxSets,        \* bound on the number of set calls in a generated history
          MaxOps,         \* bound on the length of a generated history
          GenObservers,   \* generate get/level/enabled/log steps too (script emission); the
                          \* model check proper quantifies over them in its invariants instead
          SetNodeOnlyBug, \* vacuity guard: set updates only the node, not the sub-tree
          InheritRootBug  \* vacuity guard: new children inherit the root node's level

(* name sets for the cfg files (a cfg cannot contain tuples): Names <- NamesAB *)
NamesAB == {<<97>>, <<98>>}
NamesABC == {<<97>>, <<98, 98>>, <<99>>}

Disabled == 6
LevelRange == 0..6
MsgLevels == 0..5

-----------------------------------------------------------------------------
(* paths *)
IsPrefix(p, q) == Len(p) <= Len(q) /\ SubSeq(q, 1, Len(p)) = p
Parent(p) == SubSeq(p, 1, Len(p) - 1)

RECURSIVE PathsUpTo(_, _)
PathsUpTo(N, d) ==
  IF d = 0 THEN {<<>>}
  ELSE LET P == PathsUpTo(N, d - 1) IN P \cup {Append(p, n) : p \in P, n \in N}

SetMax(S) == CHOOSE x \in S : \A y \in S : y <= x

(* create the missing nodes along path; each inherits its parent's current level *)
RECURSIVE EnsureFrom(_, _, _)
EnsureFrom(lv, path, k) ==
  IF k > Len(path) THEN lv
  ELSE LET p == SubSeq(path, 1, k) IN
       IF p \in DOMAIN lv THEN EnsureFrom(lv, path, k + 1)
       ELSE EnsureFrom(lv @@ (p :> (IF InheritRootBug THEN lv[<<>>] ELSE lv[Parent(p)])), path, k + 1)
Ensure(lv, path) == EnsureFrom(lv, path, 1)

SetOp(lv, loc, l) ==
  LET e == Ensure(lv, loc) IN
  [p \in DOMAIN e |-> IF (IF SetNodeOnlyBug THEN p = loc ELSE IsPrefix(loc, p)) THEN l ELSE e[p]]

DeepestPrefix(lv, loc) ==
  SubSeq(loc, 1, SetMax({k \in 0..Len(loc) : SubSeq(loc, 1, k) \in DOMAIN lv}))
GetOp(lv, loc) == lv[DeepestPrefix(lv, loc)]

EnabledOp(nodeLevel, l) == nodeLevel # Disabled /\ l >= nodeLevel

(* the property's reference notion: level of the most recent set whose location is a prefix of
   p, the context's root level if there is none *)
Latest(ss, rt, p) ==
  LET idx == {i \in 1..Len(ss) : IsPrefix(ss[i].loc, p)} IN
  IF idx = {} THEN rt ELSE ss[SetMax(idx)].l

-----------------------------------------------------------------------------
(* text: LevelName, Prefixes, LevelFmt, LogText, ... are defined in LogFormat.tla *)
NoOut == [i \in 1..6 |-> <<>>]
DefaultLf == [i \in 1..6 |-> [k |-> 1, pre |-> <<>>, suf |-> <<>>]]

-----------------------------------------------------------------------------
(* operations as records; fields used: op, loc, l, o, kind, par, name, fmt, msg *)
NewCtx(rt, lf) == [lvl |-> (<<>> :> rt), root |-> rt, obj |-> <<>>, lf |-> lf]

CreatePath(s, ev) ==
  IF ev.kind = "ctx" THEN <<ev.name>>
  ELSE IF ev.kind = "loc" THEN Append(ev.loc, ev.name)
  ELSE Append(s.obj[ev.par].path, ev.name)

Bound(s) == DOMAIN s.obj

(* API / driver preconditions: an event violating them is a harness bug, not a verdict *)
Pre(s, ev) ==
  CASE ev.op = "set" -> ev.l \in LevelRange /\ \A i \in 1..Len(ev.loc) : ev.loc[i] # <<>>
    [] ev.op = "get" -> TRUE
    [] ev.op = "create" -> /\ ev.name # <<>>
                           /\ ev.kind \in {"ctx", "loc", "parent"}
                           /\ (ev.kind = "parent" => ev.par \in Bound(s))
                           /\ (ev.kind = "loc" => \A i \in 1..Len(ev.loc) : ev.loc[i] # <<>>)
    [] ev.op \in {"level"} -> ev.o \in Bound(s)
    [] ev.op \in {"enabled", "log", "logm", "acc"} -> ev.o \in Bound(s) /\ ev.l \in MsgLevels
    [] OTHER -> FALSE

NoRet == -1

(* new state and returned values: ret (a level, or NoRet), rb (a boolean), out (text written to
   each of the six sinks by this call) *)
Eff(s, ev) ==
  CASE ev.op = "set" ->
         [st |-> [s EXCEPT !.lvl = SetOp(s.lvl, ev.loc, ev.l)], ret |-> NoRet, rb |-> FALSE, out |-> NoOut]
    [] ev.op = "get" ->
         [st |-> s, ret |-> GetOp(s.lvl, ev.loc), rb |-> FALSE, out |-> NoOut]
    [] ev.op = "create" ->
         LET path == CreatePath(s, ev)
             rec == [path |-> path, fmt |-> ev.fmt]
         IN [st |-> [s EXCEPT !.lvl = Ensure(s.lvl, path),
                              !.obj = [i \in DOMAIN s.obj \cup {ev.o} |-> IF i = ev.o THEN rec ELSE s.obj[i]]],
             ret |-> NoRet, rb |-> FALSE, out |-> NoOut]
    [] ev.op = "level" ->
         [st |-> s, ret |-> s.lvl[s.obj[ev.o].path], rb |-> FALSE, out |-> NoOut]
    [] ev.op = "enabled" ->
         [st |-> s, ret |-> NoRet, rb |-> EnabledOp(s.lvl[s.obj[ev.o].path], ev.l), out |-> NoOut]
    [] ev.op = "acc" ->      \* accessors: no effect; rb = the enabled decision is not used
         [st |-> s, ret |-> NoRet, rb |-> FALSE, out |-> NoOut]
    [] ev.op \in {"log", "logm"} ->
         LET ob == s.obj[ev.o]
             en == EnabledOp(s.lvl[ob.path], ev.l)
         IN [st |-> s, ret |-> NoRet, rb |-> en,
             out |-> IF en
                     THEN [i \in 1..6 |-> IF i = ev.l + 1 THEN LogText(ob.fmt, ob.path, s.lf[i], ev.l, ev.msg) ELSE <<>>]
                     ELSE NoOut]

-----------------------------------------------------------------------------
(* Model: all histories over a small tree *)
VARIABLES st, sets, hist
vars == <<st, sets, hist>>

Locs == PathsUpTo(Names, MaxDepth)
ObjFmt(o) == IF o % 2 = 0 THEN <<79, 48 + o, 124>> ELSE <<>>     \* "O<o>|" for even ids
TestMsg == <<109>>

B0 == [op |-> "", loc |-> <<>>, l |-> 0, o |-> 0, kind |-> "", par |-> 0, name |-> <<>>, fmt |-> <<>>, msg |-> <<>>]

(* levels of the generated log steps; a model whose contexts start DISABLED (root level "none",
   MC_LogContextScripts_none.cfg) logs at fatal: "none" must not behave like the highest level *)
GenLogLevels == IF Disabled \in RootLevels THEN {4, 5} ELSE {1, 4}

OpsOf(s) ==
  LET free == Objs \ Bound(s)
      newo == IF free = {} THEN {} ELSE {CHOOSE o \in free : \A q \in free : o <= q}
  IN  {[B0 EXCEPT !.op = "set", !.loc = p, !.l = l] : p \in Locs, l \in (IF Len(sets) < MaxSets THEN SetLevels ELSE {})}
  \cup {[B0 EXCEPT !.op = "get", !.loc = p] : p \in (IF GenObservers THEN Locs ELSE {})}
  \cup {[B0 EXCEPT !.op = "create", !.o = o, !.kind = "ctx", !.name = n, !.fmt = ObjFmt(o)] : o \in newo, n \in Names}
  \cup {[B0 EXCEPT !.op = "create", !.o = o, !.kind = "loc", !.loc = p, !.name = n, !.fmt = ObjFmt(o)] :
          o \in newo, n \in Names, p \in {q \in Locs : Len(q) < MaxDepth}}
  \cup {[B0 EXCEPT !.op = "create", !.o = o, !.kind = "parent", !.par = q, !.name = n, !.fmt = ObjFmt(o)] :
          o \in newo, n \in Names, q \in {r \in Bound(s) : Len(s.obj[r].path) < MaxDepth}}
  \cup {[B0 EXCEPT !.op = "level", !.o = o] : o \in (IF GenObservers THEN Bound(s) ELSE {})}
  \cup {[B0 EXCEPT !.op = "enabled", !.o = o, !.l = l] : o \in (IF GenObservers THEN Bound(s) ELSE {}), l \in {0, 3, 5}}
  \cup {[B0 EXCEPT !.op = "log", !.o = o, !.l = l, !.msg = TestMsg] : o \in (IF GenObservers THEN Bound(s) ELSE {}), l \in GenLogLevels}

Init ==
  /\ \E r \in RootLevels : st = NewCtx(r, DefaultLf)
  /\ sets = <<>>
  /\ hist = <<[B0 EXCEPT !.op = "reset", !.l = st.root]>>

Step(a) ==
  /\ Len(hist) <= MaxOps
  /\ Pre(st, a)
  /\ st' = Eff(st, a).st
  /\ sets' = IF a.op = "set" THEN Append(sets, [loc |-> a.loc, l |-> a.l]) ELSE sets
  /\ hist' = Append(hist, a)

ASet == \E a \in OpsOf(st) : a.op = "set" /\ Step(a)
ACreate == \E a \in OpsOf(st) : a.op = "create" /\ Step(a)
AObserve == \E a \in OpsOf(st) : a.op \notin {"set", "create"} /\ Step(a)
Next == ASet \/ ACreate \/ AObserve

Spec == Init /\ [][Next]_vars

(* `sets` is a ghost the invariants refer to, so it stays in the view; only `hist` is hidden *)
View == <<st, sets>>

-----------------------------------------------------------------------------
(* Invariants *)
TypeOK ==
  /\ DOMAIN st.lvl \subseteq Locs
  /\ \A p \in DOMAIN st.lvl : st.lvl[p] \in LevelRange
  /\ st.root \in LevelRange
  /\ Bound(st) \subseteq Objs
  /\ \A o \in Bound(st) : st.obj[o].path \in DOMAIN st.lvl /\ st.obj[o].path # <<>>

PrefixClosed == \A p \in DOMAIN st.lvl : p = <<>> \/ Parent(p) \in DOMAIN st.lvl

(* THE property, on the model: every existing node carries the level of the most recent set on
   one of its prefixes, the root level if there is none *)
LatestPrefixWins == \A p \in DOMAIN st.lvl : st.lvl[p] = Latest(sets, st.root, p)

(* ... and so does what get reports for ANY location, existing or not *)
GetLaw == \A p \in Locs : GetOp(st.lvl, p) = Latest(sets, st.root, p)

(* ... and the enabled() decision of every object *)
EnabledLaw ==
  \A o \in Bound(st) : \A l \in MsgLevels :
    LET L == Latest(sets, st.root, st.obj[o].path) IN
    Eff(st, [B0 EXCEPT !.op = "enabled", !.o = o, !.l = l]).rb = (L # Disabled /\ l >= L)

(* a message is emitted exactly when enabled, on the sink of its level only, and its text is
   object formatter, then the location names root to leaf, then the level formatter *)
LogLaw ==
  \A o \in Bound(st) : \A l \in MsgLevels :
    LET e == Eff(st, [B0 EXCEPT !.op = "log", !.o = o, !.l = l, !.msg = TestMsg])
        L == Latest(sets, st.root, st.obj[o].path)
    IN /\ (e.out # NoOut) = (L # Disabled /\ l >= L)
       /\ \A i \in 1..6 : i # l + 1 => e.out[i] = <<>>
       /\ e.out # NoOut =>
            e.out[l + 1] = st.obj[o].fmt \o Prefixes(st.obj[o].path) \o LevelName[l + 1] \o ColonSpace \o TestMsg \o <<10>>

(* the generator only produces operations satisfying the preconditions *)
GeneratorSound == \A a \in OpsOf(st) : Pre(st, a)

(* node existence is unobservable: a model in which every path exists from the start (used by
   the judge of concurrent histories) reports the same levels *)
AllExist(lv) == [p \in Locs |-> GetOp(lv, p)]
RECURSIVE ReplaySets(_, _)
ReplaySets(lv, ss) == IF ss = <<>> THEN lv ELSE ReplaySets(SetOp(lv, Head(ss).loc, Head(ss).l), Tail(ss))
TotalModelAgrees ==
  ~(SetNodeOnlyBug \/ InheritRootBug) =>
    AllExist(st.lvl) = ReplaySets([p \in Locs |-> st.root], sets)

(* script emission: with EmitScripts as a CONSTRAINT TLC prints the operation history of every
   generated transition *)
EmitScripts == PrintT("SCRIPT " \o ToJson(hist))
=============================================================================
