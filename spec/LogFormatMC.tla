--------------------------- MODULE LogFormatMC ---------------------------
(* Model checking of LogFormat.tla (extension round of C19).
   LawSpec: the bounded input space is the set of initial states (DESIGN 2.1); the laws are
   invariants.  LsSpec: fcppt::log::level_stream as a small state machine (log / sink / get),
   operational state against the functional definition LsRun, and "the latest sink wins". *)
EXTENDS LogFormat, TLC

CONSTANTS ChainSwapBug,    \* vacuity guard: chain composes child (.) parent
          SinkIgnoredBug,  \* vacuity guard: level_stream::sink has no effect
          MaxSteps

VARIABLES a, b, c, l, s,          \* formatters, a level, a string
          cur, steps, outs        \* level_stream: current sink, steps so far (ghost), outputs
mvars == <<a, b, c, l, s, cur, steps, outs>>

Fs == {FNone, FUser(<<65>>), FPrefix(<<66, 66>>), FDefault(1), FInserter(<<60>>, <<62>>)}
Strings == {LevelName[i] : i \in 1..6}
           \cup {<<>>, <<68,101,98,117,103>>, <<100,101,98,117>>, <<100,101,98,117,103,32>>,
                 <<102,99,112,112,116,95,109,97,120,105,109,117,109>>}   \* "", "Debug", "debu", "debug ", "fcppt_maximum"
TestText == <<116>>
Paths == {<<>>, << <<97>> >>, << <<97>>, <<98,98>> >>, << <<97>>, <<98,98>>, <<99>> >>}

LawInit ==
  /\ a \in Fs /\ b \in Fs /\ c \in Fs /\ l \in 0..5 /\ s \in Strings
  /\ cur = 1 /\ steps = <<>> /\ outs = <<>>
LawSpec == LawInit /\ [][UNCHANGED mvars]_mvars

RECURSIVE TreeFmt(_)
TreeFmt(path) == IF path = <<>> THEN FNone ELSE Chain(ChainSwapBug, FPrefix(Head(path)), TreeFmt(Tail(path)))

Ch(x, y) == Chain(ChainSwapBug, x, y)

RoundTrip == LevelFromString(LevelToString(l)) = l
NamesDistinct == \A i \in 0..5 : \A j \in 0..5 : LevelToString(i) = LevelToString(j) => i = j
FromStringSound ==
  /\ LevelFromString(s) \in 0..6
  /\ LevelFromString(s) # NoLevel => LevelToString(LevelFromString(s)) = s
  /\ (\E i \in 0..5 : LevelToString(i) = s) => LevelFromString(s) # NoLevel
DefaultStreamLaw == DefaultStream(l) = (IF l \in {4, 5} THEN 1 ELSE 0)
ChainUnit == Ch(FNone, a) = a /\ Ch(a, FNone) = a
ChainAssoc == Apply(Ch(Ch(a, b), c), TestText) = Apply(Ch(a, Ch(b, c)), TestText)
(* "parent (.) child" *)
ChainOrder == Apply(Ch(a, b), TestText) = Apply(a, Apply(b, TestText))
(* the closed formula used by the judge equals the documented composition: object formatter,
   chained with the prefix formatters of the location root to leaf, chained with the level
   stream's formatter *)
LogTextIsChain ==
  \A p \in Paths :
    LET ofmt == IF a.k = 3 THEN a.pre ELSE <<>>
        of == IF a.k = 3 THEN a ELSE FNone
        lf == [k |-> 1, pre |-> <<>>, suf |-> <<>>]
    IN LogText(ofmt, p, lf, l, TestText) = Apply(Ch(Ch(of, TreeFmt(p)), FDefault(l)), TestText)
       /\ ObjectFormatterText(ofmt, p, TestText) = Apply(Ch(of, TreeFmt(p)), TestText)
MacroLaw == MacroEvalsOK(TRUE, 1) /\ MacroEvalsOK(FALSE, 0) /\ ~MacroEvalsOK(FALSE, 1) /\ ~MacroEvalsOK(TRUE, 0)

-----------------------------------------------------------------------------
(* level_stream machine: own formatter a, additional formatter b, sinks 1 and 2 *)
LsInit ==
  /\ a \in Fs /\ b \in Fs /\ c = FNone /\ l = 0 /\ s = <<>>
  /\ cur = 1 /\ steps = <<>> /\ outs = <<>>

LsLog ==
  /\ steps' = Append(steps, [s |-> "log", add |-> b, msg |-> TestText])
  /\ outs' = Append(outs, [k |-> cur, text |-> Apply(Chain(FALSE, b, a), TestText)])
  /\ UNCHANGED cur
LsSink(k) ==
  /\ steps' = Append(steps, [s |-> "sink", k |-> k])
  /\ outs' = Append(outs, [k |-> 0, text |-> <<>>])
  /\ cur' = IF SinkIgnoredBug THEN cur ELSE k
LsGet ==
  /\ steps' = Append(steps, [s |-> "get"])
  /\ outs' = Append(outs, [k |-> cur, text |-> <<>>])
  /\ UNCHANGED cur
LsNext ==
  /\ Len(steps) < MaxSteps
  /\ (LsLog \/ LsGet \/ \E k \in {1, 2} : LsSink(k))
  /\ UNCHANGED <<a, b, c, l, s>>
LsSpec == LsInit /\ [][LsNext]_mvars

(* the functional definition used by the judge describes the machine *)
LsRunAgrees == outs = LsRun(SinkIgnoredBug, a, 1, steps)
(* "Sets a new sink": every log / get after a sink(k) step refers to the k of the latest one *)
SinkLatestWins ==
  \A i \in 1..Len(steps) :
    steps[i].s \in {"log", "get"} =>
      LET sk == {j \in 1..(i - 1) : steps[j].s = "sink"} IN
      outs[i].k = IF sk = {} THEN 1 ELSE steps[CHOOSE j \in sk : \A j2 \in sk : j2 <= j].k
(* the additional formatter is the outer one: its output comes first *)
AdditionalFirst ==
  \A i \in 1..Len(steps) : steps[i].s = "log" => outs[i].text = Apply(b, Apply(a, TestText))
=============================================================================
