----------------------------- MODULE MCIoStream -----------------------------
(* Model check of the input-stream helpers of IoStream.tla: all texts of length <= MaxLen over
   {a, b, blank} are the initial states; every sequence of up to MaxOps operations is explored. *)
EXTENDS IoStream, TLC

CONSTANTS MaxLen, MaxOps, Bug

VARIABLES t, st, log    \* log: sequence of <<operation, observation, position before>>
vars == <<t, st, log>>

A == 97
B == 98
Chars == {A, B, 32}
Ops == {<<"get">>, <<"peek">>, <<"extract">>, <<"expect", A>>, <<"expect", B>>, <<"to_string">>}

\* seeded defects for the vacuity guards
Do(op) ==
  CASE Bug = "peek_consumes" /\ op[1] = "peek" -> Get(t, st)
    [] Bug = "to_string_from_start" /\ op[1] = "to_string" -> [st |-> [st EXCEPT !.pos = Len(t)], obs |-> <<t>>]
    [] Bug = "extract_keeps_blanks" /\ op[1] = "extract" -> Get(t, st)
    [] Bug = "expect_never_fails" /\ op[1] = "expect" -> [Extract(t, st) EXCEPT !.obs = <<0>>]
    [] OTHER -> Apply(t, st, op)

Init == /\ t \in UNION {[1..n -> Chars] : n \in 0..MaxLen} /\ st = StreamInit /\ log = <<>>

Step(op) ==
  /\ Len(log) < MaxOps
  /\ ~(op[1] = "to_string" /\ st.bad)
  /\ LET r == Do(op) IN /\ st' = r.st /\ log' = Append(log, <<op, r.obs, st.pos>>)
  /\ UNCHANGED t

Next == \E op \in Ops : Step(op)
Spec == Init /\ [][Next]_vars

TypeOK == st.pos \in 0..Len(t) /\ st.bad \in BOOLEAN /\ st.eof \in BOOLEAN

\* peek shows what the next get returns and consumes nothing
LawPeekPure ==
  \A i \in 1..Len(log) :
    log[i][1][1] = "peek" =>
      /\ (i < Len(log) => log[i + 1][3] = log[i][3])
      /\ (i < Len(log) /\ log[i + 1][1][1] = "get" => log[i + 1][2] = log[i][2])

\* the characters handed out by get are the text, in order, without gaps (round trip: a text
\* written to a stream is read back by get until the empty optional)
LawGetReconstructs ==
  (\A i \in 1..Len(log) : log[i][1][1] = "get") =>
    /\ [i \in 1..Len(SelectSeq(log, LAMBDA e : e[2] # <<>>)) |-> log[i][2][1]] = SubSeq(t, 1, st.pos)
    /\ (\E i \in 1..Len(log) : log[i][2] = <<>>) => st.pos = Len(t)

\* stream_to_string returns everything that has not been consumed
LawToStringComplete ==
  \A i \in 1..Len(log) :
    log[i][1][1] = "to_string" => SubSeq(t, 1, log[i][3]) \o log[i][2][1] = t

\* formatted extraction never hands out a blank; expect reports failure iff the next non-blank
\* character is missing or different
LawExtract ==
  \A i \in 1..Len(log) :
    /\ log[i][1][1] = "extract" /\ log[i][2] # <<>> => ~IsSpace(log[i][2][1])
    /\ log[i][1][1] = "expect" /\ log[i][2] = <<0>> =>
         \E p \in (log[i][3] + 1)..Len(t) : t[p] = log[i][1][2] /\ \A q \in (log[i][3] + 1)..(p - 1) : IsSpace(t[q])

\* once an operation has failed every later read yields nothing
LawAbsorbing ==
  \A i \in 1..Len(log) : \A j \in (i + 1)..Len(log) :
    (log[i][1][1] \in {"get", "extract"} /\ log[i][2] = <<>>) \/ (log[i][1][1] = "expect" /\ log[i][2] = <<1>>)
      => log[j][2] \in {<<>>, <<1>>}

\* the judge's replay function agrees with the step relation
LawRunAgrees == Bug = "none" => Run(t, [i \in 1..Len(log) |-> log[i][1]]) = [obs |-> [i \in 1..Len(log) |-> log[i][2]], skip |-> {}]
=============================================================================
