SPECIFICATION ISpec
CONSTANTS
  NV = 2
  NB = 0
  Val = {0, 1}
  MaxLen = 3
  MaxW = 0
  MaxCap = 12
  AliasBug = FALSE
  EraseRetBug = TRUE
VIEW IView
INVARIANTS ReturnsAgree
CHECK_DEADLOCK FALSE
