------------------------------ MODULE IoStream ------------------------------
(* C15 extension - the character-level helpers of fcppt::io on an input stream, and
   io::scoped_rdbuf.  Pure operators; MCIoStream.tla / MCScopedRdbuf.tla explore them as state
   machines, CodecJudge.tla replays recorded operation sequences through them.

   Input stream over the text t: st = [pos |-> characters consumed, bad |-> failbit set].
   Every operation returns [st |-> new state, obs |-> what the caller sees] where obs is a
   sequence: <<>> = the empty optional.

   io/get.hpp     "Reads a character from _stream. Returns an empty optional for end-of-file."
   io/peek.hpp    "Peeks at a character from _stream. Returns an empty optional for end-of-file."
   io/extract.hpp "Uses operator>> to extract a value of type Type from _stream. If extracting the
                   value fails, an empty optional is returned."   (Type = the character type:
                   formatted extraction skips white space first)
   io/expect.hpp  "Tries to read a value of type Type from _stream. If the value read is unequal
                   to _value, the failbit is set for _stream."    (observed: fail() afterwards)
   io/stream_to_string.hpp "Reads the contents of a stream into a string."  (what it returns for
                   a stream that has already failed is not documented - not judged)
   Standard stream rules used: reading at the end sets eofbit and failbit (peek only eofbit); a
   read on a stream with eofbit or failbit set sets failbit and yields nothing.                                                          *)
EXTENDS Integers, Sequences

IsSpace(c) == c \in {32, 9, 10, 11, 12, 13}

\* eof = eofbit (set by an attempt to read at the end), bad = failbit.  Every read operation first
\* checks the stream (sentry): if eofbit or failbit is already set it sets failbit and yields nothing.
StreamInit == [pos |-> 0, bad |-> FALSE, eof |-> FALSE]
AtEnd(t, st) == st.pos >= Len(t)
Blocked(st) == st.bad \/ st.eof
Fail(st) == [st EXCEPT !.bad = TRUE]

Get(t, st) ==
  IF Blocked(st) THEN [st |-> Fail(st), obs |-> <<>>]
  ELSE IF AtEnd(t, st) THEN [st |-> [st EXCEPT !.bad = TRUE, !.eof = TRUE], obs |-> <<>>]
  ELSE [st |-> [st EXCEPT !.pos = @ + 1], obs |-> <<t[st.pos + 1]>>]

\* peeking at the end sets only eofbit
Peek(t, st) ==
  IF Blocked(st) THEN [st |-> Fail(st), obs |-> <<>>]
  ELSE IF AtEnd(t, st) THEN [st |-> [st EXCEPT !.eof = TRUE], obs |-> <<>>]
  ELSE [st |-> st, obs |-> <<t[st.pos + 1]>>]

RECURSIVE SkipSpace(_, _)
SkipSpace(t, p) == IF p < Len(t) /\ IsSpace(t[p + 1]) THEN SkipSpace(t, p + 1) ELSE p

Extract(t, st) ==
  IF Blocked(st) THEN [st |-> Fail(st), obs |-> <<>>]
  ELSE LET p == SkipSpace(t, st.pos)
       IN IF p >= Len(t) THEN [st |-> [pos |-> p, bad |-> TRUE, eof |-> TRUE], obs |-> <<>>]
          ELSE [st |-> [st EXCEPT !.pos = p + 1], obs |-> <<t[p + 1]>>]

\* obs = <<1>> if the stream has failed afterwards, <<0>> otherwise
Expect(t, st, c) ==
  LET r == Extract(t, st)
      failed == r.st.bad \/ r.obs = <<>> \/ r.obs[1] # c
  IN [st |-> [r.st EXCEPT !.bad = failed], obs |-> <<IF failed THEN 1 ELSE 0>>]

Rest(t, st) == SubSeq(t, st.pos + 1, Len(t))

\* only for a stream that has not failed
StreamToString(t, st) == [st |-> [st EXCEPT !.pos = Len(t)], obs |-> <<Rest(t, st)>>]

\* an operation: <<"get">>, <<"peek">>, <<"extract">>, <<"expect", c>>, <<"to_string">>
Apply(t, st, op) ==
  CASE op[1] = "get" -> Get(t, st)
    [] op[1] = "peek" -> Peek(t, st)
    [] op[1] = "extract" -> Extract(t, st)
    [] op[1] = "expect" -> Expect(t, st, op[2])
    [] op[1] = "to_string" -> StreamToString(t, st)

RECURSIVE RunFrom(_, _, _, _, _, _)
\* [obs |-> observations of a sequence of operations, skip |-> the steps that are not judged:
\* to_string on a stream that has already failed (undocumented; it leaves the state alone)]
RunFrom(t, st, ops, i, acc, skip) ==
  IF i > Len(ops) THEN [obs |-> acc, skip |-> skip]
  ELSE IF ops[i][1] = "to_string" /\ st.bad THEN RunFrom(t, st, ops, i + 1, Append(acc, <<>>), skip \cup {i})
  ELSE LET r == Apply(t, st, ops[i]) IN RunFrom(t, r.st, ops, i + 1, Append(acc, r.obs), skip)
Run(t, ops) == RunFrom(t, StreamInit, ops, 1, <<>>, {})

(* ------------------------------------------------------------------ io::scoped_rdbuf
   io/basic_scoped_rdbuf_decl.hpp: "Changes the streambuf of a stream temporarily."
   A stream writes into its current buffer; a scope installs another buffer and, when it ends,
   puts back the buffer that was installed when it began.  Scopes nest (C++ block scopes).
   rb = [cur |-> current buffer, stack |-> buffers to restore (innermost last), bufs |-> contents] *)
RdInit(n) == [cur |-> 0, stack |-> <<>>, bufs |-> [b \in 0..n |-> <<>>]]

RdOpen(rb, b) == [rb EXCEPT !.stack = Append(@, rb.cur), !.cur = b]
RdClose(rb) == [rb EXCEPT !.cur = rb.stack[Len(rb.stack)], !.stack = SubSeq(@, 1, Len(@) - 1)]
RdWrite(rb, c) == [rb EXCEPT !.bufs[rb.cur] = Append(@, c)]

\* <<"open", b>>, <<"close">>, <<"write", c>>
RdApply(rb, op) ==
  CASE op[1] = "open" -> RdOpen(rb, op[2])
    [] op[1] = "close" -> RdClose(rb)
    [] op[1] = "write" -> RdWrite(rb, op[2])

RECURSIVE RdRunFrom(_, _, _, _)
\* [rb |-> final state, curs |-> current buffer after every operation]
RdRunFrom(rb, ops, i, curs) ==
  IF i > Len(ops) THEN [rb |-> rb, curs |-> curs]
  ELSE LET n == RdApply(rb, ops[i]) IN RdRunFrom(n, ops, i + 1, Append(curs, n.cur))
RdRun(n, ops) == RdRunFrom(RdInit(n), ops, 1, <<>>)

RECURSIVE RdWellFormed(_, _, _)
\* a close needs an open scope
RdWellFormed(ops, i, depth) ==
  IF i > Len(ops) THEN TRUE
  ELSE IF ops[i][1] = "open" THEN RdWellFormed(ops, i + 1, depth + 1)
  ELSE IF ops[i][1] = "close" THEN depth > 0 /\ RdWellFormed(ops, i + 1, depth - 1)
  ELSE RdWellFormed(ops, i + 1, depth)
=============================================================================
