SPECIFICATION Spec
CONSTANTS
  Mode = "dec"
  Step = 257
  DecRange = 200
  U8 <- Utf8
  WR <- Write
  TD <- ToDecBug
  NT <- NumText
  NTL <- NumTextLoc
  CV <- Convert
  RV <- ReadVec
INVARIANTS LawDecRoundTrip
CHECK_DEADLOCK FALSE
