SPECIFICATION Spec
CONSTANTS
  T = "i8"
  Dom <- DomEdgeT
  ClampBug = FALSE
  SizeBug = FALSE
  DefBug = TRUE
INVARIANTS RangeLaw
