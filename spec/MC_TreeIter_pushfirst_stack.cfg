SPECIFICATION ItSpec
CONSTANTS
  NS = 1
  Val = {0}
  MaxNodes = 6
  PushFirstBug = TRUE
  ParentSkipBug = FALSE
INVARIANTS StackIsPending
CHECK_DEADLOCK FALSE
