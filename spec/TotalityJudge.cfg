SPECIFICATION TSpec
CONSTANT Reasons <- C01Reasons
INVARIANT RLVerdict
CONSTRAINT RLConsumed
POSTCONDITION RLPost
CHECK_DEADLOCK FALSE
