SPECIFICATION Spec
CONSTANTS
  NV = 1
  NB = 0
  Val = {0, 1}
  MaxLen = 3
  MaxW = 0
VIEW View
INVARIANTS TypeOK
CONSTRAINT EmitScripts
CHECK_DEADLOCK FALSE
