SPECIFICATION LsSpec
CONSTANTS
  ChainSwapBug = FALSE
  SinkIgnoredBug = FALSE
  MaxSteps = 5
INVARIANTS LsRunAgrees SinkLatestWins AdditionalFirst
CHECK_DEADLOCK FALSE
