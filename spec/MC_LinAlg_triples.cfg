SPECIFICATION SpecTriples
CONSTANTS
  PairVals <- Vm1to2
  TripleVals <- Vm1to1
  TripleValsC <- Vm1to1
  CubeVals <- Vm1to1
  CubeVals23 <- Vm1to1
INVARIANT Associativity
INVARIANT Distributivity
CHECK_DEADLOCK FALSE
