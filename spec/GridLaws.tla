----------------------------- MODULE GridLaws -----------------------------
(* Laws of the reference definitions in Grid.tla, model-checked over every
   size with extents 0..MaxE and every auxiliary tuple q with components
   0..MaxC (used as a position, as a min, as a new size).  The input space is
   the set of initial states; a failing case is a one-state counterexample.

   StrideBug = TRUE swaps Offset for the "stride of the current extent"
   slip - the vacuity guard of OffsetLaw / StorageLaw.  LawBug = 1..4 swaps
   one reference definition for a plausible wrong one (range closed at sup,
   at_optional with <=, clamp without the lower bound, resize ignoring the
   old grid) - the vacuity guards of RangeLaw, AtLaw, ClampLaw, ResizeLaw. *)
EXTENDS Grid

CONSTANTS N, MaxE, MaxC, StrideBug, LawBug

VARIABLES size, q

Init == size \in [1..N -> 0..MaxE] /\ q \in [1..N -> 0..MaxC]
Next == UNCHANGED <<size, q>>
Spec == Init /\ [][Next]_<<size, q>>

Off(p, s) == IF StrideBug THEN OffsetWrongStride(p, s) ELSE Offset(p, s)

Universe == [1..N -> 0..(MaxE + MaxC)]
G == GridOf(size, LAMBDA p : Lin([i \in 1..(N + 1) |-> 7 * i + 100], p))
qs == [i \in 1..N |-> q[i] - 2]          \* a signed position, components -2..MaxC-2

RS(mn, sp) == IF LawBug = 1 THEN RangeSet(mn, [i \in 1..N |-> sp[i] + 1]) ELSE RangeSet(mn, sp)
AtOpt(g, p) ==
  IF LawBug = 2
  THEN (IF \A i \in 1..N : p[i] <= g.size[i] THEN <<0>> ELSE <<>>)
  ELSE AtOptional(g, p)
CSS(p, s) == IF LawBug = 3 THEN ClampedSup(p, s) ELSE ClampedSupSigned(p, s)
RSZ(g, ns, F(_)) == IF LawBug = 4 THEN GridOf(ns, F) ELSE Resize(g, ns, F)

(* offset is a bijection Positions(size) -> 0..content-1 *)
OffsetLaw == OffsetBijection(size, Off)
(* the position range of the whole grid, in its documented order, is the
   storage order: its k-th position has offset k-1 *)
StorageLaw ==
  LET rm == RowMajor(Positions(size)) IN
  /\ Len(rm) = Content(size)
  /\ \A k \in 1..Len(rm) : Off(rm[k], size) = k - 1
  /\ \A k \in 1..Len(rm) : Storage(G)[k] = G.cell[rm[k]]
(* the recursive construction of RangeSet is the documented set *)
RangeLaw ==
  /\ RS(q, size) = RangeSetDoc(q, size, Universe)
  /\ RS(size, q) = RangeSetDoc(size, q, Universe)
  /\ Positions(size) = {p \in Universe : InRange(p, size)}
  /\ Cardinality(RS(q, size)) = RangeCount(q, size)
  /\ RS(q, size) \subseteq Positions(size)
AtLaw ==
  /\ (AtOpt(G, q) # <<>>) <=> q \in Positions(size)
  /\ q \in Positions(size) => AtOpt(G, q) = <<Storage(G)[Offset(q, size) + 1]>>
(* clamping yields a sub-range of the grid that keeps what was inside *)
ClampLaw ==
  LET cm == ClampedMin(qs)
      cs == CSS(qs, size)
      cu == ClampedSup(q, size)
  IN
  /\ RangeSet(cm, cs) \subseteq Positions(size)
  /\ RangeSet(Zero(N), cu) = Positions(size) \cap RangeSet(Zero(N), q)
  /\ \A i \in 1..N : cm[i] >= 0 /\ cs[i] \in 0..size[i] /\ cu[i] \in 0..size[i]
  /\ cs = ClampedSup(ClampedMin(qs), size)
ResizeLaw ==
  LET r == RSZ(G, q, LAMBDA p : -1) IN
  /\ r.size = q
  /\ \A p \in Positions(q) : r.cell[p] = IF InRange(p, size) THEN G.cell[p] ELSE -1
  /\ Resize(G, size, LAMBDA p : -1) = G
  /\ MapGrid(G, LAMBDA x : x) = G
  /\ ApplyGrids(<<G, G>>, LAMBDA xs : xs[1] - xs[2]) = GridOf(size, LAMBDA p : 0)
  /\ (q # size) => ApplyGrids(<<G, Resize(G, q, LAMBDA p : 0)>>, LAMBDA xs : xs[1]) = EmptyGrid(N)
  /\ FillGrid(G, LAMBDA p : Off(p, size)).cell = [p \in Positions(size) |-> Off(p, size)]
=============================================================================
