SPECIFICATION ISpec
CONSTANTS
  Sym = {97, 10, 32, 9}
  MaxLen = 3
  WithFailAt = TRUE
  MaxOps = 8
  ColBug = FALSE
  SetPosBug = FALSE
  FailBug = FALSE
  EofBug = FALSE
VIEW IViewDepth
INVARIANTS ITypeOK Refines ReturnsAgree SavedExact FutureRefines
CHECK_DEADLOCK FALSE
