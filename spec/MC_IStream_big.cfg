SPECIFICATION ISpec
CONSTANTS
  Sym = {97, 10, 32, 9}
  MaxLen = 5
  WithFailAt = FALSE
  MaxOps = 99
  ColBug = FALSE
  SetPosBug = FALSE
  FailBug = FALSE
  EofBug = FALSE
VIEW IView
INVARIANTS ITypeOK Refines ReturnsAgree SavedExact FutureRefines
CHECK_DEADLOCK FALSE
