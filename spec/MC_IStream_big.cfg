SPECIFICATION ISpec
CONSTANTS
  Sym = {97, 10, 32, 9}
  MaxLen = 5
  MaxOps = 99
  ColBug = FALSE
  SetPosBug = FALSE
  EofBug = FALSE
VIEW IView
INVARIANTS ITypeOK Refines ReturnsAgree SavedExact FutureRefines
CHECK_DEADLOCK FALSE
