SPECIFICATION Spec
CONSTANTS
  Base = 4
  L = 3
  Bug = "drop_carry"
  Families = {"u"}
INVARIANT UnsignedLaw
CHECK_DEADLOCK FALSE
