------------------------------ MODULE JsonRef ------------------------------
(* A small, independent reference for the language of the JSON grammar of test/parse/json.cpp
   (harness grammar 9004), written as a plain recursive-descent recogniser over code points - no
   PEG machinery, no skippers - and producing the value in the PegTypes representation, so that
   TLC can check  Peg.tla's interpretation of that grammar  =  this reference  on all short inputs
   (MC_PegJson).  The language (as the grammar, run with the space skipper through the string entry
   point, defines it):
     text    := ws* (array | object)                  no trailing white space (no trailing skipper run)
     array   := '[' ws* ( value (ws* ',' ws* value)* )? ws* ']'
     object  := '{' ws* ( entry (ws* ',' ws* entry)* )? ws* '}'      keys pairwise distinct
     entry   := string ws* ':' ws* value
     value   := "null" | "true" | "false" | int | string | array | object
     int     := '-'? digit+            fitting a 32-bit int (leading zeros allowed, as int_ does)
     string  := '"' ws* [^"]* '"'      (the sequence runs the skipper after the opening quote, so
                                        leading white space of the content is dropped; no escapes)
   Values: value = box(variant<null,bool,int,string,array,object> by index 0..5); array = vector of
   rec(value); object = vector of tuple(string, rec(value)); text = variant<array, object>. *)
EXTENDS PegTypes, Peg

IsWS(c) == c \in {32, 10, 9}
RECURSIVE SkipWS(_, _)
SkipWS(s, p) == IF p < Len(s) /\ IsWS(s[p + 1]) THEN SkipWS(s, p + 1) ELSE p
At(s, p, c) == p < Len(s) /\ s[p + 1] = c
HasWord(s, p, w) == p + Len(w) <= Len(s) /\ SubSeq(s, p + 1, p + Len(w)) = w

JOk(p, v) == [ok |-> TRUE, pos |-> p, val |-> v]
JFail == [ok |-> FALSE, pos |-> 0, val |-> VUnit]
JV(i, v) == VBox(VVar(i, v))

RECURSIVE DigitsEnd(_, _), StrEnd(_, _)
DigitsEnd(s, p) == IF p < Len(s) /\ s[p + 1] \in 48..57 THEN DigitsEnd(s, p + 1) ELSE p
StrEnd(s, p) == IF p < Len(s) /\ s[p + 1] # 34 THEN StrEnd(s, p + 1) ELSE p

JString(s, p) ==
  IF ~At(s, p, 34) THEN JFail
  ELSE LET a == SkipWS(s, p + 1)
           e == StrEnd(s, a)
       IN IF At(s, e, 34) THEN JOk(e + 1, VStr(SubSeq(s, a + 1, e))) ELSE JFail

JInt(s, p) ==
  LET neg == At(s, p, 45)
      a == IF neg THEN p + 1 ELSE p
      e == DigitsEnd(s, a)
      ds == SubSeq(s, a + 1, e)
  IN IF e = a \/ ~IntFits(ds) THEN JFail
     ELSE LET n == PlainVal(StripZeros(ds), 0) IN JOk(e, VInt(IF neg THEN 0 - n ELSE n))

RECURSIVE JValue(_, _), JItems(_, _, _, _), JArray(_, _), JObject(_, _)

(* items after the first: (ws* ',' ws* item)*  then ws* close; kind = "arr" | "obj" *)
JItem(kind, s, p) ==
  IF kind = "arr" THEN LET v == JValue(s, p) IN IF v.ok THEN JOk(v.pos, VRec(v.val)) ELSE JFail
  ELSE LET k == JString(s, p) IN
       IF ~k.ok THEN JFail
       ELSE LET c == SkipWS(s, k.pos) IN
            IF ~At(s, c, 58) THEN JFail
            ELSE LET v == JValue(s, SkipWS(s, c + 1)) IN
                 IF v.ok THEN JOk(v.pos, VTup(<<k.val, VRec(v.val)>>)) ELSE JFail
JItems(kind, s, p, acc) ==
  LET q == SkipWS(s, p) IN
  IF At(s, q, 44)
  THEN LET it == JItem(kind, s, SkipWS(s, q + 1)) IN
       IF it.ok THEN JItems(kind, s, it.pos, Append(acc, it.val)) ELSE JFail
  ELSE IF At(s, q, IF kind = "arr" THEN 93 ELSE 125) THEN JOk(q + 1, acc) ELSE JFail
JSeqOf(kind, s, p) ==
  LET q == SkipWS(s, p + 1) IN
  IF At(s, q, IF kind = "arr" THEN 93 ELSE 125) THEN JOk(q + 1, <<>>)
  ELSE LET it == JItem(kind, s, q) IN IF it.ok THEN JItems(kind, s, it.pos, <<it.val>>) ELSE JFail
JArray(s, p) == IF ~At(s, p, 91) THEN JFail ELSE LET r == JSeqOf("arr", s, p) IN IF r.ok THEN JOk(r.pos, VVec(r.val)) ELSE JFail
JObject(s, p) ==
  IF ~At(s, p, 123) THEN JFail
  ELSE LET r == JSeqOf("obj", s, p) IN IF r.ok /\ UniqueKeys(r.val) THEN JOk(r.pos, VVec(r.val)) ELSE JFail

JValue(s, p) ==
  IF HasWord(s, p, <<110, 117, 108, 108>>) THEN JOk(p + 4, JV(0, VNull))
  ELSE IF HasWord(s, p, <<116, 114, 117, 101>>) THEN JOk(p + 4, JV(1, VBool(TRUE)))
  ELSE IF HasWord(s, p, <<102, 97, 108, 115, 101>>) THEN JOk(p + 5, JV(1, VBool(FALSE)))
  ELSE IF At(s, p, 34) THEN LET r == JString(s, p) IN IF r.ok THEN JOk(r.pos, JV(3, r.val)) ELSE JFail
  ELSE IF At(s, p, 91) THEN LET r == JArray(s, p) IN IF r.ok THEN JOk(r.pos, JV(4, r.val)) ELSE JFail
  ELSE IF At(s, p, 123) THEN LET r == JObject(s, p) IN IF r.ok THEN JOk(r.pos, JV(5, r.val)) ELSE JFail
  ELSE LET r == JInt(s, p) IN IF r.ok THEN JOk(r.pos, JV(2, r.val)) ELSE JFail

(* the whole text: [ok, val (flat)] *)
JsonText(s) ==
  LET p == SkipWS(s, 0)
      r == IF At(s, p, 91) THEN JArray(s, p) ELSE JObject(s, p)
      i == IF At(s, p, 91) THEN 0 ELSE 1
  IN IF r.ok /\ r.pos = Len(s) THEN [ok |-> TRUE, val |-> Enc(VVar(i, r.val))] ELSE [ok |-> FALSE, val |-> <<>>]
=============================================================================
