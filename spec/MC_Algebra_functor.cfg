SPECIFICATION Spec
CONSTANTS
  N = 3
  Bug = "none"
  Group = "functor"
  MaxLen = 0
INVARIANTS TypeOK LawFunctorIdentity LawFunctorComposition LawMapIsBindReturn LawMaybeMultiVariadic
