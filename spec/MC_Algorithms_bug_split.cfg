SPECIFICATION SpecSeq
CONSTANTS
  MaxLen = 4
  SetMax = 3
  SplitString <- SplitStringDropTrailing
INVARIANT SplitJoinInverse
