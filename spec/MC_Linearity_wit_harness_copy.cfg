SPECIFICATION Spec
CONSTANTS
  MaxObj = 4
  Allowed = {}
  LCat = "lvalue"
INVARIANTS NoHarnessCopy
CHECK_DEADLOCK FALSE
