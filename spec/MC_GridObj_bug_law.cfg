SPECIFICATION Spec
CONSTANTS
  NS = 2
  Sizes <- MCSizes
  Vals = {7}
  Gens <- MCGens
  RowShapes <- MCRows
  MaxOps = 3
  Bug = ""
  LawBug = TRUE
VIEW View
INVARIANTS Laws
CHECK_DEADLOCK FALSE
