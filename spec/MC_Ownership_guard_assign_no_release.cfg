SPECIFICATION Spec
CONSTANTS
  NO = 3
  NS = 2
  NW = 2
  NU = 2
  Bug = "assign_no_release"
VIEW View
INVARIANT AliveIffOwned
CHECK_DEADLOCK FALSE
