SPECIFICATION SpecSeq
CONSTANTS
  MaxLen = 4
  SetMax = 3
  PopFrontR <- PopFrontRemovesBack
INVARIANT ExtensionSeqLaws
