--------------------------- MODULE Membership ---------------------------
(* Abstract specification of fcppt::intrusive::list / fcppt::intrusive::base
   (property C11): which elements a list contains, and in which order.

   State: which list slots and element slots hold a live object, and for every
   list the sequence member[L] of the elements it contains.  One operator
   (Eff) defines the effect of every public operation; Pre is the precondition
   of the C++ API (operands alive / slots free, no self-move).

   What the statement of C11 fixes, and how it is read here:
     - an element is linked at the BACK of the list it is constructed with;
     - it stays a member until it is destroyed, moved from, or unlink()ed;
     - an element that is move-constructed / move-assigned from another element
       takes over that element's place (link order is that of the link, not of the
       object); the source is afterwards in no list; an element that is
       move-assigned to first leaves the list it was in;
     - a list that is move-constructed / move-assigned from another list takes over
       that list's members in order, the source is left empty, and the former
       members of an assigned-to list are in NO list afterwards (the weaker reading
       of "elements that were linked into it": ... and not since taken out by an
       operation on the list; DESIGN.md 3.11);
     - destroying a list leaves its elements alive and in no list.
   FRAME CONDITION: an operation changes member[L] only if it names L or an
   element currently in member[L]; no operation other than construction / move
   of an element or a move of a list ever adds an element to a list (so a dead,
   unlinked or taken-out element never "reappears").

   The same operators are used
     - by MC_Membership.cfg (Init/Next below) to explore all histories over small
       constants and check the laws at the end of this module,
     - by Ring.tla, which runs the pointer-level transcription in lock-step,
     - by Signal.tla (a signal's connection list is such a list), and
     - by RingTrace.tla to judge every recorded operation of the real code. *)
EXTENDS Naturals, Integers, Sequences, FiniteSets, TLC, Json

CONSTANTS NL,     \* number of list slots
          NE,     \* number of element slots
          AbsBug  \* "none"; other values deliberately break Eff (vacuity guards of the laws below)

Lists == 1..NL
Elems == 1..NE

-----------------------------------------------------------------------------
Range(s) == {s[i] : i \in DOMAIN s}
Without(s, e) == SelectSeq(s, LAMBDA x : x # e)
Replace(s, old, new) == [i \in 1..Len(s) |-> IF s[i] = old THEN new ELSE s[i]]
Reverse(s) == [i \in 1..Len(s) |-> s[Len(s) + 1 - i]]

(* An operation is a record with all of these fields (the harness logs all of them):
   l = list operand (destination), l2 = source list, x = element operand
   (destination), x2 = source element, b = container of connections (Signal.tla),
   mode = variant of the operation (prefix/postfix step of an iterator); 0 = not used. *)
BaseOp == [op |-> "", l |-> 0, l2 |-> 0, x |-> 0, x2 |-> 0, b |-> 0, mode |-> 0]

ListOps == {"list_ctor", "list_move_ctor", "list_move_assign", "list_dtor"}
ElemOps == {"elem_ctor", "elem_move_ctor", "elem_move_assign", "elem_dtor", "unlink"}

EmptyM == [llive |-> [L \in Lists |-> FALSE],
           elive |-> [e \in Elems |-> FALSE],
           member |-> [L \in Lists |-> <<>>]]

(* API preconditions: operands are live objects, constructed slots are free; moving an
   object onto itself is not driven (the statement says nothing about it). *)
Pre(st, a) ==
  LET ll(i) == i \in Lists /\ st.llive[i]
      ld(i) == i \in Lists /\ ~st.llive[i]
      el(i) == i \in Elems /\ st.elive[i]
      ed(i) == i \in Elems /\ ~st.elive[i]
  IN CASE a.op = "list_ctor" -> ld(a.l)
       [] a.op = "list_move_ctor" -> ld(a.l) /\ ll(a.l2)
       [] a.op = "list_move_assign" -> ll(a.l) /\ ll(a.l2) /\ a.l # a.l2
       [] a.op = "list_dtor" -> ll(a.l)
       [] a.op = "elem_ctor" -> ed(a.x) /\ ll(a.l)
       [] a.op = "elem_move_ctor" -> ed(a.x) /\ el(a.x2)
       [] a.op = "elem_move_assign" -> el(a.x) /\ el(a.x2) /\ a.x # a.x2
       [] a.op \in {"elem_dtor", "unlink"} -> el(a.x)
       [] OTHER -> FALSE

Eff(st, a) ==
  LET m == st.member IN
  CASE a.op = "list_ctor" ->
         [st EXCEPT !.llive[a.l] = TRUE, !.member[a.l] = <<>>]
    [] a.op = "list_move_ctor" ->
         IF AbsBug = "movector_copies"
         THEN [st EXCEPT !.llive[a.l] = TRUE, !.member[a.l] = m[a.l2]]
         ELSE [st EXCEPT !.llive[a.l] = TRUE, !.member[a.l] = m[a.l2], !.member[a.l2] = <<>>]
    [] a.op = "list_move_assign" ->
         \* the destination's former members are in no list afterwards
         [st EXCEPT !.member[a.l] = m[a.l2], !.member[a.l2] = <<>>]
    [] a.op = "list_dtor" ->
         \* the elements stay alive; they are in no list
         [st EXCEPT !.llive[a.l] = FALSE, !.member[a.l] = <<>>]
    [] a.op = "elem_ctor" ->
         [st EXCEPT !.elive[a.x] = TRUE, !.member[a.l] = Append(m[a.l], a.x)]
    [] a.op = "elem_move_ctor" ->
         [st EXCEPT !.elive[a.x] = TRUE,
                    !.member = [L \in Lists |-> Replace(m[L], a.x2, a.x)]]
    [] a.op = "elem_move_assign" ->
         [st EXCEPT !.member = [L \in Lists |-> Replace(Without(m[L], a.x), a.x2, a.x)]]
    [] a.op = "elem_dtor" ->
         IF AbsBug = "dtor_keeps" THEN [st EXCEPT !.elive[a.x] = FALSE]
         ELSE IF AbsBug = "dtor_clears_first"
         THEN [st EXCEPT !.elive[a.x] = FALSE,
                         !.member = [L \in Lists |-> IF L = 1 THEN <<>> ELSE Without(m[L], a.x)]]
         ELSE [st EXCEPT !.elive[a.x] = FALSE, !.member = [L \in Lists |-> Without(m[L], a.x)]]
    [] a.op = "unlink" ->
         [st EXCEPT !.member = [L \in Lists |-> Without(m[L], a.x)]]
    [] OTHER -> st

(* What the real list must show in state st (RingTrace compares these with the log). *)
Forward(st, L) == st.member[L]
Backward(st, L) == Reverse(st.member[L])
IsEmpty(st, L) == st.member[L] = <<>>

-----------------------------------------------------------------------------
(* Iterators.  iterator_decl.hpp: "The iterator type of an intrusive list.  This is a
   bidirectional iterator."  list_decl.hpp declares begin()/end() (const and non-const).
   Abstractly an iterator denotes an element (x # 0) or the end of list `end`; it is VALID
   while that element is alive and a member of some list, resp. while that list is alive.
   Stepping a valid iterator: ++ goes to the following member of the element's list (end after
   the last), -- to the preceding one (from end: to the last); ++ on end and -- on the first
   member are not driven (undefined for standard bidirectional iterators).
   What the documentation does NOT say is whether an iterator survives operations on the list:
   RingTrace.tla therefore judges an iterator only while it is "fresh" (no membership-changing
   operation since it was obtained); Ring.tla checks on the model that the pointer-level
   iterator keeps denoting the same element, with the right neighbours, across operations on
   other elements (IterRefines). *)
IterOps == {"iter_begin", "iter_end", "iter_inc", "iter_dec", "iter_drop"}
NoIter == [held |-> FALSE, end |-> 0, x |-> 0]
AtElem(e) == [held |-> TRUE, end |-> 0, x |-> e]
AtEnd(L) == [held |-> TRUE, end |-> L, x |-> 0]
Dangling == [held |-> TRUE, end |-> 0, x |-> 0]

ListOf(s, e) == IF \E L \in Lists : e \in Range(s.member[L])
                THEN CHOOSE L \in Lists : e \in Range(s.member[L]) ELSE 0
IndexOf(q, e) == CHOOSE i \in DOMAIN q : q[i] = e

IterValid(s, it) ==
  /\ it.held
  /\ IF it.x # 0 THEN s.elive[it.x] /\ ListOf(s, it.x) # 0
     ELSE it.end # 0 /\ s.llive[it.end]
IterList(s, it) == IF it.x # 0 THEN ListOf(s, it.x) ELSE it.end
IterBegin(s, L) == IF s.member[L] = <<>> THEN AtEnd(L) ELSE AtElem(s.member[L][1])
CanInc(s, it) == IterValid(s, it) /\ it.x # 0
CanDec(s, it) == /\ IterValid(s, it)
                 /\ IF it.x # 0 THEN s.member[ListOf(s, it.x)][1] # it.x ELSE s.member[it.end] # <<>>
IterInc(s, it) ==
  LET L == ListOf(s, it.x)
      q == s.member[L]
      i == IndexOf(q, it.x)
  IN IF i = Len(q) THEN AtEnd(L) ELSE AtElem(q[i + 1])
IterDec(s, it) ==
  LET L == IterList(s, it)
      q == s.member[L]
  IN IF it.x = 0 THEN AtElem(q[Len(q)]) ELSE AtElem(q[IndexOf(q, it.x) - 1])

IterPre(s, it, a) ==
  CASE a.op \in {"iter_begin", "iter_end"} -> a.l \in Lists /\ s.llive[a.l]
    [] a.op = "iter_inc" -> CanInc(s, it)
    [] a.op = "iter_dec" -> CanDec(s, it)
    [] a.op = "iter_drop" -> it.held
    [] OTHER -> FALSE
IterEff(s, it, a) ==
  CASE a.op = "iter_begin" -> IterBegin(s, a.l)
    [] a.op = "iter_end" -> AtEnd(a.l)
    [] a.op = "iter_inc" -> IterInc(s, it)
    [] a.op = "iter_dec" -> IterDec(s, it)
    [] OTHER -> NoIter
(* an operation that destroys what the iterator denotes leaves it dangling (only to be dropped
   or re-seated); everything else leaves it denoting the same element / end *)
IterAfter(it, a) ==
  IF (a.op = "elem_dtor" /\ it.x = a.x /\ it.x # 0) \/ (a.op = "list_dtor" /\ it.end = a.l /\ it.end # 0)
  THEN Dangling ELSE it

-----------------------------------------------------------------------------
(* Model: all histories over small constants. *)
AllOps ==
  {[BaseOp EXCEPT !.op = "list_ctor", !.l = L] : L \in Lists}
  \cup {[BaseOp EXCEPT !.op = "list_dtor", !.l = L] : L \in Lists}
  \cup {[BaseOp EXCEPT !.op = o, !.l = L, !.l2 = M] :
          o \in {"list_move_ctor", "list_move_assign"}, L \in Lists, M \in Lists}
  \cup {[BaseOp EXCEPT !.op = "elem_ctor", !.x = x, !.l = L] : x \in Elems, L \in Lists}
  \cup {[BaseOp EXCEPT !.op = o, !.x = x, !.x2 = y] :
          o \in {"elem_move_ctor", "elem_move_assign"}, x \in Elems, y \in Elems}
  \cup {[BaseOp EXCEPT !.op = o, !.x = x] : o \in {"elem_dtor", "unlink"}, x \in Elems}

Enabled(st) == {a \in AllOps : Pre(st, a)}

VARIABLES st, hist
vars == <<st, hist>>

Init == st = EmptyM /\ hist = <<>>

Next == \E a \in AllOps :
          /\ Pre(st, a)
          /\ st' = Eff(st, a)
          /\ hist' = Append(hist, a)

Spec == Init /\ [][Next]_vars

View == st

-----------------------------------------------------------------------------
(* Laws (theorems of the model, checked by TLC in every reachable state). *)
TypeOK ==
  /\ st.llive \in [Lists -> BOOLEAN]
  /\ st.elive \in [Elems -> BOOLEAN]
  /\ \A L \in Lists : st.member[L] \in Seq(Elems)

(* a list contains only live elements; a dead list slot has no members *)
MembersAlive(s) ==
  \A L \in Lists : /\ \A i \in DOMAIN s.member[L] : s.elive[s.member[L][i]]
                   /\ (~s.llive[L] => s.member[L] = <<>>)

(* an element is in at most one list, at most once *)
NoDup(s) ==
  /\ \A L \in Lists : \A i, j \in DOMAIN s.member[L] : i # j => s.member[L][i] # s.member[L][j]
  /\ \A L, M \in Lists : L # M => Range(s.member[L]) \cap Range(s.member[M]) = {}

LawMembersAlive == MembersAlive(st)
LawNoDup == NoDup(st)

(* FRAME: member[L] changes only if the operation names L or an element of member[L] ... *)
Names(a) == [ls |-> {a.l, a.l2} \ {0}, es |-> {a.x, a.x2} \ {0}]
FrameOK(s, a) ==
  LET t == Eff(s, a) IN
  \A L \in Lists :
    /\ (t.member[L] # s.member[L]
          => L \in Names(a).ls \/ Names(a).es \cap Range(s.member[L]) # {})
    \* ... only construction / move of an element and list moves ever add an element to a list
    /\ (a.op \in {"list_ctor", "list_dtor", "elem_dtor", "unlink"}
          => Range(t.member[L]) \subseteq Range(s.member[L]))
    \* ... and an operation on elements never reorders the others
    /\ (a.op \in ElemOps
          => LET keep == Range(s.member[L]) \ Names(a).es
             IN SelectSeq(t.member[L], LAMBDA x : x \in keep)
                  = SelectSeq(s.member[L], LAMBDA x : x \in keep))
LawFrame == \A a \in Enabled(st) : FrameOK(st, a)

(* script emission (spec -> code): with Emit as a CONSTRAINT TLC prints the operation
   history of every generated transition. *)
Emit == PrintT("SCRIPT " \o ToJson(hist))
=============================================================================
