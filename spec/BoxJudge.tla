------------------------------ MODULE BoxJudge ------------------------------
(* Judge of the records written by harness/c13_box.cpp (property C13), at the
   point-set level of Box.tla: BoxReasons(r) = the reasons why the half-open
   point-set semantics cannot explain what the real code returned.

   Results for empty or inverted operands are only held to the point-set
   clause (SameBox: equal point sets; exactly equal only when the demanded
   box is non-empty).  "HARNESS-PRECONDITION": the record does not cover the
   input space it claims (never a verdict about fcppt). *)
EXTENDS Box, RecordLoop

R(cond, why) == IF cond THEN {} ELSE {why}
(* Scope (binding): only behaviour named by the statement of C13 may become a VIOLATION:
     "contains_point is membership, intersection of two boxes contains exactly the common points and
      is the null box whenever the boxes do not intersect, intersects holds for non-empty boxes exactly
      when a common point exists, contains(outer, inner) holds for non-empty inner exactly when inner
      is a subset, extend_bounding_box of two non-empty boxes is the smallest box containing both, and
      size/pos/max, corner_points, shrink and stretch_absolute are consistent with that point set."
   Everything else that is judged here (constructors other than (min,max), init_max, init_dim, null,
   extend_bounding_box(box, point), center, distance / interval_distance, ==, structure_cast,
   operator<<) is OBSERVED ONLY: its reasons carry the prefix "obs:" and never reject a record. *)
Obs(S) == {"obs:" \o w : w \in S}

(* observed box r vs. demanded box e *)
SameBox(r, e) == IF NonEmpty(e) THEN r = e ELSE Pts(r) = {}

(* canonical enumeration of the cube lo..hi in n dimensions (first coordinate
   fastest) and of all boxes over it (position outer, maximum inner) *)
RECURSIVE Pow(_, _)
Pow(x, k) == IF k = 0 THEN 1 ELSE x * Pow(x, k - 1)
CubeAt(k, n, lo, hi) == LET w == hi - lo + 1 IN [i \in 1..n |-> lo + ((k \div Pow(w, i - 1)) % w)]
BoxAt(k, n, lo, hi) ==
  LET W == Pow(hi - lo + 1, n) IN Box(CubeAt(k \div W, n, lo, hi), CubeAt(k % W, n, lo, hi))

Box1Reasons(r) ==
  LET a == Box(r.ap, r.am)
      n == r.N
      ne == NonEmpty(a)
  IN
  R(Len(r.cp) = Len(r.pts) /\ Len(r.epp) = Len(r.pts) /\ Len(r.epm) = Len(r.pts)
    /\ Len(r.shp) = Len(r.shv) /\ Len(r.shm) = Len(r.shv) /\ Len(r.stp) = Len(r.stv) /\ Len(r.stm) = Len(r.stv), "HARNESS-PRECONDITION")
  \cup R(SameBox(Box(r.pos, r.max), a), "pos-max")
  (* "size/pos/max ... are consistent with that point set" also through the non-const accessors pos() / max():
     reading through them gives the same corners; a corner assigned through one of them is the corner the
     const accessor of the same name then returns, and the other corner is untouched *)
  \cup R(r.mp = r.pos /\ r.mm = r.max, "pos-max-nonconst-read")
  \cup R(r.wp = r.max /\ r.wm = r.pos, "pos-max-nonconst-write")
  \cup R(r.vp = r.pos /\ r.vm = r.max, "pos-max-nonconst-write")
  \cup R(ne => (r.size = Size(BoundingBox(Pts(a))) /\ Cardinality(Pts(a)) = ProdTo(r.size, n)), "size")
  \cup Obs(R(SameBox(Box(r.imp, r.imm), a), "init_max"))
  \cup Obs(R(\A k \in 1..Len(r.idp) : SameBox(Box(r.idp[k], r.idm[k]), a), "init_dim"))
  \cup Obs(R(\A k \in 1..Len(r.pdp) : SameBox(Box(r.pdp[k], r.pdm[k]), a), "constructor-pos-dim"))
  \* (round 3: for T = "f64" structure_cast is not driven and the text / the centre of a box with odd size are
  \*  not integers - observed kinds, skipped for that type)
  \cup Obs(R(Box(r.scp, r.scm) = a \/ (r.T = "u32" /\ ~Proper(a)) \/ r.T = "f64", "structure_cast"))
  \cup Obs(R(NoSpacesB(r.text) = BoxText(a) \/ (r.T = "u32" /\ ~Proper(a)) \/ r.T = "f64", "output-text"))
  \cup R(\A k \in 1..Len(r.pts) : (r.cp[k] = 1) <=> SContainsPoint(a, r.pts[k]), "contains_point")
  \cup R(ne => ({r.corners[k] : k \in 1..Len(r.corners)} = Corners(BoundingBox(Pts(a))) /\ Len(r.corners) = Pow(2, n)), "corner_points")
  \cup Obs(R((ne /\ r.T # "f64") => r.center = Center(a), "center"))
  \cup Obs(R(ne => \A k \in 1..Len(r.pts) : Box(r.epp[k], r.epm[k]) = FExtendPoint(a, r.pts[k]), "extend_bounding_box-point"))
  \cup R(\A k \in 1..Len(r.shv) :
           LET s == Box(r.shp[k], r.shm[k]) IN
           /\ Pts(s) = {p \in Pts(a) : [i \in 1..n |-> p[i] - r.shv[k][i]] \in Pts(a) /\ [i \in 1..n |-> p[i] + r.shv[k][i]] \in Pts(a)}
           /\ SameBox(s, Shrink(a, r.shv[k])), "shrink")
  \cup R(\A k \in 1..Len(r.stv) : SameBox(Box(r.stp[k], r.stm[k]), Stretch(a, r.stv[k])), "stretch_absolute")

(* one pair (a, b): everything is derived from the two point sets *)
PairReasons(r, a, pa, k, b) ==
  LET n == r.N
      pb == Pts(b)
      common == pa \cap pb
      both == pa # {} /\ pb # {}
      in == Box(r.inp[k], r.inm[k])
  IN
  R(both => ((r.isx[k] = 1) <=> (common # {})), "intersects")
  \cup R(pb # {} => ((r.con[k] = 1) <=> (pb \subseteq pa)), "contains")
  \cup R(Pts(in) = common, "intersection-points")
  \cup R((both /\ common = {}) => in = Null(n), "intersection-not-null-box")
  \cup R(both => Box(r.exp[k], r.exm[k]) = BoundingBox(pa \cup pb), "extend_bounding_box")
  \cup Obs(R((both /\ r.dist # <<>>) =>
               \A i \in 1..n : r.dist[k][i] \in IntervalDistances(a.pos[i], a.max[i], b.pos[i], b.max[i]), "distance"))
  \cup Obs(R((r.eq[k] = 1) <=> (a = b), "comparison"))

Box2Reasons(r) ==
  LET a == Box(r.ap, r.am)
      pa == Pts(a)
      n == r.N
      nb == r.nb
      B(k) == IF r.cube THEN BoxAt(k - 1, n, r.lo, r.hi) ELSE Box(r.bs[k][1], r.bs[k][2])
      shapeOk ==
        /\ Len(r.isx) = nb /\ Len(r.con) = nb /\ Len(r.inp) = nb /\ Len(r.inm) = nb /\ Len(r.exp) = nb /\ Len(r.exm) = nb /\ Len(r.eq) = nb
        /\ Len(r.dist) \in {0, nb}
        /\ (r.cube => nb = Pow(Pow(r.hi - r.lo + 1, n), 2))
        /\ (~r.cube => Len(r.bs) = nb)
        /\ \A j \in 1..Len(r.probe_i) : B(r.probe_i[j] + 1) = Box(r.probe_b[j][1], r.probe_b[j][2])
  IN
  IF ~shapeOk THEN {"HARNESS-PRECONDITION"}
  ELSE UNION {PairReasons(r, a, pa, k, B(k)) : k \in 1..nb}

BoxReasons(r) ==
  CASE r.f = "box1" -> Box1Reasons(r)
    [] r.f = "box2" -> Box2Reasons(r)
    [] r.f = "null" -> Obs(R(r.pos = Zero(r.N) /\ r.max = Zero(r.N) /\ r.size = Zero(r.N), "null"))
    [] r.f = "interval_distance" ->
         (* observed only: math::interval_distance is not named by the statement.  Judged against exactly
            what its documentation promises (Box.tla, IntervalDistanceDoc), for non-empty intervals, in
            both argument orders. *)
         LET ne(x1, x2) == x1 < x2
             K == {k \in 1..Len(r.bs) : ne(r.a1, r.a2) /\ ne(r.bs[k][1], r.bs[k][2])}
             doc(k) == IntervalDistanceDoc(r.a1, r.a2, r.bs[k][1], r.bs[k][2])
             touch(k) == NestedTouching(r.a1, r.a2, r.bs[k][1], r.bs[k][2])
         IN
         R(Len(r.d12) = Len(r.bs) /\ Len(r.d21) = Len(r.bs), "HARNESS-PRECONDITION")
         \cup Obs(R(\A k \in K : touch(k) => (r.d12[k] = doc(k) /\ r.d21[k] = doc(k)), "nested-touching-not-zero"))
         \cup Obs(R(\A k \in K : ~touch(k) => (r.d12[k] = doc(k) /\ r.d21[k] = doc(k)), "value"))
         \cup Obs(R(\A k \in K : r.d12[k] = r.d21[k], "not-symmetric"))
    [] OTHER -> {"unknown-record-kind"}
=============================================================================
