SPECIFICATION SSpec
CONSTANTS
  NL = 2
  NE = 2
  AbsBug = "none"
  SigBug = "box_dtor_first_only"
  NB = 1
VIEW SView
INVARIANTS LawOwnership
CHECK_DEADLOCK FALSE
