SPECIFICATION SSpec
CONSTANTS
  NL = 2
  NE = 2
  AbsBug = "none"
  SigBug = "unreg_twice"
VIEW SView
INVARIANTS LawUnregisterOnce
CHECK_DEADLOCK FALSE
