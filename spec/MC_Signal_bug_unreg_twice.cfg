SPECIFICATION SSpec
CONSTANTS
  NL = 2
  NE = 2
  AbsBug = "none"
  SigBug = "unreg_twice"
  NB = 1
VIEW SView
INVARIANTS LawUnregisterOnce
CHECK_DEADLOCK FALSE
