SPECIFICATION Spec
CONSTANTS
  MaxObj = 5
  Allowed = {}
  LCat = "clvalue"
INVARIANTS TypeOK InvNoDuplication InvLvalueIntact InvReadsLive InvEndImplied
CHECK_DEADLOCK FALSE
