---------------------------- MODULE RecordLabels ----------------------------
(* C05 extension (observed only - outside the statement of C05, which is about conservation of
   values, not about where they end up): the functional contract of the fcppt::record operations.
   A record value is a function from labels to values (here: to the tokens of tracked members);
   the order in which the elements are declared is not part of the value.

     permute   "Permutes one record into another" (Result must be equivalent to Arg): same labels,
               each label keeps its value
     map       "For every element<L,T> in Record, _function(get<L>(_record)) is stored in the
               result type": with the harness's pass-through function each label keeps its value
     multiply_disjoint  "Creates the disjoint product of two records": union of the two label sets,
               each label keeps its value
     init      "_function is then called as (element<L_i,T_i>) for i = 1..n": label L_i gets the
               value the function returns for L_i
     get       "Returns the element identified by Label"
     set       "Copies / Moves _value to the element identified by Label in _arg": that label gets
               the value, the others keep theirs *)
EXTENDS Naturals, Sequences, FiniteSets, TLC

CONSTANT LabelBug

RecPermute(r) == r
RecMap(r) == r
RecMultiplyDisjoint(r1, r2) == r1 @@ r2
RecInit(labels, F(_)) == [l \in labels |-> F(l)]
RecGet(r, l) == r[l]
RecSet(r, l, v) ==
  IF LabelBug = "set_wrong_label"
  THEN [m \in DOMAIN r |-> IF m = "a" THEN v ELSE r[m]]
  ELSE [r EXCEPT ![l] = v]

\* a logged label list <<[l |-> "a", tok |-> 1], ...>> as a record value
AsRec(s) == [l \in {s[i].l : i \in DOMAIN s} |-> s[CHOOSE i \in DOMAIN s : s[i].l = l].tok]
LabelsDistinct(s) == \A i, j \in DOMAIN s : s[i].l = s[j].l => i = j

\* what the result record of operation op must be, given the argument records A (a sequence of record
\* values; for set/get the label is "a" and a lone element is the record ["x" |-> tok])
Contract(op, A) ==
  CASE op \in {"record::permute", "record::map", "record::init", "record::object(record)"} -> RecPermute(A[1])
    [] op = "record::multiply_disjoint" -> RecMultiplyDisjoint(A[1], A[2])
    [] op = "record::object(labels)" -> ("a" :> A[1]["x"]) @@ ("b" :> A[2]["x"])
    [] op = "record::get" -> ("x" :> RecGet(A[1], "a"))
    [] op = "record::set" -> RecSet(A[1], "a", A[2]["x"])
HasContract(op) == op \in {"record::permute", "record::map", "record::init", "record::object(record)",
                           "record::multiply_disjoint", "record::object(labels)", "record::get", "record::set"}
=============================================================================
