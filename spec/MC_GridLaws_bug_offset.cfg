SPECIFICATION Spec
CONSTANTS
  N = 2
  MaxE = 4
  MaxC = 5
  StrideBug = TRUE
  LawBug = 0
INVARIANTS OffsetLaw
