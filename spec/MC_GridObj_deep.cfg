SPECIFICATION Spec
CONSTANTS
  NS = 2
  Sizes <- MCSizes
  Vals = {7}
  Gens <- MCGens
  RowShapes <- MCRows
  MaxOps = 5
  Bug = ""
  LawBug = FALSE
VIEW View
INVARIANTS Refines Laws
CHECK_DEADLOCK FALSE
