SPECIFICATION ISpec
CONSTANTS
  NV = 2
  NB = 0
  Val = {0, 1}
  MaxLen = 3
  MaxW = 0
  MaxCap = 12
  AliasBug = FALSE
  EraseRetBug = FALSE
VIEW IView
INVARIANTS Refines RepInv ReturnsAgree TypeOK Bounded
CHECK_DEADLOCK FALSE
