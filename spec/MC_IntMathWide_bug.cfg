SPECIFICATION Spec
CONSTANTS
  Base <- SmallBase
  N = 24
  BreakSub = TRUE
INVARIANTS NatLaws ZLaws BoundLaws WideLaws
CHECK_DEADLOCK FALSE
