SPECIFICATION Spec
CONSTANTS
  Base <- SmallBase
  N = 150
  BreakSub = TRUE
INVARIANTS NatLaws ZLaws PowLaws BoundLaws WideLaws
CHECK_DEADLOCK FALSE
