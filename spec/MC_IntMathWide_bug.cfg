SPECIFICATION Spec
CONSTANTS
  LimbBits <- SmallLimbBits
  N = 24
  BreakSub = TRUE
INVARIANTS NatLaws
CHECK_DEADLOCK FALSE
