SPECIFICATION RLSpec
CONSTANTS
  BugNextArgNoSkip = FALSE
  BugUseFlagAll = FALSE
  BugOptionalOrigState = FALSE
  BugNames = "none"
  BugErrorState = "none"
  BugMissingIsOther = FALSE
  BugUsage = "none"
  Reasons <- OptionsReasons
INVARIANT RLVerdict
CONSTRAINT RLConsumed
POSTCONDITION RLPost
CHECK_DEADLOCK FALSE
