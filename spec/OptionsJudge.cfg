SPECIFICATION RLSpec
CONSTANTS
  BugNextArgNoSkip = FALSE
  BugUseFlagAll = FALSE
  BugOptionalOrigState = FALSE
  Reasons <- OptionsReasons
INVARIANT RLVerdict
CONSTRAINT RLConsumed
POSTCONDITION RLPost
CHECK_DEADLOCK FALSE
