SPECIFICATION SSpec
CONSTANTS
  NL = 2
  NE = 3
  AbsBug = "none"
  SigBug = "none"
  NB = 1
VIEW SView
INVARIANTS TypeOK LawUnregisterOnce LawOwnership LawCalledAreLive LawCallExplained LawDyingView
CHECK_DEADLOCK FALSE
