SPECIFICATION SSpec
CONSTANTS
  NL = 2
  NE = 3
  AbsBug = "none"
  SigBug = "none"
VIEW SView
INVARIANTS TypeOK LawUnregisterOnce LawCalledAreLive LawCallExplained
CONSTRAINT SEmit
CHECK_DEADLOCK FALSE
