SPECIFICATION TSpec
CONSTANTS
  NS = 4
  Val = {0}
  MaxNodes = 0
INVARIANT Verdict
CONSTRAINT Consumed
POSTCONDITION Post
CHECK_DEADLOCK FALSE
