SPECIFICATION Spec
CONSTANTS
  R = 3
  L = 3
  NegLo = 1
  Hi = 2
  Wide = 2
  MaxSize = 3
  Bug = "convert_to_max_from_a"
INVARIANTS LawReadBack
CHECK_DEADLOCK FALSE
