INIT LogIInit
NEXT LogINext
CONSTANTS
  NS = 1
  Val = {1, 6, 11, 16, 21, 26}
  MaxNodes = 7
  SwapBug = FALSE
  CopyAssignBug = FALSE
  MoveAssignBug = FALSE
  InsertNoParentBug = FALSE
  CopyNoReparentBug = FALSE
  EraseKeepsBug = FALSE
  PushFrontRetBug = FALSE
  ReleaseNoClear = FALSE
  LogDupBug = TRUE
  LogSetShallowBug = FALSE
  LeakTempBug = FALSE
  MoveAssignInPlaceBug = FALSE
VIEW IView
INVARIANTS Refines
CHECK_DEADLOCK FALSE
