----------------------------- MODULE GridIter -----------------------------
(* The position iterator of fcppt::container::grid::pos_range as a state
   machine, transcribed from
     libs/core/include/fcppt/container/grid/next_position.hpp  (NextPos)
     libs/core/include/fcppt/container/grid/end_position.hpp   (EndPos)
     pos_range_impl.hpp (begin() = min, end() = end_position(min, sup))
     pos_iterator_impl.hpp (equal = same current position).
   One TLC behaviour per (min, sup): begin, then ++ until the iterator
   compares equal to end().  `visited` is a history variable (the positions
   dereferenced so far).

   What is model-checked (MC_GridIter*.cfg), for every (min, sup) with
   components in 0..MaxC:
     InSet      a dereferenceable iterator always points into RangeSet
     Prefix     what has been visited is a prefix of RowMajor(RangeSet)
     AtEnd      on reaching end() exactly RowMajor(RangeSet) was visited,
                i.e. after exactly |RangeSet| steps  (= size(), SizeLaw)
     deadlock   only at end(): the machine cannot stop early
   Prefix bounds the length of every behaviour by |RangeSet|, so every
   behaviour reaches end().

   Bug constants (vacuity guards; the check requires TLC to refute them):
     CarryBug = 1  compare with sup - 1 in the carry test
     CarryBug = 2  carry does not reset the coordinate to min
     EndBug        end() does not use the min_less_sup guard
     SizeBug       range_dim without the min_less_sup guard (wraps in C++;
                   here: plain differences) *)
EXTENDS Grid

CONSTANTS N, MaxC, CarryBug, EndBug, SizeBug

VARIABLES min, sup, cur, visited

vars == <<min, sup, cur, visited>>

Coords == [1..N -> 0..MaxC]

(* fold over Index = 0 .. Size-2 (here k = 1 .. N-1) of next_position.hpp *)
RECURSIVE Carry(_, _, _, _)
Carry(r, mn, sp, k) ==
  IF k >= N THEN r
  ELSE LET hit == IF CarryBug = 1 THEN r[k] = sp[k] - 1 ELSE r[k] = sp[k]
           r2 == IF hit
                 THEN [r EXCEPT ![k] = IF CarryBug = 2 THEN r[k] ELSE mn[k], ![k + 1] = r[k + 1] + 1]
                 ELSE r
       IN Carry(r2, mn, sp, k + 1)

NextPos(c, mn, sp) == Carry([c EXCEPT ![1] = c[1] + 1], mn, sp, 1)

EndPos(mn, sp) ==
  IF EndBug \/ MinLessSup(mn, sp)
  THEN [i \in 1..N |-> IF i < N THEN mn[i] ELSE sp[i]]
  ELSE mn

(* range_size = contents(range_dim) *)
SizeOf(mn, sp) ==
  IF SizeBug \/ MinLessSup(mn, sp)
  THEN ProdTo([i \in 1..N |-> sp[i] - mn[i]], N)
  ELSE 0

Init ==
  /\ min \in Coords
  /\ sup \in Coords
  /\ cur = min
  /\ visited = <<>>

AtEndPos == cur = EndPos(min, sup)

Step ==
  /\ ~AtEndPos
  /\ visited' = Append(visited, cur)
  /\ cur' = NextPos(cur, min, sup)
  /\ UNCHANGED <<min, sup>>

(* stutter at end so that "deadlock" means: stopped although not at end *)
Done == AtEndPos /\ UNCHANGED vars

Spec == Init /\ [][Step \/ Done]_vars

View == <<min, sup, cur, Len(visited)>>

S == RangeSet(min, sup)
RM == RowMajor(S)

TypeOK ==
  /\ min \in Coords /\ sup \in Coords
  /\ cur \in [1..N -> Int]
InSet == ~AtEndPos => cur \in S
Prefix ==
  /\ Len(visited) <= Len(RM)
  /\ \A k \in 1..Len(visited) : visited[k] = RM[k]
  /\ (~AtEndPos /\ Len(visited) < Len(RM)) => cur = RM[Len(visited) + 1]
AtEnd == AtEndPos => (visited = RM /\ Len(visited) = Cardinality(S))
SizeLaw == SizeOf(min, sup) = Cardinality(S) /\ RangeCount(min, sup) = Cardinality(S)
=============================================================================
