-------------------------------- MODULE Box --------------------------------
(* fcppt::math::box as half-open point sets on the integer lattice
   (property C13).  A box is a record [pos |-> <<..>>, max |-> <<..>>] of two
   N-tuples of integers; its point set is

        Pts(b) = { p : pos[i] <= p[i] < max[i] for every coordinate i }.

   Two layers:
   * point-set level (S...): what the statement of C13 says, in terms of
     Pts only;
   * formula level (F...): the per-coordinate comparisons / min / max that
     the documentation of the headers describes.
   BoxLaws.tla model-checks  formula level == point-set level  for every box
   (pair) with corners in a small cube; BoxJudge.tla judges the recorded
   results of the real code with the point-set level.

   The statement conditions intersects / contains / extend_bounding_box on
   non-empty operands; nothing beyond the point-set clause is demanded for
   empty or inverted boxes. *)
EXTENDS Integers, Sequences, FiniteSets, TLC

Idx(v) == 1..Len(v)
Max2(a, b) == IF a >= b THEN a ELSE b
Min2(a, b) == IF a <= b THEN a ELSE b
AbsI(x) == IF x < 0 THEN -x ELSE x
SetMin(S) == CHOOSE x \in S : \A y \in S : x <= y
SetMax(S) == CHOOSE x \in S : \A y \in S : x >= y
RECURSIVE ProdTo(_, _)
ProdTo(v, k) == IF k = 0 THEN 1 ELSE v[k] * ProdTo(v, k - 1)

Box(p, m) == [pos |-> p, max |-> m]
Dim(b) == Len(b.pos)
Zero(n) == [i \in 1..n |-> 0]
Null(n) == Box(Zero(n), Zero(n))

(* ---- point sets -------------------------------------------------------- *)
RECURSIVE PtsTo(_, _)
PtsTo(b, k) ==
  IF k = 0 THEN {<<>>}
  ELSE {Append(q, x) : q \in PtsTo(b, k - 1), x \in b.pos[k]..(b.max[k] - 1)}
Pts(b) == PtsTo(b, Dim(b))

NonEmpty(b) == \A i \in Idx(b.pos) : b.pos[i] < b.max[i]       \* <=> Pts(b) # {}  (law)
Proper(b) == \A i \in Idx(b.pos) : b.pos[i] <= b.max[i]        \* not inverted

(* the least box containing a non-empty point set *)
BoundingBox(S) ==
  LET n == Len(CHOOSE p \in S : TRUE) IN
  Box([i \in 1..n |-> SetMin({p[i] : p \in S})], [i \in 1..n |-> SetMax({p[i] : p \in S}) + 1])

(* ---- point-set level ----------------------------------------------------- *)
SContainsPoint(b, p) == p \in Pts(b)
SIntersects(a, b) == Pts(a) \cap Pts(b) # {}
SContains(outer, inner) == Pts(inner) \subseteq Pts(outer)
(* r is an acceptable result of intersection(a, b) *)
SIsIntersection(r, a, b) ==
  /\ Pts(r) = Pts(a) \cap Pts(b)
  /\ (NonEmpty(a) /\ NonEmpty(b) /\ ~SIntersects(a, b)) => r = Null(Dim(a))
(* extend_bounding_box of two non-empty boxes *)
SExtend(a, b) == BoundingBox(Pts(a) \cup Pts(b))

(* ---- formula level --------------------------------------------------------- *)
FContainsPoint(b, p) == \A i \in Idx(p) : b.pos[i] <= p[i] /\ p[i] < b.max[i]
FIntersects(a, b) == \A i \in Idx(a.pos) : b.pos[i] < a.max[i] /\ a.pos[i] < b.max[i]
FContains(outer, inner) == \A i \in Idx(outer.pos) : inner.pos[i] >= outer.pos[i] /\ inner.max[i] <= outer.max[i]
FIntersection(a, b) ==
  IF FIntersects(a, b)
  THEN Box([i \in Idx(a.pos) |-> Max2(a.pos[i], b.pos[i])], [i \in Idx(a.pos) |-> Min2(a.max[i], b.max[i])])
  ELSE Null(Dim(a))
FExtend(a, b) ==
  Box([i \in Idx(a.pos) |-> Min2(a.pos[i], b.pos[i])], [i \in Idx(a.pos) |-> Max2(a.max[i], b.max[i])])
(* "the same box if the point is contained, or a box that's just big enough to hold the point" *)
FExtendPoint(b, p) ==
  Box([i \in Idx(p) |-> Min2(p[i], b.pos[i])], [i \in Idx(p) |-> Max2(p[i], b.max[i])])

Size(b) == [i \in Idx(b.pos) |-> b.max[i] - b.pos[i]]
Corners(b) == {[i \in Idx(b.pos) |-> IF i \in s THEN b.max[i] ELSE b.pos[i]] : s \in SUBSET Idx(b.pos)}
Shrink(b, v) == Box([i \in Idx(v) |-> b.pos[i] + v[i]], [i \in Idx(v) |-> b.max[i] - v[i]])
Stretch(b, v) == Box([i \in Idx(v) |-> b.pos[i] - v[i]], [i \in Idx(v) |-> b.max[i] + v[i]])
(* integral types: size / 2 truncates; only used for proper boxes *)
Center(b) == [i \in Idx(b.pos) |-> b.pos[i] + (b.max[i] - b.pos[i]) \div 2]

(* interval_distance (math/interval_distance.hpp), from its documentation, for
   non-empty intervals [a1,a2), [b1,b2).  The result is a set: the text
   ("zero if the inner interval touches the outer one") and the usual reading
   ("negative the common length") disagree when one interval contains the
   other and they share an end point; both values are accepted there. *)
IntervalDistances(a1, a2, b1, b2) ==
  LET common == Min2(a2, b2) - Max2(a1, b1)
      aInB == b1 <= a1 /\ a2 <= b2
      bInA == a1 <= b1 /\ b2 <= a2
  IN
  IF a2 <= b1 \/ b2 <= a1 THEN {Max2(b1 - a2, a1 - b2)}                   \* apart or touching: the gap
  ELSE IF ~aInB /\ ~bInA THEN {-common}                                     \* partial overlap
  ELSE LET o1 == IF bInA THEN a1 ELSE b1
           o2 == IF bInA THEN a2 ELSE b2
           i1 == IF bInA THEN b1 ELSE a1
           i2 == IF bInA THEN b2 ELSE a2
       IN IF o1 < i1 /\ i2 < o2 THEN {-Min2(i1 - o1, o2 - i2)}             \* strictly inside: the shorter part
          ELSE {0, -common}                                                 \* shared end point (see above)

(* ---- extension round ------------------------------------------------------------- *)
(* interval_distance, exactly what its documentation promises for non-empty intervals
   [a1,a2), [b1,b2)  (math/interval_distance.hpp):
     "Distance can be zero if the intervals touch, or negative if they overlap."
     "If they only partially overlap, the distance is negative the common length where they
      overlap."
     "If one completely contains the other, the "outer" interval is split in two parts by the
      "inner" one. In this case, the (again negative) length of the shorter part is returned.
      Therefore the distance is zero if the inner interval touches the outer one."
   "only partially overlap" excludes containment, so the containment clause also governs nested
   intervals that share an end point (shorter part = 0) and equal intervals (both parts 0). *)
IntervalDistanceDoc(a1, a2, b1, b2) ==
  IF a2 <= b1 \/ b2 <= a1 THEN Max2(b1 - a2, a1 - b2)
  ELSE IF a1 <= b1 /\ b2 <= a2 THEN -Min2(b1 - a1, a2 - b2)       \* b inside a
  ELSE IF b1 <= a1 /\ a2 <= b2 THEN -Min2(a1 - b1, b2 - a2)       \* a inside b
  ELSE -(Min2(a2, b2) - Max2(a1, b1))
NestedTouching(a1, a2, b1, b2) ==
  /\ ~(a2 <= b1 \/ b2 <= a1)
  /\ ((a1 <= b1 /\ b2 <= a2) \/ (b1 <= a1 /\ a2 <= b2))
  /\ (a1 = b1 \/ a2 = b2)

(* transcription of the function body.  Old = TRUE: the code before fixes/C13_interval_distance_
   nested_touching.diff (swap on i1_second <= i2_second, first branch on i2_first <= i1_first);
   Old = FALSE: the repaired code (i1 is made the interval with the larger upper end, or with the
   smaller lower end when the upper ends are equal; first branch on i2_first < i1_first). *)
IntervalDistanceImpl(a1, a2, b1, b2, Old) ==
  LET sw == IF Old THEN a2 <= b2 ELSE (a2 < b2 \/ (a2 = b2 /\ b1 < a1))
      f1 == IF sw THEN b1 ELSE a1
      s1 == IF sw THEN b2 ELSE a2
      f2 == IF sw THEN a1 ELSE b1
      s2 == IF sw THEN a2 ELSE b2
      first == IF Old THEN f2 <= f1 ELSE f2 < f1
  IN IF first THEN f1 - s2 ELSE Max2(s2 - s1, f1 - f2)

(* text forms: vector / dim "(a_1,a_2,...)" (math/vector/output.hpp, math/dim/output.hpp), box
   "(position,size)" (math/box/output.hpp); code points, compared without spaces *)
RECURSIVE NatDigitsB(_)
NatDigitsB(n) == IF n < 10 THEN <<48 + n>> ELSE NatDigitsB(n \div 10) \o <<48 + (n % 10)>>
IntTextB(v) == IF v < 0 THEN <<45>> \o NatDigitsB(-v) ELSE NatDigitsB(v)
RECURSIVE JoinCommaB(_)
JoinCommaB(ss) == IF ss = <<>> THEN <<>> ELSE IF Len(ss) = 1 THEN ss[1] ELSE ss[1] \o <<44>> \o JoinCommaB(Tail(ss))
TupleText(v) == <<40>> \o JoinCommaB([i \in Idx(v) |-> IntTextB(v[i])]) \o <<41>>
BoxText(b) == <<40>> \o TupleText(b.pos) \o <<44>> \o TupleText(Size(b)) \o <<41>>
NoSpacesB(s) == SelectSeq(s, LAMBDA c : c # 32)
=============================================================================
