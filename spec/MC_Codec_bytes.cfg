SPECIFICATION Spec
CONSTANTS
  Mode = "bytes"
  Step = 257
  DecRange = 70000
  U8 <- Utf8
  WR <- Write
  TD <- ToDec
  NT <- NumText
  NTL <- NumTextLoc
  CV <- Convert
  RV <- ReadVec
INVARIANTS LawBytesRoundTrip LawBytesLayout LawSwap LawConvert
CHECK_DEADLOCK FALSE
