SPECIFICATION SpecPairs
CONSTANTS
  PairVals <- Vm1to2
  TripleVals <- Vm1to1
  TripleValsC <- Vm1to1
  CubeVals <- Vm1to1
  CubeVals23 <- Vm1to1
INVARIANT TransposeInvolution
INVARIANT TransposeProduct
INVARIANT DetMultiplicative
INVARIANT AdjugateLaw
INVARIANT AdditiveGroup
INVARIANT IdentityLaw
INVARIANT ModuleLaws
CHECK_DEADLOCK FALSE
