SPECIFICATION CSpec
CONSTANTS
  Names <- CNames
  MaxDepth = 2
  SetLevels = {1}
  RootLevels = {3}
  Objs = {1}
  MaxSets = 1
  MaxOps = 1
  GenObservers = FALSE
  SetNodeOnlyBug = FALSE
  InheritRootBug = FALSE
  Threads <- ThreeThreads
  Budget <- Budget1
  Kinds <- KindsAll
  CSetLocs <- SetLocs3
  CSetLevels = {1, 4}
  CGetLocs <- GetLocs3
  CCreateArgs <- CreateArgs3
  InitOrder <- Order3
  InitObjs <- ObjsAB
  CRoot = 3
  DropLockBug = FALSE
  CachedLevelBug = FALSE
  StaleParentReadBug = FALSE
INVARIANTS CTypeOK NewChildLevelOK MutualExclusion RefinesWhenFree LPWWhenFree LockedReturnsAtomic LockFreeReadOK NoDeadlock
CHECK_DEADLOCK FALSE
