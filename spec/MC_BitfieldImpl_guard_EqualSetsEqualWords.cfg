SPECIFICATION ISpec
CONSTANTS
  N <- EnvN
  W <- EnvW
  Bug <- EnvBug
VIEW IView
INVARIANT EqualSetsEqualWords
CHECK_DEADLOCK FALSE
