SPECIFICATION ISpec
CONSTANTS
  N <- EnvN
  W <- EnvW
  Bug <- EnvBug
  FullOps <- EnvFull
VIEW IView
INVARIANT EqualSetsEqualWords
CHECK_DEADLOCK FALSE
