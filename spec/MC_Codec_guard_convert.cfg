SPECIFICATION Spec
CONSTANTS
  Mode = "bytes"
  Step = 257
  DecRange = 70000
  U8 <- Utf8
  WR <- Write
  TD <- ToDec
  NT <- NumText
  NTL <- NumTextLoc
  CV <- ConvertBug
  RV <- ReadVec
INVARIANTS LawConvert
CHECK_DEADLOCK FALSE
