------------------------------- MODULE Random -------------------------------
(* C20 - fcppt random wrappers are transparent and stay within the requested bounds.

   An ENGINE is a script: a sequence of raw values in 0..R with a read cursor (the number of
   raw values consumed so far).  A draw of the wrapped standard distribution is a record
        [val |-> base value, cursor |-> cursor after the draw, ex |-> ran out of raw values]
   The algorithm of the standard distribution is deliberately NOT specified (the property makes
   it the reference: "exactly the sequence that the wrapped standard distribution produces").
   What the property says about a WRAPPER is:

     Draw of a wrapper  =  Decorate( StdDraw( base parameters, script, cursor ) )
     and the cursor advances exactly as the wrapped draw advances it,

   plus bounds for uniform integer / enum distributions, the index interval of the factories and
   the element law of uniform_container.  Values are (sign, magnitude) records as in Codec.tla
   because type-limit intervals do not fit TLC's 32-bit integers; small models use integers.   *)
EXTENDS Integers, Sequences

(* ------------------------------------------------------------------ type isomorphisms *)
\* fcppt::type_iso: plain arithmetic types, strong typedefs and enums (enumerator index)
Kinds == {"plain", "strong", "enum"}

\* a decorated value carries its kind (the C++ type) and the base value
Decorate(kind, v) == [k |-> kind, v |-> v]
Base(kind, x) == x.v
IsDecorated(kind, x) == x.k = kind

\* parameters of a wrapper (decorated) -> parameters of the wrapped distribution
BaseParams(kind, par) == [a |-> Base(kind, par.a), b |-> Base(kind, par.b)]

(* ------------------------------------------------------------------ the wrapper *)
\* Std(params, script, cursor) is the wrapped draw; the wrapper decorates its value and
\* advances the cursor exactly as the wrapped draw does.
WrapperDraw(Std(_, _, _), kind, par, script, cursor) ==
  LET r == Std(BaseParams(kind, par), script, cursor)
  IN [val |-> IF r.ex THEN r.val ELSE Decorate(kind, r.val), cursor |-> r.cursor, ex |-> r.ex]

(* ---- distributions with hidden state.  A standard distribution may keep hidden state between
   draws (std::normal_distribution produces values in pairs and caches the second one).  The
   hidden state is abstract - "a function of the draws since the last reset":
        StdH(params, hidden, script, cursor) = [val, cursor, ex, hidden]   (hidden = the new state)
   A wrapper has no hidden state of its own; its state IS the wrapped distribution's:
     * a draw passes the hidden state through the wrapped draw,
     * reset() returns the wrapped distribution to its INITIAL hidden state and leaves the
       parameters alone, so that the wrapper's future equals that of a fresh standard
       distribution with the same parameters on the same engine state,
     * param(p) / operator()(rng, p) / min() / max() / == / << are the wrapped members on the
       base parameters (lock-step with the standard distribution is all the property says). *)
WrapperDrawH(StdH(_, _, _, _), kind, par, hidden, script, cursor) ==
  LET r == StdH(BaseParams(kind, par), hidden, script, cursor)
  IN [val |-> IF r.ex THEN r.val ELSE Decorate(kind, r.val), cursor |-> r.cursor, ex |-> r.ex, hidden |-> r.hidden]

WrapperReset(initialHidden, hidden) == initialHidden

\* Copying a wrapper object (copy construction / assignment of distribution::basic, handing a
\* distribution object to variate(generator, distribution) / make_variate, copying or moving a
\* variate) copies the wrapped distribution, hidden state included: the copy continues exactly
\* where a copy of the wrapped standard distribution would.
WrapperCopy(hidden) == hidden

\* Parameters read back from a wrapper (param(): wrapped parameters -> decorated parameters) are
\* the parameters it was given, so a distribution built from them - by the constructor, param(p),
\* operator()(rng, p) or inside a variate - draws exactly like the original one.
ReadBack(kind, par) == [a |-> Decorate(kind, Base(kind, par.a)), b |-> Decorate(kind, Base(kind, par.b))]

\* enum distribution: all enumerators, i.e. the closed interval [0, max_value]
EnumParams(maxIndex) == [a |-> Decorate("enum", 0), b |-> Decorate("enum", maxIndex)]

\* index / container factories: nothing for an empty container, [0, size-1] otherwise
None == <<>>
Some(x) == <<x>>
IndexParams(size) == IF size = 0 THEN None ELSE Some([a |-> Decorate("plain", 0), b |-> Decorate("plain", size - 1)])

\* uniform_container: the element at the drawn index (0-based index into a 1-based sequence)
ContainerElement(elems, idx) == elems[idx + 1]

RECURSIVE ContainerAfterWrites(_, _, _)
\* uniform_container returns references into the container (result_type =
\* container::to_reference_type<Container>): assigning base+0, base+1, ... through the results of
\* consecutive draws at positions idxs leaves these values in the container
ContainerAfterWrites(elems, idxs, base) ==
  IF idxs = <<>> THEN elems
  ELSE ContainerAfterWrites([elems EXCEPT ![idxs[1] + 1] = base], Tail(idxs), base + 1)

(* ------------------------------------------------------------------ (sign, magnitude) numbers *)
IsNum(x) == /\ x.s \in {0, 1}
            /\ \A i \in 1..Len(x.m) : x.m[i] \in 0..255
            /\ (x.m # <<>> => x.m[1] # 0)
            /\ (x.m = <<>> => x.s = 0)

RECURSIVE MagLess(_, _)
\* magnitudes without leading zeros, most significant digit first
MagLess(m, n) ==
  IF Len(m) # Len(n) THEN Len(m) < Len(n)
  ELSE IF m = <<>> THEN FALSE
  ELSE IF m[1] # n[1] THEN m[1] < n[1]
  ELSE MagLess(Tail(m), Tail(n))

NumLess(x, y) ==
  IF x.s # y.s THEN x.s = 1
  ELSE IF x.s = 0 THEN MagLess(x.m, y.m) ELSE MagLess(y.m, x.m)

NumLeq(x, y) == x = y \/ NumLess(x, y)
NumBetween(x, lo, hi) == NumLeq(lo, x) /\ NumLeq(x, hi)

RECURSIVE MagOfNat(_)
MagOfNat(n) == IF n = 0 THEN <<>> ELSE Append(MagOfNat(n \div 256), n % 256)
NumOfInt(n) == IF n < 0 THEN [s |-> 1, m |-> MagOfNat(-n)] ELSE [s |-> 0, m |-> MagOfNat(n)]

(* ------------------------------------------------------------------ laws on recorded runs *)
\* a run: the values of consecutive draws, the cursor after each draw, and whether the run was
\* ended by the script running out (no value is produced by that last, aborted draw)
Monotone(cs) == \A i \in 1..(Len(cs) - 1) : cs[i] <= cs[i + 1]

RunWellFormed(run, scriptLen) ==
  /\ Len(run.v) = Len(run.c)
  /\ Monotone(run.c)
  /\ \A i \in 1..Len(run.c) : run.c[i] \in 0..scriptLen

\* lock-step transparency: same values, same consumption, same point of exhaustion
LockStep(w, s) == /\ w.v = s.v /\ w.c = s.c /\ w.ex = s.ex

=============================================================================
