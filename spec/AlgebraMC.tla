----------------------------- MODULE AlgebraMC -----------------------------
(* C04 - model check of Algebra.tla: the bounded input space of every law is enumerated as
   the set of INITIAL STATES (one state = one case: values x complete function tables), the
   laws are invariants.  TLC's distinct-state count is the number of cases checked and a
   failing case is printed as a one-state counterexample.

   Group selects the family of cases (one TLC run per group, see spec/MC_Algebra_*.cfg):
     functor   optional/either values x all f, g in [D -> D]
     optmonad  optional values x all k, h in [D -> Opt(D)]
     eitmonad  either values x all k, h in [D -> Either(D,D)]
     optapp    pairs of optionals x all binary f in [D x D -> D]
     eitapp    pairs of eithers x all binary f
     seq       all sequences of optionals / eithers up to MaxLen
     once      optional x either x variant x f x predicate: invocation counts
     order     triples of variants x triples of optionals: comparison operators
   The laws are theorems of the MODEL; they make the oracle that judges the real code
   trustworthy.  With Bug # "none" (vacuity guards) the named law must fail. *)
EXTENDS Algebra, TLC

CONSTANTS Group, MaxLen

VARIABLE s

OD == Opt(D)
ED == Either(D, D)
VD == Variant(<<D, D, D>>)
VD4 == Variant(<<D, D, D, D>>)
DynTypes == {<<>>, <<1>>, <<2>>, <<1, 2>>, <<2, 1>>}
T1(Rg) == [1..N -> Rg]
T2(Rg) == [1..N -> [1..N -> Rg]]
SeqsUpTo(S, n) == UNION {[1..m -> S] : m \in 0..n}

Cases ==
  CASE Group = "functor"  -> [o : OD, e : ED, f : T1(D), g : T1(D)]
    [] Group = "optmonad" -> [o : OD, k : T1(OD), h : T1(OD)]
    [] Group = "eitmonad" -> [e : ED, k : T1(ED), h : T1(ED)]
    [] Group = "optapp"   -> [o1 : OD, o2 : OD, f : T2(D)]
    [] Group = "eitapp"   -> [e1 : ED, e2 : ED, f : T2(D)]
    [] Group = "seq"      -> [kind : {"opt"}, xs : SeqsUpTo(OD, MaxLen)]
                             \cup [kind : {"eit"}, xs : SeqsUpTo(ED, MaxLen)]
    [] Group = "once"     -> [o : OD, e : ED, v : VD, f : T1(D), p : T1(BOOLEAN)]
    [] Group = "order"    -> [a : VD, b : VD, c : VD, x : OD, y : OD, z : OD]
    \* extension round
    [] Group = "refs"     -> [o : Opt({Ref(i) : i \in 1..N}), p : 0..N, store : T1(D), x : D, y : D]
    [] Group = "ext"      -> [o : OD, oo : Opt(OD), e : ED, f : T1(D), b : BOOLEAN, x : D, y : D]
    [] Group = "seqerr"   -> [xs : SeqsUpTo(D, MaxLen), f : T1(Either(D, {0}))]
    [] Group = "variant4" -> [v : VD4, w : VD4, i : 1..4, y : D, types : DynTypes, castable : SUBSET {1, 2}]
    [] Group = "do"       -> [o : OD, e : ED, l1 : T1(OD), l2 : T2(OD), m1 : T1(ED)]

Init == s \in Cases
Next == UNCHANGED s
Spec == Init /\ [][Next]_s

Is(g) == Group = g

Id == [i \in 1..N |-> i - 1]
Comp(g, f) == [i \in 1..N |-> Ap1(g, f[i])]
OptRet == [i \in 1..N |-> Some(i - 1)]
EitRet == [i \in 1..N |-> Succ(i - 1)]
OptKComp(k, h) == [i \in 1..N |-> OptBind(k[i], h).res]
EitKComp(k, h) == [i \in 1..N |-> EitBind(k[i], h).res]
ValOf(r) == IF "v" \in DOMAIN r THEN r.v ELSE 0

(* ------------------------------------------------------------------ functor *)
LawFunctorIdentity == Is("functor") =>
  /\ OptMap(s.o, Id).res = s.o
  /\ EitMap(s.e, Id).res = s.e
  /\ EitMapFailure(s.e, Id).res = s.e

LawFunctorComposition == Is("functor") =>
  /\ OptMap(OptMap(s.o, s.f).res, s.g).res = OptMap(s.o, Comp(s.g, s.f)).res
  /\ EitMap(EitMap(s.e, s.f).res, s.g).res = EitMap(s.e, Comp(s.g, s.f)).res
  /\ EitMapFailure(EitMapFailure(s.e, s.f).res, s.g).res = EitMapFailure(s.e, Comp(s.g, s.f)).res
  \* bifunctor: the two maps commute
  /\ EitMap(EitMapFailure(s.e, s.f).res, s.g).res = EitMapFailure(EitMap(s.e, s.g).res, s.f).res

\* map = bind (return . f); unary apply = map; match/maybe with constructors rebuild the value
LawMapIsBindReturn == Is("functor") =>
  /\ OptMap(s.o, s.f).res = OptBind(s.o, [i \in 1..N |-> Some(s.f[i])]).res
  /\ EitMap(s.e, s.f).res = EitBind(s.e, [i \in 1..N |-> Succ(s.f[i])]).res
  /\ OptApply(s.f, <<s.o>>).res = OptMap(s.o, s.f).res
  /\ EitApply(s.f, <<s.e>>).res = EitMap(s.e, s.f).res
  /\ \A d \in D : OptMaybe(s.o, d, s.f).res = OptFrom(OptMap(s.o, s.f).res, d).res
  /\ \A d \in D : OptFrom(s.o, d).res = OptMaybe(s.o, d, Id).res
  /\ EitMatch(s.e, s.f, s.g).res = IF IsSucc(s.e) THEN Ap1(s.g, s.e.v) ELSE Ap1(s.f, s.e.v)
  /\ EitSuccessOpt(EitMap(s.e, s.f).res).res = OptMap(EitSuccessOpt(s.e).res, s.f).res
  /\ EitFailureOpt(EitMapFailure(s.e, s.f).res).res = OptMap(EitFailureOpt(s.e).res, s.f).res
  /\ \A d \in D : EitFromOptional(s.o, d).res = IF IsSome(s.o) THEN Succ(s.o.v) ELSE Fail(d)
  /\ \A d \in D : EitSuccessOpt(EitFromOptional(s.o, d).res).res = s.o

\* round 3: the variadic forms of maybe_multi with one and with three optionals (cases of the functor
\* group; the ternary table is built from the two unary ones): one optional = maybe; three optionals =
\* maybe of apply, the transform is called iff all three are set and with the values in argument order
LawMaybeMultiVariadic == Is("functor") =>
  LET t3 == [i \in 1..N |-> [j \in 1..N |-> [k \in 1..N |->
               Ap1(s.f, ((i - 1) + Ap1(s.g, j - 1) + 2 * (k - 1)) % N)]]]
  IN /\ \A d \in D : OptMaybeMulti(d, s.f, <<s.o>>) = OptMaybe(s.o, d, s.f)
     /\ \A d \in D, o2 \in {None, Some(0), Some(N - 1)}, o3 \in OD :
          LET os == <<s.o, o2, o3>>
              m3 == OptMaybeMulti(d, t3, os)
              all == IsSome(s.o) /\ IsSome(o2) /\ IsSome(o3)
          IN /\ m3.res = OptMaybe(OptApply(t3, os).res, d, Id).res
             /\ m3.calls = (IF all THEN <<Call("f", 0, <<s.o.v, o2.v, o3.v>>)>> ELSE <<Call("d", 0, <<>>)>>)
             /\ (all => m3.res = Ap1(s.f, (s.o.v + Ap1(s.g, o2.v) + 2 * o3.v) % N))

(* ------------------------------------------------------------------ optional monad *)
LawOptLeftIdentity == Is("optmonad") => \A x \in D : OptBind(Some(x), s.k).res = Ap1(s.k, x)
LawOptRightIdentity == Is("optmonad") => OptBind(s.o, OptRet).res = s.o
LawOptAssoc == Is("optmonad") =>
  OptBind(OptBind(s.o, s.k).res, s.h).res = OptBind(s.o, OptKComp(s.k, s.h)).res
\* join = bind id, stated without a table over optionals: bind m k = join (map k m),
\* join . return = id, join . map return = id, and pointwise on all of Opt(Opt(D))
LawOptJoin == Is("optmonad") =>
  /\ OptJoin(OptMap(s.o, s.k).res).res = OptBind(s.o, s.k).res
  /\ OptJoin(Some(s.o)).res = s.o
  /\ OptJoin(OptMap(s.o, OptRet).res).res = s.o
  /\ \A oo \in Opt(OD) : OptJoin(oo).res = (IF IsSome(oo) THEN oo.v ELSE None)
  /\ OptJoin(s.o).calls = <<>>

(* ------------------------------------------------------------------ either monad *)
LawEitLeftIdentity == Is("eitmonad") => \A x \in D : EitBind(Succ(x), s.k).res = Ap1(s.k, x)
LawEitRightIdentity == Is("eitmonad") => EitBind(s.e, EitRet).res = s.e
LawEitAssoc == Is("eitmonad") =>
  EitBind(EitBind(s.e, s.k).res, s.h).res = EitBind(s.e, EitKComp(s.k, s.h)).res
LawEitJoin == Is("eitmonad") =>
  /\ EitJoin(EitMap(s.e, s.k).res).res = EitBind(s.e, s.k).res
  /\ EitJoin(Succ(s.e)).res = s.e
  /\ EitJoin(EitMap(s.e, EitRet).res).res = s.e
  /\ \A f \in D : EitJoin(Fail(f)).res = Fail(f)

(* ------------------------------------------------------------------ applicative *)
LawOptApplyIsBindMap == Is("optapp") =>
  OptApply(s.f, <<s.o1, s.o2>>).res =
    OptBind(s.o1, [i \in 1..N |-> OptMap(s.o2, s.f[i]).res]).res
LawOptApplyHomomorphism == Is("optapp") =>
  \A x, y \in D : OptApply(s.f, <<Some(x), Some(y)>>).res = Some(Ap2(s.f, x, y))
LawMaybeMulti == Is("optapp") =>
  \A d \in D : OptMaybeMulti(d, s.f, <<s.o1, s.o2>>).res =
               OptMaybe(OptApply(s.f, <<s.o1, s.o2>>).res, d, Id).res
\* combine: the empty optional is a unit, two values are combined by the function
LawCombine == Is("optapp") =>
  /\ OptCombine(s.o1, None, s.f).res = s.o1
  /\ OptCombine(None, s.o2, s.f).res = s.o2
  /\ (IsSome(s.o1) /\ IsSome(s.o2) =>
        OptCombine(s.o1, s.o2, s.f).res = OptApply(s.f, <<s.o1, s.o2>>).res)
  /\ Len(OptCombine(s.o1, s.o2, s.f).calls) = IF IsSome(s.o1) /\ IsSome(s.o2) THEN 1 ELSE 0
\* alternative = combine with the first projection; identity and absorption
LawAlternative == Is("optapp") =>
  /\ OptAlternative(s.o1, s.o2).res = OptCombine(s.o1, s.o2, [i \in 1..N |-> [j \in 1..N |-> i - 1]]).res
  /\ OptAlternative(None, s.o2).res = s.o2
  /\ OptAlternative(s.o1, None).res = s.o1
  /\ (IsSome(s.o1) => OptAlternative(s.o1, s.o2) = Pure(s.o1))
  /\ \A b \in BOOLEAN, x \in D : OptMakeIf(b, x).res = IF b THEN Some(x) ELSE None

LawEitApplyIsBindMap == Is("eitapp") =>
  /\ EitApply(s.f, <<s.e1, s.e2>>).res =
       EitBind(s.e1, [i \in 1..N |-> EitMap(s.e2, s.f[i]).res]).res
  /\ Len(EitApply(s.f, <<s.e1, s.e2>>).calls) = IF IsSucc(s.e1) /\ IsSucc(s.e2) THEN 1 ELSE 0

(* ------------------------------------------------------------------ sequences *)
RECURSIVE OptSeqRef(_), EitSeqRef(_)
\* sequence as the fold  bind head (\v. map (cons v) (sequence tail))
OptSeqRef(xs) ==
  IF xs = <<>> THEN Some(<<>>)
  ELSE LET h == Head(xs)
           r == OptSeqRef(Tail(xs))
       IN IF IsSome(h) /\ IsSome(r) THEN Some(<<h.v>> \o r.v) ELSE None
EitSeqRef(xs) ==
  IF xs = <<>> THEN Succ(<<>>)
  ELSE LET h == Head(xs)
           r == EitSeqRef(Tail(xs))
       IN IF IsFail(h) THEN h ELSE IF IsFail(r) THEN r ELSE Succ(<<h.v>> \o r.v)

LawSequenceTraverse == Is("seq") =>
  /\ s.kind = "opt" => OptSequence(s.xs).res = OptSeqRef(s.xs)
  /\ s.kind = "eit" => EitSequence(s.xs).res = EitSeqRef(s.xs)

LawSequenceShortCircuit == Is("seq") =>
  /\ s.kind = "opt" => (OptSequence(s.xs).res = None <=> \E i \in DOMAIN s.xs : s.xs[i] = None)
  /\ s.kind = "eit" =>
       \A i \in DOMAIN s.xs :
          (IsFail(s.xs[i]) /\ \A j \in 1..(i - 1) : IsSucc(s.xs[j])) => EitSequence(s.xs).res = s.xs[i]

LawCat == Is("seq") /\ s.kind = "opt" =>
  LET c == OptCat(s.xs).res
      somes == {i \in DOMAIN s.xs : IsSome(s.xs[i])}
  IN /\ Len(c) = Cardinality(somes)
     /\ (IsSome(OptSequence(s.xs).res) => OptSequence(s.xs).res.v = c)
     /\ \A i \in somes : c[Cardinality({j \in somes : j <= i})] = s.xs[i].v

LawFirstSuccess == Is("seq") /\ s.kind = "eit" =>
  LET r == EitFirstSuccess(s.xs) IN
  /\ \A i \in DOMAIN s.xs :
       (IsSucc(s.xs[i]) /\ \A j \in 1..(i - 1) : IsFail(s.xs[j]))
         => r.res = Succ(s.xs[i].v) /\ Len(r.calls) = i
  /\ (\A i \in DOMAIN s.xs : IsFail(s.xs[i])) => r.res = Fail(Vals(s.xs)) /\ Len(r.calls) = Len(s.xs)
  /\ \A j \in DOMAIN r.calls : r.calls[j] = Call("g", j, <<>>)

LawLoop == Is("seq") /\ s.kind = "eit" /\ EitLoopPre(s.xs) =>
  LET r == EitLoop(s.xs)
      k == Min({j \in DOMAIN s.xs : IsFail(s.xs[j])})
      ls == ProjSeq(Call("l", 0, <<>>), r.calls)
  IN /\ r.res = s.xs[k].v
     /\ Len(ProjSeq(Call("n", 0, <<>>), r.calls)) = k
     /\ Len(ls) = k - 1
     /\ \A j \in 1..(k - 1) : ls[j].args = <<s.xs[j].v>>

(* ------------------------------------------------------------------ invocation counts *)
OnceIf(c, calls, fn, i, args) ==
  IF c THEN calls = <<Call(fn, i, args)>> ELSE \A j \in DOMAIN calls : calls[j].fn # fn

\* a continuation receiving the held value is invoked exactly once when the value is present
LawExactlyOnce == Is("once") =>
  LET o == s.o
      e == s.e
      ov == <<ValOf(o)>>
      ev == <<e.v>>
  IN /\ OnceIf(IsSome(o), OptMaybe(o, 0, s.f).calls, "f", 0, ov)
     /\ OnceIf(IsSome(o), OptMaybeVoid(o).calls, "f", 0, ov)
     /\ OnceIf(IsSome(o), OptMap(o, s.f).calls, "f", 0, ov)
     /\ OnceIf(IsSome(o), OptBind(o, OptRet).calls, "f", 0, ov)
     /\ OnceIf(IsSome(o), OptFilter(o, s.p).calls, "p", 0, ov)
     /\ OnceIf(IsSome(o), OptApply(s.f, <<o>>).calls, "f", 0, ov)
     /\ OnceIf(IsSucc(e), EitMap(e, s.f).calls, "f", 0, ev)
     /\ OnceIf(IsSucc(e), EitBind(e, EitRet).calls, "f", 0, ev)
     /\ OnceIf(IsFail(e), EitMapFailure(e, s.f).calls, "f", 0, ev)
     /\ OnceIf(IsSucc(e), EitMatch(e, s.f, s.f).calls, "sf", 0, ev)
     /\ OnceIf(IsFail(e), EitMatch(e, s.f, s.f).calls, "ff", 0, ev)
     /\ Len(EitMatch(e, s.f, s.f).calls) = 1
     /\ Len(VarMatch(s.v, <<s.f, s.f, s.f>>).calls) = 1
     /\ Len(VarApply(<<s.f, s.f, s.f>>, <<s.v>>).calls) = 1

\* nothing is invoked with a value that is not there; the default is invoked only then
LawNeverForAbsent == Is("once") =>
  LET o == s.o IN
  /\ ~IsSome(o) =>
       /\ OptMap(o, s.f).calls = <<>> /\ OptBind(o, OptRet).calls = <<>>
       /\ OptFilter(o, s.p).calls = <<>> /\ OptApply(s.f, <<o>>).calls = <<>>
       /\ OptMaybeVoid(o).calls = <<>>
       /\ OptMaybe(o, 0, s.f).calls = <<Call("d", 0, <<>>)>>
       /\ OptFrom(o, 0).calls = <<Call("d", 0, <<>>)>>
       /\ OptAlternative(o, None).calls = <<Call("g", 0, <<>>)>>
       /\ EitFromOptional(o, 0).calls = <<Call("ff", 0, <<>>)>>
  /\ IsSome(o) =>
       /\ OptFrom(o, 0).calls = <<>> /\ OptAlternative(o, None).calls = <<>>
       /\ EitFromOptional(o, 0).calls = <<>>
  /\ IsFail(s.e) => EitMap(s.e, s.f).calls = <<>> /\ EitBind(s.e, EitRet).calls = <<>>
  /\ IsSucc(s.e) => EitMapFailure(s.e, s.f).calls = <<>>
  /\ OptMakeIf(FALSE, 0).calls = <<>> /\ Len(OptMakeIf(TRUE, 0).calls) = 1
  /\ \A x \in D : /\ EitTryCall([t |-> "ret", v |-> x], s.f) = R(Succ(x), <<Call("g", 0, <<>>)>>)
                  /\ EitTryCall([t |-> "throw", v |-> x], s.f) =
                       R(Fail(Ap1(s.f, x)), <<Call("g", 0, <<>>), Call("te", 0, <<x>>)>>)

\* maybe / from / match select the branch of the held alternative
LawBranchSelected == Is("once") =>
  LET fs == <<s.f, Id, Comp(s.f, s.f)>> IN
  /\ VarMatch(s.v, fs) = R(Ap1(fs[s.v.t], s.v.v), <<Call("f", s.v.t, <<s.v.v>>)>>)
  /\ VarApply(fs, <<s.v>>).res = VarMatch(s.v, fs).res
  /\ \A i \in 1..3 : (IsSome(VarToOptional(i, s.v).res) <=> VarHoldsType(i, s.v).res)
  /\ Cardinality({i \in 1..3 : VarHoldsType(i, s.v).res}) = 1
  /\ \A i \in 1..3 : VarToOptional(i, s.v).res \in {None, Some(s.v.v)}

LawFilterIsBind == Is("once") =>
  OptFilter(s.o, s.p).res = OptBind(s.o, [i \in 1..N |-> IF s.p[i] THEN Some(i - 1) ELSE None]).res

(* ------------------------------------------------------------------ comparisons *)
StrictTotal(lt(_, _), a, b, c) ==
  /\ ~lt(a, a)
  /\ (lt(a, b) /\ lt(b, c) => lt(a, c))
  /\ Cardinality({k \in 1..3 : <<lt(a, b), a = b, lt(b, a)>>[k]}) = 1
OLt(a, b) == OptLess(a, b).res
VLt(a, b) == VarLess(a, b).res
LawOptOrder == Is("order") =>
  /\ StrictTotal(OLt, s.x, s.y, s.z)
  /\ OptEq(s.x, s.y).res = ~OptNe(s.x, s.y).res
  /\ OptEq(s.x, s.y).res = (~OLt(s.x, s.y) /\ ~OLt(s.y, s.x))
  /\ OLt(None, Some(0))
LawVarOrder == Is("order") =>
  /\ StrictTotal(VLt, s.a, s.b, s.c)
  /\ VarEq(s.a, s.b).res = ~VarNe(s.a, s.b).res
  /\ VarEq(s.a, s.b).res = (~VLt(s.a, s.b) /\ ~VLt(s.b, s.a))
LawVarCompare == Is("order") =>
  LET eq == [t \in 1..3 |-> [i \in 1..N |-> [j \in 1..N |-> i = j]]] IN
  /\ VarCompare(s.a, s.b, eq).res = VarEq(s.a, s.b).res
  /\ Len(VarCompare(s.a, s.b, eq).calls) = IF s.a.t = s.b.t THEN 1 ELSE 0


(* ================================================================== extension round *)
\* chain = iterated bind, with the calls of the binds in order
LawOptChain == Is("optmonad") =>
  LET b1 == OptBind(s.o, s.k)
      b2 == OptBind(b1.res, s.h)
      c == OptChain(s.o, <<s.k, s.h>>)
  IN /\ c.res = b2.res
     /\ c.calls = ReIndex(b1.calls, 1) \o ReIndex(b2.calls, 2)
     /\ OptChain(s.o, <<>>) = Pure(s.o)
     /\ OptChain(s.o, <<s.k>>).res = b1.res
     /\ OptDo(s.o, <<s.k>>).res = b1.res
     /\ \A x \in D : OptChain(MonadReturnOpt(x).res, <<s.k>>).res = Ap1(s.k, x)
     \* a do-block whose second lambda ignores the first value is a chain
     /\ OptDo(s.o, <<s.k, [i \in 1..N |-> s.h]>>).res = c.res
LawEitChain == Is("eitmonad") =>
  LET b1 == EitBind(s.e, s.k)
      b2 == EitBind(b1.res, s.h)
      c == EitChain(s.e, <<s.k, s.h>>)
  IN /\ c.res = b2.res
     /\ c.calls = ReIndex(b1.calls, 1) \o ReIndex(b2.calls, 2)
     /\ EitChain(s.e, <<>>) = Pure(s.e)
     /\ EitDo(s.e, <<s.k>>).res = b1.res
     /\ \A x \in D : EitChain(MonadReturnEit(x).res, <<s.k>>).res = Ap1(s.k, x)
     /\ EitDo(s.e, <<s.k, [i \in 1..N |-> s.h]>>).res = c.res

\* do-notation = nested binds in which the later lambdas see the earlier values (N = 2 in the cfg)
LawDo == Is("do") =>
  LET d == OptDo(s.o, <<s.l1, s.l2>>)
      inner(v1) == OptBind(Ap1(s.l1, v1), s.l2[v1 + 1])
  IN /\ d.res = OptBind(s.o, [i \in 1..N |-> inner(i - 1).res]).res
     /\ (IsSome(s.o) /\ IsSome(Ap1(s.l1, s.o.v)) =>
           d.calls = <<Call("f", 1, <<s.o.v>>), Call("f", 2, <<s.o.v, Ap1(s.l1, s.o.v).v>>)>>)
     /\ (IsSome(s.o) /\ ~IsSome(Ap1(s.l1, s.o.v)) => d.calls = <<Call("f", 1, <<s.o.v>>)>>)
     /\ (~IsSome(s.o) => d = Pure(None))
     /\ EitDo(s.e, <<s.m1>>) = R(EitBind(s.e, s.m1).res, ReIndex(EitBind(s.e, s.m1).calls, 1))

\* pointers and references
LawPointerRoundTrip == Is("refs") =>
  /\ OptToPointer(OptFromPointer(s.p).res).res = s.p
  /\ OptFromPointer(OptToPointer(s.o).res).res = s.o
  /\ (OptFromPointer(s.p).res = None <=> s.p = 0)
LawCopyValue == Is("refs") =>
  /\ OptCopyValue(s.store, s.o).res = (IF IsSome(s.o) THEN Some(s.store[s.o.v.ref]) ELSE None)
  /\ (s.p # 0 => OptCopyValue(s.store, OptDeref(Some(s.p)).res).res = Some(s.store[s.p]))
  /\ OptDeref(None).res = None
  \* writing through a reference is seen by every later copy_value and changes nothing else
  /\ LET st2 == OptRefWrite(s.store, s.o, s.y).res IN
       /\ OptCopyValue(st2, s.o).res = (IF IsSome(s.o) THEN Some(s.y) ELSE None)
       /\ \A i \in 1..N : (~IsSome(s.o) \/ i # s.o.v.ref) => st2[i] = s.store[i]
LawAssign == Is("ext") =>
  /\ OptAssign(s.o, s.x, s.y).res = [ret |-> s.x, opt |-> Some(s.y)]
  /\ OptValueCopyWrite(s.o, s.y).res[1] = s.o
  /\ OptMake(s.x).res = Some(s.x) /\ OptNothing.res = None
  /\ MonadReturnOpt(s.x).res = OptMake(s.x).res /\ MonadReturnEit(s.x).res = EitMakeSuccess(s.x).res
LawToException == Is("ext") =>
  /\ OptToException(s.o, s.y) = (IF IsSome(s.o) THEN Pure(Ret(s.o.v)) ELSE R(Thrown(s.y), <<Call("mk", 0, <<>>)>>))
  /\ OptToException(s.o, s.y).res = OptMaybe(s.o, Thrown(s.y), [i \in 1..N |-> Ret(i - 1)]).res
  /\ EitToException(s.e, s.f).res = (IF IsSucc(s.e) THEN Ret(s.e.v) ELSE Thrown(Ap1(s.f, s.e.v)))
  /\ Len(EitToException(s.e, s.f).calls) = (IF IsFail(s.e) THEN 1 ELSE 0)
\* N / "J x": distinct optionals print differently, nesting composes
LawOutput == Is("ext") =>
  /\ \A o2 \in OD : (ShowOpt(o2) = ShowOpt(s.o)) <=> (o2 = s.o)
  /\ (IsSome(s.o) => OptOutput(s.o).res = <<74, 32, 48 + s.o.v>>) /\ OptOutput(None).res = <<78>>
  /\ (IsSome(s.oo) => OptOptOutput(s.oo).res = <<74, 32>> \o OptOutput(s.oo.v).res)
  /\ EitOutput(s.e).res = <<48 + s.e.v>>
LawConstruct == Is("ext") =>
  /\ EitConstruct(s.b, s.x, s.y) = (IF s.b THEN R(Succ(s.x), <<Call("s", 0, <<>>)>>) ELSE R(Fail(s.y), <<Call("f", 0, <<>>)>>))
  /\ EitFailureOpt(EitErrorFromOptional(s.o).res).res = s.o
  /\ (IsSucc(EitErrorFromOptional(s.o).res) <=> ~IsSome(s.o))
  /\ EitSuccessOpt(EitMakeSuccess(s.x).res).res = Some(s.x)
  /\ EitFailureOpt(EitMakeFailure(s.x).res).res = Some(s.x)
  /\ EitMakeSuccess(s.x).res = EitConstruct(TRUE, s.x, s.y).res
  /\ EitMakeFailure(s.y).res = EitConstruct(FALSE, s.x, s.y).res
\* sequence_error = sequence of the mapped container without the result container; stops at the
\* first failure
LawSequenceError == Is("seqerr") =>
  LET r == EitSequenceError(s.xs, s.f)
      mapped == [i \in DOMAIN s.xs |-> Ap1(s.f, s.xs[i])]
      sq == EitSequence(mapped).res
  IN /\ (IsFail(sq) => r.res = sq) /\ (IsSucc(sq) => r.res = Succ(0))
     /\ \A i \in DOMAIN s.xs :
          (IsFail(mapped[i]) /\ \A j \in 1..(i - 1) : IsSucc(mapped[j])) => Len(r.calls) = i
     /\ ((\A i \in DOMAIN s.xs : IsSucc(mapped[i])) => Len(r.calls) = Len(s.xs))
     /\ \A j \in DOMAIN r.calls : r.calls[j] = Call("f", 0, <<s.xs[j]>>)
\* four alternatives: assignment, access, dynamic casts
LawVariantAssign == Is("variant4") =>
  /\ VarAssign(s.v, s.w).res = s.w /\ VarAssignSrc(s.v, s.w).res = s.w.t
  /\ VarHoldsType(s.w.t, VarAssign(s.v, s.w).res).res
  /\ Cardinality({i \in 1..4 : VarHoldsType(i, s.v).res}) = 1
  /\ (IsSome(VarToOptional(s.i, s.v).res) <=> s.v.t = s.i)
  /\ VarRefWrite(s.i, s.v, s.y).res = (IF s.v.t = s.i THEN Var(s.i, s.y) ELSE s.v)
  /\ VarToOptional(s.i, VarRefWrite(s.i, s.v, s.y).res).res = (IF s.v.t = s.i THEN Some(s.y) ELSE None)
  /\ VarMatch(s.v, <<Id, Id, Id, Id>>).calls = <<Call("f", s.v.t, <<s.v.v>>)>>
  /\ VarOutput(s.v).res = <<48 + s.v.v>>
\* round 3: the accessors agree with the other views of the tagged union (four alternatives), compare
\* with the equality table is ==, != is its negation
LawVarAccessors == Is("variant4") =>
  LET ix == VarIndex(s.v).res
      eq4 == [t \in 1..4 |-> [i \in 1..N |-> [j \in 1..N |-> i = j]]]
  IN /\ ix.idx \in 1..4 /\ ~ix.invalid
     /\ VarHoldsType(ix.idx, s.v).res
     /\ VarToOptional(ix.idx, s.v).res = Some(VarGet(s.v).res)
     /\ (VarIndex(s.v).res.idx = VarIndex(s.w).res.idx /\ VarGet(s.v).res = VarGet(s.w).res) <=> VarEq(s.v, s.w).res
     /\ VarIndex(VarAssign(s.v, s.w).res).res.idx = s.w.t
     /\ VarCompare(s.v, s.w, eq4).res = VarEq(s.v, s.w).res
     /\ Len(VarCompare(s.v, s.w, eq4).calls) = (IF s.v.t = s.w.t THEN 1 ELSE 0)
     /\ VarNe(s.v, s.w).res = ~VarEq(s.v, s.w).res
     /\ (VarLess(s.v, s.w).res => VarIndex(s.v).res.idx <= VarIndex(s.w).res.idx)
LawDynamicCast == Is("variant4") =>
  LET r == VarDynamicCast(s.types, s.castable).res IN
  /\ (r = None <=> \A i \in DOMAIN s.types : s.types[i] \notin s.castable)
  /\ (IsSome(r) => /\ s.types[r.v.t] \in s.castable
                   /\ \A j \in 1..(r.v.t - 1) : s.types[j] \notin s.castable)

TypeOK == s \in Cases
=============================================================================
