SPECIFICATION Spec
CONSTANTS
  SR = 2
  SL = 4
  MaxResets = 2
  MaxCopies = 1
  Bug = "draw_drops_cache"
INVARIANTS LawTransparentH
CHECK_DEADLOCK FALSE
