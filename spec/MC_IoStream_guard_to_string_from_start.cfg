SPECIFICATION Spec
CONSTANTS
  MaxLen = 3
  MaxOps = 3
  Bug = "to_string_from_start"
INVARIANTS LawToStringComplete
CHECK_DEADLOCK FALSE
