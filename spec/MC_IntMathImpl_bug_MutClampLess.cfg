SPECIFICATION Spec
CONSTANTS
  BitsTable <- ScaledBits
  MCTypes = {"i8", "u8", "i16", "u16", "i32", "u32", "i64", "u64"}
  FromIntNarrowBug = FALSE
  Log2ShiftBug = FALSE
  CeilDivSignedBug = FALSE
  DiffPromoBug = FALSE
  TCToSignedBug = FALSE
  MutTCLessEq = FALSE
  MutCeilDivAdd = FALSE
  MutClampLess = TRUE
  IntervalTouchBug = FALSE
  MutConvZeroExtend = FALSE
INVARIANTS ImplEqualsDefinition NoUB
CHECK_DEADLOCK FALSE
