SPECIFICATION RSpec
CONSTANTS
  NL = 1
  NE = 3
  AbsBug = "none"
  BugAssignEmpty = FALSE
  BugMoveUnlinked = TRUE
  BugDtorOneSided = FALSE
  BugMoveNoReset = FALSE
  BugListMoveCtor = FALSE
  WithIter = FALSE
VIEW RView
INVARIANTS WalkAgree
CHECK_DEADLOCK FALSE
