SPECIFICATION ItSpec
CONSTANTS
  NS = 1
  Val = {0}
  MaxNodes = 6
  PushFirstBug = TRUE
  ParentSkipBug = FALSE
INVARIANTS PreOrderVisits
CHECK_DEADLOCK FALSE
