SPECIFICATION Spec
CONSTANTS
  Mode = "dec"
  Step = 257
  DecRange = 40000
  U8 <- Utf8
  WR <- Write
  TD <- ToDec
  NT <- NumText
  NTL <- NumTextLoc
  CV <- Convert
  RV <- ReadVec
INVARIANTS LawDecRoundTrip LawDecBigAgrees LawDecBigRoundTrip LawDecLocRoundTrip LawDecLocShape
CHECK_DEADLOCK FALSE
