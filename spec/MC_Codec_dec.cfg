SPECIFICATION Spec
CONSTANTS
  Mode = "dec"
  Step = 257
  DecRange = 40000
  U8 <- Utf8
  WR <- Write
  TD <- ToDec
  NT <- NumText
INVARIANTS LawDecRoundTrip LawDecBigAgrees LawDecBigRoundTrip
CHECK_DEADLOCK FALSE
