------------------------------- MODULE Codec -------------------------------
(* C15 - reference codecs (the oracle of checks/c15.py).

   Conventions.  TLC integers are 32-bit, therefore
     * a fixed-width arithmetic value is identified with its base-256 digits, most significant
       first, of its (two's complement / IEEE) bit pattern:  a sequence  d  with Len(d) = sizeof;
     * an integer of arbitrary width that appears in TEXT is a record  [s |-> 0|1, m |-> digits]
       sign (1 = negative) and magnitude as base-256 digits, most significant first, without
       leading zeros (<<>> = 0, and then s = 0);
     * texts and byte strings are sequences of code points / bytes.

   What is modelled (and from where):
     byte order     endianness.doxygen: big = most significant byte first, little = least
                    significant first; io::write writes sizeof(T) bytes in the requested order,
                    io::read reads them back and fails (empty optional) on a short stream;
                    endianness::swap reverses the bytes.
     UTF-8          RFC 3629 for the Unicode scalar values (the property quantifies over
                    U+0001..U+10FFFF without surrogates in a UTF-8 locale).
     decimal        classic-locale operator<< / operator>> of integers: optional '-', digits
                    without leading zeros ("0" for zero).
     enum names     to_string = the name table of the enum, from_string = its inverse (enum.doxygen);
                    the tables are those of the fixture enums of harness/c15_codec.cpp.
     vector/dim     "(a_1,a_2,...)"  (math/vector/output.hpp, math/dim/output.hpp).            *)
EXTENDS Integers, Sequences

Rev(s) == [i \in 1..Len(s) |-> s[Len(s) + 1 - i]]

IsByteSeq(s) == \A i \in 1..Len(s) : s[i] \in 0..255

RECURSIVE Strip(_)
Strip(s) == IF s # <<>> /\ s[1] = 0 THEN Strip(Tail(s)) ELSE s

(* ------------------------------------------------------------------ byte order *)
Pow256(k) == CASE k = 0 -> 1 [] k = 1 -> 256 [] k = 2 -> 65536 [] k = 3 -> 16777216

\* digits of 0 <= v < 256^n (n <= 4, v < 2^31), most significant first
Bytes(v, n) == [i \in 1..n |-> (v \div Pow256(n - i)) % 256]

RECURSIVE Num(_)
\* value of a digit sequence (only used where it is < 2^31)
Num(d) == IF d = <<>> THEN 0 ELSE Num(SubSeq(d, 1, Len(d) - 1)) * 256 + d[Len(d)]

Endians == {"big", "little"}

\* the bytes io::write puts on the stream for the value with digits d
Write(d, endian) == IF endian = "big" THEN d ELSE Rev(d)
\* the value (digits) io::read takes from exactly sizeof bytes
Read(bs, endian) == IF endian = "big" THEN bs ELSE Rev(bs)
Swap(d) == Rev(d)

\* endianness/convert.hpp: "If _format does not match std::endian::native, then _value will have
\* its endianness converted, otherwise it will be returned as-is."
Convert(d, format, native) == IF format = native THEN d ELSE Swap(d)
\* the bytes of a value in the memory of a machine with byte order `native`
MemoryBytes(d, native) == IF native = "big" THEN d ELSE Rev(d)

WriteInt(v, n, endian) == Write(Bytes(v, n), endian)
ReadInt(bs, endian) == Num(Read(bs, endian))

(* ------------------------------------------------------------------ UTF-8 *)
IsScalar(cp) == cp \in 1..1114111 /\ cp \notin 55296..57343

Utf8Len(cp) == IF cp < 128 THEN 1 ELSE IF cp < 2048 THEN 2 ELSE IF cp < 65536 THEN 3 ELSE 4

Utf8(cp) ==
  IF cp < 128 THEN <<cp>>
  ELSE IF cp < 2048 THEN <<192 + (cp \div 64), 128 + (cp % 64)>>
  ELSE IF cp < 65536 THEN <<224 + (cp \div 4096), 128 + ((cp \div 64) % 64), 128 + (cp % 64)>>
  ELSE <<240 + (cp \div 262144), 128 + ((cp \div 4096) % 64), 128 + ((cp \div 64) % 64), 128 + (cp % 64)>>

RECURSIVE Utf8Str(_)
Utf8Str(w) == IF w = <<>> THEN <<>> ELSE Utf8(w[1]) \o Utf8Str(Tail(w))

IsCont(b) == b \in 128..191

\* decoding status: 0 = a character, 1 = the input ends inside a character, 2 = invalid
DOk == 0
DIncomplete == 1
DInvalid == 2

LeadLen(b) == IF b < 128 THEN 1 ELSE IF b \in 194..223 THEN 2 ELSE IF b \in 224..239 THEN 3
              ELSE IF b \in 240..244 THEN 4 ELSE 0

\* decode the character starting at position i (1 <= i <= Len(bs))
DecodeAt(bs, i) ==
  LET b == bs[i]
      n == LeadLen(b)
      avail == Len(bs) - i + 1
  IN IF n = 0 THEN [st |-> DInvalid, cp |-> 0, len |-> 0]
     ELSE IF avail < n
       THEN IF \A k \in 1..(avail - 1) : IsCont(bs[i + k])
            THEN [st |-> DIncomplete, cp |-> 0, len |-> avail]
            ELSE [st |-> DInvalid, cp |-> 0, len |-> 0]
     ELSE IF \E k \in 1..(n - 1) : ~IsCont(bs[i + k]) THEN [st |-> DInvalid, cp |-> 0, len |-> 0]
     ELSE LET cp == CASE n = 1 -> b
                      [] n = 2 -> (b - 192) * 64 + (bs[i + 1] - 128)
                      [] n = 3 -> (b - 224) * 4096 + (bs[i + 1] - 128) * 64 + (bs[i + 2] - 128)
                      [] n = 4 -> (b - 240) * 262144 + (bs[i + 1] - 128) * 4096
                                  + (bs[i + 2] - 128) * 64 + (bs[i + 3] - 128)
          IN \* shortest form, no surrogates, at most U+10FFFF
             IF Utf8Len(cp) # n \/ cp \in 55296..57343 \/ cp > 1114111
             THEN [st |-> DInvalid, cp |-> 0, len |-> 0]
             ELSE [st |-> DOk, cp |-> cp, len |-> n]

RECURSIVE DecodeFrom(_, _, _)
DecodeFrom(bs, i, acc) ==
  IF i > Len(bs) THEN [st |-> DOk, w |-> acc]
  ELSE LET r == DecodeAt(bs, i)
       IN IF r.st = DOk THEN DecodeFrom(bs, i + r.len, Append(acc, r.cp))
          ELSE [st |-> r.st, w |-> acc]

\* [st, w]: st = DOk and w the code points, or the status of the first undecodable character
\* (w = the characters before it)
Utf8DecodeStr(bs) == DecodeFrom(bs, 1, <<>>)

\* a single character
Utf8Decode(bs) == LET r == Utf8DecodeStr(bs) IN IF r.st = DOk /\ Len(r.w) = 1 THEN r.w[1] ELSE -1

IsPrefix(p, s) == Len(p) <= Len(s) /\ SubSeq(s, 1, Len(p)) = p

(* ------------------------------------------------------------------ decimal *)
Minus == 45
Zero == 48
IsDigit(c) == c \in 48..57

RECURSIVE ToDecNat(_)
ToDecNat(n) == IF n < 10 THEN <<Zero + n>> ELSE Append(ToDecNat(n \div 10), Zero + (n % 10))

\* -2^31 < n < 2^31
ToDec(n) == IF n < 0 THEN <<Minus>> \o ToDecNat(-n) ELSE ToDecNat(n)

IsCanonicalDec(s) ==
  LET body == IF s # <<>> /\ s[1] = Minus THEN Tail(s) ELSE s
  IN /\ body # <<>>
     /\ \A i \in 1..Len(body) : IsDigit(body[i])
     /\ (Len(body) > 1 => body[1] # Zero)
     /\ ~(s[1] = Minus /\ body = <<Zero>>)

RECURSIVE FromDecNat(_)
FromDecNat(s) == IF s = <<>> THEN 0 ELSE FromDecNat(SubSeq(s, 1, Len(s) - 1)) * 10 + (s[Len(s)] - Zero)

\* inverse of ToDec on canonical texts whose value fits
FromDec(s) == IF s[1] = Minus THEN -FromDecNat(Tail(s)) ELSE FromDecNat(s)

\* --- arbitrary width: magnitudes as base-256 digits, most significant first, stripped
RECURSIVE DivMod10From(_, _, _, _)
DivMod10From(m, i, r, q) ==
  IF i > Len(m) THEN [q |-> Strip(q), r |-> r]
  ELSE LET cur == r * 256 + m[i] IN DivMod10From(m, i + 1, cur % 10, Append(q, cur \div 10))
DivMod10(m) == DivMod10From(m, 1, 0, <<>>)

RECURSIVE BigToDecNat(_)
BigToDecNat(m) == IF m = <<>> THEN <<>> ELSE LET dm == DivMod10(m) IN Append(BigToDecNat(dm.q), Zero + dm.r)

IsNumRec(x) == /\ x.s \in {0, 1} /\ IsByteSeq(x.m) /\ Strip(x.m) = x.m /\ (x.m = <<>> => x.s = 0)

\* the decimal text of a number record
NumText(x) == (IF x.s = 1 THEN <<Minus>> ELSE <<>>) \o (IF x.m = <<>> THEN <<Zero>> ELSE BigToDecNat(x.m))

RECURSIVE MulAddFrom(_, _, _, _)
\* m * 10 + c, least significant digit first internally
MulAddFrom(m, i, c, acc) ==
  IF i = 0 THEN Strip(IF c > 0 THEN <<c>> \o acc ELSE acc)
  ELSE LET cur == m[i] * 10 + c IN MulAddFrom(m, i - 1, cur \div 256, <<cur % 256>> \o acc)
MulAdd10(m, c) == MulAddFrom(m, Len(m), c, <<>>)

RECURSIVE BigFromDecNat(_, _, _)
BigFromDecNat(s, i, acc) == IF i > Len(s) THEN acc ELSE BigFromDecNat(s, i + 1, MulAdd10(acc, s[i] - Zero))

\* the number record of a canonical decimal text
TextNum(s) ==
  IF s[1] = Minus THEN [s |-> 1, m |-> BigFromDecNat(Tail(s), 1, <<>>)]
  ELSE [s |-> 0, m |-> BigFromDecNat(s, 1, <<>>)]

(* ---- decimal text under a numpunct facet (the *_locale overloads): digits are grouped from the
   right in groups of grp digits separated by sep (grouping "\3" = grp 3; grp = 0: no grouping);
   integers have no decimal point, so a facet that only changes the decimal point changes nothing *)
RECURSIVE GroupDigits(_, _, _)
GroupDigits(ds, sep, grp) ==
  IF grp = 0 \/ Len(ds) <= grp THEN ds
  ELSE GroupDigits(SubSeq(ds, 1, Len(ds) - grp), sep, grp) \o <<sep>> \o SubSeq(ds, Len(ds) - grp + 1, Len(ds))

NumTextLoc(x, p) ==
  (IF x.s = 1 THEN <<Minus>> ELSE <<>>)
  \o GroupDigits(IF x.m = <<>> THEN <<Zero>> ELSE BigToDecNat(x.m), p.sep, p.grp)

\* reading with the same facet: separators are accepted exactly where the grouping puts them
Ungroup(s, p) == IF p.grp = 0 THEN s ELSE SelectSeq(s, LAMBDA c : c # p.sep)
TextNumLoc(s, p) ==
  LET u == Ungroup(s, p)
  IN IF IsCanonicalDec(u) /\ NumTextLoc(TextNum(u), p) = s THEN [ok |-> TRUE, x |-> TextNum(u)]
     ELSE [ok |-> FALSE, x |-> [s |-> 0, m |-> <<>>]]

\* the facets of harness/c15_codec.cpp (sep as a code point)
Puncts ==
  [classic |-> [sep |-> 0, grp |-> 0],
   grouped |-> [sep |-> 39, grp |-> 3],          \* 1'234'567
   decimal_comma |-> [sep |-> 0, grp |-> 0],     \* only the decimal point differs
   german |-> [sep |-> 46, grp |-> 3]]           \* 1.234.567 (decimal point ',')
PunctIds == DOMAIN Puncts

NumOfInt(n) == IF n < 0 THEN [s |-> 1, m |-> Strip(Bytes(-n, 4))] ELSE [s |-> 0, m |-> Strip(Bytes(n, 4))]

\* does the number fit an integer type of `bits` bits (signed: two's complement)?
Fits(x, bits, signed) ==
  LET n == bits \div 8
      m == x.m
  IN IF signed = 0 THEN x.s = 0 /\ Len(m) <= n
     ELSE \/ Len(m) < n
          \/ Len(m) = n /\ m[1] < 128
          \/ Len(m) = n /\ x.s = 1 /\ m[1] = 128 /\ \A i \in 2..n : m[i] = 0

(* ------------------------------------------------------------------ enum names *)
\* fixture enums of harness/c15_codec.cpp (enumerator i has the name at index i+1)
EnumNames ==
  [E1 |-> <<"solo">>,
   E3 |-> <<"red", "green", "blue">>,
   E9 |-> <<"a", "ab", "abc", "B", "b_", "zero0", "x-y", "Ab", "last">>,
   E5u8 |-> <<"north", "east", "south", "west", "up">>]

EnumIds == DOMAIN EnumNames

EnumToString(E, i) == EnumNames[E][i + 1]

\* <<>> = nothing, <<i>> = enumerator i
EnumFromString(E, s) ==
  IF \E k \in 1..Len(EnumNames[E]) : EnumNames[E][k] = s
  THEN <<(CHOOSE k \in 1..Len(EnumNames[E]) : EnumNames[E][k] = s) - 1>>
  ELSE <<>>

\* enum/names.hpp "The names of an enum type": the table, one name per enumerator, in order

(* ------------------------------------------------------------------ io::narrow_string / widen_string
   io/narrow_string_locale.hpp: "Let _string = c_1 ... c_n and d_i = narrow(c_i,0) ... this function
   returns the string d_1, ..., d_n if and only if d_i != 0 for i = 1,...,n".  With the classic
   ctype facet an ASCII character narrows to itself; U+0000 and characters above U+00FF narrow to
   the default 0 (characters in between are implementation specific and not driven).
   io/widen_string.hpp: "Creates a string that outputs each character by widening".            *)
IsAsciiChar(c) == c \in 1..127
NarrowDefinite(w) == \A i \in 1..Len(w) : IsAsciiChar(w[i]) \/ w[i] = 0 \/ w[i] > 255
NarrowString(w) == IF \A i \in 1..Len(w) : IsAsciiChar(w[i]) THEN <<w>> ELSE <<>>
WidenString(s) == s   \* ASCII characters widen to themselves

(* ------------------------------------------------------------------ vector / dim text *)
RECURSIVE JoinNums(_)
JoinNums(xs) == IF Len(xs) = 1 THEN NumText(xs[1]) ELSE NumText(xs[1]) \o <<44>> \o JoinNums(Tail(xs))

\* "(a_1,a_2,...)", at least one component
VecText(xs) == <<40>> \o JoinNums(xs) \o <<41>>

(* ---- reading vectors / dims back with operator>> (math/detail/one_dimensional_input.hpp): every
   token - '(' , each component, ',' and ')' - is read with FORMATTED extraction (io/expect.hpp:
   "Tries to read a value of type Type from _stream", io/extract.hpp: "Uses operator>>"), i.e.
   leading white space is skipped before each of them.  Position p = characters consumed. *)
IsWs(c) == c \in {32, 9, 10, 11, 12, 13}
RECURSIVE WsSkip(_, _)
WsSkip(t, p) == IF p < Len(t) /\ IsWs(t[p + 1]) THEN WsSkip(t, p + 1) ELSE p

\* expect the character c (skip = white space is skipped first)
ReadChar(t, p, c, skip) ==
  LET q == IF skip THEN WsSkip(t, p) ELSE p
  IN IF q < Len(t) /\ t[q + 1] = c THEN [ok |-> TRUE, p |-> q + 1] ELSE [ok |-> FALSE, p |-> q]

RECURSIVE DigitRun(_, _)
DigitRun(t, p) == IF p < Len(t) /\ IsDigit(t[p + 1]) THEN DigitRun(t, p + 1) ELSE p

\* a decimal integer (optional '-', digits) after white space
ReadNum(t, p) ==
  LET q == WsSkip(t, p)
      neg == q < Len(t) /\ t[q + 1] = Minus
      d0 == IF neg THEN q + 1 ELSE q
      d1 == DigitRun(t, d0)
  IN IF d1 = d0 THEN [ok |-> FALSE, p |-> q, x |-> [s |-> 0, m |-> <<>>]]
     ELSE LET m == BigFromDecNat(SubSeq(t, d0 + 1, d1), 1, <<>>)
          IN [ok |-> TRUE, p |-> d1, x |-> [s |-> IF neg /\ m # <<>> THEN 1 ELSE 0, m |-> m]]

RECURSIVE ReadComponents(_, _, _, _, _)
ReadComponents(t, p, n, i, acc) ==
  LET x == ReadNum(t, p) IN
  IF ~x.ok THEN [ok |-> FALSE, p |-> x.p, xs |-> acc]
  ELSE IF i = n THEN [ok |-> TRUE, p |-> x.p, xs |-> Append(acc, x.x)]
  ELSE LET c == ReadChar(t, x.p, 44, TRUE)
       IN IF ~c.ok THEN [ok |-> FALSE, p |-> c.p, xs |-> acc] ELSE ReadComponents(t, c.p, n, i + 1, Append(acc, x.x))

\* one vector / dim with n components, starting at position p
ReadVec(t, p, n) ==
  LET o == ReadChar(t, p, 40, TRUE) IN
  IF ~o.ok THEN [ok |-> FALSE, p |-> o.p, xs |-> <<>>]
  ELSE LET cs == ReadComponents(t, o.p, n, 1, <<>>) IN
       IF ~cs.ok THEN [ok |-> FALSE, p |-> cs.p, xs |-> <<>>]
       ELSE LET c == ReadChar(t, cs.p, 41, TRUE) IN [ok |-> c.ok, p |-> c.p, xs |-> IF c.ok THEN cs.xs ELSE <<>>]

\* a reader that does NOT skip white space before '(' (vacuity guard of LawVecSeq)
ReadVecNoSkip(t, p, n) ==
  LET o == ReadChar(t, p, 40, FALSE) IN
  IF ~o.ok THEN [ok |-> FALSE, p |-> o.p, xs |-> <<>>]
  ELSE LET cs == ReadComponents(t, o.p, n, 1, <<>>) IN
       IF ~cs.ok THEN [ok |-> FALSE, p |-> cs.p, xs |-> <<>>]
       ELSE LET c == ReadChar(t, cs.p, 41, TRUE) IN [ok |-> c.ok, p |-> c.p, xs |-> IF c.ok THEN cs.xs ELSE <<>>]

RECURSIVE ReadSeqFrom(_, _, _, _, _, _)
\* reads vectors with the component counts ns one after the other; once a read has failed the
\* stream is in the fail state and every later read fails.  Result: sequence of [ok, xs]
ReadSeqFrom(RV(_, _, _), t, p, ns, failed, acc) ==
  IF ns = <<>> THEN acc
  ELSE IF failed THEN ReadSeqFrom(RV, t, p, Tail(ns), TRUE, Append(acc, [ok |-> FALSE, ys |-> <<>>]))
  ELSE LET r == RV(t, p, ns[1])
       IN ReadSeqFrom(RV, t, r.p, Tail(ns), ~r.ok, Append(acc, [ok |-> r.ok, ys |-> r.xs]))

RECURSIVE WriteSeq(_, _)
\* separator, value, separator, value, ...
WriteSeq(seps, vecs) == IF vecs = <<>> THEN <<>> ELSE seps[1] \o VecText(vecs[1]) \o WriteSeq(Tail(seps), Tail(vecs))

\* math/matrix/output.hpp: "The format will contain no new-lines and will be of the form:
\* ((a,b,c,...),(d,e,f,...),...,...)" - a sequence of parenthesised sequences
RECURSIVE JoinTexts(_)
JoinTexts(ts) == IF Len(ts) = 1 THEN ts[1] ELSE ts[1] \o <<44>> \o JoinTexts(Tail(ts))
MatText(rows) == <<40>> \o JoinTexts([i \in 1..Len(rows) |-> VecText(rows[i])]) \o <<41>>
Transpose(rows) == [j \in 1..Len(rows[1]) |-> [i \in 1..Len(rows) |-> rows[i][j]]]

\* math/box/output.hpp: "The format will be (position,size)"
BoxText(pos, size) == <<40>> \o VecText(pos) \o <<44>> \o VecText(size) \o <<41>>

=============================================================================
