SPECIFICATION RSpec
CONSTANTS
  NL = 3
  NE = 5
  AbsBug = "none"
  BugAssignEmpty = FALSE
  BugMoveUnlinked = FALSE
  BugDtorOneSided = FALSE
  BugMoveNoReset = FALSE
  BugListMoveCtor = FALSE
  WithIter = FALSE
VIEW RView
INVARIANTS TypeOK RingOK NoDeadRef NoUAF NoStaleHead WalkAgree Refines
CHECK_DEADLOCK FALSE
