------------------------------- MODULE Spiral -------------------------------
(* fcppt::container::grid::spiral_iterator / spiral_range as a state machine,
   transcribed from spiral_iterator_impl.hpp (increment) and
   spiral_range_impl.hpp (begin = (start, dist), end = (start.x - 1,
   start.y - dist); equality compares the current position only):

     if (step == cur_dist) {
       swap(dir.x, dir.y); dir.y = -dir.y;
       if (dir == (-1, 1)) { ++cur_dist; cur = (cur.x, cur.y - 1); }
       step = 0;
     }
     ++step; cur += dir;

   One behaviour per (origin, d): begin(), then ++ until the iterator equals
   end().  `visited` is a history variable.

   Invariants:
     InDisk     a dereferenceable iterator points into the disk of radius d
     NoRevisit  no position is produced twice
     Rings      Manhattan distances never decrease; the machine's cur_dist is
                the distance of the current position
     AtEnd      on reaching end(): visited = every point of the disk, once
   SpiralBug = 1  ++cur_dist on every direction change (planned mutant family)
   SpiralBug = 2  end() one ring too early (start.y - dist + 1)
   SpiralBug = 3  no step outwards when a ring is complete  *)
EXTENDS Ranges

CONSTANTS MaxD, Origins, SpiralBug

VARIABLES o, d, cur, cdist, dir, step, visited
vars == <<o, d, cur, cdist, dir, step, visited>>

EndOf(oo, dd) == <<oo[1] - 1, oo[2] - dd + (IF SpiralBug = 2 THEN 1 ELSE 0)>>
AtEndIt == cur = EndOf(o, d)

Init ==
  /\ o \in Origins
  /\ d \in 0..MaxD
  /\ cur = o
  /\ cdist = 0
  /\ dir = <<-1, -1>>
  /\ step = 0
  /\ visited = <<>>

Step ==
  /\ ~AtEndIt
  /\ visited' = Append(visited, cur)
  /\ LET turn == step = cdist
         dir1 == IF turn THEN <<dir[2], -dir[1]>> ELSE dir      \* swap, then negate y
         ring == turn /\ (dir1 = <<-1, 1>> \/ SpiralBug = 1)
         cur1 == IF turn /\ dir1 = <<-1, 1>> /\ SpiralBug # 3 THEN <<cur[1], cur[2] - 1>> ELSE cur
         step1 == IF turn THEN 0 ELSE step
     IN /\ dir' = dir1
        /\ cdist' = IF ring THEN cdist + 1 ELSE cdist
        /\ step' = step1 + 1
        /\ cur' = <<cur1[1] + dir1[1], cur1[2] + dir1[2]>>
  /\ UNCHANGED <<o, d>>
Done == AtEndIt /\ UNCHANGED vars
Spec == Init /\ [][Step \/ Done]_vars

View == <<o, d, cur, cdist, dir, step, Len(visited)>>
(* with a bug the machine may spiral outwards forever *)
Bounded == Len(visited) <= DiskSize(MaxD) + 8

InDisk == ~AtEndIt => cur \in Disk(o, d)
NoRevisit == ~AtEndIt => cur \notin SeqSet(visited)
Rings ==
  /\ \A i \in 1..(Len(visited) - 1) : Manhattan(visited[i], o) <= Manhattan(visited[i + 1], o)
  /\ (~AtEndIt /\ visited # <<>>) => Manhattan(visited[Len(visited)], o) <= Manhattan(cur, o)
  /\ ~AtEndIt => cdist = Manhattan(cur, o)
AtEnd == AtEndIt => (IsSpiralOf(visited, o, d) /\ Len(visited) = DiskSize(d) /\ Cardinality(Disk(o, d)) = DiskSize(d))

OriginSet == {<<0, 0>>, <<-3, 2>>, <<5, -7>>}
=============================================================================
