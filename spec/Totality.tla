------------------------------- MODULE Totality -------------------------------
(* Property C01: every registered function of the safe API is total.  For every
   registered function this module defines, from the function's mathematical /
   documented contract,

       Outcome_f(args)  \subseteq  {"value", "nothing", "failure",
                                   "exception:<documented type>"}

   the set of outcome classes the documentation allows for these arguments
   ({} would mean "excluded": arguments the documentation declares unsafe; the
   harness does not drive those), and, where it is cheap, the value itself.
   A singleton is the rule; a two-element set is used where the exact class is
   the business of another property's specification (C02 parser semantics, C03
   command lines) and C01 only demands "reported through the result type".

   What this module does NOT decide: absence of undefined behaviour and
   termination.  Those are observed by the harness (ASan/UBSan/_GLIBCXX_ASSERTIONS,
   signal handlers, alarm() watchdog) on the inputs chosen here.

   Records (w = 2) are JSON objects {f, ..., out, exn, v}; out is the recorded
   outcome class, exn the dynamic exception type, v the value as a sequence of
   integers (code points, elements) where one is logged.  The integer helpers
   (w = 0 / 1, the formats of IntMathJudge.tla) are judged through the
   definitions of IntMath.tla / IntMathWide.tla.                                *)
EXTENDS IntMathJudge

\* ------------------------------------------------------------------ integer helpers (rows / wide)
MathDemanded(r, x) ==
  CASE r.f = "ceil_div_signed" -> x = 0 \/ Rep(r.S, CeilQ(r.a, x))
    [] r.f = "div" -> x = 0 \/ Rep(r.D, TruncQ(r.a, x))
    [] r.f = "diff" -> Rep(r.S, Diff(r.a, x))
    [] r.f = "next_power_of_2" -> Rep(r.S, NextPow2(x))
    [] r.f = "log2" -> x # 0
    [] r.f \in {"power_of_2", "shifted_mask"} -> x <= MaxExp /\ Rep(r.S, Pow2(x))
    [] r.f = "interval_distance" -> r.a <= r.b /\ r.c <= x
    [] r.f \in ConvFns -> Rep(r.D, x)
    [] OTHER -> TRUE
OutcomeMathNarrow(r, x) ==
  IF ~MathDemanded(r, x) THEN {"value", "nothing"}     \* exact result not representable: no exception, else free
  ELSE IF NarrowExpectNone(r, x) THEN {"nothing"} ELSE {"value"}
ClassOfCode(v) == IF v = NoneCode THEN "nothing" ELSE IF v = ExcCode THEN "exception" ELSE "value"
OutcomeMathWide(r) ==
  IF ~WideDemanded(r) THEN {"value", "nothing"}
  ELSE IF r.f \in WideOptFns /\ WideExpectNone(r) THEN {"nothing"} ELSE {"value"}
ClassOfWide(r) == IF r.ex = 1 THEN "exception" ELSE IF r.f \in WideBoolFns THEN "value"
                  ELSE IF r.r = <<>> THEN "nothing" ELSE "value"

\* ------------------------------------------------------------------ sequences of code points
IsSpace(c) == c \in {32, 9, 10, 11, 12, 13}
IsDigit(c) == c >= 48 /\ c <= 57
RECURSIVE DropSpaces(_)
DropSpaces(s) == IF s # <<>> /\ IsSpace(Head(s)) THEN DropSpaces(Tail(s)) ELSE s
AllDigits(s) == s # <<>> /\ \A i \in 1..Len(s) : IsDigit(s[i])
RECURSIVE DecimalN(_, _)       \* value of a digit string as a BigNat natural
DecimalN(s, acc) == IF s = <<>> THEN acc ELSE DecimalN(Tail(s), AddN(MulSmallN(acc, 10), NOfInt(Head(s) - 48)))

(* operator>> for integers (std::num_get, classic locale) followed by fcppt's "the string has to be
   consumed completely": optional white space, optional sign, digits, end of string *)
IntToken(s) ==
  LET t == DropSpaces(s)
      sign == IF t # <<>> /\ Head(t) \in {43, 45} THEN Head(t) ELSE 0
      ds == IF sign = 0 THEN t ELSE Tail(t)
  IN [ok |-> AllDigits(ds), neg |-> sign = 45,
      z |-> IF AllDigits(ds) THEN LET m == DecimalN(ds, <<>>) IN
                                   [s |-> IF m = <<>> THEN 0 ELSE IF sign = 45 THEN -1 ELSE 1, m |-> m]
            ELSE Zero]
OutcomeExtractInt(ty, s) ==
  LET t == IntToken(s) IN
  IF ~t.ok THEN {"nothing"}
  ELSE IF ~Signed(ty) /\ t.neg THEN {"value", "nothing"}   \* strtoull-style negation of unsigned: not constrained
  ELSE IF RepZ(ty, t.z) THEN {"value"} ELSE {"nothing"}
(* operator>> for std::string: one white-space delimited word, then the end of the string *)
WordToken(s) == LET t == DropSpaces(s) IN [ok |-> t # <<>> /\ \A i \in 1..Len(t) : ~IsSpace(t[i]), w |-> t]
(* operator>> alone (io::extract, io::expect): optional white space, optional sign, the maximal run of
   digits; what follows is not read *)
RECURSIVE DigitRun(_)
DigitRun(s) == IF s # <<>> /\ IsDigit(Head(s)) THEN <<Head(s)>> \o DigitRun(Tail(s)) ELSE <<>>
IntPrefix(s) ==
  LET t == DropSpaces(s)
      sign == IF t # <<>> /\ Head(t) \in {43, 45} THEN Head(t) ELSE 0
      ds == DigitRun(IF sign = 0 THEN t ELSE Tail(t))
  IN [ok |-> ds # <<>>,
      z |-> IF ds = <<>> THEN Zero
            ELSE LET m == DecimalN(ds, <<>>) IN [s |-> IF m = <<>> THEN 0 ELSE IF sign = 45 THEN -1 ELSE 1, m |-> m]]
OutcomeExtractString(s) == IF WordToken(s).ok THEN {"value"} ELSE {"nothing"}

\* ------------------------------------------------------------------ UTF-8 (narrow / widen under C.utf8)
IsScalar(c) == (c >= 0 /\ c < 55296) \/ (c > 57343 /\ c <= 1114111)
EncodeOne(c) ==
  IF c < 128 THEN <<c>>
  ELSE IF c < 2048 THEN <<192 + (c \div 64), 128 + (c % 64)>>
  ELSE IF c < 65536 THEN <<224 + (c \div 4096), 128 + ((c \div 64) % 64), 128 + (c % 64)>>
  ELSE <<240 + (c \div 262144), 128 + ((c \div 4096) % 64), 128 + ((c \div 64) % 64), 128 + (c % 64)>>
RECURSIVE Utf8Encode(_)
Utf8Encode(cs) == IF cs = <<>> THEN <<>> ELSE EncodeOne(Head(cs)) \o Utf8Encode(Tail(cs))
Cont(b) == b >= 128 /\ b < 192
(* decoding: <<TRUE, code points>> or <<FALSE, <<>>>> for truncated / invalid / overlong / surrogate input *)
RECURSIVE Utf8Decode(_, _)
Utf8Decode(bs, acc) ==
  IF bs = <<>> THEN <<TRUE, acc>>
  ELSE LET b == Head(bs)
           n == IF b < 128 THEN 1 ELSE IF b >= 194 /\ b < 224 THEN 2 ELSE IF b >= 224 /\ b < 240 THEN 3
                ELSE IF b >= 240 /\ b < 245 THEN 4 ELSE 0
       IN IF n = 0 \/ Len(bs) < n \/ \E i \in 2..n : ~Cont(bs[i]) THEN <<FALSE, <<>>>>
          ELSE LET c == IF n = 1 THEN b
                        ELSE IF n = 2 THEN (b - 192) * 64 + (bs[2] - 128)
                        ELSE IF n = 3 THEN (b - 224) * 4096 + (bs[2] - 128) * 64 + (bs[3] - 128)
                        ELSE (b - 240) * 262144 + (bs[2] - 128) * 4096 + (bs[3] - 128) * 64 + (bs[4] - 128)
               IN IF ~IsScalar(c) \/ EncodeOne(c) # SubSeq(bs, 1, n) THEN <<FALSE, <<>>>>
                  ELSE Utf8Decode(SubSeq(bs, n + 1, Len(bs)), Append(acc, c))

\* ------------------------------------------------------------------ class lattice of cast::dynamic
(* Base <- D1 <- D11, Base <- D2, M derives from D1 and from the unrelated polymorphic Other *)
DirectBases == [Base |-> {}, D1 |-> {"Base"}, D2 |-> {"Base"}, D11 |-> {"D1"}, Other |-> {}, M |-> {"D1", "Other"}]
RECURSIVE IsA(_, _)
IsA(dyn, target) == dyn = target \/ \E p \in DirectBases[dyn] : IsA(p, target)

\* ------------------------------------------------------------------ paths (lexical)
LastSlash(s) == IF \E i \in 1..Len(s) : s[i] = 47 THEN CHOOSE i \in 1..Len(s) : s[i] = 47 /\ \A j \in (i + 1)..Len(s) : s[j] # 47 ELSE 0
FileName(s) == SubSeq(s, LastSlash(s) + 1, Len(s))

\* ------------------------------------------------------------------ the registry
OneOf(b) == IF b THEN {"value"} ELSE {"nothing"}
Registered == {"at_optional", "maybe_front", "maybe_back", "pop_back", "pop_front", "find_opt", "find_opt_mapped",
               "grid_at_optional", "from_string", "dynamic", "dynamic_cross", "dynamic_any", "from_range",
               "extract_int", "extract_uint", "extract_string", "stream_to_string", "read_chars", "runtime_index",
               "narrow", "widen", "string_id", "file_size", "path_fn", "options_parse", "parse_string",
               \* extension round
               "io_get", "io_peek", "io_extract_int", "io_expect_int", "extract_enum", "enum_array_at", "parse_help",
               "grammar_parse_string", "optional_from", "optional_to_exception", "optional_to_pointer", "optional_copy_value",
               "optional_from_pointer", "optional_deref", "getenv", "args", "gmtime",
               \* round 3
               "parse_stream"}

Outcome(r) ==
  CASE r.f = "at_optional" -> OneOf(r.i < Len(r.xs))
    [] r.f \in {"maybe_front", "maybe_back", "pop_back", "pop_front"} -> OneOf(r.xs # <<>>)
    [] r.f \in {"find_opt", "find_opt_mapped"} -> OneOf(\E i \in 1..Len(r.xs) : r.xs[i] = r.key)
    [] r.f = "grid_at_optional" -> OneOf(\A i \in 1..Len(r.dim) : r.pos[i] < r.dim[i])
    [] r.f = "from_string" -> OneOf(\E i \in 1..Len(r.names) : r.names[i] = r.s)
    [] r.f \in {"dynamic", "dynamic_cross", "dynamic_any"} -> OneOf(IsA(r.dyn, r.target))
    [] r.f = "from_range" -> OneOf(Len(r.xs) = r.n)
    [] r.f = "extract_int" -> OutcomeExtractInt("i32", r.s)
    [] r.f = "extract_uint" -> OutcomeExtractInt("u32", r.s)
    [] r.f = "extract_string" -> OutcomeExtractString(r.s)
    [] r.f = "stream_to_string" -> OneOf(~r.failbit /\ ~r.badbit)
    [] r.f = "read_chars" -> OneOf(~r.failbit /\ ~r.badbit /\ ~r.eofbit /\ r.count <= Len(r.rest))
    [] r.f = "runtime_index" -> OneOf(r.i < r.max)
    [] r.f = "narrow" -> IF \A i \in 1..Len(r.s) : IsScalar(r.s[i]) THEN {"value"}
                         ELSE {"value", "nothing"}      \* surrogates / beyond U+10FFFF: the locale's facet decides
    [] r.f = "widen" -> IF Utf8Decode(r.s, <<>>)[1] THEN {"value"} ELSE {"exception:std::runtime_error"}
    [] r.f = "string_id" -> {"value"}            \* to_std_string / from_std_string in a narrow-string build
    [] r.f = "file_size" -> OneOf(r.kind = "file")
    [] r.f = "path_fn" -> {"value"}
    [] r.f = "options_parse" -> {"value", "failure"}
    \* ---- extension round (the sentence of the documentation that is used is quoted)
    (* io::get / peek: "Reads [Peeks at] a character from _stream. Returns an empty optional for end-of-file."
       Nothing is said about a stream that is not good: not constrained then. *)
    [] r.f \in {"io_get", "io_peek"} -> IF r.eofbit \/ r.failbit \/ r.badbit THEN {"value", "nothing"} ELSE OneOf(r.rest # <<>>)
    (* io::extract: "Uses operator>> to extract a value ... If extracting the value fails, an empty optional is returned." *)
    [] r.f = "io_extract_int" -> LET t == IntPrefix(r.s) IN OneOf(t.ok /\ RepZ("i32", t.z))
    (* io::expect returns the stream: always a value; the failbit is the value (see ValueOk) *)
    [] r.f = "io_expect_int" -> {"value"}
    (* extract_from_string<Enum> with operator>> = enum_::input: "Uses enum_::from_string to read an enum";
       extract_from_string: "The string has to be consumed completely." *)
    [] r.f = "extract_enum" -> OneOf(WordToken(r.s).ok /\ \E i \in 1..Len(r.names) : r.names[i] = WordToken(r.s).w)
    [] r.f = "enum_array_at" -> {"value"}
    (* options::parse_help: "If its switch and nothing else is specified, the usage string is gathered from _parser
       and returned.  Otherwise, if the switch of _help was not specified, then the result of applying _parser to
       _args is returned."  (plain = the recorded outcome class of options::parse on the same arguments) *)
    [] r.f = "parse_help" -> IF r.argv = <<r.help>> THEN {"help"}
                             ELSE IF \A i \in 1..Len(r.argv) : r.argv[i] # r.help THEN {r.plain}
                             ELSE {"help", "value", "failure"}
    [] r.f = "grammar_parse_string" -> {"value", "failure"}
    (* optional::from: "If _optional is set to x, then x is returned. Otherwise, the result of _default is returned." *)
    [] r.f = "optional_from" -> {"value"}
    (* optional::to_exception: "Otherwise, the result of _make_exception is thrown as an exception." *)
    [] r.f = "optional_to_exception" -> IF r.has THEN {"value"} ELSE {"exception:" \o r.exc}
    (* optional::to_pointer: "If _optional is empty, returns nullptr. Otherwise, returns the address of the referenced object" *)
    [] r.f = "optional_to_pointer" -> {"value"}
    (* copy_value / from_pointer ("If _pointer is the null pointer, the result will be empty") / deref *)
    [] r.f \in {"optional_copy_value", "optional_from_pointer", "optional_deref"} -> OneOf(r.has)
    (* fcppt::getenv: "Gets an optional value from the environment." *)
    [] r.f = "getenv" -> OneOf(r.set)
    (* fcppt::args: "Copy main arguments into a container"; args_from_second: "... starting from the second" *)
    [] r.f = "args" -> {"value"}
    (* time::gmtime: "\throw std::runtime_error on failure."  A time stamp within +-2^31 seconds of the epoch (years
       1901..2038) has a representable broken-down time, so the call has to return it (statement of C01: "returns
       normally for every argument value whose mathematically exact result is representable"); the documented
       exception is only accepted outside that range. *)
    [] r.f = "gmtime" -> IF r.t >= -2147483647 /\ r.t <= 2147483647 THEN {"value"} ELSE {"value", "exception:std::runtime_error"}
    (* parse::phrase_parse(_stream): "This function also catches all exceptions produced by _input and returns them
       as an error."  Whatever the state of the stream (badbit set, a buffer that cannot tell / seek): a value or an
       either failure, never an exception.  Which of the two is C02's business. *)
    [] r.f = "parse_stream" -> {"value", "failure"}
    [] r.f = "parse_string" ->
         IF r.g = "int" /\ r.sk = "none"
         THEN LET neg == r.s # <<>> /\ Head(r.s) = 45
                  ds == IF neg THEN Tail(r.s) ELSE r.s
              IN IF ~AllDigits(ds) THEN {"failure"}
                 ELSE IF RepZ("i32", ZOfN(DecimalN(ds, <<>>))) THEN {"value"}
                 ELSE IF neg /\ DecimalN(ds, <<>>) = Pow2N[31] THEN {"value", "failure"}   \* INT_MIN: digits overflow before negation
                 ELSE {"failure"}
         ELSE IF r.g = "uint" /\ r.sk = "none"
         THEN IF AllDigits(r.s) /\ RepZ("u32", ZOfN(DecimalN(r.s, <<>>))) THEN {"value"} ELSE {"failure"}
         ELSE {"value", "failure"}

(* the recorded outcome class, with the exception type appended as the documentation names it *)
Recorded(r) == IF r.out = "exception" THEN "exception:" \o r.exn ELSE r.out

(* value checks where they are cheap (the value is logged as a sequence of integers) *)
ValueOk(r) ==
  CASE r.f = "at_optional" -> r.v = <<r.xs[r.i + 1]>>
    [] r.f = "maybe_front" -> r.v = <<r.xs[1]>>
    [] r.f = "maybe_back" -> r.v = <<r.xs[Len(r.xs)]>>
    [] r.f = "pop_back" -> r.v = <<r.xs[Len(r.xs)]>> /\ r.after = SubSeq(r.xs, 1, Len(r.xs) - 1)
    [] r.f = "pop_front" -> r.v = <<r.xs[1]>> /\ r.after = Tail(r.xs)
    [] r.f = "find_opt" -> r.v = <<r.key>>
    [] r.f = "find_opt_mapped" -> \E i \in 1..Len(r.xs) : r.xs[i] = r.key /\ r.v = <<r.ms[i]>>
    [] r.f = "grid_at_optional" -> r.v = r.pos               \* every cell stores its own position
    [] r.f = "from_string" -> \E i \in 1..Len(r.names) : r.names[i] = r.s /\ r.v = <<i - 1>>
    [] r.f = "from_range" -> r.v = r.xs
    [] r.f = "extract_int" -> Len(r.v) = 1 /\ r.v[1] = IntToken(r.s).z
    [] r.f = "extract_uint" -> IntToken(r.s).neg \/ (Len(r.v) = 1 /\ r.v[1] = IntToken(r.s).z)
    [] r.f = "extract_string" -> r.v = WordToken(r.s).w
    [] r.f = "stream_to_string" -> r.v = r.rest
    [] r.f = "read_chars" -> r.v = SubSeq(r.rest, 1, r.count)
    [] r.f = "runtime_index" -> r.v = <<r.i>>
    [] r.f = "narrow" -> (\A i \in 1..Len(r.s) : IsScalar(r.s[i])) => r.v = Utf8Encode(r.s)
    [] r.f = "widen" -> r.v = Utf8Decode(r.s, <<>>)[2]
    [] r.f = "string_id" -> r.v = r.s
    [] r.f = "file_size" -> r.v = <<r.size>>
    [] r.f = "path_fn" -> (r.op = "stem_ext" /\ r.plain) => r.v = FileName(r.s)    \* stem ++ extension = file name
    [] r.f = "parse_string" -> (r.g \in {"int", "uint"} /\ r.sk = "none") =>
                                 (Len(r.v) = 1 /\ r.v[1] = IntToken(r.s).z)
    [] r.f \in {"io_get", "io_peek"} -> (~(r.eofbit \/ r.failbit \/ r.badbit)) => r.v = <<r.rest[1]>>
    [] r.f = "io_extract_int" -> Len(r.v) = 1 /\ r.v[1] = IntPrefix(r.s).z
    (* io::expect: "If the value read is unequal to _value, the failbit is set" (and operator>> sets it if nothing is read) *)
    [] r.f = "io_expect_int" -> LET t == IntPrefix(r.s) IN
                                r.v = <<IF t.ok /\ RepZ("i32", t.z) /\ t.z = ZOfInt(r.expected) THEN 0 ELSE 1>>
    [] r.f = "extract_enum" -> \E i \in 1..Len(r.names) : r.names[i] = WordToken(r.s).w /\ r.v = <<i - 1>>
    [] r.f = "enum_array_at" -> r.v = <<10 * r.i>>
    [] r.f = "optional_from" -> r.v = <<IF r.has THEN r.x ELSE r.d>>
    [] r.f = "optional_to_exception" -> r.v = <<r.x>>
    [] r.f = "optional_to_pointer" -> r.v = (IF r.has THEN <<1, 1>> ELSE <<0, 0>>)
    [] r.f \in {"optional_copy_value", "optional_from_pointer", "optional_deref"} -> r.v = <<r.x>>
    [] r.f = "getenv" -> r.v = r.val
    [] r.f = "args" -> r.v = (IF r.second THEN (IF r.argv = <<>> THEN <<>> ELSE Tail(r.argv)) ELSE r.argv)
    (* seconds, minutes, hours and week day of a UTC time stamp (1970-01-01 was a Thursday) *)
    [] r.f = "gmtime" -> r.v = <<r.t % 60, (r.t \div 60) % 60, (r.t \div 3600) % 24, (4 + (r.t \div 86400)) % 7>>
    [] OTHER -> TRUE
=============================================================================
