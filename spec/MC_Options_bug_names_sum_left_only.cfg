SPECIFICATION Spec
CONSTANTS
  MaxLen = 4
  MaxLenCheap = 4
  KindLen = 3
  InitAll = FALSE
  BugNextArgNoSkip = FALSE
  BugUseFlagAll = FALSE
  BugOptionalOrigState = FALSE
  BugNames = "sum_left_only"
  BugErrorState = "none"
  BugMissingIsOther = FALSE
  BugUsage = "none"
VIEW View
INVARIANTS OptionValueNotPositional
CHECK_DEADLOCK FALSE
