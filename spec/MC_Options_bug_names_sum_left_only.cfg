SPECIFICATION Spec
CONSTANTS
  MaxLen = 4
  MaxLenCheap = 4
  InitAll = FALSE
  BugNextArgNoSkip = FALSE
  BugUseFlagAll = FALSE
  BugOptionalOrigState = FALSE
  BugNames = "sum_left_only"
VIEW View
INVARIANTS OptionValueNotPositional
CHECK_DEADLOCK FALSE
