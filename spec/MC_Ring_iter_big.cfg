SPECIFICATION RSpec
CONSTANTS
  NL = 3
  NE = 4
  AbsBug = "none"
  BugAssignEmpty = FALSE
  BugMoveUnlinked = FALSE
  BugDtorOneSided = FALSE
  BugMoveNoReset = FALSE
  BugListMoveCtor = FALSE
  WithIter = TRUE
VIEW RView
INVARIANTS TypeOK RingOK NoDeadRef NoUAF NoStaleHead WalkAgree Refines IterRefines
CHECK_DEADLOCK FALSE
