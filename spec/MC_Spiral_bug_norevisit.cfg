SPECIFICATION Spec
CONSTANTS
  MaxD = 6
  Origins <- OriginSet
  SpiralBug = 3
VIEW View
CONSTRAINT Bounded
INVARIANTS NoRevisit
