SPECIFICATION Spec
CONSTANTS
  N = 2
  Rad = 1
  Bug = 2
  OldDistance = FALSE
CHECK_DEADLOCK FALSE
INVARIANTS ContainsPointLaw
