SPECIFICATION Spec
CONSTANTS
  SR = 2
  SL = 4
  MaxResets = 2
  MaxCopies = 1
  Bug = "reset_keeps_cache"
INVARIANTS LawResetFresh
CHECK_DEADLOCK FALSE
