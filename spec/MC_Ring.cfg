SPECIFICATION RSpec
CONSTANTS
  NL = 2
  NE = 3
  AbsBug = "none"
  BugAssignEmpty = FALSE
  BugMoveUnlinked = FALSE
  BugDtorOneSided = FALSE
  BugMoveNoReset = FALSE
  BugListMoveCtor = FALSE
  WithIter = FALSE
VIEW RView
INVARIANTS TypeOK RingOK NoDeadRef NoUAF NoStaleHead WalkAgree Refines
CONSTRAINT REmit
CHECK_DEADLOCK FALSE
