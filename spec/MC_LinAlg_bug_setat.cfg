SPECIFICATION SpecPairs
CONSTANTS
  PairVals <- Vm1to1
  TripleVals <- V0to1
  TripleValsC <- V0to1
  CubeVals <- V0to1
  CubeVals23 <- V0to1
  SetAt <- SetAtShifted
INVARIANT AccessLaws
CHECK_DEADLOCK FALSE
