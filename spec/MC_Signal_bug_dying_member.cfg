SPECIFICATION SSpec
CONSTANTS
  NL = 2
  NE = 2
  AbsBug = "none"
  SigBug = "dying_still_member"
  NB = 1
VIEW SView
INVARIANTS LawDyingView
CHECK_DEADLOCK FALSE
