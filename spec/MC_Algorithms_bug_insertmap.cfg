SPECIFICATION SpecMap
CONSTANTS
  MaxLen = 4
  SetMax = 3
  InsertMapR <- InsertMapOverwrites
INVARIANT ExtensionMapLaws
