SPECIFICATION SSpec
CONSTANTS
  NL = 2
  NE = 2
  AbsBug = "none"
  SigBug = "none"
  NB = 1
VIEW SView
INVARIANTS TypeOK LawUnregisterOnce LawOwnership LawCalledAreLive LawCallExplained LawDyingView
CONSTRAINT SEmit
CHECK_DEADLOCK FALSE
