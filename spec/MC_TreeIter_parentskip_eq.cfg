SPECIFICATION ItSpec
CONSTANTS
  NS = 1
  Val = {0}
  MaxNodes = 6
  PushFirstBug = FALSE
  ParentSkipBug = TRUE
INVARIANTS REqualIsPosition
CHECK_DEADLOCK FALSE
